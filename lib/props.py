"""Per-property configuration of ./check: one file lib/propcfg/<id>.py defining CFG (see C17.py).

CFG keys: level_text, level_note (MANIFEST), components (list of {component, bin?, args?, session_start?,
trivial_regex?, env?, timeout_quick?, timeout_thorough?, shrink_s?}), rule, translated, trusted_base,
assumptions, exhaustive_quick/exhaustive_thorough, lean_targets (default IceProps.<id>), technique.
"""
import glob
import importlib.util
import os

PROPS = {}
_d = os.path.join(os.path.dirname(os.path.abspath(__file__)), "propcfg")
for _f in sorted(glob.glob(os.path.join(_d, "C*.py"))):
    _spec = importlib.util.spec_from_file_location("propcfg_" + os.path.basename(_f)[:-3], _f)
    _m = importlib.util.module_from_spec(_spec)
    _spec.loader.exec_module(_m)
    PROPS[os.path.basename(_f)[:-3]] = _m.CFG

# properties not claimed, with the reason shown in MANIFEST.not_applicable
NOT_CLAIMED = {}
