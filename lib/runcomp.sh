#!/bin/bash
# debug helper: rebuild harness + driver, run one component, show first mismatch.  usage: runcomp.sh <component> [seed] [tier]
set -e
export PATH=/opt/veriftools/go1.26.8/bin:$PATH GOTOOLCHAIN=local GOFLAGS=-mod=mod GOPROXY=off GOSUMDB=off
V=$(cd "$(dirname "$0")/.." && pwd)
python3 -c "import sys; sys.path.insert(0,'$V/lib'); import vlib; vlib.overlay_file()"
python3 $V/lib/genregistry.py
(cd ${VERIF_REPO:-/repo} && go test -c -tags verif -overlay $V/build/overlay.json -o $V/build/ice.test .)
(cd $V/lean && lake build icemodel 2>&1 | grep -v "^✔\|^ℹ\|Build completed" || true)
cd $V/build
VERIF_COMPONENT=$1 VERIF_OUT=$V/build/$1.ops VERIF_SEED=${2:-1} VERIF_TIER=${3:-quick} ./ice.test -test.run '^TestVerifHarness$' -test.count=1 2>&1 | tail -3
$V/lean/.lake/build/bin/icemodel < $1.ops > $1.res; tail -1 $1.res
python3 $V/lib/firstdiff.py $1.ops $1.res 0 ${4:-30}
