"""Orchestration shared by /verif/check and /verif/setup.

Everything here only *drives* the two deciding mechanisms of DESIGN.md:
  * the Lean kernel (lake build of IceProps.<id>, `#print axioms` audit, leanchecker), and
  * the correspondence between the Lean model (compiled driver `icemodel`) and the implementation
    (in-package Go harness overlaid onto /repo's CURRENT working tree).
"""
import fcntl
import glob
import hashlib
import json
import os
import re
import shutil
import subprocess
import sys
import time

VERIF = os.path.dirname(os.path.dirname(os.path.abspath(__file__)))
REPO = os.environ.get("VERIF_REPO", "/repo")
LEAN = os.path.join(VERIF, "lean")
BUILD = os.path.join(VERIF, "build")
GO_ROOT = "/opt/veriftools/go1.26.8"
ALLOWED_AXIOMS = {"propext", "Classical.choice", "Quot.sound"}
NCPU = os.cpu_count() or 4


def go_env():
    env = dict(os.environ)
    env["PATH"] = GO_ROOT + "/bin:" + env.get("PATH", "")
    env.update(GOTOOLCHAIN="local", GOFLAGS="-mod=mod", GOPROXY="off", GOSUMDB="off", GONOSUMDB="*",
               CGO_ENABLED=env.get("CGO_ENABLED", "1"))
    return env


def sh(cmd, cwd=None, env=None, timeout=None, stdin=None):
    """Run a command; return (rc, combined output)."""
    try:
        p = subprocess.run(cmd, cwd=cwd, env=env, stdout=subprocess.PIPE, stderr=subprocess.STDOUT,
                           timeout=timeout, stdin=stdin, text=True, errors="replace")
        return p.returncode, p.stdout
    except subprocess.TimeoutExpired as e:
        out = e.stdout or ""
        if isinstance(out, bytes):
            out = out.decode("utf-8", "replace")
        return 124, out + "\n[timeout after %ss]" % timeout


class Lock:
    def __enter__(self):
        os.makedirs(BUILD, exist_ok=True)
        self.f = open(os.path.join(BUILD, ".lock"), "w")
        fcntl.flock(self.f, fcntl.LOCK_EX)
        return self

    def __exit__(self, *a):
        fcntl.flock(self.f, fcntl.LOCK_UN)
        self.f.close()


def _hash_files(paths):
    h = hashlib.sha256()
    for p in sorted(paths):
        h.update(p.encode())
        try:
            with open(p, "rb") as f:
                h.update(f.read())
        except OSError:
            h.update(b"<missing>")
    return h.hexdigest()


def repo_hash():
    files = []
    for root, dirs, names in os.walk(REPO):
        dirs[:] = [d for d in dirs if d not in (".git", "examples")]
        for n in names:
            if n.endswith(".go") or n in ("go.mod", "go.sum"):
                files.append(os.path.join(root, n))
    return _hash_files(files)


def harness_hash():
    files = glob.glob(os.path.join(VERIF, "harness", "**", "*.go"), recursive=True)
    files += glob.glob(os.path.join(VERIF, "harness", "**", "*.json"), recursive=True)
    files += glob.glob(os.path.join(VERIF, "harness", "**", "go.mod"), recursive=True)
    return _hash_files(files)


def _stamp_path():
    return os.path.join(BUILD, "stamp.json")


def load_stamp():
    try:
        return json.load(open(_stamp_path()))
    except Exception:
        return {}


def save_stamp(st):
    json.dump(st, open(_stamp_path(), "w"), indent=1)


# ---------------------------------------------------------------------------------------------
# Regeneration from the current source: translator output + harness binaries
# ---------------------------------------------------------------------------------------------

def build_gotolean(log):
    d = os.path.join(VERIF, "harness", "gotolean")
    rc, out = sh(["go", "build", "-o", os.path.join(BUILD, "gotolean"), "."], cwd=d, env=go_env(), timeout=600)
    log.append(("build gotolean", rc, out))
    return rc == 0


def regenerate(log):
    """Delete and regenerate lean/IceGen/T_*.lean from /repo's working tree. Returns dict with
    'ok' and 'failures' (list of untranslatable functions)."""
    gen = os.path.join(LEAN, "IceGen")
    os.makedirs(gen, exist_ok=True)
    for f in glob.glob(os.path.join(gen, "T_*.lean")) + glob.glob(os.path.join(gen, "S_*.lean")) + [os.path.join(gen, "sites.json")]:
        try:
            os.remove(f)
        except OSError:
            pass
    mods = []
    for f in sorted(glob.glob(os.path.join(VERIF, "harness", "gotolean", "spec", "*.json"))):
        mods.extend(json.load(open(f)))
    spec = os.path.join(BUILD, "gotolean-spec.json")
    json.dump(mods, open(spec, "w"))
    rc, out = sh([os.path.join(BUILD, "gotolean"), "-repo", REPO, "-spec", spec, "-out", gen],
                 env=go_env(), timeout=600)
    log.append(("gotolean", rc, out))
    failures = []
    try:
        for s in json.load(open(os.path.join(gen, "sites.json"))):
            if s.get("error"):
                failures.append(s)
    except Exception:
        pass
    # a module that failed entirely still needs a file so that `import` errors are precise
    return {"ok": rc == 0, "rc": rc, "output": out, "failures": failures}


def overlay_file():
    ov = {"Replace": {}}
    for f in glob.glob(os.path.join(VERIF, "harness", "inpkg", "*.go")):
        ov["Replace"][os.path.join(REPO, os.path.basename(f))] = f
    for f in glob.glob(os.path.join(VERIF, "harness", "inpkg_taskloop", "*.go")):
        ov["Replace"][os.path.join(REPO, "internal", "taskloop", os.path.basename(f))] = f
    p = os.path.join(BUILD, "overlay.json")
    json.dump(ov, open(p, "w"), indent=1)
    return p


TESTBINS = {
    "ice": (".", "ice.test"),
    "taskloop": ("./internal/taskloop", "taskloop.test"),
}


def build_testbins(log, race=False):
    ov = overlay_file()
    ok = True
    for name, (pkg, binname) in TESTBINS.items():
        if name == "taskloop" and not glob.glob(os.path.join(VERIF, "harness", "inpkg_taskloop", "*.go")):
            continue
        out_bin = os.path.join(BUILD, binname + (".race" if race else ""))
        try:
            os.remove(out_bin)
        except OSError:
            pass
        cmd = ["go", "test", "-c", "-tags", "verif", "-overlay", ov, "-o", out_bin]
        if race:
            cmd.append("-race")
        cmd.append(pkg)
        rc, out = sh(cmd, cwd=REPO, env=go_env(), timeout=1200)
        log.append(("build %s%s" % (binname, " (race)" if race else ""), rc, out))
        ok = ok and rc == 0
    return ok


def ensure_race_bins(log):
    """Race-detector builds of the harness binaries (<bin>.race), rebuilt when /repo or the harness changed.
    Used by components whose config says "race": True (thorough tier of C10)."""
    st = load_stamp()
    key = {"repo": repo_hash(), "harness": harness_hash()}
    have = all(os.path.exists(os.path.join(BUILD, b + ".race")) for n, (p, b) in TESTBINS.items()
               if n != "taskloop" or glob.glob(os.path.join(VERIF, "harness", "inpkg_taskloop", "*.go")))
    if st.get("race") == key and have:
        return True
    ok = build_testbins(log, race=True)
    st = load_stamp()
    st["race"] = key if ok else None
    save_stamp(st)
    return ok


def race_env(prop, comp):
    """Environment for a race-detector run: reports go to build/race-<prop>-<comp>.<pid> and do not abort."""
    base = os.path.join(BUILD, "race-%s-%s" % (prop, comp))
    for f in glob.glob(base + ".*"):
        try:
            os.remove(f)
        except OSError:
            pass
    return {"GORACE": "log_path=%s halt_on_error=0" % base}


def prepare(log, force=False):
    """Bring generated Lean and harness binaries up to date with /repo's working tree."""
    os.makedirs(BUILD, exist_ok=True)
    sh([sys.executable, os.path.join(VERIF, "lib", "genregistry.py")])
    st = load_stamp()
    rh, hh = repo_hash(), harness_hash()
    info = {"repo_hash": rh, "regenerated": False}
    if force or st.get("repo") != rh or st.get("harness") != hh or not os.path.exists(os.path.join(BUILD, "ice.test")) \
            or not os.path.exists(os.path.join(LEAN, "IceGen", "sites.json")):
        if force or st.get("harness") != hh or not os.path.exists(os.path.join(BUILD, "gotolean")):
            if not build_gotolean(log):
                info["gotolean_build_failed"] = True
        info["gen"] = regenerate(log)
        info["harness_ok"] = build_testbins(log)
        info["regenerated"] = True
        st = {"repo": rh, "harness": hh, "gen": info["gen"], "harness_ok": info["harness_ok"], "race": st.get("race")}
        save_stamp(st)
    else:
        info["gen"] = st.get("gen", {"ok": True, "failures": []})
        info["harness_ok"] = st.get("harness_ok", True)
    return info


# ---------------------------------------------------------------------------------------------
# Lean side
# ---------------------------------------------------------------------------------------------

def lake_build(targets, log, timeout=3000):
    rc, out = sh(["lake", "build"] + targets, cwd=LEAN, timeout=timeout)
    log.append(("lake build " + " ".join(targets), rc, out))
    return rc, out


THEOREM_RE = re.compile(r"^\s*(?:@\[[^\]]*\]\s*)?(?:private\s+|protected\s+)?theorem\s+([A-Za-z_][\w'.]*)", re.M)


def strip_comments(src):
    # remove block comments (nested not handled beyond one level) and line comments
    out = []
    i, depth = 0, 0
    while i < len(src):
        if src.startswith("/-", i):
            depth += 1
            i += 2
            continue
        if depth and src.startswith("-/", i):
            depth -= 1
            i += 2
            continue
        if depth:
            i += 1
            continue
        if src.startswith("--", i):
            j = src.find("\n", i)
            i = len(src) if j < 0 else j
            continue
        out.append(src[i])
        i += 1
    return "".join(out)


def prop_theorems(prop):
    """Obligation list of a property = the theorems declared in IceProps/<prop>.lean."""
    p = os.path.join(LEAN, "IceProps", prop + ".lean")
    src = strip_comments(open(p).read())
    ns = re.findall(r"^namespace\s+(\S+)", src, re.M)
    names = THEOREM_RE.findall(src)
    prefix = (ns[0] + ".") if ns else ""
    return [prefix + n for n in names]


FORBIDDEN_RE = re.compile(r"\bsorry\b|\badmit\b|^\s*axiom\s|native_decide|bv_decide|implemented_by|\bunsafe\s|maxHeartbeats\s+0\b", re.M)


def text_audit(modules_dirs=("IceModel", "IceSpec", "IceProofs", "IceTie", "IceProps", "IceGen")):
    hits = []
    for d in modules_dirs:
        for f in glob.glob(os.path.join(LEAN, d, "**", "*.lean"), recursive=True):
            src = strip_comments(open(f).read())
            for m in FORBIDDEN_RE.finditer(src):
                line = src.count("\n", 0, m.start()) + 1
                hits.append("%s:%d: %s" % (os.path.relpath(f, LEAN), line, m.group(0).strip()))
    return hits


def axiom_audit(prop, theorems, log):
    """Return dict theorem -> list of axioms (or None if not found / error)."""
    os.makedirs(os.path.join(BUILD, "audit"), exist_ok=True)
    f = os.path.join(BUILD, "audit", prop + ".lean")
    with open(f, "w") as w:
        w.write("import IceProps.%s\n" % prop)
        for t in theorems:
            w.write("#print axioms %s\n" % t)
    rc, out = sh(["lake", "env", "lean", f], cwd=LEAN, timeout=1200)
    log.append(("axiom audit " + prop, rc, out))
    res = {t: None for t in theorems}
    # outputs: "'name' depends on axioms: [a, b]" or "'name' does not depend on any axioms"
    flat = re.sub(r"\s+", " ", out)
    for m in re.finditer(r"'([^']+)' depends on axioms: \[([^\]]*)\]", flat):
        res[m.group(1)] = [a.strip() for a in m.group(2).split(",") if a.strip()]
    for m in re.finditer(r"'([^']+)' does not depend on any axioms", flat):
        res[m.group(1)] = []
    return res, rc, out


def failing_decls(lake_out):
    """Names/positions of failing declarations from lake output (best effort)."""
    errs = []
    for m in re.finditer(r"^error: (\S+?\.lean):(\d+):(\d+): (.*)$", lake_out, re.M):
        errs.append({"file": m.group(1), "line": int(m.group(2)), "msg": m.group(4)[:300]})
    return errs


def decl_at(file, line):
    """Nearest theorem/def name at or above a line."""
    try:
        lines = open(os.path.join(LEAN, file)).read().split("\n")
    except OSError:
        try:
            lines = open(file).read().split("\n")
        except OSError:
            return None
    for i in range(min(line, len(lines)) - 1, -1, -1):
        m = re.match(r"\s*(?:@\[[^\]]*\]\s*)?(?:private\s+)?(?:theorem|def|lemma|example|instance)\s+([\w'.]+)?", lines[i])
        if m:
            return m.group(1) or "example"
    return None


# ---------------------------------------------------------------------------------------------
# Correspondence
# ---------------------------------------------------------------------------------------------

def run_component(binname, component, tier, seed, outpath, log, args="", ops=None, timeout=3000, extra_env=None, race=False):
    env = go_env()
    env.update(VERIF_COMPONENT=component, VERIF_OUT=outpath, VERIF_SEED=str(seed), VERIF_TIER=tier, VERIF_ARGS=args)
    if ops:
        env["VERIF_OPS"] = ops
    if extra_env:
        env.update(extra_env)
    b = os.path.join(BUILD, binname + (".race" if race else ""))
    rc, out = sh([b, "-test.run", "^TestVerifHarness$", "-test.count=1", "-test.timeout", "%ds" % timeout],
                 cwd=BUILD, env=env, timeout=timeout + 30)
    log.append(("harness %s" % component, rc, out[-4000:]))
    return rc, out


def run_model(opsfile, log, timeout=3000):
    exe = os.path.join(LEAN, ".lake", "build", "bin", "icemodel")
    with open(opsfile) as f:
        rc, out = sh([exe], stdin=f, timeout=timeout)
    # "inconclusive": lines on which a bounded acceptance search of the driver gave up (`INCONCLUSIVE\t<component>\t
    # <line>\t<reason>`): never part of the verdict (the model has no opinion there, the monitor still judged the
    # line) — only counted
    res = {"rc": rc, "mismatches": [], "monitor": [], "inconclusive": [], "lines": 0, "raw_tail": out[-2000:]}
    for ln in out.split("\n"):
        if ln.startswith("MISMATCH\t"):
            p = ln.split("\t")
            res["mismatches"].append({"line": int(p[1]), "op": p[2], "impl": p[3][5:], "model": p[4][6:] if len(p) > 4 else ""})
        elif ln.startswith("MONITOR\t"):
            p = ln.split("\t")
            res["monitor"].append({"prop": p[1], "line": int(p[2]), "op": p[3], "impl": p[4][5:], "reason": p[5] if len(p) > 5 else ""})
        elif ln.startswith("INCONCLUSIVE\t"):
            p = ln.split("\t")
            res["inconclusive"].append({"component": p[1] if len(p) > 1 else "", "line": int(p[2]) if len(p) > 2 and p[2].isdigit() else 0,
                                        "reason": p[3] if len(p) > 3 else ""})
        elif ln.startswith("DONE "):
            m = re.search(r"lines=(\d+)", ln)
            res["lines"] = int(m.group(1)) if m else 0
            res["done"] = True
    if not res.get("done"):
        res["rc"] = res["rc"] or 1
    log.append(("icemodel < %s" % os.path.basename(opsfile), rc, out[-1500:]))
    return res
