#!/usr/bin/env python3
"""Run the registered checks against the seeded mutants kept under /verif/seeded/<id>/.

usage: lib/seeded.py [<id> ...] [--tier quick|thorough] [--all-props]
For each mutant: `git -C /repo apply patch.diff`, run ./check <property> (the property named in meta.json, or every
claimed property with --all-props), record exit status / VIOLATION line, then `git -C /repo checkout -- .`.
Writes seeded/RESULTS.json and prints a table. /repo must be clean before and is left clean after.
"""
import glob
import json
import os
import subprocess
import sys
import time

V = os.path.dirname(os.path.dirname(os.path.abspath(__file__)))
REPO = "/repo"


def sh(cmd, cwd=None, timeout=3600, env=None):
    p = subprocess.run(cmd, cwd=cwd, stdout=subprocess.PIPE, stderr=subprocess.STDOUT, text=True, timeout=timeout, env=env)
    return p.returncode, p.stdout


def main():
    args = [a for a in sys.argv[1:] if not a.startswith("--")]
    tier = "quick"
    if "--tier" in sys.argv:
        tier = sys.argv[sys.argv.index("--tier") + 1]
        args = [a for a in args if a != tier]
    allprops = "--all-props" in sys.argv
    scratch = "--scratch" in sys.argv   # work on a copy of /repo (VERIF_REPO) instead of /repo itself
    global REPO
    env = dict(os.environ)
    env["VERIF_EVIDENCE_DIR"] = "/tmp/vseed-evidence-%d" % os.getpid()
    if scratch:
        REPO = "/tmp/vseed-repo-%d" % os.getpid()   # one scratch copy per invocation: runs may overlap
        sh(["rm", "-rf", REPO])
        sh(["rsync", "-a", "--exclude", ".git", "/repo/", REPO + "/"])
        sh(["git", "init", "-q"], cwd=REPO)
        sh(["git", "add", "-A"], cwd=REPO)
        sh(["git", "-c", "user.email=v@v", "-c", "user.name=v", "commit", "-qm", "base"], cwd=REPO)
        env["VERIF_REPO"] = REPO
    rc, out = sh(["git", "-C", REPO, "status", "--porcelain"])
    if out.strip():
        print("refusing: %s has uncommitted changes:\n" % REPO + out)
        return 2
    ids = args or sorted(os.path.basename(d) for d in glob.glob(os.path.join(V, "seeded", "*")) if os.path.isdir(d))
    claimed = [c["property_id"] for c in json.load(open(os.path.join(V, "MANIFEST.json")))["checks"]]
    results = {}
    try:
        results = json.load(open(os.path.join(V, "seeded", "RESULTS.json")))
    except Exception:
        pass
    for mid in ids:
        d = os.path.join(V, "seeded", mid)
        meta = json.load(open(os.path.join(d, "meta.json")))
        props = claimed if allprops else [p for p in meta.get("check_with", [meta["property"]]) if p in claimed]
        rc, out = sh(["git", "-C", REPO, "apply", os.path.join(d, "patch.diff")])
        if rc != 0:
            print("%s: patch does not apply: %s" % (mid, out.strip()[:300]))
            results[mid] = {"error": "patch does not apply"}
            continue
        res = {}
        try:
            for p in props:
                t0 = time.time()
                rc, out = sh([os.path.join(V, "check"), p, "--tier", tier], cwd=V, env=env)
                vio = [l for l in out.split("\n") if l.startswith("VIOLATION")]
                res[p] = {"exit": rc, "violation": vio[:2], "wall_s": round(time.time() - t0, 1),
                          "found_input": bool(vio) and not vio[0].rstrip().endswith("no-failing-input-found")}
        finally:
            sh(["git", "-C", REPO, "checkout", "--", "."])
            sh(["git", "-C", REPO, "clean", "-fdq"])
        results[mid] = {"property": meta["property"], "tier": tier, "checks": res,
                        "caught": any(r["exit"] == 1 for r in res.values())}
        print("%-28s %-5s %s" % (mid, meta["property"], "  ".join(
            "%s:%s" % (p, ("CAUGHT+input" if r["found_input"] else "CAUGHT") if r["exit"] == 1 else "missed(%d)" % r["exit"])
            for p, r in res.items())))
    json.dump(results, open(os.path.join(V, "seeded", "RESULTS.json"), "w"), indent=1)
    if scratch:
        sh(["rm", "-rf", REPO])
    return 0


if __name__ == "__main__":
    sys.exit(main())
