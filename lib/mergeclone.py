#!/usr/bin/env python3
"""Copy what a builder changed in its clone of /verif back into /verif.
usage: lib/mergeclone.py <clone-dir> [--apply]
Lists files the clone changed relative to the commit it was cloned from (committed, uncommitted and untracked);
files that /verif itself changed since that commit are reported as CONFLICT and not copied."""
import os, shutil, subprocess, sys
V = os.path.dirname(os.path.dirname(os.path.abspath(__file__)))
clone = os.path.abspath(sys.argv[1]); apply = "--apply" in sys.argv
def git(d, *a): return subprocess.run(["git", "-C", d] + list(a), stdout=subprocess.PIPE, text=True).stdout
base = git(clone, "rev-parse", "origin/main").strip() or git(clone, "rev-parse", "origin/HEAD").strip()
# if the clone pulled later, its origin/main is that later commit: fine
changed = set(git(clone, "diff", "--name-only", base).split()) | set(git(clone, "ls-files", "--others", "--exclude-standard").split())
mine = set(git(V, "diff", "--name-only", base, "HEAD").split())
skip_prefix = ("build/", "evidence/", "replays/", "lean/.lake/", "lean/IceGen/", "lean/Driver/Registry.lean", "MANIFEST.json")
for f in sorted(changed):
    if f.startswith(skip_prefix): continue
    src = os.path.join(clone, f)
    if not os.path.isfile(src): print("DELETED ", f); continue
    dst = os.path.join(V, f)
    if f in mine and os.path.exists(dst) and open(src, "rb").read() != open(dst, "rb").read():
        print("CONFLICT", f); continue
    same = os.path.exists(dst) and open(src, "rb").read() == open(dst, "rb").read()
    print("same    " if same else ("copy    " if apply else "would   "), f)
    if apply and not same:
        os.makedirs(os.path.dirname(dst), exist_ok=True); shutil.copy2(src, dst)
