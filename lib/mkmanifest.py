#!/usr/bin/env python3
"""Regenerate /verif/MANIFEST.json from lib/props.py (claimed checks) and properties.jsonl."""
import json, os, sys
sys.path.insert(0, os.path.dirname(os.path.abspath(__file__)))
from props import PROPS, NOT_CLAIMED
V = os.path.dirname(os.path.dirname(os.path.abspath(__file__)))
ids = [json.loads(l)["id"] for l in open(os.path.join(V, "properties.jsonl")) if l.strip()]
checks = []
for pid in ids:
    if pid not in PROPS:
        continue
    c = PROPS[pid]
    checks.append({
        "property_id": pid,
        "quick_cmd": "./check %s --tier quick" % pid,
        "thorough_cmd": "./check %s --tier thorough" % pid,
        "evidence_file": "evidence/%s.json" % pid,
        "replay_cmd_template": "./check %s --replay {path}" % pid,
        "engine": "lean4-proof+correspondence",
        "level_claimed": {"category": "proof", "text": c["level_text"], "design_ref": c.get("design_ref", "DESIGN.md §5 " + pid)},
        "level_note": c["level_note"],
        "technique": c.get("technique", "Lean 4 theorems over a model tied to the source by translation (T) and differential correspondence (C)"),
    })
na = [{"property_id": pid, "reason": NOT_CLAIMED.get(pid, "check not built yet in this round; no claim is made")} for pid in ids if pid not in PROPS]
m = {
    "version": 1,
    "setup_cmd": "./setup",
    "hooks": {
        "guard": "verif",
        "enable": "go1.26.8 test -c -tags verif -overlay build/overlay.json (harness files live in /verif/harness/inpkg and are overlaid onto the package; no source change in /repo is needed)",
        "baseline_off_cmd": "cd /repo && GOFLAGS=-mod=mod go test -vet=off -count=1 -timeout 25m ./...",
        "source_commits": [],
        "add_only": True,
    },
    "engines": [{"name": "lean4-proof+correspondence", "path": "check", "serves_properties": [c["property_id"] for c in checks],
                 "kind_free_text": "Lean 4 kernel-checked theorems over a model of pion/ice; model tied to the current source by a Go->Lean translator (definitions regenerated and theorems re-checked every run) and by differential correspondence of the compiled model against the real code"}],
    "checks": checks,
    "not_applicable": na,
    "notes": "See DESIGN.md. Known findings: known_findings.json. Seeded mutants: seeded/.",
}
json.dump(m, open(os.path.join(V, "MANIFEST.json"), "w"), indent=1)
print("MANIFEST.json: %d checks, %d not claimed" % (len(checks), len(na)))
