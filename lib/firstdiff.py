#!/usr/bin/env python3
"""Debug helper: show the first MISMATCH of a result file with the session's preceding ops and a field diff."""
import sys, re
ops = open(sys.argv[1]).read().split("\n")
res = open(sys.argv[2]).read().split("\n")
skip = int(sys.argv[3]) if len(sys.argv) > 3 else 0
mm = [l for l in res if l.startswith("MISMATCH")]
if not mm: print("no mismatch"); sys.exit()
p = mm[min(skip, len(mm)-1)].split("\t")
ln = int(p[1])
start = ln - 1
while start > 0 and " new " not in ops[start].split("\t")[0][:12]: start -= 1
ctx = int(sys.argv[4]) if len(sys.argv) > 4 else 25
print("session starts at line", start + 1, "mismatch at", ln)
for i in range(max(start, ln - ctx), ln):
    op, _, out = ops[i].partition("\t")
    print("%6d  %s" % (i + 1, op) if i > start else "%6d  %s" % (i + 1, op))
impl, model = p[3][5:], p[4][6:]
def fields(s): return re.split(r"(?<=[\]\}0-9a-zA-Z\-]);", s)
fi, fm = fields(impl), fields(model)
for a, b in zip(fi, fm):
    if a != b:
        print("IMPL :", a); print("MODEL:", b)
if len(fi) != len(fm): print("field count differs", len(fi), len(fm))
