#!/bin/bash
# run every claimed check (tier = $1, default quick) on the current /repo tree; print one line per check
cd "$(dirname "$0")/.."
T=${1:-quick}
for p in $(python3 -c "import json;print(' '.join(c['property_id'] for c in json.load(open('MANIFEST.json'))['checks']))"); do
  s=$(date +%s); out=$(./check $p --tier $T 2>&1); rc=$?; e=$(( $(date +%s) - s ))
  echo "$p rc=$rc ${e}s $(echo "$out" | grep -c '^KNOWN-FINDING') known; $(echo "$out" | grep -E '^(VIOLATION|C[0-9]+ tier)' | tail -1 | cut -c1-160)"
done
