CFG = {
    "level_text": "Machine-checked Lean 4 theorems over the closed two-agent system (two AgentCore models + the datagram hub with "
                  "NAT mapping, reachability matrix, loss, duplication, reordering): SAFETY is proved for ALL schedules, all "
                  "configurations, unbounded candidates and steps, restarts and closes included — C01_no_false_connect (every "
                  "Succeeded / selected pair of a full agent lies on an address pair reachable in both directions; Connected or "
                  "Disconnected imply a selected pair) and C01_unreachable_never_connects (no reachable candidate address pair => "
                  "never a selected pair, never cbState connected / cbPair). LIVENESS is proved PARTIALLY: the progress steps of one "
                  "agent for all states (C01_progress_*), and C01_converges_round_partial / C01_converges_noisy_rounds_partial — from "
                  "EVERY state reached by ANY prefix (loss, duplication, reordering, restarts) that satisfies the decidable start "
                  "condition ReadyD, for all topologies (unbounded candidates, NAT, one-way links), both agents have a selected pair "
                  "and are Connected after at most roundBound + 1 = (nomTime - first tick) / minInterval + 2 canonical fair rounds "
                  "(clock advance to the controlling agent's next tick, then three in-order waves of deliveries), also with "
                  "arbitrary extra deliveries / duplications before every round; with C01_mirror_partial the pairs are mirror images "
                  "when each side has one local address; and C01_converges_fair_partial — from every reachable state satisfying the "
                  "decidable start condition ReadyF (ReadyD, except that the controlling "
                  "agent may already be selected if the controlled agent's triggered check is in flight; peer-reflexive discovery at "
                  "the controlling agent inside the suffix is covered), on EVERY loss-free suffix "
                  "of deliveries, duplications and clock advances (any order; an advance goes at most J beyond the next tick of the "
                  "controlling agent, J + 2 L < 4 s) that delivers every datagram in flight before the clock has moved by L, both agents are "
                  "selected and Connected once the clock is beyond fairBound = max(now + 2 s + J + 2 L, nomTime) + 2 s + 2 J + 4 L. "
                  "C01_converges_fair_valid_partial: the same without any hypothesis on the pairs of the start state, given that the "
                  "controlling agent has its first valid pair by time B on the schedule (ValidBy, decidable; covers a pair created by a "
                  "peer-reflexive discovery inside the suffix); C01_first_valid_fair_partial derives ValidBy from a budgeted pair of the "
                  "controlling agent at the start. "
                  "C01_converges_fair_disc_partial / C01_converges_fair_tick_partial: ValidBy derived from fairness when the good pair "
                  "exists only at the controlled agent: its check in flight with a source unknown to the controlling agent (DiscReqD), or "
                  "the check lost on a quiet network so that the controlled agent's tick re-sends it (TickReqD). "
                  "C01_converges_fair_retx_partial: controlling agent selected, the controlled agent's nomination-triggered check lost "
                  "(excluded by ReadyF): on a quiet network (RetxD) its own timer re-sends the check and both converge. "
                  "C01_converges_fair_wide_partial composes the four into one decidable start class ReadyW with one bound wideBound. "
                  "C01_converges_fair_tick2_partial: the tick theorem with the controlling agent ticking in between (TickReq2D: its routes undeliverable). "
                  "The FULL liveness statement C01_converges (every fair schedule, every start state) and the "
                  "full MIRROR theorem are NOT proved: convergence and mirror images on arbitrary generated fair suffixes are checked "
                  "by the spec monitor of the correspondence run (differential execution of the model against two real agents).",
    "level_note": "Trusted: Lean kernel (axioms propext/Classical.choice/Quot.sound); the hand-written models IceModel.AgentCore / "
                  "IceModel.Sys2, tied to the code by the differential correspondence of component `agent` (two real agents under "
                  "synctest, NAT, one-way links, loss, duplication, restarts) — bounded by generator quality; the harness. "
                  "Modelling assumptions: transaction ids of the two agents never collide (per-agent counters made disjoint by a "
                  "tag stand for 96-bit random ids); HMAC is perfect (not used by the C01 safety proof: passwords play no role in "
                  "it); closed system (no third party injects datagrams). Topology hypothesis: every local candidate address "
                  "survives the NAT round trip (LocalsSane, implied by NatSane). Lite agents are covered by C03, not here.",
    "components": [{"component": "agent", "args": "focus=C01", "session_start": "new", "trivial_regex": "^(bad-op.*|ended.*)$", "shrink_s": 40}],
    "rule": "quick: generated two-agent scenarios (1-3 candidates per side, NAT on one candidate, reachability matrices with one-way "
            "links, late signalling, random {tick, deliver, drop, duplicate, advance, restart, close} schedules followed by a fair "
            "loss-free suffix) executed on two real agents and on the model, outputs compared line by line, spec monitor on the "
            "implementation's outputs; one session in ten is a directed renomination scenario (renomDirected, six cycled variants) "
            "ending in a long fair suffix and 'mark quiesced', where the monitor demands mirror-image selections once the exchange "
            "of the highest nomination completed (AgentMonC20: agreement and settling clauses, reported under C01 as well); "
            "thorough: more and longer scenarios. Distinct = distinct (operation, output) lines; "
            "non-trivial = output other than bad-op/ended.",
    "translated": [],
    "trusted_base": ["IceModel.AgentCore and IceModel.Sys2 are hand-written models (tie: correspondence C)",
                     "transaction ids of different agents never collide (tag-disjoint counters model 96-bit random ids)",
                     "closed system: agents receive datagrams only from the hub (no forged traffic)",
                     "topology (NAT mapping, reachability matrix) is fixed during a session in the theorems"],
    "assumptions": ["LocalsSane: unmapped (mapped x) = x for every address a local candidate is added at",
                    "liveness on fair loss-free suffixes only with latency bound L and jump bound J, J + 2 L < 4 s (an advance goes at most J "
                    "beyond the next tick of the controlling agent), a Succeeded / selected pair or a pair under budget on a Link already in the start state, and, if the "
                    "controlling agent is already selected, the controlled agent's triggered check still in flight (ReadyF); "
                    "along the canonical fair rounds (+ extra deliveries/duplications between rounds) from ReadyD "
                    "states: UDP4 candidates with pairwise distinct addresses per agent, distinct passwords, no remote-IP filter hit, "
                    "timeouts beyond the horizon, controlling agent without selected pair / pending USE-CANDIDATE transaction, "
                    "controlling agent not answerable from its own addresses, the controlled agent's local addresses still current "
                    "(notes/C01-live.md); C01_converges for every fair schedule and C01_mirror remain to be proved"],
}
