CFG = {
    "level_text": "Machine-checked Lean 4 theorems over the closed two-agent system (two AgentCore models + the datagram hub with "
                  "NAT mapping, reachability matrix, loss, duplication, reordering): SAFETY is proved for ALL schedules, all "
                  "configurations, unbounded candidates and steps, restarts and closes included — C01_no_false_connect (every "
                  "Succeeded / selected pair of a full agent lies on an address pair reachable in both directions; Connected or "
                  "Disconnected imply a selected pair) and C01_unreachable_never_connects (no reachable candidate address pair => "
                  "never a selected pair, never cbState connected / cbPair). LIVENESS (C01_converges) and the MIRROR theorem are NOT "
                  "proved yet: convergence and mirror images are checked by the spec monitor on every generated fair suffix of the "
                  "correspondence run (differential execution of the model against two real agents over an in-memory hub).",
    "level_note": "Trusted: Lean kernel (axioms propext/Classical.choice/Quot.sound); the hand-written models IceModel.AgentCore / "
                  "IceModel.Sys2, tied to the code by the differential correspondence of component `agent` (two real agents under "
                  "synctest, NAT, one-way links, loss, duplication, restarts) — bounded by generator quality; the harness. "
                  "Modelling assumptions: transaction ids of the two agents never collide (per-agent counters made disjoint by a "
                  "tag stand for 96-bit random ids); HMAC is perfect (not used by the C01 safety proof: passwords play no role in "
                  "it); closed system (no third party injects datagrams). Topology hypothesis: every local candidate address "
                  "survives the NAT round trip (LocalsSane, implied by NatSane). Lite agents are covered by C03, not here.",
    "components": [{"component": "agent", "args": "focus=C01", "session_start": "new", "trivial_regex": "^(bad-op.*|ended.*)$", "shrink_s": 40}],
    "rule": "quick: generated two-agent scenarios (1-3 candidates per side, NAT on one candidate, reachability matrices with one-way "
            "links, late signalling, random {tick, deliver, drop, duplicate, advance, restart, close} schedules followed by a fair "
            "loss-free suffix) executed on two real agents and on the model, outputs compared line by line, spec monitor on the "
            "implementation's outputs; thorough: more and longer scenarios. Distinct = distinct (operation, output) lines; "
            "non-trivial = output other than bad-op/ended.",
    "translated": [],
    "trusted_base": ["IceModel.AgentCore and IceModel.Sys2 are hand-written models (tie: correspondence C)",
                     "transaction ids of different agents never collide (tag-disjoint counters model 96-bit random ids)",
                     "closed system: agents receive datagrams only from the hub (no forged traffic)",
                     "topology (NAT mapping, reachability matrix) is fixed during a session in the theorems"],
    "assumptions": ["LocalsSane: unmapped (mapped x) = x for every address a local candidate is added at",
                    "safety only; liveness (C01_converges) and C01_mirror remain to be proved"],
}
