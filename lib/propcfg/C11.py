CFG = {
    "level_text": "Machine-checked Lean 4 theorems over two hand-written concurrent small-step models: one stream of "
                  "handlerNotifier (queue, running flag, done, wait group; any number of enqueuers, drainers, closers, "
                  "handlers of any duration that may re-enter) and the gathering-cycle state machine (GatherCandidates / "
                  "cycle thread / gatherers / Restart / Close as atomic tasks, any interleaving). One inductive invariant per "
                  "model, proved for every transition; the property clauses (in order, exactly once, one at a time, "
                  "graceful close, one nil last, every candidate carries its cycle's ufrag, a cancelled cycle publishes nothing) are corollaries for ALL reachable "
                  "states and ALL continuations. Tie to the code: recorded concurrent histories of the real "
                  "handlerNotifier / Agent (testing/synctest and free-running goroutines) must be behaviours of the model "
                  "and must pass an independent spec monitor.",
    "level_note": "Trusted: Lean kernel (propext/Classical.choice/Quot.sound); the reading of agent_handlers.go, gather.go, "
                  "agent.go into the models (statement-for-statement, line numbers in the model files); sync.Mutex critical "
                  "sections are atomic, sync.WaitGroup.Wait returns iff the counter is 0, closed channel = flag; tasks of the "
                  "task loop are atomic (C10); Go scheduler fairness is NOT assumed (safety only; delivery of every accepted "
                  "event is shown as: a queued event always has exactly one live drainer). Correspondence is by acceptance of "
                  "recorded histories (bounded by what the generators schedule), not by translation.",
    "components": [
        {"component": "notifier", "trivial_regex": r"^(bad-op.*)$", "timeout_quick": 120, "timeout_thorough": 900},
        {"component": "gathercycle", "trivial_regex": r"^(bad-op.*)$", "timeout_quick": 120, "timeout_thorough": 900},
    ],
    "rule": "notifier: one line per recorded stream history (quick: 6000 synctest + 1200 free-running + 1500 real-agent scenarios, "
            "1-3 stream histories each; thorough: 250000 + 15000 + 50000); gathercycle: one line per agent history (quick 6000, "
            "thorough 250000 scenarios of GatherCandidates/Restart/poll/Close at random virtual times over 0-3 fake interfaces). "
            "Distinct = distinct (history, output) lines; every line is non-trivial (a history with at least one event).",
    "translated": [],
    "trusted_base": ["sync.Mutex / sync.WaitGroup / channel-close semantics as modelled (atomic critical sections)",
                     "testing/synctest of go1.26.8 (virtual clock, bubble leak detection); recorder stamps from one atomic counter"],
    "assumptions": ["GracefulClose is not called synchronously from inside a callback (documented as unsafe; it deadlocks, which the "
                    "model shows as a closer that never returns)",
                    "gather-once policy; host-only gathering in the correspondence runs"],
}
