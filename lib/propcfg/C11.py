CFG = {
    "level_text": "Machine-checked Lean 4 theorems over two hand-written concurrent small-step models: one stream of "
                  "handlerNotifier (queue, running flag, done, wait group; any number of enqueuers, drainers, closers, "
                  "handlers of any duration that may re-enter) and the gathering-cycle state machine (GatherCandidates / "
                  "cycle thread / gatherers / Restart / Close as atomic tasks, any interleaving). One inductive invariant per "
                  "model, proved for every transition; the property clauses (in order, exactly once, one at a time, "
                  "graceful close, one nil last, every candidate carries its cycle's ufrag, a cancelled cycle publishes nothing and leaves no "
                  "local candidate whichever ready case Run's select takes) are corollaries for ALL reachable "
                  "states and ALL continuations. Tie to the code: recorded concurrent histories of the real "
                  "handlerNotifier / Agent (testing/synctest and free-running goroutines) must be behaviours of the model "
                  "and must pass an independent spec monitor; the window of addCandidate between its context check and the hand-off "
                  "of its task is FORCED (a context whose first Err() call restarts / closes the agent) and repeated until both "
                  "outcomes of the select have been seen, and there the model must predict the observation exactly.",
    "level_note": "Trusted: Lean kernel (propext/Classical.choice/Quot.sound); the reading of agent_handlers.go, gather.go, "
                  "agent.go into the models (statement-for-statement, line numbers in the model files); sync.Mutex critical "
                  "sections are atomic, sync.WaitGroup.Wait returns iff the counter is 0, closed channel = flag; tasks of the "
                  "task loop are atomic (C10); Go scheduler fairness is NOT assumed (safety only; delivery of every accepted "
                  "event is shown as: a queued event always has exactly one live drainer). Correspondence is by acceptance of "
                  "recorded histories (bounded by what the generators schedule), not by translation — except Agent.close, which is regenerated "
                  "in effect mode on every run: the loop is closed first, then the three notifiers, each a different one, each once "
                  "(C11_code_close_notifiers).",
    "components": [
        {"component": "notifier", "trivial_regex": r"^(bad-op.*)$", "timeout_quick": 120, "timeout_thorough": 900},
        {"component": "gathercycle", "trivial_regex": r"^(bad-op.*)$", "timeout_quick": 120, "timeout_thorough": 900},
        {"component": "gatherforce", "trivial_regex": r"^(bad-op.*)$", "timeout_quick": 120, "timeout_thorough": 900},
        # the gather component of C18/C09 (one real agent, scripted TURN servers), restricted to its block of TURN URLs with and
        # without credentials: the relay gatherer stops at the first URL without them but must wait for the allocations it has
        # started - the nil candidate comes after their candidates (clause IceSpec.C11Gather.nilViolation + model comparison)
        {"component": "gather", "session_start": "new", "args": "turncreds", "trivial_regex": r"^(bad-op.*|r=err:.*)$",
         "timeout_quick": 300, "timeout_thorough": 900, "shrink_s": 40},
    ],
    "rule": "notifier: one line per recorded stream history (quick: 6000 synctest + 1200 free-running + 1500 real-agent scenarios, "
            "1-3 stream histories each; thorough: 250000 + 15000 + 50000); gathercycle: one line per agent history (quick 6000, "
            "thorough 250000 scenarios of GatherCandidates/Restart/poll/Close at random virtual times over 0-3 fake interfaces); "
            "gatherforce: one line per script (16 corpus + quick 150 / thorough 4000 random scripts of GatherCandidates / Restart / Close / "
            "release of the parked real gatherer / scripted gatherers whose first context check restarts or closes the agent or starts a "
            "further gatherer), each executed 40-48 times on a fresh real agent: the output is the set of distinct observations (announced "
            "candidates with ufrag and generation, addCandidate results, local candidate list and open sockets after every step) and must "
            "equal the model's single prediction; a wrong hand-off is missed with probability 2^-40 per line that forces the window. "
            "gather (args turncreds): 39 lists of TURN URLs with / without username / password (length 1-3, every order) x 2 configurations x a "
            "reply script with Restart and Close, + 4 filtered / cancelled variants - one line per operation, compared with IceModel.Gather and "
            "judged by IceSpec.C11Gather.nilViolation (one nil, after all candidates of its cycle, none while a request of the cycle is in flight). "
            "Distinct = distinct (history, output) lines; every line is non-trivial (a history with at least one event).",
    "translated": ["Agent.close"],
    "trusted_base": ["sync.Mutex / sync.WaitGroup / channel-close semantics as modelled (atomic critical sections)",
                     "testing/synctest of go1.26.8 (virtual clock, bubble leak detection); recorder stamps from one atomic counter",
                     "gatherforce: Go's select picks uniformly among ready cases; synctest.Wait returns only when the agent loop is parked in its "
                     "receive; the scripted gatherer's context is cancelled with the cycle's own (the stored cancel func is wrapped)"],
    "assumptions": ["GracefulClose is not called synchronously from inside a callback (documented as unsafe; it deadlocks, which the "
                    "model shows as a closer that never returns)",
                    "gather-once policy; host-only gathering in the correspondence runs"],
}
