CFG = {
    "level_text": "Machine-checked Lean 4 theorems: the priority functions are REGENERATED from the Go source on every run "
                  "(translator) and proved, for all inputs, equal to a Nat model that satisfies every clause of the property "
                  "(formula, type/local preference tables, ranges, pair formula without overflow, monotonicity, mirror symmetry). "
                  "A finite sample cannot cover 2^64 priority pairs or all 65536 offsets x configurations; the theorem does.",
    "level_note": "Trusted: Lean kernel (axioms propext/Classical.choice/Quot.sound), the gotolean translator and its atom table "
                  "(receiver fields passed as parameters), the harness. Foundation equality is checked by correspondence with a "
                  "Lean CRC-32; CRC collisions are outside the claim as the property says.",
    "components": [{"component": "prio"}],
    "exhaustive_thorough": True,
    "rule": "quick: type x network x TCP type x relay protocol x offsets {0..130, boundaries, 40 random} x 2 components, "
            "all boundary pairs of pair priorities + 2000 random; thorough: all 65536 offsets x 7 components (exhaustive over "
            "the finite candidate configuration space) + 10^6 random pairs. Distinct = distinct (operation, output) lines; "
            "non-trivial = output is a computed priority (not skip/error).",
    "translated": ["CandidateType.Preference", "relayProtocolPreference", "candidateBase.TypePreference",
                   "candidateBase.LocalPreference", "candidateBase.Priority", "CandidatePair.priority"],
    "trusted_base": ["CRC-32 is modelled by a bitwise Lean implementation validated against hash/crc32 by the correspondence; collisions are outside the claim, as the property says"],
    "assumptions": ["receiver fields read by the translated methods are passed as parameters (atoms in harness/gotolean/spec.json)"],
}
