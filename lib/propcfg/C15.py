CFG = {
    "level_text": "Machine-checked Lean 4 theorems over an executable event model of TCPMuxDefault / tcpPacketConn (virtual time, "
                  "run-to-quiescence steps) for ALL operation sequences: first-frame classification and routing, per-connection order "
                  "and source address, reply path, expiry of provisional connections, total teardown by Close; and a simulation theorem: every "
                  "run of the model is accepted by the (typed) spec monitor, all clauses (C15_model_passes_monitor). The model is tied to the "
                  "real code by differential execution under testing/synctest (virtual clock, goroutine census) with a fake listener "
                  "and scripted hostile clients; the same spec monitor is evaluated on the implementation's own outputs.",
    "level_note": "Tie is C/A (correspondence on generated sessions), not a translation: the theorems are about the model. Trusted: the "
                  "fake net.Listener/net.Conn of the harness in place of real TCP (segmentation is property C14's), pion/stun decoding "
                  "(frames are classified by how the harness built them), the goroutine census by creation site, sequential "
                  "run-to-quiescence scheduling (operations do not overlap; Close is split into call and return); the printing and re-reading of the "
                  "line protocol between the typed observation of the simulation theorem and the monitor (checked on every generated line). Partial: races "
                  "between the close watcher and concurrent GetConnByUfrag/handleConn are outside the sequential model; that window (finding F22) is covered by the concurrent recorder component tcpmuxrace (notes/C15.md).",
    "components": [{"component": "tcpmux", "session_start": "new", "trivial_regex": r"^(bad-op|no-session|noop.*)$",
                    "timeout_quick": 300, "timeout_thorough": 1500, "shrink_s": 60},
                   # concurrent recorder for F22 (real goroutines, no synctest): RemoveConnByUfrag vs GetConnByUfrag /
                   # first frame for the same ufrag; quick 1500 rounds, thorough 20000 rounds
                   {"component": "tcpmuxrace", "trivial_regex": r"^(bad-op.*)$", "timeout_quick": 300,
                    "timeout_thorough": 1500, "shrink_s": 5}],
    "rule": "sessions of the real TCPMuxDefault under synctest: 13 hand-written boundary scripts (512/516-byte first frame, deadline-1/deadline, "
            "alive-1/alive, unbuffered and full receive channel, Close with pending clients, duplicate remote address, both families) + "
            "8 MultiTCPMuxDefault.GetAllConns cases + concurrent recorder tcpmuxrace (RemoveConnByUfrag vs GetConnByUfrag / first frame, quick 1500 / thorough 20000 rounds) + random sessions (quick: 400 x <=30 ops, thorough: 6000 x <=150 ops) over "
            "{accept, frame(valid/unknown ufrag/no USERNAME/other method/garbage/oversized), partial (slow loris), client close/reset, advance, "
            "GetConnByUfrag, RemoveConnByUfrag, handle Close, packet-conn Close, WriteTo, ReadFrom, mux Close}; configuration "
            "ReadBufferSize in {0,1,2,4,64}, WriteBufferSize in {0,4096}, timeouts in {default,7/5,30/50 ms}. Distinct = distinct "
            "(operation, output) lines; non-trivial = not bad-op/noop.",
    "translated": [],
    "trusted_base": ["fake net.Listener / net.Conn (channels + time.Timer inside the synctest bubble) stand in for real TCP; TCP segmentation is C14's",
                     "pion/stun Build/Decode: a frame's class (Binding with USERNAME / without / other method / not STUN) is how the harness built it",
                     "goroutine census from runtime.Stack by creation site, restricted to the session's synctest bubble",
                     "operations are applied one at a time and the mux runs to quiescence between them (synctest.Wait)"],
    "assumptions": ["Listener.Addr() is a *net.TCPAddr (as for a real TCP listener)", "FirstStunBindTimeout and AliveDurationForConnFromStun are not negative"],
}
