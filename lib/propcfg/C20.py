CFG = {
    "level_text": "Machine-checked Lean 4 theorems for the single-agent clauses. (1) Tie: selection.go "
                  "controlledSelector.shouldAcceptNomination / shouldSwitchSelectedPair and Agent.needsToCheckPriorityOnNominated are "
                  "REGENERATED from the Go source on every run and proved equal, for all arguments, to the functions the model's "
                  "request handler is proved to consist of. (2) On the executable model AgentCore: along ANY event sequence (all "
                  "event kinds, any initial state) without re-installation of the selector, a valued nomination is accepted iff its "
                  "value exceeds every value accepted before, lastNomination is the maximum of the accepted values and never "
                  "decreases; an accepted valued nomination on a valid pair selects that pair whatever is selected and whatever the "
                  "priorities; on a not-yet-valid pair it is remembered with its value and, when the pair's own check succeeds, the "
                  "pair is selected iff no greater value was accepted meanwhile (post-F8 behaviour); a value <= lastNomination "
                  "produces one success response and changes neither the selection nor any pair's nomination fields, now or later; "
                  "RenominateCandidate sends (USE-CANDIDATE, ICE-CONTROLLING, value iff > 0) only on a controlling agent with the "
                  "feature enabled and an existing pair, otherwise changes nothing. The existing tests feed ordered requests on an "
                  "already valid pair; the theorems cover every arrival order, duplication and validity state.",
    "level_note": "Single-agent clauses are proved at full strength. The two-agent sentence ('when the exchange has quiesced both "
                  "agents have selected the mirror-image pair carrying the highest nomination value the controlling agent "
                  "issued') is FALSE for the code as written in the property text; what is proved, on the closed system Sys2 (two "
                  "AgentCore agents + datagram hub with NAT, blocks, loss, duplication) for ALL schedules of an exchange "
                  "(IceProofs/Sys2C20*.lean, restated in IceProps/C20.lean): from two fresh agents, any schedule to a state in "
                  "which the session is Established (A controlling, B controlled and full, both started, A has a selected pair, "
                  "no nomination of either kind in flight, nothing outstanding or deferred), then any schedule without Restart / "
                  "Close along which the roles are kept and nobody is Failed: (a) C20_accepted_le_issued - every value B accepted "
                  "was issued by A's RenominateCandidate; (b) C20_controlled_selects_max_accepted - B's highest accepted value v "
                  "was issued on a pair (la, ra), was accepted on the mirror image of that pair modulo NAT, and that pair is B's "
                  "selected pair or still holds v as a deferred nomination, in every state, for every arrival order, duplication "
                  "and loss; (c) C20_controlling_selects_last_answered - A's selected pair is the pair of the nomination whose "
                  "success response A processed LAST; (d) C20_quiescent_agreement_partial - in a quiesced state (no valued message "
                  "in flight, no valued transaction outstanding at A, no deferred nomination waiting at B), if x is the unique "
                  "highest nomination and the response A processed last is x's (hA), then A is on x's pair and B on its mirror "
                  "image (that B has accepted x's value follows: C20_answered_le_accepted, by an invariant over transaction "
                  "ids); (e) C20_quiesced_rests - a quiesced state stays quiesced and both selections stay, under every "
                  "continuation without a new RenominateCandidate. Every extra hypothesis is forced: three witness theorems (concrete Sys2 "
                  "runs evaluated by the kernel) show the conclusion false without hA (responses processed out of order, values "
                  "1 < 2 issued in order), without 'no ordinary nomination in flight' (a delayed ordinary nomination moves B back "
                  "after the renomination) and without 'no deferred-nomination mark at B' (the mark nominateOnBindingSuccess is "
                  "never cleared: the next success response on the old pair, e.g. of a keepalive, moves B back); further examples: "
                  "non-increasing values (B rejects but answers, A switches), loss (a nomination is never retransmitted). All five "
                  "are replayed on the real agents (corpus/C20/agent.ops sessions C20sys-W1..W4, model = code, 0 mismatches) and "
                  "reported as findings in notes/C20sys.md (disagreement of the two selections at quiescence under pure "
                  "reordering). "
                  "C20_codec (values < 2^24 survive the attribute encoding) is proved with the attribute-codec model of C16. The "
                  "model is tied to the code by the differential correspondence of component 'agent' (real agent under synctest vs "
                  "AgentCore.step); corpus/C20/agent.ops holds the two F8 scenarios (deferred acceptance used to ignore the "
                  "nomination value; fixed in /repo by 'fix: honour renomination values when a deferred nomination completes', "
                  "the model follows the fixed code) and the six two-agent sessions, and is replayed first on every run. Trusted: "
                  "Lean kernel (axioms propext / Classical.choice / Quot.sound), the gotolean translator (pointer arguments "
                  "encoded as (non-nil, value); assignment to s.lastNomination as an effect), HMAC modelled as perfect, the harness.",
    "components": [{"component": "agent", "args": "focus=C20", "session_start": "new", "trivial_regex": "^(bad-op.*|ended.*)$", "shrink_s": 40}],
    "rule": "corpus/C20/agent.ops (F8 scenarios; two-agent sessions C20sys-ok and C20sys-W1..W4) then agent sessions from the generator of component 'agent' (renominations over "
            "2-4 pairs, nomination requests with values in all arrival orders, duplicated and dropped, on valid and not-yet-valid "
            "pairs); distinct = distinct (operation, implementation digest) lines; non-trivial = executed by the real agent "
            "(not bad-op / ended).",
    "translated": ["controlledSelector.shouldAcceptNomination", "controlledSelector.shouldSwitchSelectedPair",
                   "Agent.needsToCheckPriorityOnNominated"],
    "trusted_base": ["HMAC is modelled as perfect: MESSAGE-INTEGRITY verifies iff the key is the expected password",
                     "automatic renomination (RTT based) is not modelled; the harness never enables it"],
    "assumptions": ["'accepted' is the decision of shouldAcceptNomination in the arrival state; it is proved equivalent to "
                    "'lastNomination changed in this step' (C20_accept_step)",
                    "pairs are addressed by id: where a theorem reads the pair's state it reads it through pairById (in every state "
                    "with unique pair ids this is the pair findPair returned)",
                    "the selector is re-installed (lastNomination cleared) by an effective start, a restart and a lost role conflict "
                    "only (C20_reset_clears, IceProofs.Agent.step_lastNomination); stability of a run is the decidable predicate "
                    "`stable`",
                    "two-agent theorems: closed system (agents receive traffic only through the hub), Fresh initial state, "
                    "Established at the start of the exchange, Exchange along it (no Restart / Close, roles kept, nobody Failed, "
                    "B full), positive nomination values; the agreement theorem additionally hA (A processed the response of the "
                    "highest nomination last) and uniqueness of the highest value"],
}
