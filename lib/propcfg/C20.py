CFG = {
    "level_text": "Machine-checked Lean 4 theorems for the single-agent clauses. (1) Tie: selection.go "
                  "controlledSelector.shouldAcceptNomination / shouldSwitchSelectedPair and Agent.needsToCheckPriorityOnNominated are "
                  "REGENERATED from the Go source on every run and proved equal, for all arguments, to the functions the model's "
                  "request handler is proved to consist of. (2) On the executable model AgentCore: along ANY event sequence (all "
                  "event kinds, any initial state) without re-installation of the selector, a valued nomination is accepted iff its "
                  "value exceeds every value accepted before, lastNomination is the maximum of the accepted values and never "
                  "decreases; an accepted valued nomination on a valid pair selects that pair whatever is selected and whatever the "
                  "priorities; on a not-yet-valid pair it is remembered with its value and, when the pair's own check succeeds, the "
                  "pair is selected iff no greater value was accepted meanwhile (post-F8 behaviour); a value <= lastNomination "
                  "produces one success response and changes neither the selection nor any pair's nomination fields, now or later; "
                  "RenominateCandidate sends (USE-CANDIDATE, ICE-CONTROLLING, value iff > 0) only on a controlling agent with the "
                  "feature enabled and an existing pair, otherwise changes nothing. The existing tests feed ordered requests on an "
                  "already valid pair; the theorems cover every arrival order, duplication and validity state.",
    "level_note": "Single-agent clauses are proved here. The two-agent consequence C20_quiescent_agreement (both agents select the "
                  "mirror pair carrying the highest value issued) is proved in IceProps on IceModel.Sys2 by another module; "
                  "C20_codec (values < 2^24 survive the attribute encoding) is proved with the attribute-codec model of C16. The "
                  "model is tied to the code by the differential correspondence of component 'agent' (real agent under synctest vs "
                  "AgentCore.step); corpus/C20/agent.ops holds the two F8 scenarios (deferred acceptance used to ignore the "
                  "nomination value; fixed in /repo by 'fix: honour renomination values when a deferred nomination completes', "
                  "the model follows the fixed code) and is replayed first on every run. Trusted: Lean kernel (axioms propext / "
                  "Classical.choice / Quot.sound), the gotolean translator (pointer arguments encoded as (non-nil, value); "
                  "assignment to s.lastNomination as an effect), HMAC modelled as perfect, the harness.",
    "components": [{"component": "agent", "args": "focus=C20", "session_start": "new", "trivial_regex": "^(bad-op.*|ended.*)$", "shrink_s": 40}],
    "rule": "corpus/C20/agent.ops (F8 scenarios) then agent sessions from the generator of component 'agent' (renominations over "
            "2-4 pairs, nomination requests with values in all arrival orders, duplicated and dropped, on valid and not-yet-valid "
            "pairs); distinct = distinct (operation, implementation digest) lines; non-trivial = executed by the real agent "
            "(not bad-op / ended).",
    "translated": ["controlledSelector.shouldAcceptNomination", "controlledSelector.shouldSwitchSelectedPair",
                   "Agent.needsToCheckPriorityOnNominated"],
    "trusted_base": ["HMAC is modelled as perfect: MESSAGE-INTEGRITY verifies iff the key is the expected password",
                     "automatic renomination (RTT based) is not modelled; the harness never enables it"],
    "assumptions": ["'accepted' is the decision of shouldAcceptNomination in the arrival state; it is proved equivalent to "
                    "'lastNomination changed in this step' (C20_accept_step)",
                    "pairs are addressed by id: where a theorem reads the pair's state it reads it through pairById (in every state "
                    "with unique pair ids this is the pair findPair returned)",
                    "the selector is re-installed (lastNomination cleared) by an effective start, a restart and a lost role conflict "
                    "only (C20_reset_clears, IceProofs.Agent.step_lastNomination); stability of a run is the decidable predicate "
                    "`stable`"],
}
