_GATHER_NOTE = (
    "Tie = sequential correspondence (C) of the hand-written Lean model IceModel.Gather with ONE real agent run "
    "inside testing/synctest (go1.26.8): fake transport.Net (scripted interface table, ListenUDP/ListenPacket with a "
    "port-availability map, every open/close counted), fake UDP/TCP/srflx muxes counting GetConn handles per ufrag, "
    "scripted STUN responder (reply before / after cancel / never), injected turnClientFactory (allocate ok / fail / "
    "timeout, factory and Listen failures), address-rewrite rules for host, srflx and relay. Kernel sockets are therefore "
    "OBSERVED THROUGH THE COUNTING FAKE NET, not the OS. Trusted / modelled, not verified: pion/turn, pion/mdns "
    "(the mDNS server is not started: the mode is set on the agent), pion/stun message coding, pion/transport; "
    "net/netip address classification (loopback, link-local, site-local fec0::/10, ::/96) is mirrored by a small "
    "Lean function over address classes and validated by the correspondence; the real UDPMuxDefault/TCPMuxDefault are "
    "replaced by counting fakes (their own behaviour is C12/C13/C15). Translation tie (T) for the pure address-class and "
    "network-type tests only (isSupportedIPv6Partial, shouldFilterLocationTracked(IP), isIPv6LinkLocal, determineNetworkType, "
    "supportedNetworkTypes, configuredNetworkTypes, networkTypeEnabled, hostNetworkTypeEnabled: regenerated on every run and "
    "proved equal to the model's supported6 / isLinkLocal6 / hostNetEnabled / configured, IceTie/Gather.lean; what a class "
    "means in bytes is IceTie.Gather.Bytes6); no T or skeleton (S) tie for the gatherers of "
    "gather.go themselves: a change of that code is noticed through the correspondence only, i.e. as far as the generators reach "
    "(generator restrictions: several gatherers never race for the last free port; the srflx mux has one listen "
    "address; ONE host rewrite rule per agent - replace/append, catch-all or pinned to a local address, optionally "
    "interface-scoped - its lookup is restated for that shape, precedence among several rules is C19's; a host rule that "
    "can publish one address from sockets on two local addresses is only combined with no port range or a single-port "
    "range, because listenUDPInPortRange starts its scan at a random port; CONTINUAL GATHERING - GatherContinually + monitor "
    "interval, the fake Net's interface table replaced by `ifaces` operations, the monitor's ticks driven by the virtual "
    "clock: in such sessions the clock moves by whole seconds and the interval is a prime number of ms, so that no tick "
    "falls on the instant of a STUN/TURN timeout, and no virtual time passes between the start of a re-gather pass and a "
    "Restart that falls into it - a cancelled monitor that returns from a pass with a tick waiting has a `select` with two "
    "ready cases, whose random choice shows in open/close totals and lastKnownInterfaces, notes/C18.md O6)."
)

CFG = {
    "level_text": "Machine-checked Lean 4 theorems over an executable model of gather.go/net.go/agent.go (gatherers as pure "
                  "functions of configuration x interface table; the gathering cycle as a task-level state machine with "
                  "Restart landing anywhere, including between addCandidate's context check and its task): soundness of every "
                  "published candidate against an independently written spec for ALL configurations and interface tables, "
                  "completeness of host gathering for every eligible address x transport with a listener, the cycle clauses "
                  "for ALL interleavings. The model is run in lock-step with the real agent after every operation; the spec "
                  "monitor is evaluated on the implementation's own published candidates. Tests sample a few configurations "
                  "on the host's real interfaces; the theorems quantify over all of them.",
    "level_note": _GATHER_NOTE + " PARTIAL: C18_cycle's clause 'results of the old cycle are not published into the new one' "
                  "is proved only under the explicit hypothesis that no Restart falls between addCandidate's context check and "
                  "its hand-off to the task loop (suspicion S5 confirmed by analysis; witness theorem C18_cycle_stale_witness; "
                  "the window cannot be hit deterministically without a hook, so the correspondence does not exercise it); the "
                  "full clause is proved for the model with the one-line re-check (C18_cycle_recheck).",
    "components": [{"component": "gather", "session_start": "new", "trivial_regex": r"^(bad-op.*|r=err:.*)$",
                    "timeout_quick": 300, "timeout_thorough": 1500, "shrink_s": 40},
                   {"component": "activetcp", "timeout_quick": 120, "timeout_thorough": 300}],
    "rule": "component activetcp: a REAL agent on the loopback interface, remote passive TCP candidate added, every candidate-type subset x mDNS mode x network types x WithDisableActiveTCP (model IceModel.ActiveTcp, monitor IceSpec.C18Active: the active ICE-TCP host candidates respect the candidate types and the mDNS gather mode; found C18-G13); quick: all 16 network-type subsets x {no TCP mux, TCP mux} x 2 interface tables with double gather and restart; "
            "20 configurations covering every kind of local candidate x mDNS name on/off x a reply script; 39 lists of TURN URLs with / without username / password (every order) x 2 configurations x a reply script; continual gathering: 13 configurations x a script with an address appearing 1 ms before / at a tick, special-purpose, "
            "loopback, filtered and down-interface addresses, removal, interface down/up, Restart, Close; Restart / Close / refused "
            "gather while a re-gather pass is parked at the mux gate or waits for STUN / TURN (reply after the cancellation or never); "
            "ticks during a pass; table change during the first pass; 1 random session in 6 continual with 1-4 random table changes; "
            "24 external-address lists x 9 host-rewrite rule shapes x 5 (network types, mux) settings with restart / double gather / "
            "close; 8 port-range/busy-port cases x 3 tables; Restart/Close/Failed inserted at every position of a reply script for 5 "
            "(thorough: 8) configurations; the stale-mux window (F12); 700 (thorough: 120000) random sessions = random "
            "configuration (candidate types, network types, port range, filters, loopback, mDNS, muxes, STUN/TURN URLs, TURN "
            "failures, rewrite rules) x random interface table x random script of gather/restart/close/fail/release/adv/"
            "stunreply/turnreply/ifaces/hold. Distinct = distinct (operation, output) lines; non-trivial = a session exists (not a refused "
            "constructor / bad-op).",
    "translated": ["isSupportedIPv6Partial", "shouldFilterLocationTrackedIP", "shouldFilterLocationTracked", "isIPv6LinkLocal",
                   "supportedNetworkTypes", "configuredNetworkTypes", "networkTypeEnabled", "determineNetworkType",
                   "hostNetworkTypeEnabled"],
    "trusted_base": ["fake transport.Net / muxes / TURN client / STUN responder of harness/inpkg/zz_verif_gather_test.go",
                     "go1.26.8 testing/synctest (virtual clock, quiescence detection)",
                     "IP classification mirrored by AddrClass predicates (validated by correspondence)",
                     "pion/turn, pion/mdns, pion/stun, pion/transport trusted"],
    "assumptions": ["agent state is only touched inside tasks (C10) - one model transition per task",
                    "connection-state timing (when Failed happens) is taken from the implementation's line as an input"],
}
