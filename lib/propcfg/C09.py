import importlib.util, os
_spec = importlib.util.spec_from_file_location("propcfg_C18_for_C09", os.path.join(os.path.dirname(os.path.abspath(__file__)), "C18.py"))
_m = importlib.util.module_from_spec(_spec)
_spec.loader.exec_module(_m)

CFG = {
    "level_text": "Machine-checked Lean 4 theorems over the ownership ledger of IceModel.Gather: every gatherer of gather.go is "
                  "a small program over resources (socket, mux handle, TURN client, allocation); for ALL answer sequences - i.e. "
                  "every error, every cancellation point, every reply timing incl. replies after cancellation, duplicates - each "
                  "acquired resource is released exactly once or owned by exactly one started candidate; Restart / Failed / Close "
                  "release everything the candidates own; after Close (and after Restart once the superseded cycle's units have "
                  "returned) nothing of the ended generation is open. The same programs drive the model that is compared, after "
                  "every operation, with the open/close tallies of a counting fake Net / muxes / TURN client around the real agent. "
                  "The suite never counts sockets; the theorem covers every path, the correspondence ties the paths to the code.",
    "level_note": _m._GATHER_NOTE + " 'Released exactly once' is read on the resource (open -> closed once, never reopened); "
                  "redundant Close() calls on an already closed object (two relay candidates sharing one allocation, the srflx "
                  "watcher plus the error path) are counted in the statistics and are not violations.",
    "components": [{"component": "gather", "session_start": "new", "trivial_regex": r"^(bad-op.*|r=err:.*)$",
                    "timeout_quick": 300, "timeout_thorough": 1500, "shrink_s": 40}],
    "rule": _m.CFG["rule"],
    "translated": [],
    "trusted_base": _m.CFG["trusted_base"],
    "assumptions": _m.CFG["assumptions"],
}
