CFG = {
    "level_text": "Machine-checked Lean 4 theorems over the executable agent model (IceModel.AgentCore.step), for EVERY history "
                  "(arbitrary event lists from a fresh agent, arbitrary configuration incl. zero timeouts and lite): the "
                  "connection-state notifications are exactly the changes of the state variable, in order, without repeats, and "
                  "form a path of the documented graph PLUS ONE EDGE the documented graph does not have (finding F13: "
                  "Failed->Connected without Restart, by an inbound check after a local candidate was added while Failed; "
                  "C04_path_partial = exact graph, C04_path_witness refutes the documented graph, "
                  "C04_path_no_late_candidates proves the documented graph for all histories without such a late candidate); "
                  "Connected/Disconnected only with a selected pair; Failed only after release; the per-tick state as the "
                  "documented function of silence x two timeouts (forced Disconnected-before-Failed, zeros disabling) and the "
                  "checking deadline. The two Go timing functions are REGENERATED from agent.go on every run and proved equal "
                  "to the model for all non-negative Int64 durations (a continuous domain no sample covers).",
    "level_note": "T tie for the ORDER of effects of setSelectedPair (pair stored before the state becomes Connected) and "
                  "updateConnectionState (on Failed the release precedes the notification): both regenerated in effect mode on every run, the "
                  "theorems state the effect lists (C04_code_setSelectedPair, C04_code_updateConnectionState). What is proved is the ENQUEUE order of notifications (updateConnectionState -> notifier); callback DELIVERY "
                  "order is C11's. The history theorems are about the model; the model is tied to the code (a) by translation + "
                  "proof for connectionStateForDisconnection / initialCheckingTimeout (tie T) and (b) by differential "
                  "correspondence of the whole agent under testing/synctest virtual time (tie C: same operation sequences, "
                  "canonical digests compared line by line), which is bounded by generator quality. Trusted: Lean kernel (axioms "
                  "propext/Classical.choice/Quot.sound), the gotolean translator, the harness and its hub/virtual clock. "
                  "time.Since(zero time) is taken to saturate at 2^63-1 ns (Go's documented behaviour), modelled as 'none'.",
    "components": [{"component": "agent", "args": "focus=C04", "session_start": "new", "trivial_regex": "^(bad-op.*|ended.*)$", "shrink_s": 40}],
    "rule": "quick: generated agent sessions (timeout configurations incl. 0 and lite defaults, ticks, traffic, Restart, Close) "
            "plus the corpus corpus/C04/agent.ops (F13 replay for lite and full agents; a full lifecycle with Restart and Close). "
            "Distinct = distinct (operation, digest) lines; non-trivial = not bad-op/ended.",
    "translated": ["Agent.connectionStateForDisconnection", "Agent.initialCheckingTimeout", "Agent.setSelectedPair", "Agent.updateConnectionState"],
    "trusted_base": ["HMAC is modelled as perfect (integrity verifies iff the key is the expected password)",
                     "time.Since(time.Time{}) saturates to the maximum Duration"],
    "assumptions": ["receiver fields read by the translated methods are passed as parameters (harness/gotolean/spec/T_Agent.json)",
                    "durations are non-negative and disconnectedTimeout + failedTimeout does not overflow int64 (range hypotheses of C04_timing_code)"],
}
