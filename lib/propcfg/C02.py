CFG = {
    "level_text": "Machine-checked Lean 4 theorems about the executable agent model (IceModel.AgentCore), for ALL agent states "
                  "(no reachability assumption), all times, all local candidates, all source addresses and all abstract STUN "
                  "messages: a Binding request with a wrong/absent USERNAME or an integrity key other than the local password, a "
                  "success response with an integrity key other than the remote password or from an unknown source, error "
                  "responses, unknown classes and non-Binding methods leave the state EQUAL and emit nothing (handleInbound = (a, [])); "
                  "an indication only sets lastRecv of the known remote at the source; a verified success response without an "
                  "unexpired pending entry of the same id, network type, destination and source (the local address the response arrives "
                  "on; the source conjunct is the fix of F17) changes only `pending` (shrinks) and the "
                  "remote's lastRecv. Lifted to `step` under the quiescence invariant (proved inductive over every event), and over "
                  "histories after Restart (no pending id of the ended generation ever reappears; old-password/old-ufrag requests "
                  "are dropped). The two pure gates canHandleInbound / responseSymmetric are REGENERATED from the Go source on every "
                  "run and proved equal, for all arguments, to the conditions the model uses.",
    "level_note": "The theorems are about the model; the model is tied to the code by the differential correspondence of component "
                  "`agent` (real agent under synctest vs. model, same operation sequence, canonical digests compared after every "
                  "operation). Its generator injects real STUN bytes built with pion/stun at random points of random one- and "
                  "two-agent histories, also after Restart: classes request/indication/success/error, method Binding and a "
                  "non-Binding one, USERNAME in {correct, swapped, wrong local part, wrong remote part, absent}, integrity key in "
                  "{correct, absent, unknown password, the other side's password; after Restart the first generation's passwords are "
                  "the stale ones}, transaction id in {one of the last four issued, never issued}, source in {known remote, unknown "
                  "address}, FINGERPRINT present/absent, with and without PRIORITY / USE-CANDIDATE / role / nomination attributes. "
                  "What that tie sees is bounded by the generator (coverage counters are in the evidence). Trusted and modelled as "
                  "perfect: pion/stun wire decoding and HMAC-SHA1 (integrity verifies iff the key is the expected password). STUN "
                  "classes are a 2-bit field, so `cls >= 4` cannot occur on the wire (proved anyway). Attributes placed after "
                  "MESSAGE-INTEGRITY and the byte order of attributes are outside the model (the abstract message carries decoded "
                  "values). Trusted: Lean kernel (axioms propext/Classical.choice/Quot.sound), the gotolean translator, the harness.",
    "components": [{"component": "agent", "args": "focus=C02", "session_start": "new", "trivial_regex": "^(bad-op.*|ended.*)$", "shrink_s": 40}],
    "rule": "quick: random agent sessions (add candidates, start, ticks, injected STUN (4 classes x 2 methods x username/integrity/transaction/"
            "source variants), data, restart, close) compared with the model after every operation; thorough: more seeds and longer "
            "sessions. Distinct = distinct (operation, output) lines; non-trivial = the operation was executed (not bad-op / ended).",
    "translated": ["canHandleInbound", "responseSymmetric", "netAddrToAddrPort", "portFitsInUint16", "toAddrPortKey", "candidateBase.handleInboundPacket (STUN path)"],
    "trusted_base": ["pion/stun decoding and HMAC-SHA1 are modelled as perfect (integrity verifies iff the key equals the expected password)",
                     "STUN attributes after MESSAGE-INTEGRITY and attribute byte order are outside the abstract message"],
    "assumptions": ["step-level no-op statements assume the quiescence invariant Q (started -> not closed -> forcePending = false), "
                    "proved preserved by every event from every state (C02_quiescent); without it a forced tick requested earlier runs "
                    "at the end of the event (model scheduling of the timer goroutine, witness C02_step_noop_needs_quiescent_witness)",
                    "message fields read by the translated predicates (msg.Type.Method, msg.Type.Class; the three comparisons of "
                    "responseSymmetric and the validity of the recorded source, which sendBindingRequest always sets) are passed "
                    "as parameters (harness/gotolean/spec/T_Agent.json)"],
}
