CFG = {
    "level_text": "Machine-checked Lean 4 theorems over a small-step model of internal/taskloop/taskloop.go written statement for "
                  "statement (loop thread, unboundedly many submitter and closer threads, contexts cancelled at any point, "
                  "select as nondeterministic choice): one inductive invariant (DESIGN D.2 J1-J5) proved for every transition, "
                  "from which mutual exclusion, Run==nil iff the task ran exactly once before the return, Run!=nil iff it never "
                  "ran, no start after any Close returned, onClose exactly once after the last task and before any Close "
                  "returns, follow for ALL reachable states; the event trace of EVERY model execution passes the spec monitor; "
                  "no deadlock unless Run is called from inside a task (witness proved). A finite set of schedules cannot cover "
                  "all interleavings of unboundedly many threads; the induction does. The model is tied to the code by recorded "
                  "histories of the real Loop replayed through the model (tie A), by a source-shape check of taskloop.go, and by "
                  "a static API-guard table (which Agent fields are touched off the loop).",
    "level_note": "Trusted: Lean kernel (axioms propext/Classical.choice/Quot.sound); the reading 'model transition = source "
                  "statement' (checked by recorded histories: testing, bounded by the generator; and by the token-level source "
                  "shape of taskloop.go); Go scheduler fairness, select = nondeterministic choice among ready cases, channels / "
                  "sync.Once / atomics sequentially consistent, tasks and callbacks terminate. The second sentence of the "
                  "property (public API free of data races) is NOT proved in Lean: it rests on the static guard table (syntactic "
                  "walk with go/types; closures stored in variables are not analysed; pointees of immutable pointers are assumed "
                  "internally synchronised) and, in the thorough tier, on a -race hammer of the public API on a live agent. The "
                  "race detector run is supporting evidence, not proof.",
    "technique": "Lean 4 invariant proof over a hand-written transition system; acceptance of recorded concurrent histories (A); "
                 "source-shape detector; static API-guard table; Go race detector (thorough, supporting evidence)",
    "components": [
        {"component": "taskloop", "bin": "taskloop.test", "timeout_quick": 120, "timeout_thorough": 500,
         "trivial_regex": r"^(skip|error.*|bad-op.*|inside)$"},
        {"component": "apiatomic", "bin": "ice.test", "timeout_quick": 120, "timeout_thorough": 400},
        {"component": "apihammer", "bin": "ice.test", "race": True, "tiers": ["thorough"], "timeout_thorough": 400},
    ],
    "rule": "apiatomic scenario midtask: the composite getters queue behind a task parked on the loop; taskloop: 7 source-shape lines, one line per off-loop access of an Agent field (static walk of /repo) and per field "
            "class, then recorded histories of the real Loop: quick 600, thorough 30000 (half inside testing/synctest bubbles with "
            "virtual-time choreography, half under the real scheduler; GOMAXPROCS 1/2/4/16; 0-9 submitters + children, 1-4 "
            "closers; contexts: background / cancelled at a random moment / pre-cancelled / the loop itself; tasks: instant, "
            "yielding, blocked until released, blocked until released or ctx.Done, spawning another Run, re-entrant Run). "
            "Distinct = distinct (history, verdict) lines. apihammer (thorough only, -race build): concurrent public API calls "
            "on live agents with inbound traffic over an in-memory network; a data race report is a violation. apiatomic "
            "(both tiers): k overlapping calls of one public method (Start*, Restart, SetRemoteCredentials, GatherCandidates) "
            "with the loop held busy; the outcome must be that of some sequential order of the whole calls.",
    "translated": [],
    "trusted_base": ["Go scheduler is fair; select chooses nondeterministically among ready cases; channel operations, sync.Once and "
                     "atomics are sequentially consistent; submitted tasks and the onClose/preStop callbacks terminate",
                     "the history recorder's stamps (one atomic counter; stamp-before for calls/cancels/task end, stamp-after for "
                     "returns/task start) give a linearisation the model must accept",
                     "static guard walk: go/parser + go/types with stubbed imports; closures stored or returned are not analysed"],
    "assumptions": ["Run is not called from inside a task (needed for progress only; safety theorems hold without it)"],
}
