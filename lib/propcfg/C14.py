CFG = {
    "level_text": "Machine-checked Lean 4 theorems over an executable model of readStreamingPacket / writeStreamingPacket "
                  "(the two short-read loops, the 16-bit header arithmetic, the capacity check, the error returns, a ghost log of "
                  "every conn.Read): for ALL packet lists, ALL byte streams, ALL segmentations of the stream into Reads (empty "
                  "Reads included), ALL buffer capacities and terminal errors, the results of the reading loop are exactly the "
                  "RFC 4571 frames of the flattened stream (chunking irrelevant; round trip for every length <= 65535 that fits the "
                  "buffer; short buffer, truncation and arbitrary garbage end in exactly one error after the complete packets, with "
                  "no merged, split or fabricated packet; every Read asks for at least one byte and never for more than the missing "
                  "part of the current header/body). The clause 'packets too long for the 16-bit length field are rejected' is FALSE "
                  "on the pinned tree (finding F4): proved as a negation on a witness, with the true behaviour (header = length mod "
                  "2^16) proved as C14_too_long_rejected_partial. A finite test cannot enumerate the segmentations of even one "
                  "8 KiB packet (2^8193); the induction over the segment list does.",
    "level_note": "PARTIAL while F4 is open: C14_too_long_rejected is replaced by _partial + _witness; the strict monitor flags every "
                  "write longer than 65535 (known finding F4). Tie to the source is C (differential correspondence of the "
                  "hand-written model with the real functions and their users through fake net.Conns; exhaustive over the small "
                  "domain stated in 'rule', random beyond it) and T for the two functions themselves: writeStreamingPacket and "
                  "readStreamingPacket are regenerated on every run in effect mode (the too-long test, uint16(len), the one Write, n-2; "
                  "the short-buffer test before any body read, the error returns, the count returned) and proved equal to the model's "
                  "write / readPacket for every packet, segmentation and capacity (C14_code_write, C14_code_read); the two short-read "
                  "loops of the reader are cut out as effects whose exact source text is pinned by the spec (an edit inside them is a "
                  "translation failure) and whose behaviour is the model's `fill`, tied by C only; the users of the two functions "
                  "(tcpPacketConn, handleConn, activeTCPConn) are tied by C only. "
                  "Modelled, not verified: net.Conn (Read returns min(len p, head segment) bytes and data and error never together, "
                  "as TCP does; a conn that returns (n>0, io.EOF) would lose the last packet in the code and is outside the model; a "
                  "Read returning (0, nil) is modelled for finitely many occurrences, (0, nil) forever would spin and is excluded); "
                  "conn.Write accepts the whole buffer or fails (io.Writer contract); Go slices/copy/encoding/binary; "
                  "packetio.Buffer, the STUN decoder and the goroutines/channels of tcpPacketConn, handleConn, activeTCPConn "
                  "(observed only through delivered packet sequences; activeTCPConn runs over a real loopback socket where the "
                  "kernel chooses the segmentation); users are driven with len(b) = cap(b) read buffers. Panic-freedom is by "
                  "correspondence (PANIC output lines), the model itself is total. Trusted: Lean kernel (propext, "
                  "Classical.choice, Quot.sound), the harness (fake conns, canonicaliser: packets above 8 bytes are compared by "
                  "length + FNV-1a digest, read logs above 64 entries by count + digest + maximum) and the driver.",
    "components": [{"component": "frame", "trivial_regex": r"^(skip|bad-op.*)$"}],
    "exhaustive_quick": True,
    "exhaustive_thorough": True,
    "rule": "tcpPacketConn.ReadFrom with caller buffers len <= cap around the packet length (op tpcbuf; found F35); activeTCPConn driven in both directions; EXHAUSTIVE part (the 'exhaustive' flag refers to this finite domain only): every sequence of <= 3 packets with lengths in "
            "{0,1,2,3} (payload symbols 00/01 so that payloads look like headers) x every segmentation of the resulting stream into "
            "non-empty Reads x capacities {1,3} (quick; plus every prefix of the stream for <= 2 packets, plus <= 2 packets of lengths "
            "{0,1,2}, capacity 2, x every segmentation x every placement of (0,nil) Reads in front of a segment) / capacities {0..4} x "
            "every prefix of every stream, <= 4 packets of lengths {0,1,2} with capacity 2, <= 2 packets of lengths {0..3} x every "
            "prefix x every segmentation x every placement of (0,nil) Reads with capacity 3 (thorough). "
            "RANDOM part (seeded): writer lengths at 0,1,2,3,255..257,511..513,8191..8193,65534,65535,65536,65537,70000,131071,131072,"
            "200000 + random, healthy and failing conn and through tcpPacketConn.WriteTo; reader streams of 0..5 frames with lengths "
            "biased to the boundaries (max 65535), hostile tails (header announcing more than follows, 0xffff, raw garbage), "
            "truncation points biased to the last 1..4 bytes, capacities 0..65535 biased to length-1/length/length+1, len(buf) < "
            "cap(buf), segmentations {1-byte, fully coalesced, split inside the header, header+1, (0,nil) Reads interleaved, MSS, "
            "random}; arbitrary garbage streams; users: tcpPacketConn (AddConn/startReading/ReadFrom), TCPMuxDefault.handleConn "
            "(first frame of 36..1000 bytes around the 512-byte buffer, then startReading), activeTCPConn over loopback. "
            "quick ~ 2.4e5 lines, thorough ~ 1.9e6. Distinct = distinct (operation, output) lines; non-trivial = not skip/bad-op.",
    "translated": ["writeStreamingPacket", "readStreamingPacket"],
    "trusted_base": ["net.Conn semantics of the fake connection (segments, terminal error; data and error never in the same Read)",
                     "canonicaliser: FNV-1a digests for packets > 8 bytes and for read logs > 64 entries",
                     "kernel TCP loopback for the activeTCPConn runs (segmentation not controlled, result must not depend on it)"],
    "assumptions": ["io.Reader never returns (0, nil) forever; conn.Write writes the whole buffer or returns an error",
                    "callers pass read buffers with len = cap (tcpPacketConn.ReadFrom compares with cap(b), see notes/C14.md S6)"],
}
