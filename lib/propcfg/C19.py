CFG = {
    "level_text": "Machine-checked Lean 4 theorems over an executable model of external_ip_mapper.go (rule compilation, lookup loop, "
                  "catchAllSpecificity), of the legacy NAT1To1IPs validation, of the option sanitizer and of the four places in gather.go that "
                  "apply a lookup result. For ALL rule lists (any length) and ALL keys: the lookup equals the documented precedence read with "
                  "one explicitly marked as-coded clause (C19_lookup_as_coded: the F3 rank); it equals the documentation itself outside one decidable, "
                  "exactly characterised region (C19_lookup_is_documented_partial; F3 interface-key rank; the second region, F15 starved catch-all, went with the fix /repo d6a4f83), and the "
                  "negation of the full statement is proved on a concrete witness; modes, family separation and validation are proved in full. "
                  "A table of hand-written rule sets cannot cover order x specificity x family x mode for unbounded lists; the theorems do.",
    "level_note": "Tie to the code: differential correspondence of the model with the real newAddressRewriteMapper / findExternalIPs / "
                  "applyHostAddressRewrite / applyHostRewriteForUDPMux / resolveSrflxAddresses / resolveRelayAddresses / "
                  "validateLegacyNAT1To1IPs / legacyNAT1To1Rules / WithAddressRewriteRules (zero mismatches required), plus translation of "
                  "catchAllSpecificity, defaultAddressRewriteMode, isFamilyAllowed, hasMappings, NetworkType.IsIPv4/IsIPv6, ruleMappingForLookup, "
                  "mappingForFamily, shouldReplace, hasCandidateType, maybeMarkEmptyMapping and one iteration of addExternalMappings (family "
                  "targeting) proved equal to the model for all arguments. The correspondence is a sample (see rule), not a proof that the model is the code. Trusted: Lean "
                  "kernel, the harness' rendering of abstract addresses as IP literals, net.ParseIP/ParseCIDR/IPNet.Contains behaving as "
                  "prefix arithmetic. Known findings on the unchanged tree: F3 (F15 fixed in /repo d6a4f83, F16 in 446b13f).",
    "components": [{"component": "rewrite", "session_start": "new", "trivial_regex": r"^(bad-op.*|nomapper)$"}],
    "exhaustive_quick": False,
    "exhaustive_thorough": False,
    "rule": "NOT exhaustive over the stated pools (the full product is ~4e4 single rules, ~1.4e9 pairs). quick: hand-picked boundary "
            "sessions (F3 witness, the former F15 witness and starved rules — externals all of a family excluded by Networks — of 4 types x 3 modes x {-, Iface} x 4 shapes alone / before / after a global rule / beside the empty rule, direct and through the option (768 rule sets), doc-comment layering, empty lists, nil mapper, IPv4-mapped text; through the public option every empty-External rule of 4 types x 3 modes x {-, Local} x {-, CIDR} x {-, Iface} x 4 network lists alone / before / after a global rule (1152 rule sets) and the same scopes with an External list of blank entries only (768 rule sets)); every 11th rule of the complete "
            "single-rule product (4 types x 3 modes x 3 ifaces x 5 CIDRs x 7 locals x 6 network lists x 5 external lists = 37800) x the whole "
            "key grid (3 types x 6 addresses x 3 ifaces); EVERY ordered pair of a reduced host-rule pool (2 ifaces x 3 CIDRs x 2 locals x "
            "3 network lists x 4 external kinds x 2 modes = 288 rules, 82944 pairs) x 12 keys; 1200 random lists of length 4-6 (1/8: 0-3) over "
            "the full pools, 1/6 through the public option, each with 18 lookups and 4 apply ops; an invalid-rule stream (6 unparsable strings x "
            "{external, second external, Local, CIDR}, blank strings, prefix length > width, Local outside CIDR / other family, prflx, unknown "
            "network types, unknown mode, unknown candidate type) x positions in lists of 1-3 rules x {direct, option}; every legacy NAT1To1IPs "
            "list of length <= 2 over 16 entry shapes x 5 candidate types + 300 random longer ones. thorough: the complete single-rule product x "
            "key grid; additionally every ordered pair of a 144-rule IPv6 pool; every ordered triple of a 32-rule pool and of a "
            "96-rule pool (884736 triples) x 6 keys; 25000 random lists; legacy lists of length <= 3. Distinct = distinct (operation, output) lines; "
            "non-trivial = output is not bad-op/nomapper.",
    "translated": ["catchAllSpecificity", "defaultAddressRewriteMode", "addressRewriteRuleMapping.isFamilyAllowed",
                   "addressRewriteRuleMapping.hasMappings", "NetworkType.IsIPv4", "NetworkType.IsIPv6",
                   "ruleMappingForLookup", "addressRewriteRuleMapping.mappingForFamily", "addressRewriteMapper.shouldReplace",
                   "addressRewriteMapper.hasCandidateType", "maybeMarkEmptyMapping", "addExternalMappings (one iteration)"],
    "trusted_base": ["abstract addresses (family, number) are rendered as IP literals and parsed back by the harness (vRwStr/vRwTok)",
                     "net.ParseIP / net.ParseCIDR / IPNet.Contains are modelled as canonicalisation + prefix arithmetic, not verified",
                     "strings.TrimSpace effects are modelled only as 'blank' tokens (whitespace-only strings)"],
    "assumptions": ["rule fields are the pointer/receiver fields read by the translated functions (atoms in harness/gotolean/spec/T_Rewrite.json)",
                    "IPv4-mapped IPv6 literals are IPv4 addresses (as for the Go code); CIDRs with an IPv4-mapped IPv6 base are outside the model",
                    "NetworkType / CandidateType / Mode values outside their enums are modelled as the code treats them, but the documentation is "
                    "taken to be silent about them (outsideDomain)"],
}
