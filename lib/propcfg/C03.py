CFG = {
    "level_text": "Machine-checked Lean 4 theorems over the executable agent model (IceModel.AgentCore.step), for EVERY state "
                  "reachable by an arbitrary event list from an initial agent with arbitrary configuration (induction over "
                  "histories; the peer is an arbitrary source of STUN messages): invariant Inv3 (valid pair => authenticated "
                  "transaction-matched response; deferred mark => authenticated nomination; the selected pair is listed, valid, "
                  "nominated and carries the nomination proof), a pair that BECOMES selected on a full agent has its own response "
                  "and the nomination proof of the agent's role, USE-CANDIDATE requests always carry ICE-CONTROLLING, a plain "
                  "USE-CANDIDATE never moves the selection to a lower-priority pair (agents with the priority check), a lite "
                  "controlled agent selects on an authenticated nomination without a check of its own and never emits a Binding "
                  "request. A check of its own (after the fix of F17: a pending transaction records the local address its request "
                  "left from and a response is accepted only on that address): the only step that validates a pair is an "
                  "authenticated success response whose consumed pending entry was sent from the pair's local to the pair's "
                  "remote address (C03_validated_by_own_check, any state, any event), and along every history from a fresh "
                  "agent every pair with a matched response had a Binding request emitted from its own local to its own remote "
                  "address (C03_validated_by_own_check_inv; the log is the list of request datagrams in the step outputs, no "
                  "ghost field). The switch rule (shouldSwitchSelectedPair), needsToCheckPriorityOnNominated and "
                  "shouldAcceptNomination are REGENERATED from selection.go/agent.go on every run and proved equal, for all "
                  "arguments, to the model's decisions. The model itself is tied to the code by the differential correspondence "
                  "of component `agent` (real agent under testing/synctest vs model, op by op).",
    "level_note": "Trusted: Lean kernel (axioms propext/Classical.choice/Quot.sound), the gotolean translator and its atom table, "
                  "the harness. The theorems are about the model; model = code is established by differential execution "
                  "(bounded by the generator), except for the translated decision functions (all inputs: shouldSwitchSelectedPair, "
                  "needsToCheckPriorityOnNominated, shouldAcceptNomination, controllingSelector.isNominatable; ContactCandidates of both "
                  "selectors and controllingSelector.HandleBindingRequest as whole functions in effect mode). pion/stun "
                  "decoding and HMAC are modelled as perfect (integrity verifies iff the key is the expected password; "
                  "`authenticated`/`transaction-matched` ghost flags are set exactly after those checks). Not modelled: the "
                  "application binding-request handler (the property is stated for agents without one), TCP candidates, mDNS. "
                  "Automatic renomination IS modelled (C20): the monitor clause 'a controlled agent never sends USE-CANDIDATE' is judged on "
                  "every REQ datagram with the sender's role in the digests before and after the operation, also while the peer "
                  "renominates automatically. The deferred-switch condition of controlledSelector.HandleSuccessResponse is translated as "
                  "a whole function in effect mode; its tie theorems are obligations of C20 (C20_code_controlled_success_response).",
    "components": [{"component": "agent", "args": "focus=C03", "session_start": "new", "trivial_regex": "^(bad-op.*|ended.*)$", "shrink_s": 40},
                   # the gather component of C18/C09, restricted to its block of candidate kinds (host from the interface table, host on
                   # the UDP / TCP mux, server reflexive, relay; mDNS name on / off): every local candidate the agent has started knows its
                   # own transport address (IceSpec.C03Gather.addrViolation) - "a check of its own" needs requests that record the
                   # candidate they left from (F34: a UDP-mux host candidate under the mDNS name had no address, responseSymmetric
                   # skipped its source test)
                   {"component": "gather", "session_start": "new", "args": "addrkinds", "trivial_regex": r"^(bad-op.*|r=err:.*)$",
                    "timeout_quick": 300, "timeout_thorough": 900, "shrink_s": 40}],
    "rule": "quick/thorough: the `agent` component generator (random sessions of two-role, full/lite agents with early, repeated "
            "and out-of-order USE-CANDIDATE, equal and adjacent pair priorities, role conflicts, prflx discovery, restarts); "
            "every op's canonical digest (selected pair, pair states, datagrams emitted) is diffed against the model. "
            "gather (args addrkinds): 20 configurations (every kind of local candidate: host from the interface table, host on the UDP mux "
            "with IPv4 / IPv6 / link-local / loopback / several listen addresses, TCP mux, server reflexive own socket / mux / rewrite, relay) "
            "x mDNS name on / off x a reply script with Restart and Close: every candidate's digest carries whether it knows its own transport "
            "address; judged by IceSpec.C03Gather.addrViolation and compared with IceModel.Gather.",
    "translated": ["controlledSelector.shouldSwitchSelectedPair", "Agent.needsToCheckPriorityOnNominated",
                   "controlledSelector.shouldAcceptNomination", "controllingSelector.isNominatable",
                   "controllingSelector.ContactCandidates", "controlledSelector.ContactCandidates",
                   "controllingSelector.HandleBindingRequest", "netAddrToAddrPort", "portFitsInUint16"],
    "trusted_base": ["HMAC / pion/stun message decoding modelled as perfect",
                     "agent model tied to code by differential correspondence (component agent), not by proof"],
    "assumptions": ["no application binding-request handler (as the property states)", "UDP candidates only; mDNS disabled",
                    "receiver fields read by the translated functions are passed as parameters (harness/gotolean/spec/T_Agent.json)"],
}
