CFG = {
    "level_text": "Machine-checked Lean 4 theorems over the executable agent model (IceModel.AgentCore.step, IceModel.Sys2), for ALL "
                  "agent states and ALL event histories / hub schedules: (write) Conn.Write / WriteToPair refuse when closed or when the "
                  "payload is STUN-like, otherwise send exactly one datagram from the selected pair's local address to its remote "
                  "address with the same length, before selection on bestValid = the first succeeded pair of highest priority "
                  "(characterisation of the loop proved), with no succeeded pair err:nopairs and nothing emitted; (read) an inbound "
                  "payload is queued for the reader iff it is not STUN-like and its source is the address of a CURRENT remote candidate "
                  "of the receiving candidate's network type (cache invariant proved along all histories incl. prflx supersession, "
                  "Restart, Failed, Close), otherwise the whole state is unchanged; the STUN path and every other event leave the reader "
                  "queue alone; reads are FIFO and consume one whole datagram whatever the size of the caller's buffer (buffer >= "
                  "datagram: read:n, +n bytes; shorter: short:cap = io.ErrShortBuffer, +cap bytes; for EVERY agent state and buffer "
                  "size the received-bytes counter moves by exactly the byte count the call reports); (counters) per-event change of connBytesSent/connBytesRecv and of every pair's "
                  "pktSent/bytesSent/pktRecv/bytesRecv, folded over histories and over any segment during which one pair stays selected; "
                  "(two agents) each deliver/dup of a hub datagram hands the payload to the owner's reader exactly once iff the owner "
                  "knows a remote candidate at the NAT-mapped source on that transport, drop/blocked/unowned change no agent. "
                  "The model is tied to the Go code by differential correspondence (component agent).",
    "level_note": "T tie for candidateBase.handleInboundPacket (regenerated in effect mode: STUN path without cache probe, unknown "
                  "source dropped, the pair credited only after a successful buf.Write with the bytes queued; C07_code_handleInboundPacket). "
                  "Payloads are modelled by their length plus a stunLike flag (stun.IsMessage: length >= 20 and magic cookie at bytes "
                  "4..8); the model never touches payload contents, so 'arrives unmodified' holds BY CONSTRUCTION of the model and is "
                  "covered for the code only by the correspondence run (the harness compares lengths, not bytes). packetio.Buffer is "
                  "modelled as a FIFO of lengths with the real bound (1 000 000 bytes, 2 per datagram included: a payload that does not "
                  "fit is dropped after the source check and before any counter moves); its contents are trusted; its short-read behaviour "
                  "(min(len, cap) bytes + io.ErrShortBuffer, datagram consumed, cap 0 included) is modelled and compared. "
                  "Conn.WriteToPair does not add to Conn.BytesSent in the code nor in the model (the property text speaks of Write only). "
                  "Trusted: Lean kernel (axioms propext/Classical.choice/Quot.sound), the model-to-code tie = differential correspondence "
                  "of component `agent` (real Agent under testing/synctest vs IceModel.Sys2 on generated schedules; it sends payloads of "
                  "sizes 0..8000 with and without STUN-like prefixes from known / unknown / other-transport sources, before and after "
                  "selection, across re-selection and Restart), the harness and the line protocol. Perfect HMAC as in C02.",
    "components": [{"component": "agent", "args": "focus=C07", "session_start": "new", "trivial_regex": "^(bad-op.*|ended.*)$", "shrink_s": 40}],
    "rule": "quick: the agent generator's default budget of two-agent sessions (ticks, deliveries, drops, duplicates, data writes "
            "0..8000 bytes with/without STUN-like prefix, injected data from known/unknown/other-transport sources, reads, restart, "
            "close; reads mostly into a receiveMTU buffer, a minority into buffers of exactly / one less than / half a recent "
            "datagram's size, 1, 0 and 65536 bytes; up to 6 receive-buffer floods per run — payloads just below / at / above the 1 MB bound with a stalled reader, in one go or with reads in between, then drained; corpus/C07/agent.ops is replayed first); thorough: larger budget. Distinct = distinct (operation, output) lines; non-trivial = not bad-op / ended.",
    "translated": ["candidateBase.handleInboundPacket"],
    "trusted_base": ["packetio.Buffer (bounded FIFO of byte slices) is modelled as a FIFO of lengths with the same byte bound",
                     "payload bytes are not modelled: byte identity of delivered payloads is by construction of the model",
                     "stun.IsMessage is modelled by the stunLike flag carried by the event"],
    "assumptions": ["history theorems start from an initial agent (no candidates, pairs, caches, queue; counters 0) as built by the driver's `new`"],
}
