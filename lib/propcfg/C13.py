CFG = {
    "level_text": "Machine-checked Lean 4 theorems over two hand-written models of the code that exists. (1) sharedPacketConn "
                  "(reference-counted handles): for any number of handles and any operation sequence the underlying Close is "
                  "called exactly once, at the last distinct handle's close; closing a handle fails its own parked and later I/O "
                  "and makes no sibling operation fail (reads, writes, the three deadline setters: same result, or a write that "
                  "timed out under the closing handle's deadline succeeds now); the same for the abortIO sequence on one handle "
                  "(SetDeadline(now), abortWrite, Close) for both kinds of underlying connection (udpMuxedConn ignoring, "
                  "tcpPacketConn honouring a forwarded write deadline); invariant: the shared write-deadline register is armed only "
                  "while an OPEN handle holds it (fix F33). (2) the lock-free writeState protocol of udp_mux.go as a concurrent "
                  "program with ANY number of writer and aborter threads, one transition per atomic step, all interleavings and "
                  "environment choices: inductive invariant I1-I8 (count = #writers in flight; one epoch owner; one clearing "
                  "writer; deadline register armed => blocked), hence at quiescence writeState = 0, the socket deadline is zero "
                  "and a probe write succeeds; progress (no state in which only spinning is possible); the failure branch of "
                  "abortWrite in isolation. The deadline/count/epoch theorems hold only when SetWriteDeadline(now) does not fail "
                  "(_partial); the negation of the full statements is proved on the F11 schedule, which the harness replays on "
                  "the real mux. Tests pin single interleavings; the invariant covers all of them.",
    "level_note": "Trusted: Lean kernel (propext/Classical.choice/Quot.sound); the hand-written models (tied by correspondence, not "
                  "by translation: C for the handles — fake, UDPMuxDefault.GetConn and TCPMuxDefault.GetConnByUfrag handles —, A for "
                  "write abort — membership of recorded external histories of the real UDPMuxDefault in the model's observable "
                  "language plus the in-package writeState at quiescence); sync/atomic sequentially consistent; one loop iteration "
                  "with a successful CAS = one atomic step (failed CAS = stutter); OS deadline semantics replaced by the scripted "
                  "socket (write blocks until released - successfully or with an error - or deadline set to now, or fails at "
                  "once with a non-deadline error; an armed deadline fails writes; SetWriteDeadline(zero) does not fail); the "
                  "scripted socket is used both as a plain net.PacketConn and as an AddrPortReaderWriter (the interface "
                  "asAddrPortReaderWriter accepts besides the concrete *net.UDPConn), so both write paths of the mux "
                  "(writeToContext and writeToUDPAddrPort) run against the one model; a real *net.UDPConn is not exercised. T tie of the six CAS functions of the write-abort protocol "
                  "(startWriteContext, finishWrite, abortWrite, setWriteDeadlineArmed, clearWriteDeadlineAfterAbort, clearWriteAbortState): ONE "
                  "iteration of each load/test/CAS loop is regenerated on every run (loop mode of the translator) and proved, for every count "
                  "below 2^62 and both flag bits, to take the model's branch and to CAS in / store the word of the model's successor state "
                  "(C13_code_state_word, C13_code_iterations, C13_code_writer_steps, C13_code_aborter_steps); that the loops retry until a "
                  "CAS succeeds, and the callers writeToContext / writeToUDPAddrPort, are tied by A only.",
    "components": [
        {"component": "shared", "require_stats": {"shared.ops.abort_with_open_sibling": 10, "shared.ops.write_through_WriteToAddrPort": 5, "shared.sessions.refusing_connection_boundary": 5}, "session_start": "new", "trivial_regex": r"^(skip|bad-.*)$", "shrink_s": 30},
        {"component": "writeabort", "require_stats": {"writeabort.ev.socket_WriteToAddrPort": 50, "writeabort.shape.both_write_paths_in_one_run": 20, "writeabort.hist.with_arming": 50}, "trivial_regex": r"^(bad-.*)$", "timeout_quick": 300, "timeout_thorough": 1500, "shrink_s": 5},
    ],
    "rule": "shared: boundary sessions (incl. 10 per kind with SetReadDeadline/SetWriteDeadline/SetDeadline past|zero and the abortIO "
            "sequence on one handle while siblings stay open) + random sessions (quick 240, thorough 28000) of "
            "open/close/abort/read/write/writeap/setrd/setwd/setd/feed over "
            "<= 8 handles for each of fake / UDP mux / TCP mux / UDP mux over an AddrPort-capable socket (sharedAddrPortConn handles) "
            "/ TCP mux packet conn with 2..8 scripted net.Conns any of which may refuse SetWriteDeadline (18 boundary sessions that "
            "write to every connection after the arming handle went away) underlying connections; distinct = distinct (operation, output) lines. "
            "writeabort: 30 deterministic schedules built from the scripted socket (10 over a plain socket / the net.Addr write path; "
            "20 over an AddrPort-capable socket or mixing both write paths or socket-call windows: a write that fails with a non-deadline error followed "
            "by an abort of the other user and writes by everybody, a failing write beside a blocked one, a blocked write released "
            "with an error, aborted / cancelled / spinning writers on the AddrPort path; a write of another user started while the last aborted "
            "writer is inside SetWriteDeadline(zero)) + the F11 schedule (retried until reached) + "
            "randomised concurrent runs (quick 1500, thorough 60000; 2/3 of them on an AddrPort-capable socket; 1-5 writers with "
            "background/cancellable contexts directly or through handles of two ufrags, non-cancellable ones over the net.Addr or the "
            "netip.AddrPort path, socket outcomes ok / error / blocks until deadline or released, 0-3 aborters, scripted "
            "SetWriteDeadline(now) failures in half of the runs, GOMAXPROCS in {1,2,NCPU}); every quiescent state is probed by a "
            "net.Addr write of one user and an AddrPort write of the other; one history per line; non-trivial = every recorded history.",
    "translated": ["UDPMuxDefault.startWriteContext", "UDPMuxDefault.finishWrite", "UDPMuxDefault.abortWrite",
                   "UDPMuxDefault.setWriteDeadlineArmed", "UDPMuxDefault.clearWriteDeadlineAfterAbort",
                   "UDPMuxDefault.clearWriteAbortState"],
    "trusted_base": ["sync/atomic operations are sequentially consistent (Go memory model)",
                     "OS socket deadline semantics are those of the scripted socket (harness/inpkg/zz_verif_writeabort_test.go)",
                     "load+CAS loop iteration modelled as one atomic step at the CAS (failed CAS = stutter)"],
    "assumptions": ["C13_*_partial: SetWriteDeadline(time.Now()) does not fail (excluded point = finding F11, witness theorems + replay)",
                    "a write deadline held by a still-open handle is shared with its siblings by design (observation statistic, not a "
                    "violation); a connection that has refused a deadline call is not healthy (its own writes may fail)",
                    "C13_refcount: no handle is requested for an underlying connection that is already closed (muxes create a new one)",
                    "SetWriteDeadline(time.Time{}) does not fail; fewer than 2^62 concurrent writers"],
}
