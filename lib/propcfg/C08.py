CFG = {
    "level_text": "Machine-checked Lean 4 theorems over a concurrent small-step model of shutdown (loop thread, any number of API / "
                  "gather / checker threads, candidate receive loops, notifier drainers running re-entrant or closing handlers, plain and "
                  "graceful closers; sockets that block until aborted): an inductive invariant over ALL reachable states of ALL "
                  "interleavings gives no-deadlock while a Close is pending, a natural-number measure that strictly decreases on EVERY "
                  "transition once `done` is closed (so every execution is finite and every Close returns), and the state after Close "
                  "(loop, receive loops, gather cycle gone; blocked calls return the closed error; Closed last; no task ever runs again). "
                  "Tests fix one blocking point and one schedule; the theorems quantify over all of them.",
    "level_note": "T tie for the order of effects of the task loop's onClose function (Closed is set last), candidateBase.abortIO "
                  "and close (C08_code_onClose, C08_code_candidate_close: regenerated in effect mode on every run). "
                  "Trusted: Lean kernel; the hand-written model CloseSys (statement-for-statement, file:line beside every transition) and "
                  "its three modelling facts R1 (Go select parks only when no case is ready), M1, M2; Go scheduler fairness; "
                  "testing/synctest semantics (virtual clock, durable blocking, bubble-exit census); mutex deadlocks are visible only "
                  "through the wall-clock watchdog.  Tie A: real agents under synctest, Close injected at every position; the driver "
                  "replays every session on the model (every transition validated by `step`) and compares quiescent states.",
    "components": [{"component": "close", "session_start": "new", "timeout_quick": 120, "timeout_thorough": 900, "shrink_s": 40,
                    "trivial_regex": r"^(skip|error|bad-op.*)$"},
                   {"component": "atcclose", "timeout_quick": 60, "timeout_thorough": 300, "trivial_regex": r"^(skip|bad-op.*)$"}],
    "rule": "component atcclose: a real loopback activeTCPConn with a reader parked like the candidate's receive loop, Close in the states alive / peer reset + failed local write / failed dial / before the dial completed must release it; quick: 10 + 8 hand-written boundary sessions + 8 generated base sequences x every 3rd injection position x 6 closing variants "
            "(API goroutine, graceful, from a handler, concurrent, repeated, handler+API); thorough: 150 base sequences x EVERY position. "
            "ICE-TCP: a REAL TCPMuxDefault (fake listener, ReadBufferSize 1..2), passive TCP host candidate, a client that sends more "
            "framed packets than the queue holds while the agent is not started / its loop is stuck, Close at every 2nd (thorough: every) "
            "position (quick 8, thorough 200 base sequences). Socket fault profiles: {blocked write released by deadline | Close | either | "
            "environment only} x {blocked read released by deadline | Close | either} x {Close instant | slow | fails | slow+fails} = 48 "
            "profiles, each with a Conn.Write parked in the socket when Close is called (and at one more / thorough: every position); the "
            "written-bytes result is checked. Sessions with a slow socket Close, environment-only writes or the TCP mux (ids m...) are judged "
            "by the spec monitor only (outside the model's assumptions). "
            "Relay gathering against a STALLED TURN server (fake transport.Net, real pion/turn client, crypto/tls, pion/dtls): turn: over udp "
            "(allocation unanswered), turn: over tcp (connected at once / late, allocation unanswered; dial fails late), turns: over tcp "
            "(ClientHello swallowed, at once / after a late connect; dial fails late), turns: over udp (DTLS ClientHello swallowed); "
            "Close / GracefulClose / concurrent / repeated / from a handler at every 2nd (thorough: every) position, 2 (thorough: 25) rounds "
            "x 8 flavour-stage pairs. Last op `coverage`: the run must have reached Connected agents, a parked Conn.Write, a full TCP queue "
            "and a stalled TURN connection at least once. "
            "Evaluation = one operation of a session (real agents, virtual time); non-trivial = every line (each carries events and a digest).",
    "translated": ["newAgentWithConfig (onClose function of the task loop)", "candidateBase.abortIO", "candidateBase.close"],
    "trusted_base": ["model CloseSys written by hand against agent.go / taskloop.go / candidate_base.go / agent_handlers.go / transport.go (no generated tie; "
                     "the behavioural tie is the replay of real executions on the model)",
                     "Go runtime: fair scheduler; select semantics R1; testing/synctest (go1.26.8)"],
    "assumptions": ["GracefulClose is not called synchronously from a handler (documented contract, agent.go:1509-1511); the excluded case is "
                    "proved to deadlock (C08_graceful_in_handler_witness) and the harness can replay it on the real code",
                    "socket Close / SetDeadline / abortWrite do not block (M2; the harness also runs sockets whose Close is slow — monitor only); "
                    "finitely many datagrams arrive while closing (E)",
                    "a write blocked in a socket is released by the deadline, by Close, or eventually by the environment (a write that "
                    "nothing ever releases makes Close wait forever: not generated)",
                    "transport.Net.DialTCP / proxy Dial towards a TURN server return within the bound (they take no context: Close waits "
                    "for them — candidate finding F-C08-dial, notes/C08.md §10; dials beyond the bound are not generated)"],
}
