CFG = {
    "level_text": "Machine-checked Lean 4 theorems about the executable model of one ICE agent (IceModel.AgentCore, "
                  "step : Agent -> Ev -> Agent x outputs): one bookkeeping invariant Inv is proved for EVERY state reachable "
                  "from a fresh agent by ANY list of events (induction over event lists; every handler is decomposed into "
                  "atomic bookkeeping transitions and each transition is shown to preserve Inv). Inv gives: pair ids pairwise "
                  "distinct, already handed out and never reused; candidate identities distinct; both ends of every listed pair "
                  "are current candidates of one network type; the selected pair is listed; remote candidates pairwise "
                  "non-Equal, none rejected by the remote IP filter (discovered peer-reflexive ones included) and none with tcptype "
                  "active (the public AddRemoteCandidate drops them, a discovery carries no tcptype); caches "
                  "reference current candidates. Further theorems: a pair id keeps addressing the same local candidate and the "
                  "same remote transport address across every event, peer-reflexive supersession included; addRemoteCandidate "
                  "keeps id/state/flags/counters/priority value of every pair and the selection; Restart and every transition "
                  "into Failed leave no pairs, candidates, selection, pending transactions or caches. The clause 'no (local, "
                  "remote) pair is listed twice' is FALSE for model and code (C06_dup_pair_witness; replayed on the real agent "
                  "in corpus/C06/agent.ops): it is proved for all histories that do not signal a peer-reflexive candidate "
                  "with a non-empty related address (C06_no_dup_pair_partial). Candidates carry the literal form of their address "
                  "(canonical / IPv4-mapped or expanded): an inbound message from the canonical address of a listed remote candidate "
                  "never adds a remote candidate whatever literal it was signalled with (C06_known_source_no_new_remote), remote "
                  "candidates are pairwise different as canonical candidates (C06_remotes_dedup_canonical) and a new signalled "
                  "candidate supersedes every peer-reflexive candidate at its canonical transport address (C06_prflx_superseded) — "
                  "full strength since the fix of FORMS-1/2 (/repo 2a786b2, transportAddressEqual compares canonical addresses; "
                  "notes/C06-forms.md).",
    "level_note": "The theorems are about the model; the model is tied to agent.go/selection.go by the differential "
                  "correspondence of component `agent` (real agents under testing/synctest vs. the compiled model, every "
                  "operation's full canonical state compared), so a change of the code that breaks a clause shows up as a "
                  "MISMATCH there, not as a failing Lean proof; EXCEPT for AddRemoteCandidate (the tcptype-active / mDNS gate), addRemoteCandidate "
                  "(filter and duplicate exits, prflx supersession call, passive-TCP dialling condition, the pairing rule for passive remotes) and "
                  "transportAddressEqual / Equal, which are regenerated from the Go source on every run (effect mode) and proved equal to the "
                  "model's decisions for all arguments (C06_code_*). Trusted: Lean kernel (axioms propext/Classical.choice/"
                  "Quot.sound), the harness and its canonical digest, pion/stun decoding and HMAC modelled as perfect. Not "
                  "modelled: mDNS candidates, active TCP dialling (addRemotePassiveTCPCandidate creates nothing for the interface-less "
                  "harness agents; TCP candidates of every tcptype ARE modelled, local ones ride on the in-memory hub), "
                  "gathering. Candidate identity (Go pointer) is a model-assigned uid. After Close the model and "
                  "the code keep the checklist while the candidate lists are emptied: the pair-ends clause is stated for "
                  "agents that are not closed. Not in the property text: the controlling selector's nominatedPair may dangle "
                  "after Failed until Restart (proved never to be read in that situation).",
    "components": [{"component": "agent", "args": "focus=C06", "session_start": "new", "trivial_regex": "^(bad-op.*|ended.*)$", "shrink_s": 40}],
    "rule": "quick: the session generator of component `agent` (boundary configurations first, then random interleavings of "
            "local arrival, remote trickle with duplicates, prflx-then-signalled and signalled-then-prflx, inbound checks from "
            "unknown sources, filter, restart, failure, close; in half of the sessions a third of the signalled remote candidates "
            "use a non-canonical address literal: the same address in both forms, before and after a prflx discovery; a third of the sessions mix udp and tcp candidates: local TCP candidates of every tcptype, the same ip:port over both transports, remote candidates signalled active / passive / so / without tcptype, duplicates differing in the tcptype only, checks and payload from TCP sources); corpus/C06/agent.ops (duplicate-pair witness, double "
            "supersession) is replayed first. Distinct = distinct (operation, output) lines; non-trivial = the output is a "
            "full agent state digest (not bad-op / ended).",
    "translated": ["Agent.AddRemoteCandidate", "Agent.addRemoteCandidate", "candidateBase.transportAddressEqual",
                   "candidateBase.Equal", "Agent.Restart (task body)"],
    "trusted_base": ["STUN decoding and MESSAGE-INTEGRITY are modelled as perfect",
                     "the harness digest prints checklist, candidate lists, selection, pending count after every operation"],
    "assumptions": ["theorems quantify over all event lists from a fresh agent (Init: empty checklist, candidate lists, caches; "
                    "nothing selected or nominated; configuration, credentials, role and counters arbitrary)",
                    "C06_no_dup_pair_partial: no addRemote event carries a peer-reflexive candidate with a non-empty related address (evOK)"],
    "technique": "invariant + induction over event lists; handlers as chains of atomic transitions",
}
