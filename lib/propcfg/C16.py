_TRIV = r"^(skip|error|bad-op.*|err:.*|build-err:.*|side-err|enc-err:.*)$"
CFG = {
    "level_text": "Machine-checked Lean 4 theorems over an executable byte-level model of Marshal / UnmarshalCandidate (token by token, "
                  "with Go's digit limits and uint16/uint32 conversions), the four constructors, Equal / DeepEqual / extensionsEqual and the "
                  "six STUN attribute codecs: for EVERY well-formed candidate (explicit decidable WF) parse(marshal c) succeeds, has the same ten "
                  "getters and is Equal and DeepEqual both ways; every candidate a constructor builds from in-range arguments is WF; whatever the "
                  "parser accepts satisfies WF's core and, if representable, re-marshals to an Equal candidate (the unrestricted statement is "
                  "REFUTED by two machine-checked witnesses, see known findings C16-N3); Equal and DeepEqual are reflexive, symmetric and TRANSITIVE and "
                  "DeepEqual implies Equal for ALL candidates and every behaviour of netip (extensionsEqual = multiset equality; sameAddressLiteral "
                  "= 'identical strings or both IP literals with one canonicalAddr' is proved an equivalence relation although written asymmetrically); "
                  "Equal is characterised field by field (C16_equal_iff) and two literals of one canonical IP in the same constructor call give "
                  "Equal and DeepEqual candidates (C16_equal_literal_forms), both under the explicit law EnvLaw; every attribute codec decodes what it encoded "
                  "and rejects exactly the wrong sizes. No bound on lengths of strings or extension lists. The model is tied to the code by "
                  "differential correspondence (C tie) on a grammar-based + mutation stream; a test table cannot cover the unbounded input space.",
    "level_note": "Tie is C for the text form and the codecs (they index byte slices, outside the gotolean subset) and C + T for equality: "
                  "sameAddressLiteral, candidateBase.transportAddressEqual, candidateBase.Equal, CandidateRelatedAddress.Equal, canonicalAddr and "
                  "addrPortEqual are regenerated from the Go source on every run and proved equal, for all environments and candidates, to the model's "
                  "sameAddressLiteral / transportAddressEqual / relEqual / equal (C16_code_*; the netip calls and the candidates' getters are "
                  "parameters of the generated definitions, instantiated with Env.canon / resolved / the fields of Cand). Trusted: Lean kernel "
                  "(axioms propext/Classical.choice/Quot.sound), the harness and driver, the generators (what they do not generate is not seen). "
                  "Uninterpreted in every theorem (quantified as `Env`): netip.ParseAddr+Unmap().Is4() (cls), canonicalAddr(netip.ParseAddr(s)) (canon) "
                  "and CRC-32; the driver's executable mirrors of all three are sampled against Go on every run (`cand cls`, `cand canon`, `cand crc` "
                  "and implicitly every rt/parse/eq/eq3 line). ONE Env law is a hypothesis, of C16_equal_iff and C16_equal_literal_forms only: EnvLaw "
                  "(cls s = class of canon s: invalid iff no canonical form, v4 iff the canonical address is IPv4); the assumption monitor "
                  "envLawViolation checks it, and that the IP addrEqual derives from a resolved UDP/TCP address equals canonicalAddr(ParseAddr(address)), "
                  "on the values the REAL functions return for every `cand canon` line (C16_envLaw_iff_monitor ties the monitor to the law). "
                  "Transitivity is in the title of the property (`lawful`), not in its statement; it is proved and monitored (`cand eq3`). pion/stun TLV framing/padding is exercised (message written and decoded) but "
                  "not modelled. Non-ASCII / invalid UTF-8 input is covered by the differential stream; the model decodes runes exactly where the Go "
                  "code looks at runes. PARTIAL: C16_parse_idempotent_partial needs the hypothesis Repr (witness theorems show the full statement is "
                  "false for the code: known findings C16-N3); round trip excludes an extension named `raddr` printed first without related address "
                  "(C16-N1) and relay candidates whose computed priority is 0 (C16-N2). Not modelled: GetExtension/RemoveExtension, candidates "
                  "mutated after construction (setIPAddr on mDNS resolution), negative ports, the `candidate:` ID. S3 (nomination values longer than "
                  "4 bytes, USE-CANDIDATE with a payload are accepted) is reported as a note, not claimed.",
    "components": [{"component": "cand", "trivial_regex": _TRIV}, {"component": "candeq", "trivial_regex": _TRIV},
                   {"component": "attr", "trivial_regex": _TRIV}],
    "rule": "cand: one-dimension-at-a-time sweep around a default candidate of each type over all listed networks x address forms (v4, v6, "
            "v4-mapped, mDNS, invalid) x related-address forms (none, 0.0.0.0:0, x:0, normal, out of range) x ports x components x priorities x "
            "foundations x TCP types x extension keys/values (reserved words, Latin-1, invalid UTF-8, control bytes, empty), then random "
            "candidates (1 in 4 outside the domain), address-classifier and CRC samples, a hand-written boundary corpus of texts, "
            "grammar-generated texts, 1-3 byte/token mutations of valid texts and raw byte strings (quick 20k/10k/40k/6k, thorough "
            "1.2M/600k/2.5M/400k). candeq: all type x transport x address x TCP type x extension-list combinations against themselves and their "
            "parsed copies, 22x22 extension multisets through the parser, one-field variations, a table of 37 address families (105 literals: "
            "plain v4 / v4-mapped in dotted, hex, expanded, upper-case and zoned form / IPv4-compatible / expanded, compressed, upper-case v6 / "
            "link-local unicast and multicast with the same, another, an upper-cased or no zone / site-local and global with a zone / mDNS names "
            "differing in case / IP literals whose zone ends in .local) all-against-all with equal, permuted and different extension lists, built "
            "against parsed, related addresses in two literal forms; transitivity triples (inside a family, two members + a near miss, "
            "cross-type, the chain literal ~ literal%x.local ~ literal%y.local; random chains quick 6k, thorough 300k); random pairs (quick 15k, "
            "thorough 900k). cand also: round trip of every listed literal on every type x udp/tcp, `cand canon` on every sampled address string "
            "incl. randomly re-spelt valid literals (case, leading zeros, any zero run compressed, dotted tail, zone). attr: "
            "boundary values of every width, every value length 0..24 x 10 contents per kind, random (quick 10k+10k, thorough 1M+1M). Distinct = "
            "distinct (operation, output) lines; non-trivial = output is not an error/skip line.",
    "translated": ["sameAddressLiteral", "candidateBase.transportAddressEqual", "candidateBase.Equal", "CandidateRelatedAddress.Equal",
                   "canonicalAddr", "addrPortEqual", "addrEqual", "createAddr"],
    "trusted_base": ["netip.ParseAddr / Unmap().Is4(), canonicalAddr(netip.ParseAddr(s)) and crc32.ChecksumIEEE are uninterpreted functions in all "
                     "theorems; executable mirrors (lean/Driver/NetMirror.lean) are validated by sampling only",
                     "the IP that addrEqual compares for a candidate's resolved address is modelled as canonicalAddr(ParseAddr(Address())); "
                     "checked per sampled string by the `cand canon` assumption monitor and by every eq/eq3 line",
                     "pion/stun message framing (Add/Get/Decode) is used as is by the harness, not modelled",
                     "strings.ToLower is mirrored for ASCII plus U+0130 (the only rune besides U+212A that lowers into ASCII)"],
    "assumptions": ["candidates are observed as the constructors / UnmarshalCandidate / AddExtension leave them (no agent attached: TCP "
                    "priority offset 27; resolved address derived from the address string)"],
}
