CFG = {
    "level_text": "Machine-checked Lean 4 theorems for the single-agent clauses. (1) Decision: agent.go handleRoleConflict is "
                  "REGENERATED from the Go source on every run (translator, effect mode) and proved, for all 2^64 x 2^64 "
                  "tie-breaker pairs and both roles, to perform exactly 'one 487' when RFC 8445 7.3.1.1 (written independently: "
                  "controlling and own >= theirs, or controlled and own < theirs) says keep, and 'flip role, fresh selector, send "
                  "nothing' otherwise; the model's decision function equals the same predicate on all naturals. (2) Behaviour, on the "
                  "executable model AgentCore, for EVERY agent state and every authenticated request carrying the receiver's own role "
                  "from a source that resolves: outputs are exactly one 487 keyed with the local password (keep) or nothing (switch); "
                  "no success response, no request, no pair/selection/connection-state/liveness change (relative to the state after "
                  "the permitted peer-reflexive discovery, itself characterised exactly). (3) For every state and event the role "
                  "changes only through this branch or an effective start; the tie-breaker never changes; roles are stable along "
                  "every event sequence without those. (4) Two-agent consequence, on the closed system Sys2 (two AgentCore agents + "
                  "datagram hub with NAT, one-way blocks, loss, duplication), for ALL initial states with distinct tie-breakers and "
                  "ALL schedules (arbitrary lists of API calls of both agents incl. restart/close/late start, deliveries in any "
                  "order, duplications, drops, clock advances), W = holder of the larger tie-breaker, L = the other: every in-flight "
                  "message with a role attribute carries its sender's tie-breaker (invariant); once W is started and controlling it "
                  "stays controlling for ever, once L is started and controlled it stays controlled for ever (orientation stable); "
                  "whenever an agent processes an authenticated request carrying its own role it ends in its assigned role whatever "
                  "its role was before; from any reachable state with both agents started in the SAME role, once the agent in the "
                  "wrong role has processed one such request the roles are opposite (W controlling) and remain so under every "
                  "continuation (absorbing); from a same-role state the wrongly oriented pair (L controlling, W controlled) is "
                  "unreachable. A sample of two random tie-breaker pairs under one schedule (the existing "
                  "test) cannot pin the comparison direction over 2^128 inputs or the message orderings; the theorems do.",
    "level_note": "Single-agent clauses and the SAFETY/ABSORPTION part of the two-agent consequence are proved (IceProofs/Sys2C05*.lean, "
                  "restated in IceProps/C05.lean). What is not a theorem is 'eventually': that the agent in the wrong role does "
                  "process an authenticated same-role request needs fair delivery (the peer keeps sending checks and the network "
                  "eventually delivers one); on every generated fair suffix this is checked by the spec monitor at 'mark fairend' "
                  "(final roles opposite, then C01's clauses). The statements about L (smaller tie-breaker) carry the explicit "
                  "decidable schedule hypothesis NoLoopbackCreds: L is never handed one of its own local passwords as remote "
                  "password. Without it the statement is false in the model AND in the code (witness theorem "
                  "C05_orientation_stable_needs_NoLoopbackCreds_witness, replayed on the real agent through the harness, "
                  "notes/C05sys-selfdelivery.ops: a controlled agent that authenticates its own hairpinned ICE-CONTROLLED request "
                  "compares own < own and switches to controlling); this needs an agent configured as its own peer (or both agents "
                  "sharing one password plus a hairpin) and is recorded as an observation, not a violation of the property text. "
                  "W's half needs no hypothesis. The model is tied to the code by the differential correspondence of "
                  "component 'agent' (real pion/ice agent under synctest vs AgentCore.step, every operation of every generated "
                  "session compared) and, for the decision, by translation (T). Trusted: Lean kernel (axioms propext / "
                  "Classical.choice / Quot.sound), the gotolean translator and its effect table (a.sendSTUN -> send487, "
                  "isControlling.Store -> setControlling, setSelector), HMAC modelled as perfect, the harness. buildFails "
                  "(stun.Build error) is a parameter of the translated function; with buildFails the keeping branch sends nothing "
                  "and still does not switch (IceTie.AgentRole.handleRoleConflict_gen_buildFails).",
    "components": [{"component": "agent", "args": "focus=C05", "session_start": "new", "trivial_regex": "^(bad-op.*|ended.*)$", "shrink_s": 40}],
    "rule": "agent sessions from the generator of component 'agent' (1-3 candidates per side, both roles incl. same-role starts, "
            "role-conflicting requests with boundary tie-breakers, prflx sources, restarts, closes); distinct = distinct "
            "(operation, implementation digest) lines; non-trivial = the operation was executed by the real agent "
            "(not bad-op / ended).",
    "translated": ["Agent.handleRoleConflict", "canHandleInbound"],
    "trusted_base": ["HMAC is modelled as perfect: MESSAGE-INTEGRITY verifies iff the key is the expected password",
                     "effect-mode translation of handleRoleConflict: logging and stun.Build are ignored, buildFails is a parameter"],
    "assumptions": ["theorems about handleInbound are stated relative to the state after source resolution (a known remote, or an "
                    "accepted peer-reflexive discovery which only appends the candidate and fresh Waiting pairs)",
                    "the timer tick that may follow an inbound message in the same step (runForced) is a separate transition; "
                    "it is covered by C05_switch_only_by_conflict (it never changes the role)",
                    "two-agent theorems: closed system (agents receive traffic only through the hub, no third party forges "
                    "messages), Sys.Init (nothing in flight initially), distinct tie-breakers, and for the agent with the smaller "
                    "tie-breaker NoLoopbackCreds (its remote passwords along the schedule are disjoint from its local passwords)"],
}
