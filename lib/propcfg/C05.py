CFG = {
    "level_text": "Machine-checked Lean 4 theorems for the single-agent clauses. (1) Decision: agent.go handleRoleConflict is "
                  "REGENERATED from the Go source on every run (translator, effect mode) and proved, for all 2^64 x 2^64 "
                  "tie-breaker pairs and both roles, to perform exactly 'one 487' when RFC 8445 7.3.1.1 (written independently: "
                  "controlling and own >= theirs, or controlled and own < theirs) says keep, and 'flip role, fresh selector, send "
                  "nothing' otherwise; the model's decision function equals the same predicate on all naturals. (2) Behaviour, on the "
                  "executable model AgentCore, for EVERY agent state and every authenticated request carrying the receiver's own role "
                  "from a source that resolves: outputs are exactly one 487 keyed with the local password (keep) or nothing (switch); "
                  "no success response, no request, no pair/selection/connection-state/liveness change (relative to the state after "
                  "the permitted peer-reflexive discovery, itself characterised exactly). (3) For every state and event the role "
                  "changes only through this branch or an effective start; the tie-breaker never changes; roles are stable along "
                  "every event sequence without those. A sample of two random tie-breaker pairs under one schedule (the existing "
                  "test) cannot pin the comparison direction over 2^128 inputs; the theorem does.",
    "level_note": "Single-agent clauses are proved here. The two-agent consequence (two agents started in the same role end in "
                  "opposite roles under every message ordering, then C01) is proved in IceProps on IceModel.Sys2 by another module "
                  "and is not claimed by these theorems. The model is tied to the code by the differential correspondence of "
                  "component 'agent' (real pion/ice agent under synctest vs AgentCore.step, every operation of every generated "
                  "session compared) and, for the decision, by translation (T). Trusted: Lean kernel (axioms propext / "
                  "Classical.choice / Quot.sound), the gotolean translator and its effect table (a.sendSTUN -> send487, "
                  "isControlling.Store -> setControlling, setSelector), HMAC modelled as perfect, the harness. buildFails "
                  "(stun.Build error) is a parameter of the translated function; with buildFails the keeping branch sends nothing "
                  "and still does not switch (IceTie.AgentRole.handleRoleConflict_gen_buildFails).",
    "components": [{"component": "agent", "args": "focus=C05", "session_start": "new", "trivial_regex": "^(bad-op.*|ended.*)$", "shrink_s": 40}],
    "rule": "agent sessions from the generator of component 'agent' (1-3 candidates per side, both roles incl. same-role starts, "
            "role-conflicting requests with boundary tie-breakers, prflx sources, restarts, closes); distinct = distinct "
            "(operation, implementation digest) lines; non-trivial = the operation was executed by the real agent "
            "(not bad-op / ended).",
    "translated": ["Agent.handleRoleConflict", "canHandleInbound"],
    "trusted_base": ["HMAC is modelled as perfect: MESSAGE-INTEGRITY verifies iff the key is the expected password",
                     "effect-mode translation of handleRoleConflict: logging and stun.Build are ignored, buildFails is a parameter"],
    "assumptions": ["theorems about handleInbound are stated relative to the state after source resolution (a known remote, or an "
                    "accepted peer-reflexive discovery which only appends the candidate and fresh Waiting pairs)",
                    "the timer tick that may follow an inbound message in the same step (runForced) is a separate transition; "
                    "it is covered by C05_switch_only_by_conflict (it never changes the role)"],
}
