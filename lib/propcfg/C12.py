CFG = {
    "level_text": "Machine-checked Lean 4 theorems over a sequential model of UDPMuxDefault / udpMuxedConn / sharedPacketConn "
                  "(routing tables, per-connection address list and FIFO, handle refcounts, the asynchronous close watcher as an "
                  "explicit operation, address canonicalisation): for ALL operation sequences (induction over lists, unbounded) every "
                  "trace of the model is accepted by the history-based spec monitor of C12 (dispatch to the last live writer of the "
                  "canonical source, else by the ufrag before ':' and family, else drop; byte-identical payload, true source, FIFO; no "
                  "cross-ufrag delivery; nothing after removal/close and no binding left; v4 / v4-mapped / zoned forms dispatch alike). "
                  "The model is tied to the code by differential correspondence on generated op sequences against the real mux over a "
                  "fake socket inside a synctest bubble, with the same monitor evaluated on the implementation's own outputs. "
                  "UniversalUDPMuxDefault is modelled as a layer on that model (per-server XOR-mapped-address table, GetXORMappedAddr "
                  "calls in flight, virtual clock, GetConnForURL): proved for ALL operation sequences that the layer never changes the "
                  "embedded mux (every datagram, also from a STUN server's address, goes where the rule says; nothing is diverted or "
                  "swallowed), the interception rule in closed form, the layer's state invariant, and that the universal-mux monitor "
                  "never reports a base clause on a model trace; the strict reading 'the layer takes only the answer to its own "
                  "pending discovery request, and what it takes is not delivered as well' is FALSE of the code (witness theorems; "
                  "observations U1/U2 in notes/C12.md). The default verdict on the implementation is the LETTER of C12: the base clauses "
                  "on EVERY datagram whether the layer took it or not (from server addresses owned by a connection too), plus the "
                  "clauses about the layer doing its job (uni_answer); uni_consume / uni_both hits are observation statistics "
                  "(component_stats obs.*) and verdicts only with VERIF_UDPMUXUNI_STRICT=1. Concurrent executions of the universal layer "
                  "(GetXORMappedAddr calls racing the tap, expiry, other calls, RemoveConnByUfrag and Close) are recorded from the real code "
                  "under a virtual clock and must pass the spec monitor IceSpec.C12UniConc and be a linearisation of the UniMux model "
                  "(bounded search; exhaustion is INCONCLUSIVE); four one-step theorems state the facts this recorder relies on.",
    "level_note": "Ties: C (sequential differential correspondence incl. the close-vs-datagram window op `closein`) every run; A (concurrent acceptance recorder + in-package inspection of the routing tables at quiescence) in the thorough tier; A for the universal layer (`udpmuxuniconc`) with a small budget every run and 1500 sessions in the thorough tier. Trusted: Lean kernel (axioms propext/Classical.choice/Quot.sound); the correspondence harness and driver; "
                  "pion/stun decoding (IsMessage/Decode/USERNAME) and net/netip canonicalisation are mirrored by small Lean functions "
                  "(Kind, canonAddr) validated only by the correspondence; the concurrent interleavings of the real goroutines are "
                  "covered by the acceptance recorder (thorough tier), not by the theorems (sequential semantics, watcher explicit).",
    "components": [
        {"component": "udpmux", "require_stats": {"in.su.delivered": 100, "closein.w.delivered": 5}, "session_start": "new", "trivial_regex": r"^(skip|error|bad-op.*|bad|ok|end ok)$",
         "timeout_quick": 120, "timeout_thorough": 900, "shrink_s": 40},
        # the universal mux: one real UniversalUDPMuxDefault per session over the same fake socket, virtual clock
        {"component": "udpmuxuni", "require_stats": {"in.xs.taken.delivered": 10, "getconnforurl.ok": 50}, "session_start": "new", "trivial_regex": r"^(skip|error|bad-op.*|bad|ok|end ok|err:notimpl)$",
         "timeout_quick": 120, "timeout_thorough": 900, "shrink_s": 40},
        # tie A: concurrent acceptance recorder; emits nothing in the quick tier. A recorded history is evidence as a
        # whole, so it is not shrunk (every line carries its own data; a replay re-runs only the Lean acceptance check).
        {"component": "udpmuxconc", "allow_empty_quick": True, "session_start": "new", "trivial_regex": r"^(skip|error|bad-op.*)$",
         "timeout_quick": 60, "timeout_thorough": 900, "shrink_s": 0},
        # tie A for the UNIVERSAL layer: real UniversalUDPMuxDefault in a synctest bubble (virtual clock), waiter / feeder /
        # connection / Close goroutines; the Lean side runs the spec monitor (IceSpec.C12UniConc) and a linearisation search
        # over the UniMux model (budget exhausted => INCONCLUSIVE).  Small budget in quick (about 1 s), 1500 sessions in thorough.
        {"component": "udpmuxuniconc", "require_stats": {"uniconc.x.ok": 20, "uniconc.x.timeout": 10}, "session_start": "new",
         "trivial_regex": r"^(skip|error|bad-op.*)$", "timeout_quick": 60, "timeout_thorough": 900, "shrink_s": 0},
    ],
    "rule": "quick: 3000 sessions (8..40 ops), thorough: 40000 sessions (8..200 ops) + 400 concurrent recorder sessions (2..5 actor goroutines x 20..60 calls, 30..90 datagrams, GOMAXPROCS in {1,2,4,16}); each session = one real UDPMuxDefault on an "
            "unspecified fake socket or a MultiUDPMuxDefault over three, AddrPort and net.Addr I/O paths, 1..4 ufrags, 2..6 remote "
            "addresses drawn from aliasing groups (v4 / v4-mapped / zoned / link-local), STUN with USERNAME (0, 1, several colons), "
            "without USERNAME, undecodable STUN-looking, non-STUN; biased towards remove / write-after-remove / re-register / close "
            "patterns. udpmuxuniconc: quick 150 / thorough 1500 sessions, each 2..4 waiter goroutines x 2..5 GetXORMappedAddr calls (deadlines 5..75 ms, odd), 4..15 datagrams, 0..2 connection goroutines, Close in 1/3 of the sessions, TTL 20/40/100 ms/default, GOMAXPROCS in {1,2,4,16}. udpmuxuni: quick 900 / thorough 12000 sessions (8..40 / 8..160 ops) on a real UniversalUDPMuxDefault (cache TTL 1 s, 3 s or the default 25 s): "
            "GetXORMappedAddr calls (deadlines 0..5 s) started in goroutines, virtual time steps around the deadline and TTL boundaries, datagrams from server "
            "and peer addresses sharing one pool (Binding success with / without / with malformed XOR-MAPPED-ADDRESS, own or foreign transaction id; error "
            "response, indication, request with and without USERNAME carrying the attribute; the udpmux kinds), GetConnForURL, GetConn, writes, reads, "
            "RemoveConnByUfrag, closes, table inspection. Distinct = distinct (operation, output) lines; non-trivial = output is a handle, a delivery, a drop, a packet or an error.",
    "lean_targets": ["IceProps.C12", "IceProofs.UdpMuxLegacy"],
    "translated": [],
    "trusted_base": ["pion/stun Decode / IsMessage / USERNAME extraction (payload kinds are abstract in the model)",
                     "net/netip Unmap / WithZone / IsLinkLocal* and net.UDPAddr.AddrPort/String mirrored by canonAddr / localKey (validated by correspondence)",
                     "testing/synctest quiescence (synctest.Wait) as the meaning of 'the watcher has run'"],
    "assumptions": ["sequential semantics: one public call or one goroutine step at a time; the close watcher is the explicit op watcherRun",
                    "packets never exceed receiveMTU (the ErrShortBuffer branches are not modelled)",
                    "universal mux: a GetXORMappedAddr call is one atomic step up to its return or its select (synctest quiescence after every operation); "
                    "context cancellation of GetXORMappedAddrContext is not driven; concurrent interleavings inside the universal layer are covered by the recorder udpmuxuniconc "
                    "(whose acceptance search splits the model's atomic xorStart into the code's critical sections, notes/C12.md R1/R2), not by the theorems"],
}
