#!/bin/bash
# usage: lib/verify_mutant.sh <mutant-out-dir> <seeded-id> <property>
# Confirms a sub-agent's mutant in a fresh scratch worktree of /repo and files it under /verif/seeded/<id>/.
set -u
OUT=$1; ID=$2; PROP=$3
V=$(cd "$(dirname "$0")/.." && pwd)
W=/tmp/vmut-$ID
git -C /repo worktree remove --force $W >/dev/null 2>&1
git -C /repo worktree add -q --detach $W HEAD || exit 2
export GOFLAGS=-mod=mod GOPROXY=off
cd $W
DEMO_DIR=$(head -3 $OUT/demo_test.go | sed -n 's#^// *dir: *##p' | head -1); DEMO_DIR=${DEMO_DIR:-.}
TESTNAME=$(grep -o 'func TestMutDemo[A-Za-z0-9_]*' $OUT/demo_test.go | head -1 | sed 's/func //')
res() { echo "$1" >> /tmp/vmut-$ID.log; }
: > /tmp/vmut-$ID.log
git apply $OUT/patch.diff || { res "patch-does-not-apply"; }
go build ./... >/dev/null 2>&1 && res "build=ok" || res "build=FAIL"
cp $OUT/demo_test.go $DEMO_DIR/zz_mutdemo_test.go
(cd $DEMO_DIR && go test -vet=off -count=1 -timeout 120s -run "^$TESTNAME\$" . >/tmp/vmut-$ID.demo1 2>&1) && res "demo_with_mutation=PASS(unexpected)" || res "demo_with_mutation=fail(expected)"
rm -f $DEMO_DIR/zz_mutdemo_test.go
go test -vet=off -count=1 -timeout 25m ./... >/tmp/vmut-$ID.suite 2>&1 && res "suite_with_mutation=pass" || res "suite_with_mutation=FAIL"
git checkout -q -- . 
cp $OUT/demo_test.go $DEMO_DIR/zz_mutdemo_test.go
(cd $DEMO_DIR && go test -vet=off -count=1 -timeout 120s -run "^$TESTNAME\$" . >/tmp/vmut-$ID.demo0 2>&1) && res "demo_without_mutation=pass(expected)" || res "demo_without_mutation=FAIL(unexpected)"
rm -f $DEMO_DIR/zz_mutdemo_test.go
cd /; git -C /repo worktree remove --force $W
mkdir -p $V/seeded/$ID
cp $OUT/patch.diff $V/seeded/$ID/patch.diff; cp $OUT/demo_test.go $V/seeded/$ID/demo_test.go
python3 - "$ID" "$PROP" "$OUT" "$TESTNAME" "$DEMO_DIR" <<'PY'
import json,sys,os
i,prop,out,test,ddir=sys.argv[1:6]
log=open('/tmp/vmut-%s.log'%i).read().split()
meta={"id":i,"property":prop,"check_with":[prop],"demo_test":test,"demo_dir":ddir,
      "needs":open(os.path.join(out,'meta.txt')).read(),
      "confirmed":log,
      "confirmed_ok": all(x in log for x in ["build=ok","demo_with_mutation=fail(expected)","suite_with_mutation=pass","demo_without_mutation=pass(expected)"]),
      "what_i_ran":"lib/verify_mutant.sh: fresh worktree of /repo HEAD; git apply patch.diff; go build ./...; demo test (fails); full suite GOFLAGS=-mod=mod go test -vet=off -count=1 ./... (passes); revert; demo test (passes)"}
json.dump(meta,open('/verif/seeded/%s/meta.json'%i,'w'),indent=1)
print(i, meta["confirmed_ok"], log)
PY
