p='udp_mux.go'; s=open(p).read()
old='\tif ok && existing != conn {\n\t\texisting.removeAddress(addr)\n\t}\n'
new='\t_ = ok\n\t_ = existing\n'
assert old in s; open(p,'w').write(s.replace(old,new))
