# RemoveConnByUfrag no longer closes the removed connections (the gap of the candidate patch)
p='udp_mux.go'; s=open(p).read()
old='\tfor _, c := range removedConns {\n\t\t_ = c.Close()\n\t}\n'
new=''
assert old in s; open(p,'w').write(s.replace(old,new))
