p='addr.go'; s=open(p).read()
old='\taddr = addr.Unmap()\n\tif isIPv6LinkLocal(addr) {'
new='\tif isIPv6LinkLocal(addr) {'
assert old in s; open(p,'w').write(s.replace(old,new))
