#!/bin/bash
# usage: run.sh <Mx>   — base tree: $BASE (default /repo, which must contain the F9 and F18 fixes);
# run from the root of the verif checkout
set -e
name=$1
BASE=${BASE:-/repo}
rm -rf /tmp/wb-C12/repo-mut && mkdir -p /tmp/wb-C12 && cp -r $BASE /tmp/wb-C12/repo-mut
cd /tmp/wb-C12/repo-mut && python3 $(dirname $(readlink -f $0))/$name.py
git -C /tmp/wb-C12/repo-mut diff | grep '^[+-]' | grep -v '^+++\|^---'
cd $(dirname $(readlink -f $0))/../.. && VERIF_REPO=/tmp/wb-C12/repo-mut ./check C12 2>&1 | grep -v '^---\|^$' | tail -4
python3 - <<PY
import json,glob
for f in glob.glob('replays/C12-*seed1.json'):
    r=json.load(open(f)); print(f.split('/')[-1], '|', r.get('reason') or r.get('broken')); print('  ops:', r.get('ops')); print('  impl:', r.get('impl_output'), ' model:', r.get('model_output'))
PY
