p='udp_mux.go'; s=open(p).read()
old='ufrag := strings.Split(string(attr), ":")[0]'
new='parts := strings.Split(string(attr), ":")\n\t\t\tufrag := parts[len(parts)-1]'
assert old in s; open(p,'w').write(s.replace(old,new))
