# the connection's address list is never updated (F18 moved the append into registerConnForAddress)
p='udp_mux.go'; s=open(p).read()
old='\tconn.appendAddress(addr)\n'
assert old in s; open(p,'w').write(s.replace(old,''))
