p='udp_mux.go'; s=open(p).read()
old='destinationConn, _ = m.getConn(ufrag, isIPv6)'
new='destinationConn, _ = m.getConn(ufrag, isIPv6)\n\t\t\tif destinationConn == nil {\n\t\t\t\tdestinationConn, _ = m.getConn(ufrag, !isIPv6)\n\t\t\t}'
assert old in s; open(p,'w').write(s.replace(old,new))
