p='udp_muxed_conn.go'; s=open(p).read()
old='\tc.mu.Lock()\n\tif c.closed {\n\t\tc.mu.Unlock()\n\n\t\tpkt.reset()\n\t\tc.params.BufferPool.Put(pkt)\n\n\t\treturn io.ErrClosedPipe\n\t}\n'
new='\tc.mu.Lock()\n'
assert old in s; open(p,'w').write(s.replace(old,new))
