p='udp_mux.go'; s=open(p).read()
old='\tif ok && existing != conn {\n\t\texisting.removeAddress(addr)\n\t}\n'
new='\tif ok && existing != conn {\n\t\treturn\n\t}\n'
assert old in s; open(p,'w').write(s.replace(old,new))
