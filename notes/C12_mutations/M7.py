# the watcher keeps this connection's own address bindings (second half of the F9 fix missing)
p='udp_mux.go'; s=open(p).read()
old='\tfor _, addr := range conn.getAddresses() {\n\t\tif m.addressMap[addr] == conn {\n\t\t\tdelete(m.addressMap, addr)\n\t\t}\n\t}\n'
new=''
assert old in s; open(p,'w').write(s.replace(old,new))
