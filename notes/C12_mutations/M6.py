p='addr.go'; s=open(p).read()
old='\tif isIPv6LinkLocal(addr) {\n\t\treturn addr\n\t}\n\n\treturn addr.WithZone("")'
new='\treturn addr'
assert old in s; open(p,'w').write(s.replace(old,new))
