#!/usr/bin/env python3
import sys, subprocess, shutil, os, re
M = {
 "M1": ("agent_handlers.go", [("if !h.runningConnectionStates {", "if true {"), ("if !h.runningCandidates {", "if true {"), ("if !h.runningCandidatePairs {", "if true {")]),
 "M2": ("agent_handlers.go", [("notification := h.connectionStates[0]\n\t\t\th.connectionStates = h.connectionStates[1:]", "notification := h.connectionStates[len(h.connectionStates)-1]\n\t\t\th.connectionStates = h.connectionStates[:len(h.connectionStates)-1]"),
                              ("notification := h.candidates[0]\n\t\t\th.candidates = h.candidates[1:]", "notification := h.candidates[len(h.candidates)-1]\n\t\t\th.candidates = h.candidates[:len(h.candidates)-1]"),
                              ("notification := h.selectedCandidatePairs[0]\n\t\t\th.selectedCandidatePairs = h.selectedCandidatePairs[1:]", "notification := h.selectedCandidatePairs[len(h.selectedCandidatePairs)-1]\n\t\t\th.selectedCandidatePairs = h.selectedCandidatePairs[:len(h.selectedCandidatePairs)-1]")]),
 "M3": ("agent_handlers.go", [("defer h.notifiers.Wait()", "_ = 0")]),
 "M4": ("agent.go", [("\t\tif gatherCtx.Err() != nil {\n\t\t\treturn\n\t\t}\n", "")]),
 "M5": ("agent.go", [("\t\t\ta.candidateNotifier.EnqueueCandidate(nil)\n", "\t\t\ta.candidateNotifier.EnqueueCandidate(nil)\n\t\t\ta.candidateNotifier.EnqueueCandidate(nil)\n")]),
 "M6": ("agent_handlers.go", [("\tselect {\n\tcase <-h.done:\n\t\treturn\n\tdefault:\n\t}\n\n\tnotify := func() {\n\t\tdefer h.notifiers.Done()\n\t\tfor {\n\t\t\th.Lock()\n\t\t\tif len(h.candidates)", "\tnotify := func() {\n\t\tdefer h.notifiers.Done()\n\t\tfor {\n\t\t\th.Lock()\n\t\t\tif len(h.candidates)")]),
 # H2: no-op sleep in the (former) S5 window of the FIXED tree (/repo >= 19c3ca1): expected clean
 "H2": ("agent.go", [("\tif err := ctx.Err(); err != nil {\n\t\treturn err\n\t}\n\n\tvar taskErr error\n", "\tif err := ctx.Err(); err != nil {\n\t\treturn err\n\t}\n\ttime.Sleep(20 * time.Microsecond) // H2: widen the window, semantically a no-op\n\n\tvar taskErr error\n")]),
 # F23: fix 19c3ca1 reverted (git apply -R notes/C11_S5_fix.diff), nothing else: the race of finding F23, rare
 "F23": ("agent.go", "REVERT"),
 # F23H2: fix reverted AND the no-op sleep between the context check and loop.Run: detection evidence for F23
 "F23H2": ("agent.go", "REVERT", [("\tif err := ctx.Err(); err != nil {\n\t\treturn err\n\t}\n\n\treturn a.loop.Run(ctx, func(context.Context) {\n\t\tset := a.localCandidates[cand.NetworkType()]", "\tif err := ctx.Err(); err != nil {\n\t\treturn err\n\t}\n\ttime.Sleep(20 * time.Microsecond) // H2: widen the window, semantically a no-op\n\n\treturn a.loop.Run(ctx, func(context.Context) {\n\t\tset := a.localCandidates[cand.NetworkType()]")]),
 # CTX: seeded/C11-addcandidate-ctx-shadow: the task closure's parameter shadows the cycle's context, the in-task re-check
 # looks at the loop's context (vacuous).  Caught by component gatherforce only (forced window), see notes/C11.md §12
 "CTX": ("agent.go", [("if err := a.loop.Run(ctx, func(context.Context) {\n\t\t// The cycle may have been canceled", "if err := a.loop.Run(ctx, func(ctx context.Context) {\n\t\t// The cycle may have been canceled")]),
 "M7": ("agent_handlers.go", [("\t\t\tif len(h.connectionStates) == 0 {\n\t\t\t\th.runningConnectionStates = false\n", "\t\t\tif len(h.connectionStates) <= 1 {\n\t\t\t\th.runningConnectionStates = false\n")]),
}
name = sys.argv[1]
repo = "/tmp/wb-C11/mut/repo"           # scratch copy of /repo: mkdir -p /tmp/wb-C11/mut && cp -a /repo /tmp/wb-C11/mut/repo
here = os.path.dirname(os.path.abspath(__file__))
ent = M[name]
f = ent[0]
src = open("/repo/" + f).read()
open(os.path.join(repo, f), "w").write(src)
subs = ent[1]
if subs == "REVERT":
    subprocess.run(["git", "apply", "-R", os.path.join(here, "C11_S5_fix.diff")], cwd=repo, check=True)
    subs = ent[2] if len(ent) > 2 else []
new = open(os.path.join(repo, f)).read()
for a, b in subs:
    assert a in new, (name, a)
    new = new.replace(a, b)
open(os.path.join(repo, f), "w").write(new)
env = dict(os.environ, VERIF_REPO=repo)
env.update({k: v for k, v in (a.split("=") for a in sys.argv[2:])})
p = subprocess.run(["./check", "C11"], cwd=os.path.dirname(here), env=env, text=True, capture_output=True)
print(p.stdout[-2500:], p.stderr[-1000:])
open(os.path.join(repo, f), "w").write(src)
