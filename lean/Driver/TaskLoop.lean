import IceModel.TaskLoop
import IceSpec.C10
import IceSpec.C10View
import Driver.Util
/-!
# Driver component `taskloop` (property C10, tie A)

* `taskloop hist <hmeta> <events…>` — a history recorded from the REAL `taskloop.Loop`:
  (a) the spec monitor `IceSpec.C10.monitor` is run on it (a rejection is a MONITOR line = the
      implementation violates the property), and
  (b) the history is replayed through the model `IceModel.TaskLoop.step`: for every recorded event an
      enabled model action with that label must exist, internal (unobservable) actions being searched.
      Model output `recorded` when some execution of the model has exactly this observable trace,
      `rejected:<why>` when none has (then MISMATCH: the code left the model).  The search is bounded (`closureFuel`):
      if it runs out of fuel before the frontier empties the line is INCONCLUSIVE (`recorded` + `Res.inconclusive`).
* `taskloop skel <func>` — source shape of taskloop.go (token text); the expected text is the one the
  model was written against.
* `taskloop guard <func> <field> <r|w>` / `taskloop fieldclass <field>` — the API-guard table: an Agent
  field touched on an off-loop path must be in the allow-list below.

The search keeps the SET of model states compatible with the history so far.  Internal actions that are
the only move of their thread and disable nothing (`errCheckPass`, `closePriv`, `closeTLD`, `storeErr`,
`preStopNil`, `onceExit`, `onceSkip`) are taken eagerly (`norm`); the four internal actions that resolve
a race (`onceWin`, `closeDoneCh`, `handoff`, `loopDone`) are explored both ways (`closure`).
-/
namespace Driver.TaskLoop
open IceModel.TaskLoop hiding State init step
open IceSpec.C10 Driver
open IceSpec.C10.View (HEv parseTok toEv)

abbrev MState := IceModel.TaskLoop.State
def mInit : MState := IceModel.TaskLoop.init
def modelStep : MState → Action → Option MState := IceModel.TaskLoop.step

/-! ## acceptance by the model -/

structure Cfg where
  nSub : Nat
  nClose : Nat

/-- Rebuild the two maps from a snapshot so that lookups stay O(1) (extensionally the same state on
the ids in use; all other threads are idle by construction). -/
def compact (c : Cfg) (s : MState) : MState :=
  let subs := (Array.range c.nSub).map s.subs
  let cls := (Array.range c.nClose).map s.closers
  { s with subs := fun i => subs.getD i {}, closers := fun j => cls.getD j {} }

def subPcCode : SubPc → Nat
  | .idle => 0 | .check => 1 | .select => 2 | .handedOff => 3
  | .ret .nil => 4 | .ret .ctx => 5 | .ret .closed => 6

def closerPcCode : CloserPc → Nat
  | .idle => 0 | .atOnce => 1 | .inStore => 2 | .inCloseDone => 3 | .inPreStop => 4
  | .inOnceExit => 5 | .waitTLD => 6 | .returned => 7

def loopCode : LoopPc → Nat
  | .select => 0 | .got i => 1 + 16 * i | .running i => 2 + 16 * i | .nested i k => 3 + 16 * (i + 4096 * (k + 1))
  | .closePriv i => 4 + 16 * i | .leaving => 5 | .closeTLD => 6 | .exited => 7 | .inOnClose => 8

def onceCode : Once → Nat
  | .fresh => 0 | .running j => 2 + j | .finished => 1

/-- Everything `step` can read, for the ids in use (ghost fields are functions of it under the invariant). -/
def key (c : Cfg) (s : MState) : List Nat :=
  loopCode s.loop :: (if s.done then 1 else 0) :: (if s.tld then 1 else 0) :: onceCode s.once ::
  ((List.range c.nSub).map (fun i =>
      let u := s.subs i
      subPcCode u.pc * 4 + (if u.ctxDone then 2 else 0) + (if u.privDone then 1 else 0)) ++
   (List.range c.nClose).map (fun j =>
      let cl := s.closers j
      closerPcCode cl.pc * 2 + (if cl.hasPre then 1 else 0)))

/-- Internal actions taken eagerly. -/
def eagerActions (c : Cfg) (s : MState) : List Action :=
  (match s.loop with
   | .closePriv i => [Action.closePriv i]
   | .closeTLD => [Action.closeTLD]
   | _ => []) ++
  (List.range c.nSub).map Action.errCheckPass ++
  (List.range c.nClose).flatMap (fun j => [Action.storeErr j, Action.preStopNil j, Action.onceExit j, Action.onceSkip j])

def firstEnabled (s : MState) : List Action → Option MState
  | [] => none
  | a :: as => match modelStep s a with
    | some s' => some s'
    | none => firstEnabled s as

def norm (c : Cfg) (fuel : Nat) (s : MState) : MState :=
  match fuel with
  | 0 => s
  | fuel + 1 =>
    match firstEnabled s (eagerActions c s) with
    | some s' => norm c fuel (compact c s')
    | none => s

/-- Fuel of `norm`: a TERMINATION DEVICE that provably suffices, not a search budget.  Every thread of the model is
one-shot and its program counter only moves forward (`IceModel.TaskLoop.step`: a submitter goes idle → check → select →
handedOff → ret, a closer idle → atOnce → inStore → inCloseDone → inPreStop → inOnceExit → waitTLD → returned,
`privDone` and `tld` are set once).  Over a WHOLE execution the eager actions therefore fire at most: `errCheckPass`
once per submitter, `closePriv` once per submitter, `storeErr`/`preStopNil`/`onceExit` (or `onceSkip`) at most three
per closer, `closeTLD` once — in total ≤ 2·nSub + 3·nClose + 1 < `normFuel`.  `norm` hence always stops because no
eager action is enabled, never because the fuel ran out. -/
def normFuel (c : Cfg) : Nat := 6 * (c.nSub + c.nClose) + 8

/-- Internal actions that resolve a race: explored both ways. -/
def branchActions (c : Cfg) : List Action :=
  Action.loopDone ::
  ((List.range c.nSub).map Action.handoff ++
   (List.range c.nClose).flatMap (fun j => [Action.onceWin j, Action.closeDoneCh j]))

abbrev Frontier := List (List Nat × MState)

def insertNew (c : Cfg) (fr : Frontier) (s : MState) : Frontier × Bool :=
  let k := key c s
  if fr.any (fun p => p.1 == k) then (fr, false) else ((k, s) :: fr, true)

/-- Close a set of states under the branching internal actions (each followed by `norm`).  `fuel` bounds the number of
expansions; the flag is `true` iff the work list was emptied (the returned set IS the closure) and `false` iff the
search gave up with states still unexpanded (the returned set is only a subset of the closure). -/
def closure (c : Cfg) (fuel : Nat) (work : List MState) (seen : Frontier) : Frontier × Bool :=
  match work with
  | [] => (seen, true)
  | s :: rest =>
    match fuel with
    | 0 => (seen, false)
    | fuel + 1 =>
      let succs := (branchActions c).filterMap (fun a => (modelStep s a).map (fun s' => norm c (normFuel c) (compact c s')))
      let (seen', new) := succs.foldl (fun (acc : Frontier × List MState) s' =>
        let (fr, isNew) := insertNew c acc.1 s'
        if isNew then (fr, s' :: acc.2) else (fr, acc.2)) (seen, [])
      closure c fuel (new ++ rest) seen'

def closureFuel : Nat := 100000

/-- Model actions carrying the label of a recorded event. -/
def actionsFor (c : Cfg) : HEv → List Action
  | .submit i => [.call i]
  | .nested p i => [.callNested p i]
  | .cancel i => [.cancel i]
  | .tstart i => [.start i]
  | .tend i => [.finish i]
  | .ret i (some .nil) => [.wake i]
  | .ret i (some .ctx) => [.selCtx i]
  | .ret i (some .closed) => [.errCheckFail i, .selDone i]
  | .ret _ none => []
  | .ccall j pre => [.closeCall j pre]
  | .prestop => (List.range c.nClose).map Action.preStopRun
  | .onclose => [.onClose]
  | .oncloseEnd => [.onCloseEnd]
  | .cret j => [.waitTLD j]

def stepFrontier (c : Cfg) (fr : Frontier) (e : HEv) : Frontier × Bool :=
  let (cl, complete) := closure c closureFuel (fr.map (·.2)) fr
  (cl.foldl (fun acc p =>
    (actionsFor c e).foldl (fun acc a =>
      match modelStep p.2 a with
      | some s' => (insertNew c acc (norm c (normFuel c) (compact c s'))).1
      | none => acc) acc) [], complete)

inductive Verdict where
  /-- some execution of the model has exactly this observable trace (every state carried is a witness) -/
  | accepted
  /-- event number k (0-based) has no enabled action in ANY model state compatible with the prefix — every closure up to
  and including the one before event k was complete -/
  | rejected (k : Nat)
  /-- the frontier became empty at event k, but a closure at or before k had run out of fuel: the state that explains
  the event may simply not have been reached — no verdict -/
  | gaveUp (k : Nat)

def accept (c : Cfg) (evs : List HEv) : Verdict :=
  let s0 := norm c (normFuel c) (compact c mInit)
  let rec go (fr : Frontier) (k : Nat) (complete : Bool) : List HEv → Verdict
    | [] => .accepted
    | e :: es =>
      let (fr', ok) := stepFrontier c fr e
      let complete := complete && ok
      if fr'.isEmpty then (if complete then .rejected k else .gaveUp k) else go fr' (k + 1) complete es
  go [(key c s0, s0)] 0 true evs

/-- ids used by a history. -/
def cfgOf (evs : List HEv) : Cfg :=
  evs.foldl (fun c e => match e with
    | .submit i | .cancel i | .tstart i | .tend i | .ret i _ => { c with nSub := max c.nSub (i + 1) }
    | .nested p i => { c with nSub := max c.nSub (max p i + 1) }
    | .ccall j _ | .cret j => { c with nClose := max c.nClose (j + 1) }
    | _ => c) { nSub := 0, nClose := 0 }

def histLine (hmeta : String) (toks : List String) (impl : String) : Res :=
  match toks.mapM parseTok with
  | none => { model := "rejected:unparsable-token", monitor := some "unparsable history token", prop := "C10" }
  | some evs =>
    let c := cfgOf evs
    let complete := (hmeta.splitOn ".").contains "complete"
    let hung := (hmeta.splitOn ".").contains "hung" || impl == "hung"
    let mon : Option String :=
      if hung then some "a Run or Close call did not return (deadlock) — recorded history is incomplete"
      else IceSpec.C10.View.monitorEvs complete c.nSub c.nClose evs
    let (model, inc) := match accept c evs with
      | .accepted => ("recorded", none)
      | .rejected k => (s!"rejected:event-{k}-{toks.getD k "?"}-has-no-enabled-model-action", none)
      | .gaveUp k =>
        ("recorded", some s!"closure over the race-resolving internal actions ran out of fuel ({closureFuel} expansions) at or before event {k} ({toks.getD k "?"})")
    { model := model, monitor := mon, prop := "C10", inconclusive := inc }

/-! ## source shape -/

def skelNew : String := "func New ( onClose func ( ) ) * Loop { l := & Loop { tasks : make ( chan task ) , done : make ( chan struct { } ) , taskLoopDone : make ( chan struct { } ) , } ; go l . runLoop ( onClose ) ; return l ; } ;"
def skelRunLoop : String := "func ( l * Loop ) runLoop ( onClose func ( ) ) { defer func ( ) { onClose ( ) ; close ( l . taskLoopDone ) ; } ( ) ; for { select { case <- l . done : return ; case t := <- l . tasks : t . fn ( l ) ; close ( t . done ) ; } ; } ; } ;"
def skelClose : String := "func ( l * Loop ) Close ( ) { l . CloseWithPreStop ( nil ) ; } ;"
def skelCloseWithPreStop : String := "func ( l * Loop ) CloseWithPreStop ( preStop func ( ) ) { l . closeOnce . Do ( func ( ) { l . err . Store ( ErrClosed ) ; close ( l . done ) ; if preStop != nil { preStop ( ) ; } ; } ) ; <- l . taskLoopDone ; } ;"
def skelRun : String := "func ( l * Loop ) Run ( ctx context . Context , t func ( context . Context ) ) error { if err := l . Err ( ) ; err != nil { return err ; } ; done := make ( chan struct { } ) ; select { case <- ctx . Done ( ) : return ctx . Err ( ) ; case <- l . done : return ErrClosed ; case l . tasks <- task { t , done } : <- done ; return nil ; } ; } ;"
def skelErr : String := "func ( l * Loop ) Err ( ) error { select { case <- l . done : return ErrClosed ; default : return nil ; } ; } ;"
def skelDone : String := "func ( l * Loop ) Done ( ) <- chan struct { } { return l . done ; } ;"

def skelLine (f : String) : Res :=
  let m := match f with
    | "New" => skelNew | "runLoop" => skelRunLoop | "Close" => skelClose
    | "CloseWithPreStop" => skelCloseWithPreStop | "Run" => skelRun | "Err" => skelErr | "Done" => skelDone
    | _ => "bad-op unknown function"
  { model := m }

/-! ## API-guard table: the allow-list

An Agent field may be touched on an off-loop path iff it is listed here.  The class is re-derived from
the source by the walker on every run (`taskloop fieldclass`), so an entry stays justified only while
* `immutable`: the field has no write outside the constructor contexts (NewAgent… and option closures
  that refuse to run once `constructed` is set) — reads from other goroutines are ordered after
  construction by the `go` statement / the user's publication of the `*Agent`;
* `sync`: the field's type is `atomic.*` / `sync.*` (used by value, through its methods);
* `guarded:<mu>`: every post-construction access follows a `Lock()`/`RLock()` of the agent mutex `<mu>`
  in the same function body.
-/
def immutableFields : List String :=
  ["addressRewriteMapper", "buf", "candidateNotifier", "candidateTypes", "checkInterval",
   "connectionStateNotifier", "continualGatheringPolicy", "disconnectedTimeout", "disconnectedTimeoutExplicit",
   "enableRenomination", "failedTimeout", "forceCandidateContact", "includeLoopback", "insecureSkipVerify",
   "interfaceFilter", "ipFilter", "keepaliveInterval", "lite", "log", "loggerFactory", "loop", "mDNSConn",
   "mDNSMode", "mDNSName", "net", "networkMonitorInterval", "networkTypes", "nominationAttribute",
   "nominationValueGenerator", "onConnected", "portMax", "portMin", "proxyDialer",
   "selectedCandidatePairNotifier", "startedCh", "stunGatherTimeout", "tcpMux", "tcpPriorityOffset",
   "tieBreaker", "turnClientFactory", "turnTransportProtocols", "udpMux", "udpMuxSrflx",
   "enableUseCandidateCheckPriority", "automaticRenomination", "renominationInterval", "maxBindingRequests",
   "hostAcceptanceMinWait", "srflxAcceptanceMinWait", "prflxAcceptanceMinWait", "relayAcceptanceMinWait",
   "userBindingRequestHandler", "remoteIPFilter", "addressRewriteRules", "constructed"]

def syncFields : List (String × String) :=
  [("isControlling", "sync:atomic.Bool"), ("onCandidateHdlr", "sync:atomic.Value"),
   ("onConnectionStateChangeHdlr", "sync:atomic.Value"), ("onSelectedCandidatePairChangeHdlr", "sync:atomic.Value"),
   ("selectedPair", "sync:atomic.Value"), ("muHaveStarted", "sync:sync.Mutex"),
   ("startedCandidatesMu", "sync:sync.Mutex"), ("selectorLock", "sync:sync.RWMutex"),
   ("onConnectedOnce", "sync:sync.Once")]

def guardedFields : List (String × String) :=
  [("startedCandidates", "guarded:startedCandidatesMu"), ("selector", "guarded:selectorLock")]

def expectedClass (f : String) : Option String :=
  if immutableFields.contains f then some "immutable"
  else match syncFields.lookup f with
    | some c => some c
    | none => guardedFields.lookup f

def guardReason : String := "agent field touched outside the task loop"

def guardLine (args : List String) (impl : String) : Res :=
  match args with
  | [_fn, field, _rw] =>
    if impl == "inside" then { model := "inside", prop := "C10" }
    else
      { model := "outside", prop := "C10",
        monitor := if impl == "outside" && (expectedClass field).isNone then some guardReason else none }
  | _ => bad "taskloop guard: arity"

def fieldClassLine (args : List String) (impl : String) : Res :=
  match args with
  | [field] =>
    match expectedClass field with
    | none => { model := impl, prop := "C10" }   -- not allow-listed: its guard lines are flagged
    | some c =>
      { model := c, prop := "C10",
        monitor := if impl == c then none
          else some s!"agent field touched outside the task loop: allow-listed field {field} is {impl}, expected {c}" }
  | _ => bad "taskloop fieldclass: arity"

def line (toks : List String) (impl : String) : Res :=
  match toks with
  | "hist" :: hmeta :: evs => histLine hmeta evs impl
  | ["skel", f] => skelLine f
  | "guard" :: rest => guardLine rest impl
  | "fieldclass" :: rest => fieldClassLine rest impl
  | _ => bad "taskloop: unknown op"

-- @component taskloop
abbrev State := Unit
def init : State := ()
def step (s : State) (toks : List String) (impl : String) : State × Res := (s, line toks impl)

end Driver.TaskLoop
