import IceSpec.C12Conc
import Driver.UdpMux
import Driver.Util
/-!
Driver of the concurrent acceptance recorder `udpmuxconc` (C12, tie A): the lines of a session are the
recorded events sorted by stamp; they are accumulated and `IceSpec.C12Conc.check` decides at `end`.
-/
namespace Driver.UdpMuxConc
open Driver IceSpec.C12Conc
open Driver.UdpMux (parseAddr parseKind nameOf)

abbrev State := Hist
def init : State := {}

def ok (s : State) : State × Res := (s, { model := "ok", monitor := none, prop := "C12" })

-- @component udpmuxconc
def step (s : State) (toks : List String) (_impl : String) : State × Res :=
  match toks with
  | "new" :: _ => ok {}
  | ["conn", cid, u, f, _st] =>
    match cid.toNat? with
    | some cid => ok { s with conns := s.conns ++ [{ cid := cid, ufrag := nameOf (u.drop 2).toString, v6 := f == "1" }] }
    | none => (s, bad "udpmuxconc conn")
  | ["write", cid, a, call, ret] =>
    match cid.toNat?, parseAddr a, call.toNat?, ret.toNat? with
    | some cid, some a, some call, some ret =>
      ok { s with writes := s.writes ++ [{ cid := cid, ep := IceSpec.C12.endpoint a, call := call, ret := ret }] }
    | _, _, _, _ => (s, bad "udpmuxconc write")
  | ["closed", cid, st] =>
    match cid.toNat?, st.toNat? with
    | some cid, some st => ok { s with closed := s.closed ++ [(cid, st)] }
    | _, _ => (s, bad "udpmuxconc closed")
  | ["feed", pid, a, k, t0, t1] =>
    match pid.toNat?, parseAddr a, parseKind k, t0.toNat?, t1.toNat? with
    | some pid, some a, some k, some t0, some t1 =>
      ok { s with feeds := s.feeds ++ [{ pid := pid, src := a, kind := k, t0 := t0, t1 := t1 }] }
    | _, _, _, _, _ => (s, bad "udpmuxconc feed")
  | ["read", cid, pid, a, st] =>
    match cid.toNat?, parseAddr a, st.toNat? with
    | some cid, some a, some st =>
      ok { s with reads := s.reads ++ [{ cid := cid, pid := pid.toNat?, src := a, stamp := st }] }
    | _, _, _ => (s, bad "udpmuxconc read")
  | ["quiesce", q] => ok { s with quiesce := if q = "ok" then none else some q }
  | ["end"] => ({}, { model := "ok", monitor := check s, prop := "C12" })
  | _ => (s, bad "udpmuxconc: unknown op")

end Driver.UdpMuxConc
