import Driver.Util
/-!
# Driver component `apiatomic` (property C10, both tiers)

`apiatomic run <scenario> <seed>` — the harness issues the same public call from several goroutines at once
while the task loop is held busy, and checks that the outcome is one a sequential order of the WHOLE calls
could produce (C10: "each call observes a state produced by whole preceding operations").  There is nothing
to model: the expected output is `ok`; `atomicity …` is a violation, `hung` too.
-/
namespace Driver.ApiAtomic
open Driver

def line (toks : List String) (impl : String) : Res :=
  match toks with
  | ["run", _scenario, _seed] =>
    let mon : Option String :=
      if impl.startsWith "atomicity" then
        some ("concurrent public calls did not behave like whole operations in some order: " ++ impl)
      else if impl == "hung" then some "a public API call did not return within 30 s"
      else none
    { model := if mon.isSome then impl else "ok", monitor := mon, prop := "C10" }
  | _ => bad "apiatomic: unknown op"

-- @component apiatomic
abbrev State := Unit
def init : State := ()
def step (s : State) (toks : List String) (impl : String) : State × Res := (s, line toks impl)

end Driver.ApiAtomic
