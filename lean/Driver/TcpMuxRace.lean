import Driver.Util
/-!
Line-protocol component `tcpmuxrace` (property C15, finding F22): the concurrent recorder
`harness/inpkg/zz_verif_tcpmuxrace_test.go` runs `RemoveConnByUfrag` against `GetConnByUfrag` / a first
STUN binding for the same ufrag with real goroutines and inspects the mux at rest. The specification of
one batch is a single fact — a packet connection created after the removal is not closed by the removed
connection's watcher — so the model's output is the constant `ok` and the monitor rejects anything else.
-/
namespace Driver.TcpMuxRace
open Driver

-- @component tcpmuxrace
abbrev State := Unit
def init : State := ()

def step (s : State) (toks : List String) (impl : String) : State × Res :=
  match toks with
  | ["race", v, n] =>
    if (v = "get" ∨ v = "frame") ∧ n.toNat?.isSome then
      (s, { model := "ok", prop := "C15",
            monitor := if impl = "ok" then none
              else some "F22: a packet connection created after RemoveConnByUfrag was closed by the close watcher of the removed connection" })
    else (s, bad "tcpmuxrace: args")
  | _ => (s, bad "tcpmuxrace: unknown op")

end Driver.TcpMuxRace
