import IceSpec.C12UniConc
import IceModel.UniMux
import Driver.UdpMuxConc
import Driver.UniMux
import Driver.Util
/-!
Driver of the concurrent acceptance recorder `udpmuxuniconc` (C12, tie A for `UniversalUDPMuxDefault`).

The lines of a session are the recorded events; they are accumulated and decided at `end`:

1. `IceSpec.C12UniConc.check` — the spec monitor (base clauses on every delivered datagram, layer clauses on every
   `GetXORMappedAddr` call); its verdict is `Res.monitor`.
2. ACCEPTANCE by the model `IceModel.UniMux`: the recorded calls (`xcall`/`xret`, `feed`, `closemux`) must be a
   linearisation the model can produce.  `search` is a DFS over commit orders: an operation may commit when no other
   uncommitted operation returned before it was called (stamps) and none belongs to an earlier virtual instant; virtual
   time is advanced with the model's `tick` (the recorder keeps timers and actors in different instants, so a tick is
   exact).  The model's `xorStart` is ONE atomic step; the code has two critical sections in the call
   (`cachedXORMappedAddr`, then `writeSTUN`) and a third after the wake-up (the released call re-reads the table).  The
   search therefore also offers
     R1  the `cached` half of a call on an expired entry as a step of its own (the call itself commits later), and
     R2  a call released through the entry's channel (`tap`, expiry) takes its result from the table at any point between
         its release and its return (`readNow`); results fixed by the model at once (cache hit, write error, timer) are
         final.
   The DFS has a node budget; when it runs out the verdict is INCONCLUSIVE (`Res.inconclusive`), never `rejected`.
   `rejected` (⇒ `MISMATCH`) is only reported when the whole tree was explored.
-/
namespace Driver.UdpMuxUniConc
open IceModel.UdpMux IceModel.UniMux Driver
open IceSpec.C12UniConc
open Driver.UdpMux (parseAddr)
open Driver.UniMux (parseXKind parseRes)

abbrev State := Hist
def init : State := {}

inductive PK where
  | xstart (w : Nat) (srv : Addr) (d : Nat)
  | xret (w : Nat) (res : WRes)
  | feed (src : Addr) (k : Kind) (x : XView) (pid : Nat)
  | close

structure POp where
  k : PK
  call : Nat
  ret : Nat
  vt : Nat

inductive WSt where
  | blocked
  /-- released through the entry's channel, result not yet read from the table -/
  | woken
  | done (r : WRes)
  deriving DecidableEq

structure WEnt where
  /-- recorded call number -/
  w : Nat
  /-- the model's call number -/
  mi : Nat
  st : WSt
  /-- recorded result -/
  exp : WRes

structure Node where
  m : UMux
  ws : List WEnt
  ops : List POp

/-- what a released call reads from the table (third critical section of `GetXORMappedAddrContext`) -/
def readNow (m : UMux) (a : Addr) : WRes :=
  match m.xmap a with
  | some e => (match e.addr with | some v => .ok v | none => .noMap)
  | none => .noMap

def applyWoke (ws : List WEnt) (woke : List (Nat × WRes)) : List WEnt :=
  ws.map (fun e =>
    match woke.find? (fun p => p.1 == e.mi) with
    | some (_, r) =>
      if e.st = .blocked then
        match r with
        | .timeout => { e with st := .done .timeout }
        | .writeErr => { e with st := .done .writeErr }
        | _ => { e with st := .woken }
      else e
    | none => e)

/-- R2: a released call whose recorded result is what the table holds now has read it now -/
def settle (m : UMux) (ws : List WEnt) : List WEnt :=
  ws.map (fun e => if e.st = .woken ∧ readNow m (m.waiter e.mi).srv = e.exp then { e with st := .done e.exp } else e)

def eligible (ops : List POp) (x : POp) : Bool :=
  ops.all (fun y => !(decide (y.ret < x.call)) && !(decide (y.vt < x.vt)))

def advance (n : Node) (vt : Nat) : UMux × List WEnt :=
  if vt > n.m.now then
    let (m1, o) := tick n.m (vt - n.m.now)
    (m1, applyWoke n.ws o.fx.woke)
  else (n.m, n.ws)

/-- the successors of committing operation number `i` -/
def commit (n : Node) (exp : Nat → Option WRes) (i : Nat) (x : POp) : List Node :=
  let (m0, ws0) := advance n x.vt
  let rest := n.ops.eraseIdx i
  match x.k with
  | .xret w res =>
    let ws1 := settle m0 ws0
    -- a timeout is returned at the instant the model's timer fires
    if ws1.any (fun e => e.w == w && decide (e.st = .done res) &&
          (res != .timeout || (m0.waiter e.mi).deadlineAt == x.vt)) then [{ m := m0, ws := ws1, ops := rest }] else []
  | .feed src k xv pid =>
    let (m1, o) := step m0 (.inbound src k xv pid)
    [{ m := m1, ws := settle m1 (applyWoke ws0 o.fx.woke), ops := rest }]
  | .close =>
    let (m1, o) := step m0 (.base .closeMux)
    [{ m := m1, ws := settle m1 (applyWoke ws0 o.fx.woke), ops := rest }]
  | .xstart w srv d =>
    match exp w with
    | none => []
    | some r =>
      let mi := m0.nwaiters
      let (m1, o) := step m0 (.xorStart srv d)
      let ws1 := applyWoke ws0 (o.fx.woke.filter (fun p => p.1 != mi))
      let whole : List Node :=
        match (m1.waiter mi).res with
        | some r1 => if r1 = r then [{ m := m1, ws := settle m1 (ws1 ++ [{ w := w, mi := mi, st := .done r1, exp := r }]), ops := rest }] else []
        | none => [{ m := m1, ws := settle m1 (ws1 ++ [{ w := w, mi := mi, st := .blocked, exp := r }]), ops := rest }]
      -- R1: only the `cached` half, when it retires an expired entry
      let a := canonAddr srv
      let half : List Node :=
        match m0.xmap a with
        | some e =>
          if e.expiresAt < m0.now then
            let (mc, woke, _) := cached m0 a
            [{ m := mc, ws := settle mc (applyWoke ws0 woke), ops := n.ops }]
          else []
        | none => []
      whole ++ half

def enumFrom {α : Type} : Nat → List α → List (Nat × α)
  | _, [] => []
  | i, a :: l => (i, a) :: enumFrom (i + 1) l

def expand (n : Node) (exp : Nat → Option WRes) : List Node :=
  let cands := (enumFrom 0 n.ops).filter (fun p => eligible n.ops p.2)
  -- a return that can commit commits first (it does not change the model state)
  let rets := cands.filterMap (fun p =>
    match p.2.k with
    | .xret _ _ => (commit n exp p.1 p.2).head?
    | _ => none)
  match rets with
  | r :: _ => [r]
  | [] => cands.flatMap (fun p => match p.2.k with | .xret _ _ => [] | _ => commit n exp p.1 p.2)

inductive Outcome where
  | accepted
  | rejected
  | gaveUp
  deriving DecidableEq

def dfs (exp : Nat → Option WRes) : Nat → List Node → Outcome
  | _, [] => .rejected
  | 0, _ :: _ => .gaveUp
  | fuel + 1, n :: rest => if n.ops.isEmpty then .accepted else dfs exp fuel (expand n exp ++ rest)

def searchBudget : Nat := 60000

def opsOf (h : Hist) : List POp :=
  let xs : List POp := h.calls.flatMap (fun c =>
    match c.ret with
    | some (res, ret, retVt) =>
      [{ k := .xstart c.w c.srv c.d, call := c.call, ret := ret, vt := c.callVt },
       { k := .xret c.w res, call := ret, ret := ret, vt := retVt }]
    | none => [{ k := .xstart c.w c.srv c.d, call := c.call, ret := c.call + 1000000000, vt := c.callVt }])
  let fs : List POp := h.feeds.map (fun f => { k := .feed f.src f.kind f.x f.pid, call := f.t0, ret := f.t1, vt := f.vt })
  let cl : List POp := match h.close with
    | some (c, r, vt) => [{ k := .close, call := c, ret := r, vt := vt }]
    | none => []
  (xs ++ fs ++ cl).mergeSort (fun a b => decide (a.call ≤ b.call))

def search (h : Hist) : Outcome :=
  let exp : Nat → Option WRes := fun w =>
    match h.calls.find? (fun c => c.w == w) with
    | some c => c.ret.map (·.1)
    | none => none
  dfs exp searchBudget [{ m := IceModel.UniMux.init h.ttl, ws := [], ops := opsOf h }]

def ok (s : State) : State × Res := (s, { model := "ok", monitor := none, prop := "C12" })

def liftBase (s : State) (toks : List String) : State × Res :=
  let (b, r) := Driver.UdpMuxConc.step s.base toks "ok"
  ({ s with base := b }, r)

-- @component udpmuxuniconc
def step (s : State) (toks : List String) (_impl : String) : State × Res :=
  match toks with
  | ["new", _ap, _procs, ttl, _n] =>
    match ttl.toNat? with
    | some ttl => ok { ttl := ttl }
    | none => (s, bad "udpmuxuniconc new")
  | ["crashed"] => (s, { model := "ok", monitor := none, prop := "C12" })
  | ["feed", pid, a, k, t0, t1, vt] =>
    match pid.toNat?, parseAddr a, parseXKind k, t0.toNat?, t1.toNat?, vt.toNat? with
    | some pid, some a, some (k, x), some t0, some t1, some vt =>
      ok { s with base := { s.base with feeds := s.base.feeds ++ [{ pid := pid, src := a, kind := k, t0 := t0, t1 := t1 }] },
                  feeds := s.feeds ++ [{ pid := pid, src := a, kind := k, x := x, t0 := t0, t1 := t1, vt := vt }] }
    | _, _, _, _, _, _ => (s, bad "udpmuxuniconc feed")
  | ["xcall", w, a, d, st, vt] =>
    match w.toNat?, parseAddr a, d.toNat?, st.toNat?, vt.toNat? with
    | some w, some a, some d, some st, some vt =>
      ok { s with calls := s.calls ++ [{ w := w, srv := a, d := d, call := st, callVt := vt }] }
    | _, _, _, _, _ => (s, bad "udpmuxuniconc xcall")
  | ["xret", w, r, st, vt] =>
    match w.toNat?, st.toNat?, vt.toNat? with
    | some w, some st, some vt =>
      match parseRes r with
      | some res => ok { s with calls := s.calls.map (fun c => if c.w == w then { c with ret := some (res, st, vt) } else c) }
      | none => ok { s with junk := some r }
    | _, _, _ => (s, bad "udpmuxuniconc xret")
  | ["closemux", c, r, vt] =>
    match c.toNat?, r.toNat?, vt.toNat? with
    | some c, some r, some vt => ok { s with close := some (c, r, vt) }
    | _, _, _ => (s, bad "udpmuxuniconc closemux")
  | ["end"] =>
    let mon := check s
    match search s with
    | .accepted => ({}, { model := "ok", monitor := mon, prop := "C12" })
    | .rejected => ({}, { model := "rejected: no linearisation of the recorded calls is a run of the UniMux model", monitor := mon, prop := "C12" })
    | .gaveUp => ({}, { model := "ok", monitor := mon, prop := "C12",
                        inconclusive := some "linearisation search over the UniMux model ran out of its node budget" })
  | "conn" :: _ | "write" :: _ | "closed" :: _ | "read" :: _ | "quiesce" :: _ => liftBase s toks
  | _ => (s, bad "udpmuxuniconc: unknown op")

end Driver.UdpMuxUniConc
