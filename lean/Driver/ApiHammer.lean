import Driver.Util
/-!
# Driver component `apihammer` (property C10, thorough tier, supporting evidence)

`apihammer run <scenario> <seed> <rounds>` — the harness hammers the public API of live agents under the
Go race detector.  There is nothing to model: the expected output is `ok`.  A data-race report
(`race <n> <signature>`) violates the second sentence of C10 ("any public Agent/Conn method may be called
from any goroutine concurrently … without data races"); a call that never returns (`hung`) violates it too.
-/
namespace Driver.ApiHammer
open Driver

def line (toks : List String) (impl : String) : Res :=
  match toks with
  | ["run", _scenario, _seed, _rounds] =>
    let mon : Option String :=
      if impl.startsWith "race" then
        some ("data race reported by the Go race detector while hammering the public API: " ++ impl)
      else if impl == "hung" then some "a public API call did not return within 60 s"
      else none
    -- no model to disagree with: a report is a MONITOR line only (model output = implementation output)
    { model := if mon.isSome then impl else "ok", monitor := mon, prop := "C10" }
  | _ => bad "apihammer: unknown op"

-- @component apihammer
abbrev State := Unit
def init : State := ()
def step (s : State) (toks : List String) (impl : String) : State × Res := (s, line toks impl)

end Driver.ApiHammer
