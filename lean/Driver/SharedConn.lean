import IceModel.SharedConn
import IceSpec.C13
import Driver.Util
/-!
Driver component `shared`: reference-counted handles (C13).

Ops (one session per `new`):
  `shared new <kind>`            → `ok`             (kind = fake | udp | tcp: which underlying connection the harness uses)
  `shared open`                  → `h<k>`
  `shared close <h>`             → `ok u=<underlying closes> rel=<released parked reads>`
  `shared read <h>`              → `data` | `pending` | `err:closed` | `err:timeout`
  `shared write <h>`             → `ok` | `err:closed`
  `shared setrd <h> past|zero`   → `ok` | `err:closed`
  `shared setwd <h>`             → `ok` | `err:closed`
  `shared feed`                  → `ok` | `ok rel=h<k>` | `skip`
The model output is `IceModel.SharedConn.step`; the monitor (`IceSpec.C13.sharedViolation`) is fed
with the IMPLEMENTATION's outputs.
-/
namespace Driver.SharedConn
open IceModel.SharedConn IceSpec.C13 Driver

structure State where
  model : IceModel.SharedConn.State := IceModel.SharedConn.State.init
  mon : SMon := {}

def init : State := {}

def parseIO (s : String) : IORes :=
  if s = "ok" then .ok else if s = "err:closed" then .errClosed else if s = "data" then .data
  else if s = "pending" then .pending else if s = "err:timeout" then .errTimeout else .other

def parseHandle (s : String) : Option Nat :=
  if s.startsWith "h" then (s.drop 1).toString.toNat? else none

def parseKV (pfx : String) (s : String) : Option Nat :=
  if s.startsWith pfx then (s.drop pfx.length).toString.toNat? else none

/-- implementation output → observation for the monitor -/
def obsOf (op : Op) (impl : String) : Option SObs :=
  match op with
  | .open => (parseHandle impl).map SObs.opened
  | .close h =>
    match impl.splitOn " " with
    | ["ok", u, r] => match parseKV "u=" u, parseKV "rel=" r with
      | some u, some r => some (.closed h u r)
      | _, _ => none
    | _ => none
  | .read h => some (.io h .read (parseIO impl))
  | .write h => some (.io h .write (parseIO impl))
  | .setrd h _ => some (.io h .setrd (parseIO impl))
  | .setwd h => some (.io h .setwd (parseIO impl))
  | .feed =>
    if impl = "ok" then some (.fed none)
    else if impl = "skip" then some .skip
    else match impl.splitOn " " with
      | ["ok", r] => (parseKV "rel=h" r).map (fun h => SObs.fed (some h))
      | _ => none

def parseOp (toks : List String) : Option Op :=
  match toks with
  | ["open"] => some .open
  | ["close", h] => h.toNat?.map Op.close
  | ["read", h] => h.toNat?.map Op.read
  | ["write", h] => h.toNat?.map Op.write
  | ["setrd", h, v] => h.toNat?.bind (fun h => if v = "past" then some (.setrd h true) else if v = "zero" || v = "future" then some (.setrd h false) else none)
  | ["setwd", h] => h.toNat?.map Op.setwd
  | ["feed"] => some .feed
  | _ => none

-- @component shared
def step (s : State) (toks : List String) (impl : String) : State × Res :=
  match toks with
  | ["new", _kind] => ({}, { model := "ok", prop := "C13" })
  | _ =>
    match parseOp toks with
    | none => (s, bad "shared: unknown op")
    | some op =>
      let (m', out) := IceModel.SharedConn.step s.model op
      -- an operation the harness refused (handle id out of range: shrunk sequences) is no observation
      let (mon', why) := if impl.startsWith "bad-" then (s.mon, none) else
        match obsOf op impl with
        | some o => sharedViolation s.mon o
        | none => (s.mon, some "unparsable implementation output")
      ({ model := m', mon := mon' }, { model := out.toString, monitor := why, prop := "C13" })

end Driver.SharedConn
