import IceModel.SharedConn
import IceSpec.C13
import Driver.Util
/-!
Driver component `shared`: reference-counted handles (C13).

Ops (one session per `new`):
  `shared new <kind>`            → `ok`             (kind = fake | udp | tcp: which underlying connection the harness uses)
  `shared open`                  → `h<k>`
  `shared close <h>`             → `ok u=<underlying closes> rel=<released parked reads>`
  `shared read <h>`              → `data` | `pending` | `err:closed` | `err:timeout`
  `shared write <h>`             → `ok` | `err:closed`
  `shared write <h>`             … also `err:timeout` (the underlying write failed under a write deadline)
  `shared write <h> <c>`         write to connection c of the ufrag (kind tcpm<k>)
  `shared refuse <c> on|off`     → `ok`   fault: connection c refuses SetWriteDeadline / SetDeadline (kind tcpm<k>)
  `shared close <h>` / `abort <h>` … `err:other u=<…> rel=<…>` when the forwarded deadline call reported a refusing connection's error
  `shared writeap <h>`           the same through `WriteToAddrPort` when the handle has it (kind udpap); same model op
  `shared setrd <h> past|zero|future` → `ok` | `err:closed`      (SetReadDeadline)
  `shared setwd <h> [past|zero]` → `ok` | `err:closed`            (SetWriteDeadline; no argument = zero)
  `shared setd <h> past|zero`    → `ok` | `err:closed`            (SetDeadline)
  `shared abort <h>`             → `ok u=<…> rel=<…>` | `err:closed u=<…> rel=0`
                                    (the candidateBase.abortIO sequence: SetDeadline(now), abortWrite, Close)
The kind selects the model of the underlying connection: `udp` / `udpap` ignore a forwarded SetWriteDeadline
(udpMuxedConn), `tcp`, `tcpm<k>` and `fake` honour it for every handle (tcpPacketConn over one net.Pipe / over k
scripted connections; the harness's fake).
  `shared feed`                  → `ok` | `ok rel=h<k>` | `skip`
The model output is `IceModel.SharedConn.step`; the monitor (`IceSpec.C13.sharedViolation`) is fed
with the IMPLEMENTATION's outputs.
-/
namespace Driver.SharedConn
open IceModel.SharedConn IceSpec.C13 Driver

structure State where
  model : IceModel.SharedConn.State := IceModel.SharedConn.State.init
  mon : SMon := {}

def init : State := {}

def parseIO (s : String) : IORes :=
  if s = "ok" then .ok else if s = "err:closed" then .errClosed else if s = "data" then .data
  else if s = "pending" then .pending else if s = "err:timeout" then .errTimeout else .other

def parseHandle (s : String) : Option Nat :=
  if s.startsWith "h" then (s.drop 1).toString.toNat? else none

def parseKV (pfx : String) (s : String) : Option Nat :=
  if s.startsWith pfx then (s.drop pfx.length).toString.toNat? else none

/-- implementation output → observation for the monitor -/
def obsOf (op : Op) (impl : String) : Option SObs :=
  match op with
  | .open => (parseHandle impl).map SObs.opened
  | .close h =>
    match impl.splitOn " " with
    | ["ok", u, r] => match parseKV "u=" u, parseKV "rel=" r with
      | some u, some r => some (.closed h u r)
      | _, _ => none
    | ["err:other", u, r] => match parseKV "u=" u, parseKV "rel=" r with
      | some u, some r => some (.closedErr h u r)
      | _, _ => none
    | _ => none
  | .read h => some (.io h .read 0 (parseIO impl))
  | .write h c => some (.io h .write c (parseIO impl))
  | .refuse c on => if impl = "ok" then some (.fault c on) else none
  | .setrd h p => some (.dl h true false p (parseIO impl))
  | .setwd h p => some (.dl h false true p (parseIO impl))
  | .setd h p => some (.dl h true true p (parseIO impl))
  | .abort h =>
    match impl.splitOn " " with
    | [r, u, k] => match parseKV "u=" u, parseKV "rel=" k with
      | some u, some k => some (.aborted h (parseIO r) u k)
      | _, _ => none
    | _ => none
  | .feed =>
    if impl = "ok" then some (.fed none)
    else if impl = "skip" then some .skip
    else match impl.splitOn " " with
      | ["ok", r] => (parseKV "rel=h" r).map (fun h => SObs.fed (some h))
      | _ => none

def parseOp (toks : List String) : Option Op :=
  match toks with
  | ["open"] => some .open
  | ["close", h] => h.toNat?.map Op.close
  | ["read", h] => h.toNat?.map Op.read
  | ["write", h] => h.toNat?.map (fun h => Op.write h 0)
  | ["write", h, c] => h.toNat?.bind (fun h => c.toNat?.map (fun c => Op.write h c))
  | ["writeap", h] => h.toNat?.map (fun h => Op.write h 0)
  | ["refuse", c, v] => c.toNat?.bind (fun c => if v = "on" then some (.refuse c true) else if v = "off" then some (.refuse c false) else none)
  | ["setrd", h, v] => h.toNat?.bind (fun h => if v = "past" then some (.setrd h true) else if v = "zero" || v = "future" then some (.setrd h false) else none)
  | ["setwd", h] => h.toNat?.map (fun h => Op.setwd h false)
  | ["setwd", h, v] => h.toNat?.bind (fun h => if v = "past" then some (.setwd h true) else if v = "zero" then some (.setwd h false) else none)
  | ["setd", h, v] => h.toNat?.bind (fun h => if v = "past" then some (.setd h true) else if v = "zero" then some (.setd h false) else none)
  | ["abort", h] => h.toNat?.map Op.abort
  | ["feed"] => some .feed
  | _ => none

-- @component shared
def step (s : State) (toks : List String) (impl : String) : State × Res :=
  match toks with
  | ["new", kind] =>
    -- `tcpm<k>`: the TCP mux packet conn with k scripted net.Conns (k registers, refusal faults)
    let k := if kind.startsWith "tcpm" then ((kind.drop 4).toString.toNat?).getD 0 else 0
    ({ model := IceModel.SharedConn.State.initK (kind = "tcp" || kind = "fake" || kind.startsWith "tcpm") k, mon := SMon.initK k },
     { model := "ok", prop := "C13" })
  | _ =>
    match parseOp toks with
    | none => (s, bad "shared: unknown op")
    | some op =>
      let (m', out) := IceModel.SharedConn.step s.model op
      -- an operation the harness refused (handle id out of range: shrunk sequences) is no observation
      let (mon', why) := if impl.startsWith "bad-" then (s.mon, none) else
        match obsOf op impl with
        | some o => sharedViolation s.mon o
        | none => (s.mon, some "unparsable implementation output")
      ({ model := m', mon := mon' }, { model := out.toString, monitor := why, prop := "C13" })

end Driver.SharedConn
