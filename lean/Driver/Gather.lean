import IceModel.Gather
import IceSpec.C18
import IceSpec.C09
import IceSpec.C11Gather
import IceSpec.C03Gather
import Driver.Util
/-!
Driver component `gather`: runs `IceModel.Gather.step` in lock-step with the real agent of
`harness/inpkg/zz_verif_gather_test.go`, renders the model's observation as the canonical line, and
evaluates the spec monitors of C18 and C09 on the IMPLEMENTATION's line.
-/
namespace Driver.Gather
open IceModel.Gather Driver

/-! ### parsing of configuration, interface table, and the implementation's line -/

def kvs (s : String) : List (String × String) :=
  (s.splitOn ",").filterMap fun kv =>
    match kv.splitOn "=" with
    | k :: v :: rest => some (k, "=".intercalate (v :: rest))
    | _ => none

def look (m : List (String × String)) (k : String) : String :=
  ((m.find? (·.1 == k)).map (·.2)).getD ""

def plusList (s : String) : List String := if s == "" || s == "-" then [] else s.splitOn "+"

def parseAddrs (s : String) : List Addr := (plusList s).filterMap Addr.ofTok?

def parseRewrite (s : String) : Rewrite :=
  if s == "drop" then .drop else if s == "rep" then .rep else if s == "rep2" then .rep2
  else if s == "app" then .app else .none

def parseBusy (s : String) : List (Addr × Nat) :=
  (plusList s).filterMap fun x =>
    match x.splitOn ":" with
    | [a, p] => match Addr.ofTok? a, p.toNat? with
      | some a, some p => some (a, p)
      | _, _ => none
    | _ => none

def parseCfg (s : String) : Config :=
  let m := kvs s
  let g := look m
  let ctS := g "ct"
  let setOf (v : String) : Option (List String) :=
    if v == "" || v == "-" then none else if v == "n" then some [] else some (v.splitOn "+")
  { candTypes := ctS.toList.filterMap (fun c => if c == 'h' then some CandType.host else if c == 's' then some .srflx
                    else if c == 'r' then some .relay else none)
    netTypes := (plusList (g "nt")).filterMap NetType.ofTok?
    portMin := (g "pmin").toNat?.getD 0
    portMax := (g "pmax").toNat?.getD 0
    ifFilter := (setOf (g "rif")).map (fun l => l.filterMap String.toNat?)
    ipFilter := (setOf (g "rip")).map (fun l => l.filterMap Addr.ofTok?)
    includeLoopback := g "lo" == "1"
    mdnsGather := g "md" == "1"
    udpMux := if g "um" == "" || g "um" == "-" then none else some (parseAddrs (g "um"))
    tcpMux := if g "tm" == "" || g "tm" == "-" then none else if g "tm" == "any" then some none else some (Addr.ofTok? (g "tm"))
    srflxMux := if g "sm" == "" || g "sm" == "-" then none else some (parseAddrs (g "sm"))
    stunUrls := (g "su").toNat?.getD 0
    turnUrls := (g "tu").toNat?.getD 0
    busy := parseBusy (g "busy")
    turnFail := (g "tf").toNat?.getD 0
    turnCreds := (g "tc").toList.map (fun c => if c == 'u' then 1 else if c == 'p' then 2 else 0)
    relayRewrite := parseRewrite (g "rr")
    srflxRewrite := if (g "sr").startsWith "pin" then .none else parseRewrite (g "sr")
    srflxPinned :=
      match (g "sr").splitOn ":" with
      | [m, exts] => if m == "pin" then some (true, parseAddrs exts) else if m == "pina" then some (false, parseAddrs exts) else none
      | _ => none
    hostRule :=
      match (g "hr").splitOn ":" with
      | [m, pin, ifc, exts] =>
        -- `WithAddressRewriteRules` drops repeated external literals (`sanitizeExternalIPs`)
        some { replace := m != "app", pin := Addr.ofTok? pin, iface := ifc.toNat?, exts := (parseAddrs exts).eraseDups }
      | _ => none
    hold := g "hold" == "1"
    continual := g "cg" == "1"
    monIntervalMs := (g "mi").toNat?.getD 0 }

def parseIfaces (s : String) : List Iface :=
  if s == "-" || s == "" then [] else
  (s.splitOn "/").filterMap fun part =>
    match part.splitOn ":" with
    | [n, fl, as] =>
      some { name := n.toNat?.getD 0, up := fl.contains 'u', loopback := fl.contains 'l', addrs := parseAddrs as }
    | _ => none

/-- `key=value` fields of the implementation's line (space separated) -/
def fields (impl : String) : List (String × String) :=
  (impl.splitOn " ").filterMap fun kv =>
    match kv.splitOn "=" with
    | k :: v :: rest => some (k, "=".intercalate (v :: rest))
    | _ => none

def commaList (s : String) : List String := if s == "-" || s == "" then [] else s.splitOn ","

def parsePFlag (s : String) : PFlag :=
  if s == "r" then .r else if s == "e" then .e else if s == "o" then .o else if s == "M" then .M else .na

def parseCandO (s : String) : Option CandO :=
  match s.splitOn ":" with
  | [t, n, a, nm, pf, b, tag, rv] =>
    let ty? : Option CandType := if t == "h" then some .host else if t == "s" then some .srflx else if t == "r" then some .relay else none
    match ty?, NetType.ofTok? n, Addr.ofTok? a with
    | some ty, some net, some addr =>
      some ({ ty := ty, net := net, addr := addr, mdns := nm == "m", pflag := parsePFlag pf,
              base := if b == "-" then none else Addr.ofTok? b, resolved := rv == "a" }, tag.toNat?)
    | _, _, _ => none
  | _ => none

def parseKind (s : String) : Option Kind := Kind.all.find? (fun k => k.tok == s)

/-- `sk:0=2;1=1,tc:0=1` -/
def parseLed (s : String) : List ((Kind × Option Nat) × Nat) :=
  (commaList s).flatMap fun part =>
    match part.splitOn ":" with
    | [k, items] =>
      match parseKind k with
      | none => []
      | some kind => (items.splitOn ";").filterMap fun it =>
        match it.splitOn "=" with
        | [tag, n] => some ((kind, tag.toNat?), n.toNat?.getD 0)
        | _ => none
    | _ => []

/-- `um0=3,tmx=1` -/
def parseMg (s : String) : List ((Kind × Option Nat) × Nat) :=
  (commaList s).filterMap fun it =>
    match it.splitOn "=" with
    | [kt, n] =>
      match parseKind (kt.take 2).toString with
      | some kind => some ((kind, (kt.drop 2).toString.toNat?), n.toNat?.getD 0)
      | none => none
    | _ => none

def parsePend (s : String) : List (Bool × Nat × String) :=
  (commaList s).map fun p =>
    let gen := (((p.drop 1).toString.splitOn ".").head?.getD "").toNat?.getD 0
    (p.startsWith "T", gen, p)

def parseGS (s : String) : Option Cycle.GS :=
  if s == "new" then some .new else if s == "gathering" then some .gathering else if s == "complete" then some .complete else none

structure ImplLine where
  r : String
  obs : Obs
  /-- every candidate token could be parsed -/
  wellFormed : Bool

def parseImpl (impl : String) : ImplLine :=
  let f := fields impl
  let g := look f
  let cs := (commaList (g "c")).map parseCandO
  let es := (commaList (g "ev")).map parseCandO
  let tot := (g "tot").splitOn "/"
  { r := g "r"
    wellFormed := cs.all Option.isSome && es.all Option.isSome && (g "st") != ""
    obs := { st := parseGS (g "st"), gen := (g "g").toNat?.getD 0, failed := (g "fl").toNat?.getD 0,
             now := (g "t").toNat?.getD 0, cands := cs.filterMap id, evs := es.filterMap id,
             nilOp := (g "nil").toNat?.getD 0, nils := (g "nils").toNat?.getD 0, late := (g "late").toNat?.getD 0,
             led := parseLed (g "led"), opens := (tot.head?.getD "").toNat?.getD 0,
             closes := ((tot.drop 1).head?.getD "").toNat?.getD 0, muxGets := parseMg (g "mg"),
             held := (g "held").toNat?.getD 0, hidden := (g "hid").toNat?.getD 0, pend := parsePend (g "pend"),
             unresolved := (g "nr").toNat?.getD 0 } }

/-! ### rendering of the model's observation -/

def candTok (c : CandO) : String :=
  ":".intercalate [c.1.ty.tok, c.1.net.tok, c.1.addr.tok, (if c.1.mdns then "m" else "i"), c.1.pflag.tok,
    (match c.1.base with | some b => b.tok | none => "-"), (match c.2 with | some g => toString g | none => "x"),
    (if c.1.resolved then "a" else "n")]

def sortS (l : List String) : List String := l.mergeSort (fun a b => a ≤ b)

def joinOr (l : List String) : String := if l.isEmpty then "-" else ",".intercalate l

def tagTok (t : Option Nat) : String := match t with | some g => toString g | none => "x"

def ledTok (led : List ((Kind × Option Nat) × Nat)) : String :=
  joinOr (Kind.all.filterMap fun k =>
    -- the harness sorts the generation tags as strings, then formats
    let items := (((led.filter (fun p => p.1.1 == k && p.2 > 0)).map fun p => (tagTok p.1.2, p.2)).mergeSort
      (fun a b => a.1 ≤ b.1)).map fun p => p.1 ++ "=" ++ toString p.2
    if items.isEmpty then none else some (k.tok ++ ":" ++ ";".intercalate items))

def mgTok (mg : List ((Kind × Option Nat) × Nat)) : String :=
  joinOr (sortS (mg.map fun p => p.1.1.tok ++ tagTok p.1.2 ++ "=" ++ toString p.2))

def stTok (st : Option Cycle.GS) : String :=
  match st with
  | none => "closed"
  | some .new => "new"
  | some .gathering => "gathering"
  | some .complete => "complete"

/-- `lastKnownInterfaces`, printed by sessions with continual gathering only -/
def lkTok (lk : List (Addr × Option Nat)) : String :=
  if lk.isEmpty then "-" else
  "+".intercalate (sortS (lk.map fun k => k.1.tok ++ (match k.2 with | some z => "%" ++ toString z | none => "")))

def render (continual : Bool) (r : String) (o : Obs) : String :=
  s!"r={r} st={stTok o.st} g={o.gen} fl={o.failed} t={o.now} c={joinOr (sortS (o.cands.map candTok))} " ++
  s!"ev={joinOr (sortS (o.evs.map candTok))} nil={o.nilOp} nils={o.nils} late={o.late} led={ledTok o.led} " ++
  s!"tot={o.opens}/{o.closes} mg={mgTok o.muxGets} held={o.held} hid={o.hidden} nr={o.unresolved} pend={joinOr (sortS (o.pend.map (·.2.2)))}" ++
  (if continual then " lk=" ++ lkTok o.lk else "")

def rtok : Rtok → String
  | .ok => "ok" | .multiple => "err:multiple" | .closed => "err:closed" | .skip => "skip"
  | .pair a b => rtok a ++ "+" ++ rtok b

/-! ### the component -/

structure Session where
  ms : MState
  /-- the interface table as the OPERATIONS set it (what the monitors judge against; not read from the model) -/
  ifs : List Iface
  m18 : IceSpec.C18.MonSt
  m09 : IceSpec.C09.MonSt

-- @component gather
abbrev State := Option Session
def init : State := none

def parseOp (toks : List String) (il : ImplLine) : Option Op :=
  match toks with
  | ["gather"] => some .gather
  | ["gather2"] => some .gather2
  | ["grg"] => some .grg
  | ["restart"] => some .restart
  | ["close"] => some .close
  | ["fail"] => some (.fail il.obs.now il.obs.failed)
  | ["release"] => some .release
  | ["hold"] => some .hold
  | ["ifaces", t] => some (.ifaces (parseIfaces t))
  | ["adv", ms] => ms.toNat?.map .adv
  | ["stunreply", k, m] => match k.toNat?, m.toNat? with
    | some k, some m => some (.stunreply k m)
    | _, _ => none
  | ["turnreply", k, v] =>
    match k.toNat? with
    | none => none
    | some k => if v == "fail" then some (.turnreply k false 0) else some (.turnreply k true ((v.drop 2).toString.toNat?.getD 0))
  | _ => none

def monitors (se : Session) (toks : List String) (il : ImplLine) : Session × Option String × List (String × String) :=
  if !il.wellFormed then
    (se, some ("unparsable implementation output"), [])
  else
    let opName := toks.head?.getD ""
    let ifs := match toks with | ["ifaces", t] => parseIfaces t | _ => se.ifs
    let (v18, m18) := IceSpec.C18.check se.ms.cfg ifs se.m18 opName il.r il.obs
    let (v09, m09) := IceSpec.C09.check se.m09 opName il.r il.obs
    let v11 := IceSpec.C11Gather.nilViolation il.obs
    ({ se with ifs := ifs, m18 := m18, m09 := m09 }, v18,
      (match v09 with | some w => [("C09", w)] | none => []) ++ (match v11 with | some w => [("C11", w)] | none => [])
        ++ (match IceSpec.C03Gather.addrViolation il.obs with | some w => [("C03", w)] | none => []))

def step (st : State) (toks : List String) (impl : String) : State × Res :=
  match toks with
  | ["new", cfgS, ifsS] =>
    let cfg := parseCfg cfgS
    let ifs := parseIfaces ifsS
    let il0 := parseImpl impl
    let cfg := { cfg with quirks := (plusList (look (fields impl) "q")).filterMap String.toNat? }
    let _ := il0
    match newAgent cfg ifs with
    | .error .port => (none, { model := "r=err:port", prop := "C18" })
    | .error .uselessUrls => (none, { model := "r=err:uselessurls", prop := "C18" })
    | .error .mdnsRewrite => (none, { model := "r=err:mdnsrewrite", prop := "C18" })
    | .error .ineffectiveHost => (none, { model := "r=err:ineffective", prop := "C18" })
    | .ok ms =>
      let il := parseImpl impl
      let se : Session := { ms := ms, ifs := ifs, m18 := IceSpec.C18.MonSt.init, m09 := IceSpec.C09.MonSt.init }
      let (se, v18, more) := monitors se ["new"] il
      let q := if cfg.quirks.isEmpty then "-" else "+".intercalate (cfg.quirks.map toString)
      (some se, { model := (render cfg.continual "ok" (observe ms)).replace "r=ok st=" ("r=ok q=" ++ q ++ " st="), monitor := v18, prop := "C18", more := more })
  | ["stress", _] =>
    -- S5 stress run outside the bubble: the model (with or without the re-check) never starts a stale
    -- candidate at a quiescent point; a positive count is the window of `C18_cycle_stale_witness`
    -- the outcome of a stress run is an observation, not a prediction: it is judged by the C18 monitor only
    (none, { model := if impl == "r=ok stale=1" then impl else "r=ok stale=0", prop := "C18",
             monitor := if impl == "r=ok stale=0" then none else
               some "candidate of a cancelled cycle started into the new generation (Restart between addCandidate's context check and its hand-off, S5)" })
  | _ =>
    match st with
    | none => (none, { model := "bad-op no session" })
    | some se =>
      let il := parseImpl impl
      match toks with
      | ["end"] =>
        let ms := if se.ms.cyc.closed then se.ms else closeAgent se.ms
        let ms := expire { ms with now := ms.now + turnTimeoutMs + stunTimeoutMs }
        let ms := applyFailed ms il.obs.failed
        let (_, v18, more) := monitors se toks il
        (none, { model := render se.ms.cfg.continual "ended" (observe ms), monitor := v18, prop := "C18", more := more })
      | _ =>
        match parseOp toks il with
        | none => (st, bad "gather: unknown op")
        | some op =>
          let (ms, r) := IceModel.Gather.step se.ms op
          let ms := applyFailed ms il.obs.failed
          let line := render ms.cfg.continual (rtok r) (observe ms)
          let (se, v18, more) := monitors { se with ms := ms.flush } toks il
          (some se, { model := line, monitor := v18, prop := "C18", more := more })

end Driver.Gather
