import IceModel.CloseSys
import IceSpec.C08
import Driver.Util
/-!
Driver component `close` (property C08).

For every line of a session the driver
 1. parses the events and digests printed by the harness, feeds them to the spec monitor `IceSpec.C08.Mon`
    (→ `MONITOR` when the IMPLEMENTATION's history violates a clause of the property), and
 2. (not for sessions whose id starts with `m`: monitor only) replays the operation on the shutdown model `IceModel.CloseSys`: new API calls become model threads, handler
    invocations become drainer programs, blocked socket writes become tasks blocked in the loop; the model is then
    run to quiescence by a greedy scheduler — EVERY transition it takes is validated by `CloseSys.step` — and the
    model's quiescent state (which calls have returned, `done`, Closed, per-candidate `closeCh`/`closedCh`, notifier
    `done` flags, handlers in progress) is compared with the implementation's digest.  Agreement ⇒ the recorded
    close/return order is a behaviour of the model (`recorded`); disagreement ⇒ `rejected:<why>` (MISMATCH).
    The search is bounded three ways — scheduler fuel (`quiesceWith`), the beam of `beam` worlds per agent, three fixed
    schedules per op.  A world whose scheduler runs out of fuel, or that falls off the beam, is dropped UNREFUTED; once
    that has happened in a session "no world left" is INCONCLUSIVE (`Res.inconclusive`, model output = implementation's,
    replay of the session stops, the monitor goes on), never `rejected`.  Since only three schedules per operation are
    explored, "no explored world agrees" is INCONCLUSIVE as well: the verdicts of this component come from the spec
    monitor; the model replay contributes acceptances (witnesses that the model explains the recorded behaviour).
-/
namespace Driver.CloseSys
open IceModel.CloseSys IceSpec.C08 Driver

/-! ### parsing -/

def between (s : String) (l r : String) : String :=
  match s.splitOn l with
  | _ :: rest :: _ => ((rest.splitOn r).headD "")
  | _ => ""

def field (s key : String) : String :=
  -- value of `key=` in a `;`-separated record
  match (s.splitOn ";").find? (fun kv => kv.startsWith (key ++ "=")) with
  | some kv => (kv.drop (key.length + 1)).toString
  | none => ""

def splitAt' (s : String) : String × Nat :=
  match s.splitOn "@" with
  | [a, t] => (a, t.toNat?.getD 0)
  | a :: _ => (a, 0)
  | [] => ("", 0)

def parseEv (raw : String) : Option Ev :=
  let (body, t) := splitAt' raw
  let p := body.splitOn ":"
  match p with
  | [] => none
  | h :: rest =>
    if h.startsWith "C" then
      match (h.drop 1).toString.toNat?, rest with
      | some id, ag :: kind => some (.call id ag (":".intercalate kind) t)
      | _, _ => none
    else if h.startsWith "R" && h != "REL" then
      match (h.drop 1).toString.toNat? with
      | some id => some (.ret id (":".intercalate rest) t)
      | none => none
    else if h == "REL" then some (.release (rest.headD "") t)
    else if h.startsWith "H" then
      let ag := ((h.drop 1).take 1).toString
      let stream := ((h.drop 2).toString.toNat?).getD 0
      match rest with
      | [ev, "enter", mode] => some (.hEnter ag stream ev mode t)
      | [ev, "exit"] => some (.hExit ag stream ev t)
      | _ => none
    else none

structure CandDig where
  addr : Nat
  started : Bool
  closeCh : Bool
  closedCh : Bool
  blockedNow : Nat
  sockClosed : Bool := false
  deriving Repr, Inhabited

structure Dig where
  done : Bool := false
  closed : Bool := false
  cands : List CandDig := []
  /-- per notifier: done, running, queue length -/
  notif : List (Bool × Bool × Nat) := []
  nl : Nat := 0
  nr : Nat := 0
  deriving Repr, Inhabited

def parseCand (s : String) : Option CandDig :=
  match s.splitOn ":" with
  | [addr, st, sc, b] =>
    let cs := st.toList
    some { addr := addr.toNat?.getD 0, started := st != "--", closeCh := cs.head? == some '1',
           closedCh := cs.getLast? == some '1' && st != "--", blockedNow := ((b.drop 1).toString.toNat?).getD 0,
           sockClosed := sc == "s1" }
  | _ => none

def parseDig (s : String) : Dig :=
  let ks := (field s "K").splitOn ","
  let ns := (field s "N").splitOn ","
  { done := field s "d" == "1", closed := field s "x" == "1",
    cands := ks.filterMap parseCand,
    notif := ns.filterMap fun n => match n.toList with
      | d :: r :: q => some (d == '1', r == '1', (String.ofList q).toNat?.getD 0)
      | _ => none,
    nl := (field s "nl").toNat?.getD 0, nr := (field s "nr").toNat?.getD 0 }

/-! ### the model side -/

/-- bookkeeping of the replay of one agent. -/
structure Rep where
  m : State := { streams := [{}, {}, {}], thr := [{}], bufData := 1000000 }   -- thread 0: helper for injected tasks
  /-- call id ↦ model thread index -/
  ids : List (Nat × Nat) := []
  /-- model thread index ↦ address of the candidate its task starts -/
  thrAddr : List (Nat × Nat) := []
  /-- address of model candidate `i` -/
  candAddr : List Nat := []
  /-- sockets whose writes currently block (addresses) -/
  blocking : List Nat := []
  /-- streams whose drainer is held by the test (handler in mode `block`) -/
  held : List Nat := []
  /-- handler behaviour per stream -/
  mode : List String := ["none", "none", "none"]
  /-- calls the implementation has reported as returned -/
  returned : List Nat := []
  /-- handlers in progress in the implementation, per stream -/
  active : List Nat := []
  /-- a socket write that was blocked when the model last came to rest stays blocked until it is passed or aborted,
  even if the socket stops blocking for later writes: candidate of the loop's stuck write, threads with a stuck write -/
  stuckLoop : Option Nat := none
  stuckTh : List Nat := []
  /-- pending user writes through a selected pair: call id ↦ socket address -/
  writes : List (Nat × Nat) := []
  /-- pending `Conn.Write` calls made without a selected pair: after their `Run` they write on the best valid pair -/
  nopair : List Nat := []
  /-- handler invocations started per stream: in the model / in the implementation -/
  mStarted : List Nat := [0, 0, 0]
  iStarted : List Nat := [0, 0, 0]
  /-- sockets handed out by the fake Net so far (gathering) -/
  nport : Nat := 0
  ip : Nat := 1
  /-- first disagreement / invalid transition -/
  bad : Option String := none
  /-- the greedy scheduler ran out of fuel with a transition still enabled: this world never came to rest, so it can be
  neither compared with the implementation's digest nor carried on — it is DROPPED, and the fact is remembered
  (`Sess.lossy`): a later "no world explains the observation" is then inconclusive, not a rejection -/
  gaveUp : Bool := false
  steps : Nat := 0
  deriving Inhabited

def Rep.fire (r : Rep) (a : Action) : Rep :=
  match step r.m a with
  | some m' =>
    -- a task statement may have started a candidate: remember its address
    let r1 : Rep := { r with m := m', steps := r.steps + 1 }
    -- a drainer popped an event: one more handler invocation in the model
    let r1 : Rep := match a with
      | .th (.dr i) _ =>
        let ql (m : State) : Nat := ((m.streams[i]?).map (fun (st : Stream) => st.queue.length)).getD 0
        if ql m' < ql r.m then { r1 with mStarted := r1.mStarted.modify i (· + 1) } else r1
      | _ => r1
    if m'.cands.length > r.m.cands.length then
      let owner := match loopOwner r.m with
        | some (.api n) => (r.thrAddr.find? (fun (p : Nat × Nat) => p.1 == n)).map (fun (p : Nat × Nat) => p.2)
        | _ => none
      { r1 with candAddr := r.candAddr ++ [owner.getD 0] }
    else r1
  | none => { r with bad := r.bad.orElse fun _ => some s!"scheduler chose a transition the model does not enable: {repr a}" }

/-- fire only if enabled (used after an injection that may have been appended to a blocked task). -/
def Rep.tryFire (r : Rep) (a : Action) : Rep := if (step r.m a).isSome then r.fire a else r

def candIdx (r : Rep) (addr : Nat) : Option Nat := r.candAddr.findIdx? (· == addr)

def progOfMode (mode : String) : List UOp :=
  match mode with
  | "block" => [.work]
  | "getlocal" => [.run .loop []]
  | "restart" => [.run .loop [.cancelGather, .closeCands]]
  | "close" => [.close false]
  | "gclose" => [.close true]
  | _ => []

def Rep.addThread (r : Rep) (th : Th) : Rep × Nat :=
  ({ r with m := { r.m with thr := r.m.thr ++ [th] } }, r.m.thr.length)

/-- a new API call of the implementation becomes a model thread. -/
def Rep.call (r : Rep) (id : Nat) (kind : String) : Rep :=
  let p := kind.splitOn ":"
  let k := p.headD ""
  let simple (prog : List UOp) : Rep :=
    let (r1, n) := r.addThread { prog := prog }
    { r1 with ids := r1.ids ++ [(id, n)] }
  match k with
  | "close" => simple [.close false]
  | "gclose" => simple [.close true]
  | "read" => simple [.read]
  | "await" => simple [.await]
  | "write" =>
    match p with
    | [_, "nopair"] => simple [.run .loop []]
    | [_, c] => match candIdx r (c.toNat?.getD 0) with
      | some i => simple [.write i]
      | none => simple [.run .loop []]
    | _ => simple [.run .loop []]
  | "start" => simple [.run .loop [], .run .loop [.startedFn]]
  | "dial" | "accept" => simple [.run .loop [], .run .loop [.startedFn], .await]
  | "restart" => simple [.run .loop [.cancelGather, .closeCands]]
  | "selected" => simple []   -- GetSelectedCandidatePair reads an atomic, no hand-off (agent.go:1875-1892)
  | "gather" =>
    -- the gather cycle is its own thread: state Gathering, host candidate through the fake Net, state Complete
    let addr := 16 * r.ip + 8 + (r.nport + 1) % 8
    let gth : Th := { kind := .gather, live := false, prog := [.run .loop [], .work, .run .own [.startCand true 0 false], .run .loop []] }
    let (r1, g) := r.addThread gth
    let (r2, n) := r1.addThread { prog := [.run .loop [.gather g]] }
    { r2 with ids := r2.ids ++ [(id, n)], thrAddr := r2.thrAddr ++ [(g, addr)] }
  | "cand" =>
    match p with
    | [_, addr, mode] =>
      let (r1, n) := r.addThread { prog := [.run .loop [.startCand true 0 (mode.contains 'e')]] }
      { r1 with ids := r1.ids ++ [(id, n)], thrAddr := r1.thrAddr ++ [(n, addr.toNat?.getD 0)],
                blocking := if mode.contains 'w' then r1.blocking ++ [addr.toNat?.getD 0] else r1.blocking }
    | _ => simple [.run .loop []]
  | "addremote" =>
    -- returns at once; the internal goroutine submits a task
    let (r1, n) := r.addThread { prog := [] }
    let (r2, _) := r1.addThread { prog := [.run .loop []] }
    { r2 with ids := r2.ids ++ [(id, n)] }
  | _ =>
    if k.startsWith "h" then r   -- a call made by a handler: part of the drainer's program
    else simple [.run .loop []]

def sockBlocks (r : Rep) (c : Nat) : Bool :=
  match r.candAddr[c]? with
  | some a => r.blocking.contains a
  | none => false

/-- actions the greedy scheduler may try, in a fixed order (`dr = false`: handlers do not run in this phase). -/
def Rep.candidates (r : Rep) (dr : Bool) : List Action :=
  let ths := (List.range r.m.thr.length).flatMap fun n => [Action.th (.api n) true, Action.th (.api n) false]
  let drs := if !dr then [] else (List.range r.m.streams.length).filter (fun i =>
      -- a handler the test holds in mode `block` does not proceed
      !(r.held.contains i && ((r.m.streams[i]?).map (fun (st : Stream) => st.th.prog == [.work] && st.th.loc == .idle)).getD false))
    |>.flatMap fun i => [Action.th (.dr i) true, Action.th (.dr i) false]
  let rls := (List.range r.m.cands.length).flatMap fun c => [Action.rl c true, Action.rl c false]
  -- environment: a write on a socket that does not block in the implementation completes
  let envw : List Action := match r.m.loop with
    | .task _ (.write c :: _) => if sockBlocks r c || r.stuckLoop == some c then [] else [Action.envLoopWrite]
    | _ => []
  let envt : List Action := (List.range r.m.thr.length).filterMap fun n =>
    match r.m.thr[n]? with
    | some th => match th.loc with
      | .wrBlk c => if sockBlocks r c || r.stuckTh.contains n then none else some (Action.envTh (.api n))
      | _ => none
    | none => none
  [Action.loop] ++ envw ++ envt ++ ths ++ drs ++ rls

def Rep.markStuck (r : Rep) : Rep :=
  let sl := match r.m.loop with
    | .task _ (.write c :: _) => if sockFree r.m c then none else some c
    | _ => none
  let st := (List.range r.m.thr.length).filter fun n => match r.m.thr[n]? with
    | some th => match th.loc with
      | .wrBlk c => !sockFree r.m c
      | _ => false
    | none => false
  { r with stuckLoop := sl, stuckTh := st }

/-- greedy scheduler: fire the first enabled candidate until none is enabled (fuel-bounded).  Running out of fuel with
a transition still enabled is NOT a disagreement with the implementation (it used to set `bad`, i.e. to count as
"rejected"): the world is marked `gaveUp` and handled as inconclusive by `step`. -/
def Rep.quiesceWith (r : Rep) (dr : Bool) (fuel : Nat) : Rep :=
  match (r.candidates dr).find? (fun a => (step r.m a).isSome) with
  | none => r.markStuck
  | some a =>
    match fuel with
    | 0 => { r with gaveUp := true }
    | fuel + 1 => (r.fire a).quiesceWith dr fuel

def Rep.quiesce (r : Rep) (fuel : Nat) : Rep := r.quiesceWith true fuel

/-- run a one-task helper program on thread 0 (hand-off must be possible: loop idle and `done` open). -/
def Rep.inject (r : Rep) (task : List TOp) : Rep :=
  let m := r.m
  match m.thr[0]? with
  | some h =>
    if h.prog.isEmpty && h.loc == .idle && m.loop == .idle && !m.done then
      let r1 := { r with m := { m with thr := m.thr.set 0 { h with prog := [.run .loop task] } } }
      (r1.fire (.th (.api 0) false)).fire (.th (.api 0) true)
    else
      -- hindsight: the task in progress (an injected one) gets the statements appended
      match m.loop with
      | .task (.api 0) ops => { r with m := { m with loop := .task (.api 0) (ops ++ task) } }
      | _ => { r with bad := r.bad.orElse fun _ => some s!"cannot reproduce a task of the implementation ({repr task}): loop {repr m.loop}, done={m.done}" }
  | none => r

def evCode (stream : Nat) (ev : String) : Nat := if stream == 0 && ev == "Closed" then 0 else 1

/-- a handler invocation observed in the implementation: configure the handler table, count it. -/
def Rep.hEnter (r : Rep) (stream : Nat) (ev mode : String) : Rep :=
  let code := evCode stream ev
  let r := if mode == "block" && !r.held.contains stream then { r with held := r.held ++ [stream] } else r
  let r0 : Rep :=
    { r with m := { r.m with streams := r.m.streams.modify stream fun st =>
        { st with hdl := (List.range 2).map fun e => if e == code then progOfMode mode else st.hdl.getD e [] } } }
  { r0 with iStarted := r0.iStarted.modify stream (· + 1), active := r0.active ++ [stream] }

def Rep.event (r : Rep) : Ev → Rep
  | .call id _ kind _ =>
    let r := match kind.splitOn ":" with
      | ["write", c] => if c != "nopair" then { r with writes := r.writes ++ [(id, c.toNat?.getD 0)] } else { r with nopair := r.nopair ++ [id] }
      | _ => r
    r.call id kind
  | .ret id err _ =>
    let ws := r.writes.filter (fun (w : Nat × Nat) => w.1 != id)
    let np := r.nopair.filter (· != id)
    let r := { r with returned := r.returned ++ [id], writes := ws, nopair := np }
    match (r.ids.find? (fun (p : Nat × Nat) => p.1 == id)).map (fun (p : Nat × Nat) => p.2) with
    | none => r
    | some n =>
      match r.m.thr[n]? with
      | none => r
      | some th =>
        let isGather := match th.prog with
          | [.run _ [.gather _]] => true
          | _ => false
        if isGather && err == "ok" then { r with nport := r.nport + 1 }
        else if isGather then
          -- GatherCandidates was refused (state not New / closed): no cycle is started
          let th' : Th := match th.loc with
            | .rSel c _ => { th with loc := .rSel c [], prog := [.run .loop []] }
            | _ => { th with prog := [.run .loop []] }
          { r with m := { r.m with thr := r.m.thr.set n th' } }
        else if err == "multiplestart" then
          -- startConnectivityChecks refuses before any Run (agent.go:657-661): the call made no hand-off
          match th.loc with
          | .idle | .rSel _ _ => { r with m := { r.m with thr := r.m.thr.set n { th with prog := [], loc := .idle } } }
          | _ => r
        else r
  | .hEnter _ stream ev mode _ => r.hEnter stream ev mode
  | .hExit _ stream _ _ => { r with active := r.active.erase stream }
  | .release _ _ => { r with held := [] }

/-- environment: calls the implementation reports as returned while the model has them parked in AwaitConnect / Read
(connected; a packet arrived) are woken by the corresponding environment transition. -/
def Rep.wake (r : Rep) : Rep :=
  r.ids.foldl (fun r (p : Nat × Nat) =>
    if r.returned.contains p.1 then
      match (r.m.thr[p.2]?).map (fun (t : Th) => t.loc) with
      | some Loc.awBlk => if r.m.done then r else r.fire (.envTh (.api p.2))
      | some Loc.rdBlk => if r.m.bufClosed then r else r.fire (.envTh (.api p.2))
      | _ => r
    else r) r

/-- compare the model's quiescent state with the implementation's digest. -/
def Rep.compare (r : Rep) (d : Dig) : Option String :=
  let m := r.m
  if r.bad.isSome then r.bad
  else if m.done != d.done then some s!"done: model {m.done} implementation {d.done}"
  else
    let mclosed := match m.loop with | .ocDone | .exited => true | _ => false
    if mclosed != d.closed then some s!"Closed state reached: model {mclosed} ({repr m.loop}) implementation {d.closed}"
    else
      -- calls: returned in the implementation ⇔ finished in the model
      let callBad := r.ids.findSome? fun (id, n) =>
        match m.thr[n]? with
        | some th =>
          let fin := th.prog.isEmpty && th.loc == .idle
          if fin != r.returned.contains id then
            some s!"call #{id}: model {if fin then "returned" else s!"pending at {repr th.loc}"}, implementation {if r.returned.contains id then "returned" else "pending"}"
          else none
        | none => none
      if callBad.isSome then callBad
      else
        let candBad := d.cands.findSome? fun k =>
          match candIdx r k.addr, k.started with
          | none, false => none
          | none, true => some s!"candidate {k.addr}: started in the implementation, unknown to the model"
          | some i, st =>
            match m.cands[i]? with
            | some cd =>
              if !st && cd.aborted && cd.rl == .exited && k.sockClosed then none  -- started and closed within one op
              else if !st then some s!"candidate {k.addr}: model started it, implementation did not"
              else if cd.aborted != k.closeCh then some s!"candidate {k.addr}: closeCh model {cd.aborted} implementation {k.closeCh}"
              else if (cd.rl == .exited) != k.closedCh then some s!"candidate {k.addr}: closedCh model {cd.rl == .exited} implementation {k.closedCh}"
              else none
            | none => none
        if candBad.isSome then candBad
        else
          (List.range 3).findSome? fun i =>
            match m.streams[i]?, d.notif[i]? with
            | some st, some (nd, _, _) =>
              if st.ndone != nd then some s!"notifier {i}: done model {st.ndone} implementation {nd}"
              else
                let mact := !st.th.prog.isEmpty || st.th.loc != .idle
                if mact != r.active.contains i then some s!"notifier {i}: handler in progress model {mact} implementation {r.active.contains i}"
                else none
            | _, _ => none

/-- after the op: notifications the implementation has queued (a handler is held, or slow) and the model lacks are
enqueued by injected tasks — possible only while `done` is open, exactly as in the implementation. -/
def Rep.syncQueues (r : Rep) (d : Dig) : Rep :=
  (List.range 3).foldl (fun r i =>
    match r.m.streams[i]?, d.notif[i]? with
    | some st, some (_, _, q) =>
      if q > st.queue.length && !r.m.done then
        (List.range (q - st.queue.length)).foldl (fun r _ =>
          let r := r.inject [.enq i 1]
          (r.tryFire .loop).tryFire .loop |>.tryFire (.th (.api 0) false)) r
      else r
    | _, _ => r) r

/-- before the op: the notifications whose handlers the implementation invokes during this op were enqueued by
tasks the model does not describe (timers, inbound packets, the calls of this very op): enqueue them up front. -/
def Rep.preInject (r : Rep) (evs : List Ev) (ag : String) : Rep :=
  let r := evs.foldl (fun (r : Rep) e => match e with
    | .hEnter a s _ mode _ => if a == ag && mode == "block" && !r.held.contains s then { r with held := r.held ++ [s] } else r
    | _ => r) r
  (List.range 3).foldl (fun r i =>
    let need := (evs.filter fun e => match e with
      | .hEnter a s ev _ _ => a == ag && s == i && evCode s ev != 0
      | _ => false).length
    let have' := match r.m.streams[i]? with
      | some st => (st.queue.filter (· != 0)).length + (r.mStarted.getD i 0 - r.iStarted.getD i 0)
      | none => 0
    if need > have' && !r.m.done then
      (List.range (need - have')).foldl (fun r _ =>
        let r := r.inject [.enq i 1]
        (r.tryFire .loop).tryFire .loop |>.tryFire (.th (.api 0) false)) r
    else r) r

/-- after the op: candidates the implementation has closed without a Close (connection Failed → `deleteAllCandidates`,
agent.go:778-785) are closed in the model by an injected task. -/
def Rep.syncFailed (r : Rep) (d : Dig) : Rep :=
  let need := d.cands.any fun k =>
    match candIdx r k.addr with
    | some i => match r.m.cands[i]? with
      | some cd => k.closeCh && !cd.aborted
      | none => false
    | none => false
  if need && !r.m.done && r.m.loop == .idle then
    ((r.inject [.closeCands]).quiesce 4000)
  else r

/-- after the op: if the implementation's loop sits in a blocked socket write that the model does not have, give the
model such a task (hindsight: the task was submitted by a timer / receive loop the model does not describe). -/
def Rep.syncBlocked (r : Rep) (d : Dig) (pendingUserWrites : Nat → Nat) : Rep :=
  d.cands.foldl (fun r k =>
    if k.blockedNow > pendingUserWrites k.addr then
      match candIdx r k.addr, r.m.loop with
      | some i, .idle => if r.m.done then r else (r.inject [.write i]).quiesce 2000
      | _, _ => r
    else r) r

/-! ### the component -/

def Rep.pend (r : Rep) (addr : Nat) : Nat := (r.writes.filter fun (w : Nat × Nat) => w.2 == addr).length

/-- a pending `write:nopair` call is taken to sit in the socket write of the best valid pair (transport.go:146-159):
its model thread gets the write appended (it has not executed it yet). -/
def Rep.convertOne (r : Rep) (d : Dig) : Option Rep :=
  match r.nopair.head? with
  | none => none
  | some id =>
    match d.cands.find? fun k => k.blockedNow > r.pend k.addr with
    | none => none
    | some k =>
      let r1 := match (r.ids.find? (fun (p : Nat × Nat) => p.1 == id)).map (fun (p : Nat × Nat) => p.2), candIdx r k.addr with
        | some n, some i => { r with m := { r.m with thr := r.m.thr.modify n fun (th : Th) => { th with prog := th.prog ++ [UOp.write i] } } }
        | _, _ => r
      some { r1 with writes := r1.writes ++ [(id, k.addr)], nopair := r1.nopair.filter (· != id) }

/-- `n` = number of pending `write:nopair` calls: every `convertOne` removes one of them from `nopair`, so the bound is
structural (all prefixes of conversions are produced), not a search budget. -/
def Rep.convertUpTo (r : Rep) (d : Dig) : Nat → List Rep
  | 0 => [r]
  | n + 1 => match r.convertOne d with
    | some r' => r :: r'.convertUpTo d n
    | none => [r]

/-- all the ways the model can come to rest after this op (schedules × interpretations of pending `write:nopair`s). -/
def Rep.finishAll (start : Rep) (d : Dig) : List Rep :=
  let tail (r : Rep) : Rep :=
    let r := ((r.syncFailed d).syncQueues d).syncBlocked d r.pend
    (r.wake).quiesce 4000
  let b (r : Rep) : Rep := r.quiesceWith false 4000        -- everything but the handlers
  let c (r : Rep) : Rep := r.syncBlocked d r.pend           -- a loop blocked in a socket write
  let dd (r : Rep) : Rep := r.quiesce 4000                  -- the handlers too
  let schedules : List (Rep → Rep) := [fun r => dd (c (b r)), fun r => c (dd (b r)), fun r => dd (b (c r))]
  (start.convertUpTo d start.nopair.length).flatMap fun st => schedules.map fun f => tail (f st)

/-- what distinguishes two worlds (used to keep the beam free of duplicates). -/
def Rep.sig (r : Rep) : String :=
  let m := r.m
  s!"{repr m.loop}|{m.done}|{repr m.once}|{m.thr.map fun t => (repr t.loc, t.prog.length, t.live)}|{m.cands.map fun c => (repr c.rl, c.aborted, c.listed)}|{m.streams.map fun st => (st.ndone, st.running, st.queue, repr st.th.loc, st.th.prog.length)}|{r.writes}|{r.nopair}|{r.stuckLoop}|{r.stuckTh}|{r.held}"

def dedupe (ws : List Rep) : List Rep :=
  (ws.foldl (fun (acc : List (String × Rep)) r =>
    let k := r.sig
    if acc.any (·.1 == k) then acc else acc ++ [(k, r)]) []).map (·.2)

structure Sess where
  mon : Mon := {}
  /-- per agent: the model states ("worlds") consistent with everything observed so far (a small beam) -/
  worlds : List (String × List Rep) := []
  dead : Bool := false
  /-- worlds were dropped without having been refuted (the beam of 24 overflowed, or a world's scheduler ran out of
  fuel): from here on "no world left" does not mean "no execution of the model" — inconclusive, not rejected -/
  lossy : Option String := none
  monDead : Bool := false
  /-- the session replays the documented exclusion (GracefulClose from a handler) and must deadlock -/
  witness : Bool := false
  deriving Inhabited

abbrev State := Sess
def init : State := {}

/-- width of the beam of worlds carried per agent -/
def beam : Nat := 24

def Sess.ws (s : Sess) (ag : String) : List Rep :=
  ((s.worlds.find? (·.1 == ag)).map (·.2)).getD [{ ip := if ag == "B" then 11 else 1 }]
def Sess.setWs (s : Sess) (ag : String) (ws : List Rep) : Sess :=
  if s.worlds.any (·.1 == ag) then { s with worlds := s.worlds.map fun p => if p.1 == ag then (ag, ws) else p }
  else { s with worlds := s.worlds ++ [(ag, ws)] }

def evFor (r : Rep) (ag : String) : Ev → Bool
  | .call _ a _ _ => a == ag
  | .hEnter a _ _ _ _ => a == ag
  | .hExit a _ _ _ => a == ag
  | .release a _ => a == ag
  | .ret id _ _ => r.ids.any (fun (p : Nat × Nat) => p.1 == id)

/-- one op for one agent in one world: events, environment ops; then every way to come to rest. -/
def Rep.opStep (r : Rep) (ag : String) (op : String) (args : List String) (evs : List Ev) (d : Dig) : List Rep :=
  let r := r.preInject evs ag
  let r := evs.foldl (fun (r : Rep) e => if evFor r ag e then r.event e else r) r
  let r : Rep := match op, args with
    | "blockw", [a, addr, b] =>
      if a != ag then r else
      let x := addr.toNat?.getD 0
      { r with blocking := if b == "1" then (if r.blocking.contains x then r.blocking else r.blocking ++ [x]) else r.blocking.erase x }
    | "hdl", [a, st, mode] =>
      if a != ag then r else
      let i := if st == "cs" then 0 else if st == "cand" then 1 else 2
      { r with m := { r.m with streams := r.m.streams.modify i fun x => { x with hdl := [progOfMode mode, progOfMode mode] } } }
    | "passw", [a, addr] =>
      if a != ag then r else
      -- the environment lets one blocked write complete
      let x := addr.toNat?.getD 0
      let anyRet := evs.any fun e => match e with
        | .ret id _ _ => r.ids.any (fun (p : Nat × Nat) => p.1 == id)
        | _ => false
      -- the candidate on which the implementation's loop is blocked after the pass (the same task went on)
      let nextBlk : Option Nat := if anyRet then none else
        (d.cands.find? fun k => k.blockedNow > r.pend k.addr).bind fun k => candIdx r k.addr
      match r.m.loop with
      | .task _ (.write c :: _) =>
        if r.candAddr[c]? == some x then
          let r1 := { r.fire .envLoopWrite with stuckLoop := none }
          match r1.m.loop with
          | .task o ops => match nextBlk with
            | some c' => { r1 with m := { r1.m with loop := .task o (.write c' :: ops) }, stuckLoop := some c' }
            | none => r1
          | _ => r1
        else r
      | _ => r
    | _, _ => r
  r.finishAll d

def step (s : State) (toks : List String) (impl : String) : State × Res :=
  let bad (why : String) : State × Res :=
    ({ s with dead := true, monDead := true }, { model := impl, monitor := if s.monDead then none else some why, prop := "C08" })
  match toks with
  | ["r1", n] =>
    -- modelling fact R1: once `done` is closed the loop takes no task, even from submitters parked before
    (s, { model := s!"r1:ran=0:bad=0:of={n}", prop := "C08" })
  | ["coverage"] =>
    -- last op of a generated run: every situation the generator aims at was reached at least once
    let lacking := ["connected", "writeparked", "tcpfull", "relaystalled"].filter fun k => (field (impl.drop 4).toString k).toNat?.getD 0 == 0
    let why : Option String :=
      if lacking.isEmpty then none
      else some ("(C) the generated sessions never reached: " ++ ", ".intercalate lacking ++ " - the harness lost coverage (" ++ impl ++ ")")
    (({} : Sess), { model := impl, monitor := why, prop := "C08" })
  | "new" :: id =>
    if impl.startsWith "err:" then (({} : Sess), { model := "recorded", monitor := some ("session could not start: " ++ impl), prop := "C08" })
    else
      -- session ids: `w…` the deadlock witness; `m…` monitor only — the session's environment lies outside the model's
      -- assumptions (M2: a socket Close that is slow; writes that neither the deadline nor Close releases; the TCP mux,
      -- which the model does not describe), so only the spec monitor judges it
      (({ witness := (id.headD "").startsWith "w", dead := (id.headD "").startsWith "m" } : Sess), { model := impl })
  | op :: args =>
    if impl.startsWith "PANIC" || impl.startsWith "WATCHDOG" || impl.startsWith "SESSION-DIED" || impl.startsWith "bad-op" then
      bad ("(C) " ++ impl)
    else
      let now := (field impl "t").toNat?.getD 0
      let evs := ((between impl "E[" "]").splitOn "|").filterMap parseEv
      let digA := parseDig (between impl "A{" "}")
      let digB := parseDig (between impl "B{" "}")
      -- 1. the spec monitor on the implementation's own history: every event is fed to the monitor; the first
      --    violation of the line is reported
      let (mon, viol) := evs.foldl (fun (acc : Mon × Option String) e =>
        let (m', v) := acc.1.event e
        (m', acc.2.orElse fun _ => v)) (s.mon, none)
      let viol := viol.orElse fun _ => mon.tick now
      let viol := viol.orElse fun _ => mon.digest "A" digA.done digA.closed digA.nl digA.nr
      let viol := viol.orElse fun _ => mon.digest "B" digB.done digB.closed digB.nl digB.nr
      let viol := if op == "end" then viol.orElse fun _ => mon.finish (field impl "census") else viol
      let viol := if s.monDead then none else viol
      -- the witness session: the property's clauses do not apply; the deadlock itself is what is checked
      let viol := if !s.witness then viol else
        if op == "end" then
          if (field impl "census").startsWith "LEAK" && mon.calls.any (fun c => c.kind == "hgclose") then none
          else some "(W) GracefulClose called from a handler did not deadlock: the documented exclusion (and C08_graceful_in_handler_witness) no longer describes the code"
        else none
      -- 2. replay on the model, per agent, in every world still consistent with the observations
      let s1 : Sess := { s with mon := mon }
      -- result: (session, rejection, inconclusive).  REJECTED only if every world that was ever consistent with the
      -- observations has been carried along (nothing dropped by the beam bound or by scheduler fuel) and none of their
      -- ways to come to rest agrees with the digest; if worlds were dropped the explaining one may be among them.
      let agentStep (ag : String) (d : Dig) (s : Sess) : Sess × Option String × Option String :=
        if s.dead then (s, none, none) else
        let ws := s.ws ag
        let results := ws.flatMap fun r => r.opStep ag op args evs d
        let nGaveUp := (results.filter (·.gaveUp)).length
        let settled := results.filter fun r => !r.gaveUp
        let good := settled.filter fun r => (r.compare d).isNone
        let lossy := s.lossy.orElse fun _ =>
          if nGaveUp > 0 then some s!"{ag}: greedy scheduler ran out of fuel in {nGaveUp} of {results.length} worlds at op {op}" else none
        if good.isEmpty then
          match lossy with
          | some why => ({ s with lossy := lossy }, none, some ("no world left after worlds were dropped unrefuted — " ++ why))
          | none =>
            let why := match results.head? with
              | some r => (r.compare d).getD "no world"
              | none => "no world"
            -- only THREE fixed greedy schedules of the model are explored per operation: that none of them comes to
            -- rest in the observed digest does not show that no execution of the model does — inconclusive, never a
            -- rejection (false alarm of thorough seed 7: a handler that calls Close while another handler is parked)
            (s.setWs ag (results.take 1), none,
              some (ag ++ ": none of the explored schedules of the model ends in the observed digest (" ++ why ++ "); the search is not exhaustive"))
        else
          let dd := dedupe good
          let lossy := lossy.orElse fun _ =>
            if dd.length > beam then some s!"{ag}: beam overflow ({dd.length} distinct worlds > {beam}) at op {op}" else none
          ({ s.setWs ag (dd.take beam) with lossy := lossy }, none, none)
      let (s4, ra, ia) := agentStep "A" digA s1
      let (s5, rb, ib) := if ra.isSome || ia.isSome then (s4, none, none) else agentStep "B" digB s4
      let rej := if s.dead then none else ra.orElse fun _ => rb
      let inc := if s.dead || rej.isSome then none else ia.orElse fun _ => ib
      let model := match rej with
        | some why => "rejected:" ++ why
        | none => impl
      -- after a rejection or an inconclusive line the model replay of the session stops (no world to go on with);
      -- the spec monitor keeps judging the session
      let s6 := if rej.isSome || inc.isSome || s.dead then { s5 with dead := true } else s5
      -- violations that only concern the result of ONE call leave the monitor state intact: keep monitoring
      let soft := match viol with
        | some w => w.startsWith "(U) blocked write" || w.startsWith "(L) await" || w.startsWith "(L) selected"
        | none => false
      let s6 := if (viol.isSome && !soft) || s.monDead then { s6 with monDead := true } else s6
      let s7 := if op == "end" then ({} : Sess) else s6
      (s7, { model := model, monitor := viol, prop := "C08", inconclusive := inc })
  | [] => (s, Driver.bad "close: empty op")

-- @component close

end Driver.CloseSys
