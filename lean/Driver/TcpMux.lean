import IceModel.TcpMux
import IceSpec.C15
import IceSpec.C15View
import Driver.Util
/-!
Line-protocol component `tcpmux` (property C15): the model's canonical output for every operation of
the harness (`harness/inpkg/zz_verif_tcpmux_test.go`), and the spec monitor of C15 evaluated on the
implementation's own outputs.

The output line of the model is the printed form (`digest`) of the typed observation
`IceSpec.C15.View.obsOf` about which `C15_model_passes_monitor` is proved; every printed line is read
back with the monitor's own parser and compared with the typed line (`VIEW-DISAGREES` otherwise), so
the printing/parsing layer between theorem and monitor is checked on every generated line.
-/
namespace Driver.TcpMux
open IceModel.TcpMux Driver
open IceSpec.C15.View (idxWhere newReplies ledgerList obsOf lineOf mopOf oresOf endOps allDown endLine)

def fmtAddr (a : Addr) : String := s!"{a.ip}:{a.port}"

def fmtErr : ErrKind → String
  | .eof => "err:eof" | .reset => "err:reset" | .short => "err:short"

def fmtRes : IceModel.TcpMux.Res → String
  | .ok => "ok" | .refused => "refused" | .noop => "noop" | .bad => "bad-op" | .already => "already"
  | .sent n => s!"sent {n}"
  | .handle h => s!"h{h}"
  | .errClosed => "err:closed"
  | .wrote n => s!"n={n}"
  | .pkt p => match p.err with
    | none => s!"pkt {fmtAddr p.src} {if p.len < 4 then "-" else toString p.fid} {p.len}"
    | some e => s!"{fmtErr e} {fmtAddr p.src}"
  | .empty => "empty"

/-- the printed form of the observation `obsOf old s _` with result text `res` -/
def digest (old : List Tcp) (s : State) (res : String) : String :=
  let closed := ",".intercalate ((idxWhere s.tcps (·.isClosed)).map toString)
  let outs := ",".intercalate ((newReplies old s.tcps).map (fun (k, id) => s!"{k}:{id}"))
  let g := "/".intercalate ((ledgerList s).map toString)
  let b (x : Bool) : String := if x then "1" else "0"
  s!"{res} ; c={closed} ; o={outs} ; g={g} ; L={b (!s.listenerOpen)} ; ret={b (closeReturned s)}"

def parseKind (s : String) : Option FKind :=
  match s.toList with
  | 'u' :: r => some (.user (String.ofList r))
  | 'w' :: r => some (.user (String.ofList r))
  | ['n'] => some .noUser
  | ['o'] => some .otherMethod
  | ['g'] => some .notStun
  | ['d'] => some .notStun
  | _ => none

def parseU (s : String) : Option String :=
  match s.toList with
  | 'U' :: r => some (String.ofList r)
  | _ => none

def parseH (s : String) : Option Nat :=
  match s.toList with
  | 'h' :: r => (String.ofList r).toNat?
  | _ => none

/-- one harness operation → model operation(s); `none` = malformed -/
def parseOp (s : State) (toks : List String) : Option Op :=
  match toks with
  | ["accept", k, ip, port, lip] =>
    match k.toNat?, ip.toNat?, port.toNat?, lip.toNat? with
    | some k, some ip, some port, some lip =>
      if k = s.tcps.length ∧ ip < 4 ∧ lip < 4 then some (.accept ⟨ip, port⟩ lip) else none
    | _, _, _, _ => none
  | ["frame", k, fid, kind, len] =>
    match k.toNat?, fid.toNat?, parseKind kind, len.toNat? with
    | some k, some fid, some kind, some len => some (.frame k ⟨fid, kind, len⟩)
    | _, _, _, _ => none
  | ["partial", k, _fid, _kind, _len, _cut] => k.toNat?.map .partialFrame
  | ["cclose", k] => k.toNat?.map (.clientClose · false)
  | ["creset", k] => k.toNat?.map (.clientClose · true)
  | ["advance", dt] => dt.toNat?.map .advance
  | ["getconn", u, v6, lip] =>
    match parseU u, lip.toNat? with
    | some u, some lip => if lip < 4 then some (.getConn ⟨u, v6 == "1", lip⟩) else none
    | _, _ => none
  | ["remove", u] => (parseU u).map .removeByUfrag
  | ["closeh", h] => (parseH h).map .closeHandle
  | ["closepc", h] => (parseH h).map .closePacketConn
  | ["write", h, ip, port, pid, len] =>
    match parseH h, ip.toNat?, port.toNat?, pid.toNat?, len.toNat? with
    | some h, some ip, some port, some pid, some len => if ip < 4 then some (.write h ⟨ip, port⟩ pid len) else none
    | _, _, _, _, _ => none
  | ["read", h] => (parseH h).map .read
  | ["closemux"] => some .closeMux
  | _ => none

/-! S2: `MultiTCPMuxDefault.GetAllConns` — the first failing mux aborts the loop, nothing is released -/
def multiGetAll : List State → Key → List State × Bool
  | [], _ => ([], true)
  | m :: ms, key =>
    match step m (.getConn key) with
    | (m', .handle _) => let (ms', ok) := multiGetAll ms key; (m' :: ms', ok)
    | (m', _) => (m' :: ms, false)

def multiLine (n bad : Nat) (hasBad : Bool) : String :=
  let key : Key := ⟨"a", false, 0⟩
  let muxes := (List.range n).map (fun i =>
    let m := init ⟨0, false, 0, 0⟩
    if hasBad ∧ i = bad then (step m .closeMux).1 else m)
  if n = 0 then "err:nomux ;  ; afterRemove=0 ; g=0" else
  let (ms, ok) := multiGetAll muxes key
  let res := if ok then s!"n={n}" else "err:closed"
  let per := ms.map (fun m => match findPc m.pcs key with
    | some p => (match m.pcs[p]? with | some pc => s!"reg:{pc.refs}" | none => "none")
    | none => "none")
  let ms2 := ms.map (fun m => (step m (.removeByUfrag "a")).1)
  let after := (ms2.filter (fun m => (findPc m.pcs key).isSome)).length
  let ms3 := ms2.map (fun m => (step m .closeMux).1)
  let g := ms3.foldl (fun acc m => let l := ledger m; acc + l.acceptor + l.handlers + l.watchers + l.readers + l.writers) 0
  s!"{res} ; {",".intercalate per} ; afterRemove={after} ; g={g}"

structure St where
  model : Option State := none
  /-- the spec monitor fed with the IMPLEMENTATION's outputs -/
  mon : IceSpec.C15.Mon := {}
  /-- a second copy fed with the MODEL's outputs: a rejection there is a defect of the model or of the
  monitor and is reported as a disagreement -/
  monM : IceSpec.C15.Mon := {}

def monStep (st : St) (toks : List String) (impl : String) : IceSpec.C15.Mon × Option String :=
  IceSpec.C15.observe st.mon toks impl

-- @component tcpmux
abbrev State := St
def init : State := {}

def step (st : State) (toks : List String) (impl : String) : State × Res :=
  let (mon', verdict) := monStep st toks impl
  -- `view` = the typed operation and line of `IceSpec.C15.View` that `out` is the printed form of
  let fin (m : Option IceModel.TcpMux.State) (out : String)
      (view : Option (IceSpec.C15.MOp × IceSpec.C15.Line) := none) : State × Driver.Res :=
    let (monM', vM) := IceSpec.C15.observe st.monM toks out
    let out := match vM with
      | some why => s!"MODEL-REJECTED-BY-MONITOR({why}) {out}"
      | none => out
    let out := match view with
      | some (mop, line) =>
        if IceSpec.C15.parseToks toks = mop ∧ IceSpec.C15.parseLine out = line then out
        else s!"VIEW-DISAGREES {out}"
      | none => out
    ({ model := m, mon := mon', monM := monM' }, { model := out, monitor := verdict, prop := "C15" })
  match toks with
  | ["new", cap, wbuf, t1, t2] =>
    match cap.toNat?, wbuf.toNat?, t1.toNat?, t2.toNat? with
    | some cap, some wbuf, some t1, some t2 =>
      let s := IceModel.TcpMux.init ⟨cap, wbuf > 0, t1, t2⟩
      fin (some s) (digest [] s "ok") (some (.start t1 t2, .obs (obsOf [] s .ok)))
    | _, _, _, _ => fin none "bad-op"
  | ["multi", n, bad] =>
    match n.toNat?, bad.toInt? with
    | some n, some bad =>
      if n ≤ 4 ∧ bad < (n : Int) then fin none (multiLine n bad.toNat (bad ≥ 0)) else fin none "bad-op"
    | _, _ => fin none "bad-op"
  | ["end"] =>
    match st.model with
    | none => fin none "end ok (no mux)"
    | some s =>
      let s' := run s (endOps s)
      fin none (digest s.tcps s' (if allDown s' then "end ok" else "end LEAK")) (some (.finish, endLine s))
  | _ =>
    match st.model with
    | none => fin none "no-session"
    | some s =>
      match parseOp s toks with
      | none => fin (some s) "bad-op"
      | some op =>
        let (s', r) := IceModel.TcpMux.step s op
        match r with
        | .bad => fin (some s) "bad-op" (some (mopOf op, lineOf s op))
        | _ =>
          let rs := match op, r with
            | .partialFrame _, .ok => "sent"
            | _, _ => fmtRes r
          fin (some s') (digest s.tcps s' rs) (some (mopOf op, lineOf s op))

end Driver.TcpMux
