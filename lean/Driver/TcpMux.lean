import IceModel.TcpMux
import IceSpec.C15
import IceSpec.C15View
import Driver.Util
/-!
Line-protocol component `tcpmux` (property C15): the model's canonical output for every operation of
the harness (`harness/inpkg/zz_verif_tcpmux_test.go`), and the spec monitor of C15 evaluated on the
implementation's own outputs.

The output line of the model is the printed form (`IceSpec.C15.View.printedLine` = `IceSpec.C15.printObs`
of the typed observation `IceSpec.C15.View.obsOf`) about which `C15_model_passes_monitor` is proved;
`IceProps.C15.C15_view_roundtrip_model` proves that the monitor's own parser reads every printed line
back as the typed line, `C15_model_passes_string_monitor` that the string monitor accepts every printed
run.  `C15_view_ops` proves that the monitor reads the operation tokens as the typed operation of whatever
`parseOp` accepts (a non-canonical payload id is refused: `bad-op`), so the former per-line comparison
(`VIEW-DISAGREES`) is gone.
-/
namespace Driver.TcpMux
open IceModel.TcpMux Driver
open IceSpec.C15.View (idxWhere newReplies ledgerList obsOf lineOf mopOf oresOf endOps allDown endLine printedStart printedLine printedEnd parseOp)

structure St where
  model : Option State := none
  /-- the spec monitor fed with the IMPLEMENTATION's outputs -/
  mon : IceSpec.C15.Mon := {}
  /-- a second copy fed with the MODEL's outputs: a rejection there is a defect of the model or of the
  monitor and is reported as a disagreement -/
  monM : IceSpec.C15.Mon := {}

def monStep (st : St) (toks : List String) (impl : String) : IceSpec.C15.Mon × Option String :=
  IceSpec.C15.observe st.mon toks impl

-- @component tcpmux
abbrev State := St
def init : State := {}

def step (st : State) (toks : List String) (impl : String) : State × Res :=
  let (mon', verdict) := monStep st toks impl
  -- the model side (`IceSpec.C15.View.modelStep`): next model state and the printed output line.  The second
  -- monitor copy judges the model's own output; `IceProps.C15.C15_driver_model_accepted` proves that it never
  -- rejects, for ANY sequence of input lines — the test below is kept as a guard on the proof's reading of
  -- this file only.
  let (model', out) := IceSpec.C15.View.modelStep st.model toks
  let (monM', vM) := IceSpec.C15.observe st.monM toks out
  let out := match vM with
    | some why => s!"MODEL-REJECTED-BY-MONITOR({why}) {out}"
    | none => out
  ({ model := model', mon := mon', monM := monM' }, { model := out, monitor := verdict, prop := "C15" })

end Driver.TcpMux
