import IceModel.AttrCodec
import IceSpec.C16
import Driver.Util
/-!
Driver component `attr` (C16): the ICE STUN attribute codecs.

Operations (kinds: prio, ctlg, ctld, rolg, rold (AttrControl with a role), use, nom, dtls, ack):
  rt <kind> <value>      AddTo, write the message, decode it, GetFrom
        value: a number | `-` (use) | h<hex> (dtls) | `-` or n1,n2,… (ack)
     -> `w=<hex of the attribute value on the wire> v=<decoded value>|err:size` | `enc-err:size`
  dec <kind> h<hex>      GetFrom on a message carrying the attribute with this value
     -> <value> | `err:size`
  absent <kind>          GetFrom on a message without the attribute -> `err:notfound`
-/
namespace Driver.AttrCodec
open IceModel.AttrCodec Driver
open IceSpec.C16 (AttrKind AttrVal)

def hexChars : Array Char := "0123456789abcdef".toList.toArray

def hexOfBytes (s : List UInt8) : String :=
  String.ofList (s.foldr (fun b acc => hexChars[(b.toNat / 16) % 16]! :: hexChars[b.toNat % 16]! :: acc) [])

def hexDigit? (c : Char) : Option Nat :=
  let n := c.toNat
  if 48 ≤ n && n ≤ 57 then some (n - 48) else if 97 ≤ n && n ≤ 102 then some (n - 87) else none

def unhexL : List Char → Option (List UInt8)
  | [] => some []
  | a :: b :: r => do
    let x ← hexDigit? a
    let y ← hexDigit? b
    let t ← unhexL r
    pure (UInt8.ofNat (x * 16 + y) :: t)
  | _ => none

def hfield (s : String) : Option (List UInt8) :=
  match s.toList with
  | 'h' :: r => unhexL r
  | _ => none

def numsOf (s : String) : Option (List Nat) :=
  if s = "-" then some [] else (s.splitOn ",").mapM String.toNat?

def fmtNums (l : List Nat) : String := if l.isEmpty then "-" else ",".intercalate (l.map toString)

def kindOf (s : String) : Option AttrKind :=
  match s with
  | "prio" => some .priority | "ctlg" | "rolg" => some .controlling | "ctld" | "rold" => some .controlled
  | "use" => some .useCandidate | "nom" => some .nomination | "dtls" => some .dtls | "ack" => some .ack
  | _ => none

/-- the model's decoder: value text, or `none` for the size error -/
def decode (k : AttrKind) (w : List UInt8) : Option String :=
  match k with
  | .priority => (decPriority w).map toString
  | .controlling | .controlled => (decTiebreaker w).map toString
  | .useCandidate => if decUseCandidate (some w) then some "-" else none
  | .nomination => (decNomination w).map toString
  | .dtls => (decDtls w).map (fun b => "h" ++ hexOfBytes b)
  | .ack => (decAck w).map fmtNums

def encode (k : AttrKind) (v : String) : Option (Option (List UInt8)) :=
  match k with
  | .priority => v.toNat?.map (fun n => some (encPriority n))
  | .controlling | .controlled => v.toNat?.map (fun n => some (encTiebreaker n))
  | .useCandidate => some (some encUseCandidate)
  | .nomination => v.toNat?.map (fun n => some (encNomination n))
  | .dtls => (hfield v).map (fun b => some (encDtls b))
  | .ack => (numsOf v).map encAck

def valOf (k : AttrKind) (s : String) : Option AttrVal :=
  match k with
  | .priority | .controlling | .controlled | .nomination => s.toNat?.map .num
  | .useCandidate => if s = "-" then some .flag else none
  | .dtls => (hfield s).map (fun b => .bytes (b.map (·.toNat)))
  | .ack => (numsOf s).map .nums

/-- `none` = error reported by the implementation; outer `none` = unparsable -/
def resultOf (k : AttrKind) (s : String) : Option (Option AttrVal) :=
  if "err:".toList.isPrefixOf s.toList then some none else (valOf k s).map some

def rtMonitor (k : AttrKind) (v : String) (impl : String) : Option String :=
  if "PANIC".toList.isPrefixOf impl.toList then some "panic" else
  match valOf k v with
  | none => some "unparsable operation"
  | some value =>
    if "enc-err".toList.isPrefixOf impl.toList then
      IceSpec.C16.attrRtViolation { kind := k, value := value, wire := none, back := none }
    else
      match impl.splitOn " " with
      | [w, b] =>
        match unhexL (w.toList.drop 2), resultOf k (String.ofList (b.toList.drop 2)) with
        | some w, some b =>
          IceSpec.C16.attrRtViolation { kind := k, value := value, wire := some (w.map (·.toNat)), back := b }
        | _, _ => some "unparsable implementation output"
      | _ => some "unparsable implementation output"

def decMonitor (k : AttrKind) (w : List UInt8) (impl : String) : Option String :=
  if "PANIC".toList.isPrefixOf impl.toList then some "panic" else
  match resultOf k impl with
  | some r => IceSpec.C16.attrDecViolation { kind := k, wire := w.map (·.toNat), result := r }
  | none => some "unparsable implementation output"

def line (toks : List String) (impl : String) : Res :=
  match toks with
  | ["rt", ks, v] =>
    match kindOf ks with
    | none => bad "attr: kind"
    | some k =>
      match encode k v with
      | none => bad "attr rt: value"
      | some none => { model := "enc-err:size", monitor := rtMonitor k v impl, prop := "C16" }
      | some (some w) =>
        let back := match decode k w with | some s => s | none => "err:size"
        { model := s!"w={hexOfBytes w} v={back}", monitor := rtMonitor k v impl, prop := "C16" }
  | ["dec", ks, h] =>
    match kindOf ks, hfield h with
    | some k, some w =>
      { model := match decode k w with | some s => s | none => "err:size",
        monitor := decMonitor k w impl, prop := "C16" }
    | _, _ => bad "attr dec: args"
  | ["absent", ks] =>
    match kindOf ks with
    | some _ => { model := "err:notfound" }
    | none => bad "attr: kind"
  | _ => bad "attr: unknown op"

-- @component attr
abbrev State := Unit
def init : State := ()
def step (s : State) (toks : List String) (impl : String) : State × Res := (s, line toks impl)

end Driver.AttrCodec
