import IceModel.CandText
import IceSpec.C16
import Driver.Util
import Driver.NetMirror
/-!
Driver component `cand` (C16): candidate text form, constructors, Equal / DeepEqual.

Operations (all byte strings are `h<hex>`, so they may hold any byte and never a space):
  cls h<addr>                         -> 0|4|6        (samples the `netip.ParseAddr` mirror)
  canon h<addr>                       -> `<0|4|6> <key> <key> <key>`  key = `-` | `k`+hex of the canonical-address key
        (samples the `canonicalAddr(netip.ParseAddr(s))` mirror; 2nd/3rd key = the IP `addrEqual` sees for a
         resolved UDP / TCP address built from this string; the monitor checks `EnvLaw` on the implementation's values)
  crc h<bytes>                        -> decimal      (samples the CRC-32 mirror)
  rt <type> h<network> h<addr> <port> <component> <prio> h<foundation> <tcptype 0..3> h<raddr> <rport> h<relayproto> <exts>
        exts = `-` or `<hexkey>:<hexval>,…` applied with AddExtension in order
     -> `build-err:<kind>` | `ok xe=<failed AddExtension calls> T=<hex of Marshal()> | <getters of c> | <getters of c'>|err:<kind> | e=.. d=.. er=.. dr=..`
        c' = UnmarshalCandidate(c.Marshal()); e = c'.Equal(c), d = c'.DeepEqual(c), er = c.Equal(c'), dr = c.DeepEqual(c')
  parse h<text>                       -> `err:<kind>` | `ok <getters of c> | T=<hex of c.Marshal()> | <getters of c2>|err:<kind> | e=.. er=.. d=.. dr=..`
  eq <side> <side>                    -> eight bits aEa aDa bEb bDb aEb bEa aDb bDa | `side-err`
        side = `P;h<text>` (parsed) or `B;<the 12 rt arguments separated by ;>` (built)
  eq3 <side> <side> <side>            -> twelve bits aEb bEc aEc bEa cEb cEa aDb bDc aDc bDa cDb cDa | `side-err`
getters: `f=<hex> c=<n> n=<1..4> p=<n> a=<hex> o=<n> t=<1..4> r=-|<hex>:<n> tt=<0..3> x=-|<hex>:<hex>,…`
-/
namespace Driver.CandText
open IceModel.CandText Driver
open IceModel.Prio (TcpType)
open IceSpec.C16 (CandObs RtObs ReparseObs EqObs Eq3Obs AddrObs)

/-! ### text helpers (on `List Char`) -/

def hexChars : Array Char := "0123456789abcdef".toList.toArray

def hexOf (s : List Nat) : String :=
  String.ofList (s.foldr (fun b acc => hexChars[(b / 16) % 16]! :: hexChars[b % 16]! :: acc) [])

def hexDigit? (c : Char) : Option Nat :=
  let n := c.toNat
  if 48 ≤ n && n ≤ 57 then some (n - 48) else if 97 ≤ n && n ≤ 102 then some (n - 87) else none

def unhexL : List Char → Option (List Nat)
  | [] => some []
  | a :: b :: r => do
    let x ← hexDigit? a
    let y ← hexDigit? b
    let t ← unhexL r
    pure ((x * 16 + y) :: t)
  | _ => none

/-- `h<hex>` -/
def hfield (s : String) : Option (List Nat) :=
  match s.toList with
  | 'h' :: r => unhexL r
  | _ => none

def natOfChars (l : List Char) : Option Nat :=
  if l.isEmpty then none else
  l.foldl (fun acc c => acc.bind fun a => if c.isDigit then some (a * 10 + (c.toNat - 48)) else none) (some 0)

def splitChars (sep : Char) (l : List Char) : List (List Char) :=
  let (cur, acc) := l.foldr (fun c (p : List Char × List (List Char)) =>
    if c == sep then ([], p.1 :: p.2) else (c :: p.1, p.2)) ([], [])
  cur :: acc

/-! ### the concrete `Env` of the driver -/

def env0 : Env where
  cls := fun s => match NetMirror.classify s with | 4 => .v4 | 6 => .v6 | _ => .invalid
  canon := NetMirror.canon
  crc := NetMirror.crc32

/-! ### observations -/

def netCode : NetType → Nat | .udp4 => 1 | .udp6 => 2 | .tcp4 => 3 | .tcp6 => 4
def typCode : CType → Nat | .host => 1 | .srflx => 2 | .prflx => 3 | .relay => 4

def obsOf (c : Cand) : CandObs where
  foundation := foundation env0 c
  component := c.component
  net := netCode c.net
  priority := priority c
  address := c.address
  port := c.port
  typ := typCode c.typ
  related := c.related
  tcpType := c.tcpType.code
  exts := extensions c

def fmtObs (o : CandObs) : String :=
  let r := match o.related with | none => "-" | some (a, p) => hexOf a ++ ":" ++ toString p
  let x := if o.exts.isEmpty then "-" else ",".intercalate (o.exts.map fun e => hexOf e.1 ++ ":" ++ hexOf e.2)
  s!"f={hexOf o.foundation} c={o.component} n={o.net} p={o.priority} a={hexOf o.address} o={o.port} t={o.typ} r={r} tt={o.tcpType} x={x}"

def pairOfChars (l : List Char) : Option (List Nat × List Nat) :=
  match splitChars ':' l with
  | [k, v] => do pure ((← unhexL k), (← unhexL v))
  | _ => none

def extsOfChars (l : List Char) : Option (List (List Nat × List Nat)) :=
  if l == ['-'] then some [] else (splitChars ',' l).mapM pairOfChars

def kv (tag : String) (tok : String) : Option (List Char) :=
  let t := tag.toList ++ ['=']
  if t.isPrefixOf tok.toList then some (tok.toList.drop t.length) else none

def parseObs (s : String) : Option CandObs :=
  match s.splitOn " " with
  | [f, c, n, p, a, o, t, r, tt, x] => do
    let f ← kv "f" f >>= unhexL
    let c ← kv "c" c >>= natOfChars
    let n ← kv "n" n >>= natOfChars
    let p ← kv "p" p >>= natOfChars
    let a ← kv "a" a >>= unhexL
    let o ← kv "o" o >>= natOfChars
    let t ← kv "t" t >>= natOfChars
    let r ← kv "r" r
    let r ← if r == ['-'] then some none else
      match splitChars ':' r with
      | [ra, rp] => do pure (some ((← unhexL ra), (← natOfChars rp)))
      | _ => none
    let tt ← kv "tt" tt >>= natOfChars
    let x ← kv "x" x >>= extsOfChars
    pure { foundation := f, component := c, net := n, priority := p, address := a, port := o, typ := t,
           related := r, tcpType := tt, exts := x }
  | _ => none

def errName : ErrKind → String
  | .foundation => "foundation" | .tooShort => "tooShort" | .component => "component"
  | .priority => "priority" | .port => "port" | .typ => "typ" | .relAddr => "relAddr" | .ext => "ext"
  | .tcpType => "tcpType" | .addr => "addr" | .netType => "netType"

def bit (b : Bool) : String := if b then "1" else "0"
def bitOf? (s : List Char) : Option Bool := if s == ['1'] then some true else if s == ['0'] then some false else none

/-! ### building a candidate from operation arguments -/

def relayLPOf (proto : List Nat) : Nat :=
  if proto = [116, 108, 115] then 0 else if proto = sTcp then 1 else if proto = [100, 116, 108, 115] then 2 else 3

def typOfName (s : String) : Option CType :=
  if s = "host" then some .host else if s = "srflx" then some .srflx
  else if s = "prflx" then some .prflx else if s = "relay" then some .relay else none

/-- `none` = malformed operation; otherwise the constructor's result and the number of failed `AddExtension`s. -/
def build (args : List String) : Option (Except ErrKind (Cand × Nat)) :=
  match args with
  | [ty, nw, ad, po, co, pr, fo, tt, ra, rp, rl, xs] => do
    let ty ← typOfName ty
    let nw ← hfield nw
    let ad ← hfield ad
    let po ← natOfChars po.toList
    let co ← natOfChars co.toList
    let pr ← natOfChars pr.toList
    let fo ← hfield fo
    let tt ← natOfChars tt.toList
    let ra ← hfield ra
    let rp ← natOfChars rp.toList
    let rl ← hfield rl
    let xs ← extsOfChars xs.toList
    match mkCand env0 ty nw ad po co pr fo (TcpType.ofCode tt) ra rp (relayLPOf rl) with
    | .error e => pure (.error e)
    | .ok c =>
      let (c, ne) := xs.foldl (fun (p : Cand × Nat) e =>
        match addExtension p.1 e.1 e.2 with
        | some c' => (c', p.2)
        | none => (p.1, p.2 + 1)) (c, 0)
      pure (.ok (c, ne))
  | _ => none

/-! ### operations -/

def implPanicked (impl : String) : Bool := "PANIC".toList.isPrefixOf impl.toList

def flags4 (s : String) : Option (Bool × Bool × Bool × Bool) :=
  match s.splitOn " " with
  | [a, b, c, d] => do
    pure ((← bitOf? (a.toList.drop 2)), (← bitOf? (b.toList.drop 2)), (← bitOf? (c.toList.drop 3)), (← bitOf? (d.toList.drop 3)))
  | _ => none

def obsOrErr (s : String) : Option (Option CandObs) :=
  if "err:".toList.isPrefixOf s.toList then some none else (parseObs s).map some

/-- monitor of the `rt` operation on the implementation's output -/
def rtMonitor (impl : String) : Option String :=
  if implPanicked impl then some "panic" else
  if "build-err:".toList.isPrefixOf impl.toList then none else
  match impl.splitOn " | " with
  | [_, o, p, fl] =>
    match parseObs o, obsOrErr p, (fl.splitOn " ").map (fun t => bitOf? ((splitChars '=' t.toList).getLast!)) with
    | some o, some p, [some e, some d, some er, some dr] =>
      IceSpec.C16.rtViolation { orig := o, parsed := p, equal := e, deep := d, equalRev := er, deepRev := dr }
    | _, _, _ => some "unparsable implementation output"
  | _ => some "unparsable implementation output"

def rtLine (args : List String) (impl : String) : Res :=
  match build args with
  | none => bad "cand rt: args"
  | some (.error e) => { model := "build-err:" ++ errName e, monitor := rtMonitor impl, prop := "C16" }
  | some (.ok (c, ne)) =>
    let text := marshal env0 c
    let (ps, e, d, er, dr) :=
      match parse env0 text with
      | .error k => ("err:" ++ errName k, false, false, false, false)
      | .ok c' => (fmtObs (obsOf c'), equal env0 c' c, deepEqual env0 c' c, equal env0 c c', deepEqual env0 c c')
    { model := s!"ok xe={ne} T={hexOf text} | {fmtObs (obsOf c)} | {ps} | e={bit e} d={bit d} er={bit er} dr={bit dr}",
      monitor := rtMonitor impl, prop := "C16" }

def parseMonitor (impl : String) : Option String :=
  if implPanicked impl then some "panic" else
  if "err:".toList.isPrefixOf impl.toList then none else
  match impl.splitOn " | " with
  | [o, _, p, fl] =>
    match parseObs (String.ofList (o.toList.drop 3)), obsOrErr p,
        (fl.splitOn " ").map (fun t => bitOf? ((splitChars '=' t.toList).getLast!)) with
    | some o, some p, [some e, some er, _, _] =>
      IceSpec.C16.reparseViolation { first := o, again := p, equal := e, equalRev := er }
    | _, _, _ => some "unparsable implementation output"
  | _ => some "unparsable implementation output"

def parseLine (h : String) (impl : String) : Res :=
  match hfield h with
  | none => bad "cand parse: args"
  | some raw =>
    let model :=
      match parse env0 raw with
      | .error k => "err:" ++ errName k
      | .ok c =>
        let t2 := marshal env0 c
        let (ps, e, er, d, dr) :=
          match parse env0 t2 with
          | .error k => ("err:" ++ errName k, false, false, false, false)
          | .ok c2 => (fmtObs (obsOf c2), equal env0 c c2, equal env0 c2 c, deepEqual env0 c c2, deepEqual env0 c2 c)
        s!"ok {fmtObs (obsOf c)} | T={hexOf t2} | {ps} | e={bit e} er={bit er} d={bit d} dr={bit dr}"
    { model := model, monitor := parseMonitor impl, prop := "C16" }

def sideOf (s : String) : Option Cand :=
  match s.splitOn ";" with
  | ["P", h] => do
    let raw ← hfield h
    match parse env0 raw with
    | .ok c => some c
    | .error _ => none
  | "B" :: args =>
    match build args with
    | some (.ok (c, _)) => some c
    | _ => none
  | _ => none

def eqMonitor (impl : String) : Option String :=
  if implPanicked impl then some "panic" else
  if impl = "side-err" then none else
  match impl.toList.mapM (fun c => bitOf? [c]) with
  | some [a, b, c, d, e, f, g, h] =>
    IceSpec.C16.eqViolation { aEa := a, aDa := b, bEb := c, bDb := d, aEb := e, bEa := f, aDb := g, bDa := h }
  | _ => some "unparsable implementation output"

def eqLine (sa sb : String) (impl : String) : Res :=
  let model :=
    match sideOf sa, sideOf sb with
    | some a, some b =>
      String.join ([equal env0 a a, deepEqual env0 a a, equal env0 b b, deepEqual env0 b b, equal env0 a b,
        equal env0 b a, deepEqual env0 a b, deepEqual env0 b a].map bit)
    | _, _ => "side-err"
  { model := model, monitor := eqMonitor impl, prop := "C16" }

def eq3Monitor (impl : String) : Option String :=
  if implPanicked impl then some "panic" else
  if impl = "side-err" then none else
  match impl.toList.mapM (fun c => bitOf? [c]) with
  | some [e1, e2, e3, e4, e5, e6, d1, d2, d3, d4, d5, d6] =>
    IceSpec.C16.eq3Violation { eab := e1, ebc := e2, eac := e3, eba := e4, ecb := e5, eca := e6,
                               dab := d1, dbc := d2, dac := d3, dba := d4, dcb := d5, dca := d6 }
  | _ => some "unparsable implementation output"

def eq3Line (sa sb sc : String) (impl : String) : Res :=
  let model :=
    match sideOf sa, sideOf sb, sideOf sc with
    | some a, some b, some c =>
      let ps := [(a, b), (b, c), (a, c), (b, a), (c, b), (c, a)]
      String.join ((ps.map fun p => equal env0 p.1 p.2) ++ (ps.map fun p => deepEqual env0 p.1 p.2) |>.map bit)
    | _, _, _ => "side-err"
  { model := model, monitor := eq3Monitor impl, prop := "C16" }

def keyStr : Option (List Nat) → String
  | none => "-"
  | some k => "k" ++ hexOf k

def keyOf? (s : String) : Option (Option (List Nat)) :=
  match s.toList with
  | ['-'] => some none
  | 'k' :: r => (unhexL r).map some
  | _ => none

/-- the assumption monitor on the values the REAL `netip` / addr.go functions returned -/
def canonMonitor (impl : String) : Option String :=
  if implPanicked impl then some "panic" else
  match impl.splitOn " " with
  | [c, k, r1, r2] =>
    match natOfChars c.toList, keyOf? k, keyOf? r1, keyOf? r2 with
    | some c, some k, some r1, some r2 =>
      IceSpec.C16.envLawViolation { cls := c, canon := k, viaResolved := [r1, r2] }
    | _, _, _, _ => some "unparsable implementation output"
  | _ => some "unparsable implementation output"

def line (toks : List String) (impl : String) : Res :=
  match toks with
  | ["cls", h] => match hfield h with
    | some s => { model := toString (NetMirror.classify s) }
    | none => bad "cand cls: args"
  | ["canon", h] => match hfield h with
    | some s =>
      let k := keyStr (NetMirror.canon s)
      { model := s!"{NetMirror.classify s} {k} {k} {k}", monitor := canonMonitor impl, prop := "C16" }
    | none => bad "cand canon: args"
  | ["crc", h] => match hfield h with
    | some s => { model := toString (NetMirror.crc32 s) }
    | none => bad "cand crc: args"
  | "rt" :: args => rtLine args impl
  | ["parse", h] => parseLine h impl
  | ["eq", a, b] => eqLine a b impl
  | ["eq3", a, b, c] => eq3Line a b c impl
  | _ => bad "cand: unknown op"

-- @component cand
abbrev State := Unit
def init : State := ()
def step (s : State) (toks : List String) (impl : String) : State × Res := (s, line toks impl)

end Driver.CandText
