/-!
Executable mirrors of the two library functions the candidate text model leaves uninterpreted
(`IceModel.CandText.Env`): `netip.ParseAddr` (+ `Unmap().Is4()`) and `crc32.ChecksumIEEE`.
They are NOT part of any theorem; the correspondence run samples them against Go
(`cand cls`, `cand crc` operations and every `cand parse` / `cand rt` operation).
Transcribed from go1.26.8 `net/netip/netip.go` (`ParseAddr`, `parseIPv4Fields`, `parseIPv6`).
-/
namespace Driver.NetMirror

/-- `parseIPv4Fields` on the whole of `s`: the four octets. -/
def parseV4 (s : List Nat) : Option (List Nat) := Id.run do
  let arr := s.toArray
  let n := arr.size
  let mut val := 0
  let mut pos := 0
  let mut digLen := 0
  let mut fields : Array Nat := #[]
  for i in [0:n] do
    let c := arr[i]!
    if 48 ≤ c && c ≤ 57 then
      if digLen == 1 && val == 0 then return none
      val := val * 10 + (c - 48)
      digLen := digLen + 1
      if val > 255 then return none
    else if c == 46 then
      if i == 0 || i == n - 1 || arr[i-1]! == 46 then return none
      if pos == 3 then return none
      fields := fields.push val
      pos := pos + 1
      val := 0
      digLen := 0
    else return none
  if pos < 3 then return none
  return some (fields.push val).toList

def hexVal (c : Nat) : Option Nat :=
  if 48 ≤ c && c ≤ 57 then some (c - 48)
  else if 97 ≤ c && c ≤ 102 then some (c - 97 + 10)
  else if 65 ≤ c && c ≤ 70 then some (c - 65 + 10)
  else none

/-- the hex group at the head of `s`: (number of digits, value), `none` = more than 4 digits -/
def hexGroup (s : List Nat) : Option (Nat × Nat) := Id.run do
  let mut off := 0
  let mut acc := 0
  for c in s do
    match hexVal c with
    | none => break
    | some d =>
      acc := acc * 16 + d
      if off > 3 then return none
      if acc > 65535 then return none
      off := off + 1
  return some (off, acc)

/-- the main loop of `parseIPv6`; returns the bytes parsed, the ellipsis position and the rest. -/
partial def v6Loop (s : List Nat) (i : Nat) (ip : Array Nat) (ellipsis : Option Nat) :
    Option (List Nat × Nat × Array Nat × Option Nat) :=
  if i ≥ 16 then some (s, i, ip, ellipsis) else
  match hexGroup s with
  | none => none
  | some (off, acc) =>
    if off == 0 then none else
    let rest := s.drop off
    if rest.head? == some 46 then
      if ellipsis.isNone && i != 12 then none
      else if i + 4 > 16 then none
      else match parseV4 s with
        | none => none
        | some f => some ([], i + 4, ip ++ f.toArray, ellipsis)
    else
      let ip := (ip.push (acc / 256)).push (acc % 256)
      let i := i + 2
      match rest with
      | [] => some ([], i, ip, ellipsis)
      | c :: r1 =>
        if c != 58 then none
        else match r1 with
          | [] => none
          | c1 :: r2 =>
            if c1 == 58 then
              if ellipsis.isSome then none
              else if r2.isEmpty then some ([], i, ip, some i)
              else v6Loop r2 i ip (some i)
            else v6Loop r1 i ip ellipsis

/-- `parseIPv6`: the 16 bytes and the zone (everything after the first `%`; an explicit zone must not
be empty). -/
def parseV6z (input : List Nat) : Option (List Nat × List Nat) :=
  let (s, zone, zoneOK) :=
    match input.idxOf? 37 with
    | some k => (input.take k, input.drop (k + 1), decide (input.length > k + 1))
    | none => (input, [], true)
  (fun ip => (ip, zone)) <$>
  if !zoneOK then none else
  let (s, ellipsis, unspecified) :=
    match s with
    | 58 :: 58 :: r => (r, some 0, r.isEmpty)
    | _ => (s, none, false)
  if unspecified then some (List.replicate 16 0) else
  match v6Loop s 0 #[] ellipsis with
  | none => none
  | some (rest, i, ip, ellipsis) =>
    if !rest.isEmpty then none
    else if i < 16 then
      match ellipsis with
      | none => none
      | some e =>
        let l := ip.toList
        some (l.take e ++ List.replicate (16 - i) 0 ++ l.drop e)
    else if ellipsis.isSome then none
    else some ip.toList

def parseV6 (input : List Nat) : Option (List Nat) := (parseV6z input).map (·.1)

def is4in6 (ip : List Nat) : Bool := ip.take 10 == List.replicate 10 0 && (ip.drop 10).take 2 == [255, 255]

/-- `isIPv6LinkLocal` (addr.go) on the 16 bytes of an address that is not IPv4-mapped:
`IsLinkLocalUnicast` (fe80::/10) or `IsLinkLocalMulticast` (ffx2::/16). -/
def isLinkLocal6 (ip : List Nat) : Bool :=
  let hi := ip.getD 0 0
  let lo := ip.getD 1 0
  (hi == 254 && lo / 64 == 2) || (hi == 255 && lo % 16 == 2)

/-- `canonicalAddr(netip.ParseAddr(s))` as a key: `none` = parse error; an IPv4 or IPv4-mapped address
is its 4 bytes (`Unmap()` also drops the zone); any other IPv6 address is its 16 bytes, followed by `%`
and the zone if the address is link-local and has one. -/
def canon (s : List Nat) : Option (List Nat) :=
  match s.find? (fun c => c == 46 || c == 58 || c == 37) with
  | some 46 => parseV4 s
  | some 58 =>
    match parseV6z s with
    | none => none
    | some (ip, zone) =>
      if is4in6 ip then some (ip.drop 12)
      else if isLinkLocal6 ip && !zone.isEmpty then some (ip ++ 37 :: zone)
      else some ip
  | _ => none

/-- `netip.ParseAddr(s)` then `Unmap().Is4()`: 0 = error, 4 = IPv4 or IPv4-mapped IPv6, 6 = other IPv6. -/
def classify (s : List Nat) : Nat :=
  match s.find? (fun c => c == 46 || c == 58 || c == 37) with
  | some 46 => if (parseV4 s).isSome then 4 else 0
  | some 58 =>
    match parseV6 s with
    | none => 0
    | some ip => if ip.take 10 == List.replicate 10 0 && (ip.drop 10).take 2 == [255, 255] then 4 else 6
  | _ => 0

/-- `crc32.ChecksumIEEE` (reflected polynomial EDB88320), bit by bit. -/
def crc32 (s : List Nat) : Nat :=
  let step (crc : Nat) (b : Nat) : Nat := Id.run do
    let mut c := crc ^^^ (b % 256)
    for _ in [0:8] do
      c := if c % 2 == 1 then (c / 2) ^^^ 0xEDB88320 else c / 2
    return c
  (s.foldl step 0xFFFFFFFF) ^^^ 0xFFFFFFFF

end Driver.NetMirror
