import IceModel.UdpMux
import IceSpec.C12
import IceSpec.C12View
import Driver.Util
/-!
Line-protocol driver of the `udpmux` component (C12): recomputes every output with `IceModel.UdpMux`
and runs the spec monitor `IceSpec.C12.step` on the IMPLEMENTATION's outputs.

A session holds one mux (`new u …`: unspecified socket, `GetConn` called directly) or three muxes behind
a `MultiUDPMuxDefault` (`new m …`).  After every operation all pending close watchers run (`quiesce`):
the harness lets the goroutines run to quiescence after every operation, so `closeh` is `closeHandle`
followed by the connection's watcher, `remove` / `closemux` are followed by the watchers of the
connections they closed.
-/
namespace Driver.UdpMux
open IceModel.UdpMux Driver
open IceSpec.C12 (SState)
open IceSpec.C12View (parseWire printOut printCloseIn Wire)

/- the token functions of the view, under the names the other mux drivers use -/
export IceSpec.C12View (nameOf showName showAddr parseAddr parseHandle parseConn)

/-- the printer of the view -/
abbrev showOut (i g : Nat) (o : Out) : String := printOut i g o

def parseKind (tok : String) : Option Kind :=
  if tok.startsWith "su:" then some (.stunUser (nameOf (tok.drop 3).toString))
  else if tok = "sn" then some .stunNoUser
  else if tok = "sb" then some .stunBad
  else if tok = "ns" then some .nonStun
  else none

structure State where
  active : Bool := false
  multi : Bool := false
  socks : List Sock := []
  muxes : List Mux := []
  specs : List SState := []
  /-- model's view: global handle id ↦ (mux, handle of that mux) -/
  mh : List (Nat × Nat) := []
  /-- implementation's view (from its outputs), used by the monitor -/
  ih : List (Nat × Nat) := []

def init : State := {}

def setAt {α : Type} (l : List α) (i : Nat) (v : α) : List α := l.set i v

def multiLocals : List Addr :=
  [ { ip := { is4 := true, hi := 0, lo := 167772161, zone := [] }, port := 7000 },
    { ip := { is4 := true, hi := 0, lo := 167772162, zone := [] }, port := 7000 },
    { ip := { is4 := false, hi := 2306139568115548160, lo := 1, zone := [] }, port := 7000 } ]

def mon (why : Option String) (model : String) : Res := { model := model, monitor := why, prop := "C12" }

/-- first `some` of two verdicts -/
def orElse (a b : Option String) : Option String := match a with | some x => some x | none => b

/-- run all watchers of mux `m` (connections `0 .. n-1`) -/
def watchAll (m : Mux) : Mux := (List.range m.nconns).foldl (fun m c => (watcherRun m c).1) m

def specWatchAll (s : SState) : SState :=
  (List.range s.nc).foldl (fun s c => (IceSpec.C12.step s (.watcherRun c) .done).1) s

/-- apply a spec observation on mux `i` -/
def specStep (st : State) (i : Nat) (op : Op) (o : Out) : State × Option String :=
  match st.specs[i]? with
  | some s => let (s1, v) := IceSpec.C12.step s op o; ({ st with specs := setAt st.specs i s1 }, v)
  | none => (st, some "dispatch: output names a mux that does not exist")

def stepCore (st : State) (toks : List String) (impl : String) : State × Res :=
  match toks with
  | ["new", mode, _ap] =>
    let socks : List Sock :=
      if mode = "m" then multiLocals.map (fun a => { localAddr := a, unspecified := false })
      else [{ localAddr := { ip := { is4 := false, hi := 0, lo := 0, zone := [] }, port := 7000 }, unspecified := true }]
    ({ active := true, multi := mode = "m", socks := socks, muxes := socks.map (fun _ => IceModel.UdpMux.init),
       specs := socks.map (fun _ => SState.init), mh := [], ih := [] }, mon none "ok")
  | ["end"] => ({}, mon none "end ok")
  | _ =>
  if !st.active then (st, bad "udpmux: no session") else
  match toks with
  | ["getconn", u, a] =>
    match parseAddr a with
    | none => (st, bad "udpmux getconn: addr")
    | some addr =>
      let uf := nameOf (u.drop 2).toString
      let target : Option Nat := if st.multi then multiFind st.socks addr 0 none else some 0
      -- model
      let (st1, modelOut, modelConn) : State × String × Option (Nat × Nat) :=
        match target with
        | none => (st, "err:addr", none)
        | some i =>
          match st.socks[i]?, st.muxes[i]? with
          | some sk, some m =>
            let (m1, o) := getConnAt sk m uf addr
            let g := st.mh.length
            match o with
            | .conn h c => ({ st with muxes := setAt st.muxes i m1, mh := st.mh ++ [(i, h)] }, printOut i g o, some (i, c))
            | _ => ({ st with muxes := setAt st.muxes i m1 }, printOut i g o, none)
          | _, _ => (st, "bad", none)
      -- monitor on the implementation's output
      let v6 := localIsV6 addr.ip
      let (st2, v) : State × Option String :=
        match parseWire impl with
        | some (.conn g j k) =>
          let v0 : Option String :=
            if g ≠ st1.ih.length then some "dispatch: GetConn: handle id is not fresh"
            else match target with
              | some i => if i ≠ j then some "dispatch: the multi mux handed out a connection of a socket that does not listen on the requested address" else none
              | none => some "dispatch: the multi mux handed out a connection for an address nobody listens on"
          match st1.specs[j]? with
          | some s =>
            let (s1, v1) := IceSpec.C12.step s (.getConn uf v6) (.conn s.nh k)
            ({ st1 with specs := setAt st1.specs j s1, ih := st1.ih ++ [(j, s.nh)] }, orElse v0 v1)
          | none => (st1, some "dispatch: GetConn output names a mux that does not exist")
        | _ => (st1, if IceSpec.C12View.tokenCount impl = 2 then some "dispatch: GetConn: unparsable output" else none)
      let _ := modelConn
      (st2, mon v modelOut)
  | ["write", hTok, a] =>
    match parseHandle hTok, parseAddr a with
    | some g, some addr =>
      let (st1, modelOut) : State × String :=
        match st.mh[g]? with
        | some (i, h) =>
          match st.muxes[i]? with
          | some m => let (m1, o) := writeTo m h addr; ({ st with muxes := setAt st.muxes i m1 }, printOut i g o)
          | none => (st, "bad")
        | none => (st, "bad")
      let io : Option Out :=
        match parseWire impl with
        | some .ok => some .wrote
        | some .errSock => some .errSock
        | some .errClosed => some .errClosed
        | some .bad => some .bad
        | _ => none
      let (st2, v) : State × Option String :=
        match io with
        | none => (st1, some "dispatch: write: unparsable output")
        | some o =>
          match st1.ih[g]? with
          | some (i, h) => specStep st1 i (.writeTo h addr) o
          | none => (st1, if o = .wrote ∨ o = .errSock then some "dispatch: write through an unknown handle succeeded" else none)
      (st2, mon v modelOut)
    | _, _ => (st, bad "udpmux write: args")
  | ["in", iTok, a, kTok, pTok] =>
    match iTok.toNat?, parseAddr a, parseKind kTok, pTok.toNat? with
    | some i, some src, some k, some pid =>
      let (st1, modelOut) : State × String :=
        match st.muxes[i]? with
        | some m => let (m1, o) := inbound m src k pid; ({ st with muxes := setAt st.muxes i m1 }, printOut i 0 o)
        | none => (st, "bad")
      let (st2, v) : State × Option String :=
        match parseWire impl with
        | some .dropped => specStep st1 i (.inbound src k pid) .dropped
        | some (.delivered j c) =>
          if j ≠ i then (st1, some "dispatch: datagram delivered to a connection of another socket's mux")
          else specStep st1 i (.inbound src k pid) (.delivered c)
        | _ => (st1, some ("dispatch: datagram handed to more than one connection or queue corrupted: " ++ impl))
      (st2, mon v modelOut)
    | _, _, _, _ => (st, bad "udpmux in: args")
  | ["remove", u] =>
    let uf := nameOf (u.drop 2).toString
    let st1 := { st with muxes := st.muxes.map (fun m => removeByUfrag m uf),
                         specs := st.specs.map (fun s => (IceSpec.C12.step s (.removeByUfrag uf) .done).1) }
    (st1, mon none "ok")
  | ["closeh", hTok] =>
    match parseHandle hTok with
    | none => (st, bad "udpmux closeh: args")
    | some g =>
      let (st1, modelOut) : State × String :=
        match st.mh[g]? with
        | some (i, h) =>
          match st.muxes[i]? with
          | some m =>
            let (m1, o) := closeHandle m h
            ({ st with muxes := setAt st.muxes i m1 }, printOut i g o)
          | none => (st, "bad")
        | none => (st, "bad")
      let st2 : State :=
        match st1.ih[g]? with
        | some (i, h) =>
          match st1.specs[i]? with
          | some s =>
            let s1 := (IceSpec.C12.step s (.closeHandle h) .done).1
            { st1 with specs := setAt st1.specs i s1 }
          | none => st1
        | none => st1
      (st2, mon none modelOut)
  | ["closein", hTok, iTok, a, kTok, pTok] =>
    match parseHandle hTok, iTok.toNat?, parseAddr a, parseKind kTok, pTok.toNat? with
    | some g, some i, some src, some k, some pid =>
      let isUser : Bool := match k with | .stunUser _ => true | _ => false
      -- model
      let (st1, modelOut) : State × String :=
        match st.mh[g]? with
        | some (j, h) =>
          match st.muxes[j]? with
          | some mj =>
            let (mj1, _) := closeHandle mj h
            let stA : State := { st with muxes := setAt st.muxes j mj1 }
            match stA.muxes[i]? with
            | some mi0 =>
              let window := j != i || !isUser || (mi0.addrMap (canonAddr src)).isSome
              let stB : State := if window then stA else { stA with muxes := stA.muxes.map watchAll }
              match stB.muxes[i]? with
              | some mi1 =>
                let (mi2, o) := inbound mi1 src k pid
                ({ stB with muxes := setAt stB.muxes i mi2 }, printCloseIn window i o)
              | none => (stB, "bad")
            | none => (stA, "bad")
          | none => (st, "bad")
        | none => (st, "bad")
      -- monitor on the implementation's output
      let (st2, v) : State × Option String :=
        match parseWire impl with
        | some (.closeIn window to) =>
          match st1.ih[g]? with
          | some (j, h) =>
            let (stA, _) := specStep st1 j (.closeHandle h) .done
            let stB : State := if window then stA else { stA with specs := stA.specs.map specWatchAll }
            match to with
            | none => specStep stB i (.inbound src k pid) .dropped
            | some (j', c) =>
              if j' ≠ i then (stB, some "dispatch: datagram delivered to a connection of another socket's mux")
              else specStep stB i (.inbound src k pid) (.delivered c)
          | none => (st1, some "dispatch: close of an unknown handle succeeded")
        | some .bad => (st1, none)
        | _ => (st1, some ("dispatch: closein: unparsable output, or datagram handed to more than one connection: " ++ impl))
      (st2, mon v modelOut)
    | _, _, _, _, _ => (st, bad "udpmux closein: args")
  | ["watch"] => (st, mon none "ok")
  | ["closemux"] =>
    ({ st with muxes := st.muxes.map closeMux,
               specs := st.specs.map (fun s => (IceSpec.C12.step s .closeMux .done).1) }, mon none "ok")
  | ["read", hTok] =>
    match parseHandle hTok with
    | none => (st, bad "udpmux read: args")
    | some g =>
      let (st1, modelOut) : State × String :=
        match st.mh[g]? with
        | some (i, h) =>
          match st.muxes[i]? with
          | some m => let (m1, o) := read m h; ({ st with muxes := setAt st.muxes i m1 }, printOut i g o)
          | none => (st, "bad")
        | none => (st, "bad")
      let io : Option Out :=
        match parseWire impl with
        | some .empty => some .empty
        | some .eof => some .eof
        | some .errClosed => some .errClosed
        | some .bad => some .bad
        | some (.pkt pid src) => some (.pkt pid src)
        | _ => none
      let (st2, v) : State × Option String :=
        match io with
        | none => (st1, some ("faithful: read returned bytes that are not a datagram fed to the mux, or an unparsable source: " ++ impl))
        | some o =>
          match st1.ih[g]? with
          | some (i, h) => specStep st1 i (.read h) o
          | none => (st1, match o with
              | .pkt _ _ => some "faithful: read through an unknown handle returned a datagram"
              | _ => none)
      (st2, mon v modelOut)
  | _ => (st, bad "udpmux: unknown op")

/-- The harness lets every goroutine run to quiescence after each operation (`synctest.Wait`): every
pending close watcher runs. -/
def quiesce (st : State) : State :=
  { st with muxes := st.muxes.map watchAll, specs := st.specs.map specWatchAll }

-- @component udpmux
def step (st : State) (toks : List String) (impl : String) : State × Res :=
  let (st1, r) := stepCore st toks impl
  (quiesce st1, r)

end Driver.UdpMux
