/-! Shared helpers of the line-protocol driver (core-only). -/
namespace Driver

structure Res where
  /-- canonical output of the model for this operation -/
  model : String
  /-- `some reason` if the IMPLEMENTATION's output violates the property's spec monitor -/
  monitor : Option String := none
  /-- property the monitor belongs to -/
  prop : String := ""
  /-- further monitor verdicts `(property, reason)` for components that serve several properties -/
  more : List (String × String) := []
  deriving Inhabited

def bad (why : String) : Res := { model := "bad-op " ++ why }

def parseBool? (s : String) : Option Bool :=
  if s = "true" then some true else if s = "false" then some false else none

def natsOf (s : String) : Option (List Nat) :=
  (s.splitOn " ").mapM String.toNat?

def joinNats (l : List Nat) : String := " ".intercalate (l.map toString)

end Driver
