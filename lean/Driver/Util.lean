/-! Shared helpers of the line-protocol driver (core-only). -/
namespace Driver

structure Res where
  /-- canonical output of the model for this operation -/
  model : String
  /-- `some reason` if the IMPLEMENTATION's output violates the property's spec monitor -/
  monitor : Option String := none
  /-- property the monitor belongs to -/
  prop : String := ""
  /-- further monitor verdicts `(property, reason)` for components that serve several properties -/
  more : List (String × String) := []
  /-- `some reason` iff the component decides acceptance of a RECORDED history by a bounded search (closure over hidden
  model steps with a fuel / beam / budget) and the search GAVE UP before it could either exhibit an execution of the
  model with the recorded projection or exclude one on a fully explored frontier.  Such a line is INCONCLUSIVE, never a
  rejection: the component then puts the output of an ACCEPTED history into `model` (no `MISMATCH` from the search), the
  spec monitor still judges the line, and the driver prints an `INCONCLUSIVE` line so that `check` can count it
  (`coverage.inconclusive_acceptance_searches` of the evidence). -/
  inconclusive : Option String := none
  deriving Inhabited

def bad (why : String) : Res := { model := "bad-op " ++ why }

def parseBool? (s : String) : Option Bool :=
  if s = "true" then some true else if s = "false" then some false else none

def natsOf (s : String) : Option (List Nat) :=
  (s.splitOn " ").mapM String.toNat?

def joinNats (l : List Nat) : String := " ".intercalate (l.map toString)

end Driver
