import IceModel.GatherCycle
import IceSpec.C11
import IceSpec.C11View
import Driver.Util
/-!
Tie A for the gathering cycle: one op line per recorded history of ONE real agent (gather-once,
host-only gathering over a fake net with `<ifaces>` interfaces)

  `gathercycle hist <ifaces> <scenario> <tok> …`          (implementation output: `recorded`)

tokens in stamp order.  API calls are made by one thread and stamped at the call: `G<r>`
GatherCandidates (r: 0 nil, 1 ErrMultipleGatherAttempted, 2 other error), `R<u>` Restart to ufrag number u,
`S<g>` GetGatheringState (0 new, 1 gathering, 2 complete), `P<g>` the same taken while every goroutine is
blocked and immediately followed by `R` (no time passes in between), `X` Close,
`W` the recorder waited until everything was idle.  Callbacks: `c<t>` OnCandidate with a candidate whose
ufrag extension is ufrag number t, `n` OnCandidate(nil).

(a) `IceSpec.C11.monitorGather` is evaluated on the history;
(b) the history must be a behaviour of `IceModel.GatherCycle`: configurations (model state, number of
    callbacks already published) are carried along; unobserved steps (cycle threads, gatherers) are
    interleaved in every way; the k-th publication of the model must equal the k-th callback of the
    history and must have happened before that callback's stamp (the notifier delivers in order, later).
    The search uses the model restricted to one in-flight `addCandidate` per cycle and no `pubSkip`
    (host-only gathering has one gatherer and no duplicates) — a restriction can only reject more.
    One pass; the closure is bounded (`closureFuel` expansions): when it gives up and the configuration set later
    empties the line is INCONCLUSIVE (`recorded` + `Res.inconclusive`), never rejected.  (Until /repo 19c3ca1 the model allowed a cancelled cycle to publish through a hand-off taken
    after cancellation — DESIGN §7 S5, finding F23 — and a second pass accepted such histories; the model no
    longer has that transition, so a history showing a candidate of a stale generation is REJECTED here,
    `MISMATCH`, in addition to the monitor's clause G1/G2.)
-/
namespace Driver.GatherCycle
open IceModel.GatherCycle IceSpec.C11 Driver

def parseTok (t : String) : Option GEv := IceSpec.C11.View.parseGTok t

/-- callbacks of the history, in order: `some t` candidate with tag t, `none` the nil candidate -/
def callbacks (evs : List GEv) : List (Option Nat) :=
  evs.filterMap fun
    | .cand t => some (some t)
    | .nil => some none
    | _ => none

structure Cfg where
  st : State
  consumed : Nat := 0
  deriving BEq, Repr

def gstateCode : GState → Nat
  | .new => 0 | .gathering => 1 | .complete => 2

def gresCode : GRes → Nat
  | .ok => 0 | .multi => 1 | .closed => 2

/-- Canonical form inside the search.  A cycle whose context is cancelled (or whose agent is closed) can
only abort its in-flight `addCandidate` (`pubTask`/`pubSkip` are not enabled for it: the task re-checks
the context, agent.go L1364) and run to its end without publishing anything
(`IceProps.C11.C11_cancelled_cycle_publishes_nothing`), so it is moved to `done` eagerly.
The ghost `published` list and the candidate list `locals` (neither is read by `step`'s guards, and these histories
do not observe the list) are cleared.  For a cancelled cycle with the loop open `pubAbort` stands for `pubRefuse` as
well (same transition, `IceProps.C11.C11_handoff_of_cancelled_cycle_is_refused`). -/
def norm (st : State) : State :=
  let st := (List.range st.cycles.length).foldl (fun st i =>
    match st.cycles[i]? with
    | some cy =>
      if (cy.cancelled || st.closed) && cy.pc != .done then
        let st := (step st (.cycleStart i)).getD st
        let st := (step st (.pubAbort i)).getD st
        let st := (step st (.gatherersDone i)).getD st
        (step st (.cycleFinish i)).getD st
      else st
    | none => st) st
  { st with published := [], locals := [] }

/-- one unobserved step of cycle `c`, publications checked against the callback list -/
def internalSucc0 (cbs : List (Option Nat)) (c : Cfg) : List Cfg :=
  (List.range c.st.cycles.length).flatMap fun i =>
    match c.st.cycles[i]? with
    | none => []
    | some cy =>
      let plain (a : Action) : List Cfg := match step c.st a with
        | some st => [{ c with st := st }]
        | none => []
      match cy.pc with
      | .start => plain (.cycleStart i)
      | .gathering =>
        (if cy.checked == 0 then plain (.pubCheck i) ++ plain (.gatherersDone i) else [])
        ++ plain (.pubAbort i)
        ++ (match cbs[c.consumed]? with
            | some (some t) => if t == c.st.ufrag then
                (match step c.st (.pubTask i) with
                 | some st => [{ st := st, consumed := c.consumed + 1 }]
                 | none => [])
              else []
            | _ => [])
      | .finishing =>
        -- the Complete task publishes nil iff applied with gstate ≠ complete
        match step c.st (.cycleFinish i) with
        | none => []
        | some st =>
          let n := st.published.length - c.st.published.length
          if n == 0 then [{ c with st := st }]
          else if cbs[c.consumed]? == some none then [{ st := st, consumed := c.consumed + 1 }] else []
      | .done => []

def internalSucc (cbs : List (Option Nat)) (c : Cfg) : List Cfg :=
  (internalSucc0 cbs c).map fun n => { n with st := norm n.st }

/-- closure under unobserved steps (worklist; `fuel` bounds the number of expansions).  The flag is `true` iff the work
list was emptied (the result IS the closure), `false` iff the search gave up with configurations still unexpanded. -/
def closure (cbs : List (Option Nat)) (fuel : Nat) (seen : List Cfg) (work : List Cfg) : List Cfg × Bool :=
  match fuel, work with
  | _, [] => (seen, true)
  | 0, _ => (seen, false)
  | fuel + 1, c :: rest =>
    let (seen, new) := (internalSucc cbs c).foldl
      (fun (acc : List Cfg × List Cfg) n =>
        if acc.1.contains n then acc else (acc.1 ++ [n], acc.2 ++ [n])) (seen, [])
    closure cbs fuel seen (rest ++ new)

def closureFuel : Nat := 20000

def close (cbs : List (Option Nat)) (cs : List Cfg) : List Cfg × Bool :=
  let start := cs.foldl (fun acc c => if acc.contains c then acc else acc ++ [c]) []
  closure cbs closureFuel start start

/-- apply one observed event; `k` = number of callbacks before this event -/
def observe (k : Nat) (c : Cfg) : GEv → Option Cfg
  | .gather r =>
    if gresCode (gatherResult c.st) == r then (step c.st .gatherCall).map fun st => { c with st := st } else none
  | .restart u =>
    if c.st.closed then none else (step c.st (.restart u)).map fun st => { c with st := st }
  | .state g _ => if c.st.closed then none else if gstateCode c.st.gstate == g then some c else none
  | .cand _ => if c.consumed > k then some c else none
  | .nil => if c.consumed > k then some c else none
  | .settle =>
    -- idle: every cycle thread has ended and everything published has been delivered (unless closed:
    -- a closed notifier drops, and nothing is published after the loop ended)
    if c.st.cycles.all (fun cy => cy.pc == .done) && (c.st.closed || c.consumed == k) then some c else none
  | .close => (step c.st .close).map fun st => { c with st := st }

def whyEmpty : GEv → String
  | .gather _ => "GatherCandidates result differs from the model's"
  | .restart _ => "Restart not possible"
  | .state _ _ => "polled gathering state differs from the model's"
  | .cand _ => "no cycle can have published this candidate (tag or order)"
  | .nil => "no cycle can have published a nil candidate here"
  | .settle => "idle, but the model still has a running cycle or an undelivered publication"
  | .close => "close twice"

/-- The model's output and, if the search gave up, why.  `rejected:` only when every closure up to that position was
complete (fully explored frontier); an empty configuration set after a closure that ran out of fuel is no verdict. -/
def accept (toks : List String) : String × Option String :=
  match toks.mapM parseTok with
  | none => ("bad-op token", none)
  | some evs =>
    let cbs := callbacks evs
    let rec go (cs : List Cfg) (complete : Bool) (pos k : Nat) : List GEv → List String → String × Option String
      | [], _ => ("recorded", none)
      | ev :: rest, ts =>
        -- `S` is taken while every goroutine is blocked: a `R` that follows it immediately finds the
        -- polled state unchanged (no unobserved step in between)
        let frozen := match ev, rest with
          | .state _ true, .restart _ :: _ => true
          | _, _ => false
        let obs := (cs.filterMap (observe k · ev)).map fun n => { n with st := norm n.st }
        let (next, ok) := if frozen then (obs, true) else close cbs obs
        let complete := complete && ok
        let k' := match ev with | .cand _ => k + 1 | .nil => k + 1 | _ => k
        if next.isEmpty then
          if complete then (s!"rejected:{pos}:{ts.headD "?"}:{whyEmpty ev}", none)
          else ("recorded", some s!"closure over unobserved steps ran out of fuel ({closureFuel} expansions) at or before position {pos} ({ts.headD "?"})")
        else go next complete (pos + 1) k' rest (ts.drop 1)
    let (c0, ok0) := close cbs [{ st := IceModel.GatherCycle.init }]
    go c0 ok0 0 0 evs toks

/-- the string monitor of `IceSpec/C11View.lean` (`C11_view_roundtrip`) -/
def monitor (needCand : Bool) (toks : List String) : Option String := IceSpec.C11.View.monitorGToks needCand toks

def line (toks : List String) (_impl : String) : Res :=
  match toks with
  | "hist" :: ifaces :: _scen :: evs =>
    match ifaces.toNat? with
    | some n =>
      let (model, inc) := accept evs
      { model := model, monitor := monitor (n ≥ 1) evs, prop := "C11", inconclusive := inc }
    | none => bad "gathercycle: ifaces"
  | _ => bad "gathercycle: unknown op"

-- @component gathercycle
abbrev State := Unit
def init : State := ()
def step (s : State) (toks : List String) (impl : String) : State × Res := (s, line toks impl)

end Driver.GatherCycle
