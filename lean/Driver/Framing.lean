import IceModel.Framing
import IceSpec.C14
import Driver.Util
/-!
Driver component `frame` (C14): `readStreamingPacket` / `writeStreamingPacket` and their users.

ops (tokens after `frame`):
  write <len> <seed> <mode>
      mode = ok | fail (conn.Write fails) | tpc (through tcpPacketConn.WriteTo, unbuffered)
      -> `n=<n> err=<none|io|rejected> writes=<k> hdr=<hex|-> body=<len>:<digest>`
  read  <blen>:<cap> <end> <segments: hex,hex,… ; `_` = empty segment ; `-` = none>
  readp <blen>:<cap> <end> <pieces> <keep> <cuts>
      -> `<results> | <reads>`; results: `p:<len>:<digest>` … then `short:<n>` or `e:<eof|closed|io>`;
         reads: `<want>/<got>` … or, above 64 entries, `n=<count> h=<fnv of the long form> max=<largest want>`
  tpc   <end> <pieces> <keep> <cuts>     tcpPacketConn (AddConn + ReadFrom until error), cap 8192
      -> `<results> | <reads> | closed=<bool>`   (short buffer is reported as `short:0`)
  atc   <pieces> <keep> <cuts>           activeTCPConn over loopback: packets only
      -> `<results>`
  mux   <end> <first frame hex> <pieces> <keep> <cuts>   TCPMuxDefault.handleConn (first frame, 512-byte buffer)
      -> `closed` | `<results> | closed=<bool>`

  <end>    = eof | closed | io         terminal error of the fake connection
  <pieces> = comma separated: `f<len>.<seed>` well-formed frame of a generated packet, `x<hex>` raw bytes,
             `g<n>.<seed>` n generated raw bytes; `-` = nothing
  <keep>   = `all` | number of bytes of the stream that arrive before the terminal error
  <cuts>   = comma separated segment sizes, used cyclically (0 = a Read returning (0, nil))
-/
namespace Driver.Framing
open IceModel.Framing IceSpec.C14 Driver

def hexVal (c : Char) : Option Nat :=
  if '0' ≤ c ∧ c ≤ '9' then some (c.toNat - 48)
  else if 'a' ≤ c ∧ c ≤ 'f' then some (c.toNat - 87)
  else if 'A' ≤ c ∧ c ≤ 'F' then some (c.toNat - 55)
  else none

def unhexAux : List Char → List UInt8 → Option (List UInt8)
  | [], acc => some acc.reverse
  | [_], _ => none
  | a :: b :: rest, acc =>
    match hexVal a, hexVal b with
    | some x, some y => unhexAux rest (UInt8.ofNat (x * 16 + y) :: acc)
    | _, _ => none

def unhex (s : String) : Option (List UInt8) := unhexAux s.toList []

/-- generated payload bytes, the same function as `vFrameGen` of the Go harness -/
def genBytes (seed len : Nat) : List UInt8 :=
  (List.range len).map fun i => UInt8.ofNat (seed + i * 167 + (i / 256) * 59)

def be16 (n : Nat) : List UInt8 := [UInt8.ofNat (n / 256), UInt8.ofNat n]

def twoNats (s : String) (sep : String) : Option (Nat × Nat) :=
  match s.splitOn sep with
  | [a, b] => match a.toNat?, b.toNat? with
    | some x, some y => some (x, y)
    | _, _ => none
  | _ => none

def piece (s : String) : Option (List UInt8) :=
  if s.startsWith "f" then
    (twoNats (s.drop 1).toString ".").map fun (len, seed) => be16 len ++ genBytes seed len
  else if s.startsWith "g" then
    (twoNats (s.drop 1).toString ".").map fun (n, seed) => genBytes seed n
  else if s.startsWith "x" then unhex (s.drop 1).toString
  else none

def pieces (s : String) : Option (List UInt8) :=
  if s = "-" then some [] else ((s.splitOn ",").mapM piece).map List.flatten

/-- the fuel is a termination device with a structural bound, not a search budget: `cut` calls it only when some cut
is > 0, so every pass over `cuts` (≤ |cuts| + 1 steps) removes at least one byte of `rest`; at fuel 0 the remainder is
kept as one segment, nothing is lost. -/
def cutAux : Nat → List Nat → List Nat → List UInt8 → List (List UInt8) → List (List UInt8)
  | 0, _, _, rest, acc => (if rest.isEmpty then acc else rest :: acc).reverse
  | fuel + 1, all, cur, rest, acc =>
    if rest.isEmpty then acc.reverse else
    match cur with
    | [] => cutAux fuel all all rest acc
    | c :: cs => cutAux fuel all cs (rest.drop c) (rest.take c :: acc)

/-- segments of `s` with the sizes `cuts` used cyclically -/
def cut (cuts : List Nat) (s : List UInt8) : List (List UInt8) :=
  if cuts.all (· == 0) then (if s.isEmpty then [] else [s])
  else cutAux ((s.length + 1) * (cuts.length + 1) + 1) cuts cuts s []

def parseEnd (s : String) : Option IoErr :=
  if s = "eof" then some .eof else if s = "closed" then some .closed else if s = "io" then some .other else none

def endStr : IoErr → String
  | .eof => "eof" | .closed => "closed" | .other => "io"

def segsOfHex (s : String) : Option Segs :=
  if s = "-" then some [] else (s.splitOn ",").mapM fun t => if t = "_" then some [] else unhex t

/-- stream description → segments -/
def streamOf (ps keep cuts : String) : Option Segs := do
  let s ← pieces ps
  let s ← if keep = "all" then some s else keep.toNat?.map (s.take ·)
  let cs ← (cuts.splitOn ",").mapM String.toNat?
  some (cut cs s)

def renderObs : Obs → String
  | .pkt n d => "p:" ++ toString n ++ ":" ++ d
  | .shortBuffer n => "short:" ++ toString n
  | .err e => "e:" ++ endStr e
  | .junk s => s

def parseObs (s : String) : Obs :=
  match s.splitOn ":" with
  | ["p", n, d] => match n.toNat? with
    | some n => .pkt n d
    | none => .junk s
  | ["short", n] => match n.toNat? with
    | some n => .shortBuffer n
    | none => .junk s
  | ["e", k] => match parseEnd k with
    | some e => .err e
    | none => .junk s
  | _ => .junk s

def renderReadsLong (l : ReadLog) : String :=
  " ".intercalate (l.map fun (w, g) => toString w ++ "/" ++ toString g)

def fnvString (s : String) : UInt32 :=
  s.toUTF8.foldl (fun h b => (h ^^^ b.toUInt32) * 16777619) 2166136261

def renderReads (l : ReadLog) : String :=
  if l.length ≤ 64 then renderReadsLong l
  else "n=" ++ toString l.length ++ " h=" ++ hex32 (fnvString (renderReadsLong l)) ++ " max="
    ++ toString (l.foldl (fun m r => max m r.1) 0)

def parseReads (s : String) : Option ReadLog :=
  if s = "" then some [] else (s.splitOn " ").mapM fun t => twoNats t "/"

def words (s : String) : List String := (s.splitOn " ").filter (· ≠ "")

/-- splits `a | b | c` -/
def sections (s : String) : List String := (s.splitOn "|").map fun t => (t.trimAscii).toString

def renderResults (l : List Obs) : String := " ".intercalate (l.map renderObs)

/-- bounded-read monitor on the implementation's reads section (long or digest form) -/
def readsMonitor (cap : Nat) (flat : List UInt8) (s : String) : Option String :=
  if s.startsWith "n=" then
    match (words s).filterMap fun t => if t.startsWith "max=" then (t.drop 4).toString.toNat? else none with
    | [m] => maxWantViolation cap m
    | _ => some "unparsable reads digest"
  else match parseReads s with
    | some l => readsViolation cap flat l
    | none => some "unparsable reads section"

def firstSome (a b : Option String) : Option String := match a with | some x => some x | none => b

def panicMon (impl : String) : Option String :=
  if impl.startsWith "PANIC" then some ("panic in the implementation: " ++ impl) else none

/-- plain reader: model output + monitors for a capacity and segments -/
def readRes (cap : Nat) (e : IoErr) (segs : Segs) (impl : String) : Res :=
  let r := readAll cap e segs
  let model := renderResults (r.1.map obsOf) ++ " | " ++ renderReads r.2
  let flat := segs.flatten
  let mon := firstSome (panicMon impl) <|
    match sections impl with
    | [a, b] => firstSome (readViolation cap e flat ((words a).map parseObs)) (readsMonitor cap flat b)
    | _ => some "unparsable implementation output"
  { model := model, monitor := mon, prop := "C14" }

def userObs : Obs → Obs
  | .shortBuffer _ => .shortBuffer 0
  | o => o

def resultsMonitor (exp impl : List Obs) : Option String := resultsViolationFrom 0 exp impl

def tpcRes (e : IoErr) (segs : Segs) (impl : String) : Res :=
  let r := readAll 8192 e segs
  let model := renderResults ((r.1.map obsOf).map userObs) ++ " | " ++ renderReads r.2 ++ " | closed=true"
  let flat := segs.flatten
  let mon := firstSome (panicMon impl) <|
    match sections impl with
    | [a, b, c] =>
      firstSome (resultsMonitor (((parse 8192 e flat).map obsOf).map userObs) ((words a).map parseObs)) <|
      firstSome (readsMonitor 8192 flat b) <|
      if c = "closed=true" then none else some "the connection of a failed stream was not closed"
    | _ => some "unparsable implementation output"
  { model := model, monitor := mon, prop := "C14" }

def onlyPkts (l : List Obs) : List Obs := l.filter fun o => match o with | .pkt _ _ => true | _ => false

def atcRes (segs : Segs) (impl : String) : Res :=
  let r := readAll 8192 .eof segs
  let model := renderResults (onlyPkts (r.1.map obsOf))
  let mon := firstSome (panicMon impl) <|
    resultsMonitor (onlyPkts ((parse 8192 .eof segs.flatten).map obsOf)) ((words impl).map parseObs)
  { model := model, monitor := mon, prop := "C14" }

/-- `handleConn`: the first frame is read with a 512-byte buffer; anything but a packet closes the
connection; the remaining frames are read by `tcpPacketConn.startReading` (8192).  The harness
guarantees that a first frame that fits is a valid STUN binding request with a USERNAME. -/
def muxRes (e : IoErr) (segs : Segs) (impl : String) : Res :=
  let flat := segs.flatten
  let model :=
    match readPacket 512 e segs with
    | (.pkt b, s', _) =>
      let r := readAll 8192 e s'
      renderResults (((Res.pkt b :: r.1).map obsOf).map userObs) ++ " | closed=true"
    | _ => "closed"
  let specFirstOk := match parse 512 e flat with
    | .pkt _ :: _ => true
    | _ => false
  let mon := firstSome (panicMon impl) <|
    if specFirstOk then
      match sections impl with
      | [a, c] =>
        firstSome (resultsMonitor (((parse 8192 e flat).map obsOf).map userObs) ((words a).map parseObs)) <|
          if c = "closed=true" then none else some "the connection of a failed stream was not closed"
      | _ => some "first frame fits the 512-byte buffer but the connection was dropped"
    else if impl = "closed" then none
    else some "first frame truncated or larger than 512 bytes: the connection must be closed, nothing delivered"
  { model := model, monitor := mon, prop := "C14" }

def errStr : Option WErr → String
  | none => "none" | some .io => "io" | some .tooLong => "rejected"

def renderWrite (o : WriteObs) : String :=
  "n=" ++ toString o.n ++ " err=" ++ errStr o.err ++ " writes=" ++ toString o.writes ++ " hdr="
    ++ (if o.hdr.isEmpty then "-" else hexOf o.hdr) ++ " body=" ++ toString o.bodyLen ++ ":" ++ o.bodyDig

def kv (ws : List String) (k : String) : Option String :=
  (ws.find? (·.startsWith (k ++ "="))).map fun t => (t.drop (k.length + 1)).toString

def parseWrite (s : String) : Option WriteObs := do
  let ws := words s
  let n ← (← kv ws "n").toNat?
  let err ← match ← kv ws "err" with
    | "none" => some none
    | "io" => some (some WErr.io)
    | "rejected" => some (some WErr.tooLong)
    | _ => none
  let writes ← (← kv ws "writes").toNat?
  let h ← kv ws "hdr"
  let hdr ← if h = "-" then some [] else unhex h
  let (bl, bd) ← match (← kv ws "body").splitOn ":" with
    | [a, b] => a.toNat?.map (·, b)
    | _ => none
  some { n := n, err := err, writes := writes, hdr := hdr, bodyLen := bl, bodyDig := bd }

def writeRes (len seed : Nat) (mode : String) (impl : String) : Res :=
  let p := genBytes seed len
  let fails := mode == "fail"
  let o := obsOfWrite (write fails p)
  let mon := firstSome (panicMon impl) <|
    match parseWrite impl with
    | some io => writeViolation fails p io
    | none => some ("unparsable implementation output")
  { model := renderWrite o, monitor := mon, prop := "C14" }

/-- The buffered write path (`bufferedConn`, TCPMux `WriteBufferSize > 0`) drains the queue through a buffer of
receiveMTU + 2 bytes: a packet longer than the receive MTU (outside what C14 promises to deliver) is reported as
written and then DROPPED by the drain.  The model says so; the monitor tolerates the drop but not a partial frame:
whatever reaches the connection must be the whole, correct frame. -/
def writeResBuffered (len seed : Nat) (impl : String) : Res :=
  if len ≤ 8192 ∨ len > 65535 then writeRes len seed "tpcb" impl
  else
    let p := genBytes seed len
    -- a frame (header + packet) above 65535 bytes is refused by the queue (packetio.Buffer) itself
    let dropped : WriteObs :=
      if len + 2 > 65535 then { n := 0, err := some WErr.tooLong, writes := 0, hdr := [], bodyLen := 0, bodyDig := digest [] }
      else { n := len, err := none, writes := 0, hdr := [], bodyLen := 0, bodyDig := digest [] }
    let mon := firstSome (panicMon impl) <|
      match parseWrite impl with
      | some io => if io.writes == 0 then none else writeViolation false p io
      | none => some ("unparsable implementation output")
    { model := renderWrite dropped, monitor := mon, prop := "C14" }

def capOf (s : String) : Option Nat :=
  match s.splitOn ":" with
  | [_, c] => c.toNat?
  | [c] => c.toNat?
  | _ => none

def line (toks : List String) (impl : String) : Res :=
  match toks with
  | ["write", len, seed, mode] =>
    match len.toNat?, seed.toNat? with
    | some len, some seed =>
      if mode == "tpcb" then writeResBuffered len seed impl
      else if mode == "ok" || mode == "fail" || mode == "tpc" then writeRes len seed mode impl else bad "frame write: mode"
    | _, _ => bad "frame write: args"
  | ["read", cap, en, hex] =>
    match capOf cap, parseEnd en, segsOfHex hex with
    | some cap, some e, some segs => readRes cap e segs impl
    | _, _, _ => bad "frame read: args"
  | ["readp", cap, en, ps, keep, cuts] =>
    match capOf cap, parseEnd en, streamOf ps keep cuts with
    | some cap, some e, some segs => readRes cap e segs impl
    | _, _, _ => bad "frame readp: args"
  | ["tpc", en, ps, keep, cuts] =>
    match parseEnd en, streamOf ps keep cuts with
    | some e, some segs => tpcRes e segs impl
    | _, _ => bad "frame tpc: args"
  | ["atc", ps, keep, cuts] =>
    match streamOf ps keep cuts with
    | some segs => atcRes segs impl
    | _ => bad "frame atc: args"
  | ["mux", en, first, ps, keep, cuts] =>
    match parseEnd en, streamOf ("x" ++ first ++ (if ps = "-" then "" else "," ++ ps)) keep cuts with
    | some e, some segs => muxRes e segs impl
    | _, _ => bad "frame mux: args"
  | ["tpcbuf", bl, cp, pl, seed] =>
    match bl.toNat?, cp.toNat?, pl.toNat?, seed.toNat? with
    | some bl, some _cp, some pl, some seed =>
      -- tcpPacketConn.ReadFrom with a caller buffer of LENGTH `bl` (capacity `cp` ≥ `bl`) and one queued packet of `pl`
      -- bytes: the packet is returned iff it fits the buffer's LENGTH, else io.ErrShortBuffer (after the fix of F35)
      let r := IceModel.Framing.packetConnRead bl (genBytes seed pl)
      let model := match r with
        | some d => "n=" ++ toString d.length ++ " e=ok d=" ++ digest d
        | none => "n=0 e=short d=" ++ digest []
      let ws := words impl
      let mon := match (kv ws "n").bind String.toNat?, kv ws "e" with
        | some n, some e =>
          if e == "ok" && n > bl then some "ReadFrom returned more bytes than the caller's buffer holds (truncated packet)"
          else if e == "ok" && n != pl then some "ReadFrom returned a packet of another length than the one sent"
          else none
        | _, _ => some "unparsable implementation output"
      { model := model, monitor := mon, prop := "C14" }
    | _, _, _, _ => bad "frame tpcbuf: args"
  | _ => bad "frame: unknown op"

-- @component frame
abbrev State := Unit
def init : State := ()
def step (s : State) (toks : List String) (impl : String) : State × Res := (s, line toks impl)

end Driver.Framing
