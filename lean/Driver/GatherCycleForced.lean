import IceModel.GatherCycle
import IceSpec.C11Forced
import IceSpec.C11ForcedView
import Driver.Util
/-!
Tie A for the gathering cycle, FORCED interleavings (harness `zz_verif_gatherforce_test.go`):

  `gatherforce run <ifaces> <rounds> <step> …`      implementation output: `obs [ "|" obs … ]`

The script is run `<rounds>` times on a fresh real agent; the output is the sorted set of distinct observations
(token lists, grammar in the harness file and in `parseTok`).  Every step ends with every goroutine blocked, the
real gatherer of each started cycle is parked until an `L` step, scripted gatherers (`A<c>:<mode>`) call the real
`addCandidate`, and the first context check of such a call runs a hook (Restart / Restart+GatherCandidates / Close /
a further scripted gatherer) — so the only thing the script does not determine is which ready case `Run`'s `select`
takes after the hook.

(a) every observation must pass `IceSpec.C11.Forced.monitorForced`;
(b) the MODEL's observation is computed by running the script on `IceModel.GatherCycle.step` (each step of the script is
    a fixed list of model actions; unobserved threads are run to where the harness parks them) and printed in the same
    grammar; the implementation's output must be exactly that one observation.  Where `select` has a choice (a call in
    flight of a cancelled cycle, loop open) the model has two actions, `pubAbort` and `pubRefuse`; the driver checks
    that both are enabled there and lead to the same state (`IceProps.C11.C11_handoff_of_cancelled_cycle_is_refused`),
    so ONE observation is predicted whatever `select` does.
-/
namespace Driver.GatherCycleForced
open IceModel.GatherCycle IceSpec.C11.Forced Driver

/-! ## observation tokens → events -/

/-- reader and string monitor of `IceSpec/C11ForcedView.lean` (`C11_forced_view_roundtrip`) -/
def parseTok (t : String) : Option FEv := IceSpec.C11.Forced.View.parseFTok t

def monitorObs (obs : String) : Option String := IceSpec.C11.Forced.View.monitorObs obs

/-! ## the model's observation -/

structure Sim where
  st : State := IceModel.GatherCycle.init
  nIf : Nat
  epoch : Nat := 0
  /-- cycles whose real gatherer is parked, oldest first -/
  parked : List Nat := []
  /-- ids (ports) of `st.locals`, in the same order -/
  localIds : List Nat := []
  nInj : Nat := 0
  nPort : Nat := 0
  toks : List String := []
  cbs : List String := []
  out : List String := []
  /-- the script asks the model for something it cannot do / is malformed -/
  err : Option String := none
  deriving Inhabited

def gstateCode : GState → Nat
  | .new => 0 | .gathering => 1 | .complete => 2

def gresCode : GRes → Nat
  | .ok => 0 | .multi => 1 | .closed => 2

def Sim.tok (m : Sim) (t : String) : Sim := { m with toks := m.toks ++ [t] }
def Sim.fail (m : Sim) (why : String) : Sim := if m.err.isSome then m else { m with err := some why }

/-- take one model action (must be enabled); publications become callbacks, `locals` is mirrored with ids -/
def Sim.act (m : Sim) (a : Action) (id : Nat := 0) : Sim :=
  match step m.st a with
  | none => m.fail s!"model: action not enabled"
  | some st' =>
    let newPubs := st'.published.drop m.st.published.length
    let cbs := newPubs.map fun
      | Pub.cand _ t => s!"c{t}:{id}@{m.epoch}"
      | Pub.nil _ => s!"n@{m.epoch}"
    let ids := if st'.locals.length == m.localIds.length + 1 then m.localIds ++ [id]
               else if st'.locals.length == m.localIds.length then m.localIds else []
    { m with st := st', cbs := m.cbs ++ cbs, localIds := ids }

def enabled (m : Sim) (a : Action) : Bool := (step m.st a).isSome

def doGather (m : Sim) : Sim :=
  let res := gatherResult m.st
  let m := (m.act .gatherCall).tok s!"G{gresCode res}"
  if res == .ok then
    -- the new cycle's goroutine runs its Gathering task; its gatherer parks in the net
    let k := m.st.cycles.length - 1
    let m := m.act (.cycleStart k)
    if (m.st.cycles[k]?).any (·.pc == .gathering) then { m with parked := m.parked ++ [k] } else m
  else m

def doRestart (m : Sim) : Sim :=
  if m.st.closed then m.tok "R!"
  else
    let m := m.act (.restart (m.epoch + 1))
    { m with epoch := m.epoch + 1 }.tok s!"R{m.epoch + 1}"

def doClose (m : Sim) (graceful : Bool) : Sim :=
  if m.st.closed then m.tok "X-" else (m.act .close).tok (if graceful then "Y" else "X")

/-- the part of `addCandidate` after the first check, for a call that passed it -/
def finishAdd (m : Sim) (c id : Nat) : Sim × Bool :=
  if enabled m (.pubTask c) then (m.act (.pubTask c) id, true)
  else if enabled m (.pubAbort c) then
    -- `select` may take the hand-off instead (loop open, context done): the in-task re-check refuses — same state
    let viaRun := m.act (.pubAbort c)
    if enabled m (.pubRefuse c) && !((m.act (.pubRefuse c)).st == viaRun.st) then
      (m.fail "model: pubAbort and pubRefuse differ", false)
    else (viaRun, false)
  else (m.fail "model: a call in flight can neither publish nor abort", false)

/-- a scripted gatherer of cycle `c`; `mode` = hook of its first context check -/
def inject (m : Sim) (c : Nat) : List Char → Sim
  | [] => m.fail "bad-op"
  | h :: rest =>
    if !(m.parked.contains c) then m.fail "bad-op"
    else if h != '2' && !rest.isEmpty then m.fail "bad-op"
    else
      let id := 6000 + m.nInj
      let m := { m with nInj := m.nInj + 1 }.tok s!"a{c}:{id}"
      -- (1) the first check
      let passed := enabled m (.pubCheck c)
      let m := if passed then m.act (.pubCheck c) else m
      -- the hook, between the check and `loop.Run`
      let m := match h with
        | 'p' => m
        | 'r' => doRestart m
        | 'q' => doGather (doRestart m)
        | 'x' => doClose m false
        | '2' => inject m c rest
        | _ => m.fail "bad-op"
      -- (2), (3)
      if passed then
        let (m, ok) := finishAdd m c id
        m.tok (if ok then s!"r{id}=ok" else s!"r{id}=err")
      else m.tok s!"r{id}=err"

/-- the parked real gatherer of the oldest parked cycle runs to its end, then the cycle thread -/
def doRelease (m : Sim) : Sim :=
  match m.parked with
  | [] => m.tok "L-"
  | k :: rest =>
    let m := { m with parked := rest }.tok s!"L{k}"
    let m := (List.range m.nIf).foldl (fun (m : Sim) _ =>
      let id := 20001 + m.nPort
      let m := { m with nPort := m.nPort + 1 }.tok s!"l{id}"
      if enabled m (.pubCheck k) then (finishAdd (m.act (.pubCheck k)) k id).1 else m) m
    (m.act (.gatherersDone k)).act (.cycleFinish k)

def joinIds (l : List Nat) : String := ",".intercalate ((sortNat l).map toString)

def endStep (m : Sim) : Sim :=
  let probe := if m.st.closed then "Q!" else s!"Q{joinIds m.localIds}/{joinIds m.localIds}"
  { m with out := m.out ++ m.toks ++ m.cbs ++ [probe], toks := [], cbs := [] }

def doStep (m : Sim) (s : String) : Sim :=
  if m.err.isSome then m
  else
    let m := match s with
      | "G" => doGather m
      | "R" => doRestart m
      | "S" => if m.st.closed then m.tok "S!" else m.tok s!"S{gstateCode m.st.gstate}"
      | "X" => doClose m false
      | "Y" => doClose m true
      | "L" => doRelease m
      | _ =>
        if s.front == 'A' then
          match ((s.drop 1).toString).splitOn ":" with
          | [c, mode] => match c.toNat? with
            | some c => inject m c mode.toList
            | none => m.fail "bad-op"
          | _ => m.fail "bad-op"
        else m.fail "bad-op"
    match m.err with
    | some "bad-op" => { m with err := some s!"bad-op step {s}" }
    | some _ => m
    | none => endStep m

def windDown (m : Sim) : Sim :=
  let m := (List.range m.parked.length).foldl (fun m _ => doStep m "L") m
  let m := if m.st.closed then m else doStep m "X"
  -- `close` emptied the candidate list; every refused candidate's socket was closed by its gatherer
  { m with out := m.out ++ [s!"Z{joinIds m.localIds}"] }

def predict (nIf : Nat) (steps : List String) : String :=
  let m := windDown (steps.foldl doStep { nIf := nIf })
  match m.err with
  | some e => e
  | none => " ".intercalate m.out

def line (toks : List String) (impl : String) : Res :=
  match toks with
  | "run" :: ifaces :: rounds :: steps =>
    match ifaces.toNat?, rounds.toNat? with
    | some n, some _ =>
      if n > 3 then bad "gatherforce: ifaces" else
      let mon := if impl.startsWith "bad-op" then none
        else (impl.splitOn " | ").findSome? monitorObs
      { model := predict n steps, monitor := mon, prop := "C11" }
    | _, _ => bad "gatherforce: args"
  | _ => bad "gatherforce: unknown op"

-- @component gatherforce
abbrev State := Unit
def init : State := ()
def step (s : State) (toks : List String) (impl : String) : State × Res := (s, line toks impl)

end Driver.GatherCycleForced
