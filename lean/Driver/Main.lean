import Driver.Util
import Driver.Registry
/-!
Line-protocol driver.  stdin: one line per operation, `<op>\t<implementation output>`.
For every line the model's canonical output is computed and compared with the implementation's;
the property's spec monitor is evaluated on the implementation's output.
stdout: one line per problem
  `MISMATCH\t<lineno>\t<op>\timpl=<..>\tmodel=<..>`
  `MONITOR\t<prop>\t<lineno>\t<op>\timpl=<..>\t<reason>`
  `INCONCLUSIVE\t<component>\t<lineno>\t<reason>`   a bounded acceptance search gave up on this line (`Res.inconclusive`):
      NOT a problem — the search has no verdict, the component reports the output of an accepted history as `model`
      (so no MISMATCH arises from the search), the monitor still judges the line; `check` ignores the line for the
      verdict and counts it into the evidence
and a final `DONE lines=<n> mismatches=<m> monitor=<k> inconclusive=<i>`.
-/
open Driver

structure St where
  all : Driver.All := {}
  lines : Nat := 0
  mism : Nat := 0
  mon : Nat := 0
  inconcl : Nat := 0

partial def loop (h : IO.FS.Stream) (out : IO.FS.Stream) (st : St) : IO St := do
  let line ← h.getLine
  if line.isEmpty then return st
  let line := (line.dropEndWhile (fun c => c == '\n' || c == '\r')).toString
  if line.isEmpty then loop h out st else
  let (op, impl) := match line.splitOn "\t" with
    | [a, b] => (a, b)
    | [a] => (a, "")
    | a :: rest => (a, "\t".intercalate rest)
    | [] => ("", "")
  let (all, r) := Driver.dispatch st.all (op.splitOn " ") impl
  let n := st.lines + 1
  let mut st := { st with lines := n, all := all }
  match r.inconclusive with
  | some why =>
    -- a search that gives up is inconclusive, never a rejection; the component then reports the output of an ACCEPTED
    -- history as `model`, so an implementation output that is wrong whatever the search says (PANIC, hung, …) still differs
    out.putStrLn s!"INCONCLUSIVE\t{(op.splitOn " ").headD ""}\t{n}\t{why.replace "\t" " "}"
    st := { st with inconcl := st.inconcl + 1 }
  | none => pure ()
  if r.model != impl then
    out.putStrLn s!"MISMATCH\t{n}\t{op}\timpl={impl}\tmodel={r.model}"
    st := { st with mism := st.mism + 1 }
  match r.monitor with
  | some why =>
    out.putStrLn s!"MONITOR\t{r.prop}\t{n}\t{op}\timpl={impl}\t{why}"
    st := { st with mon := st.mon + 1 }
  | none => pure ()
  for (pr, why) in r.more do
    out.putStrLn s!"MONITOR\t{pr}\t{n}\t{op}\timpl={impl}\t{why}"
    st := { st with mon := st.mon + 1 }
  loop h out st

def main : IO UInt32 := do
  let stdin ← IO.getStdin
  let stdout ← IO.getStdout
  let st ← loop stdin stdout {}
  stdout.putStrLn s!"DONE lines={st.lines} mismatches={st.mism} monitor={st.mon} inconclusive={st.inconcl}"
  return 0
