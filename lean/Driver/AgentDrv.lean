import IceModel.Sys2
import IceSpec.AgentMon
import Driver.Util
/-!
Driver component `agent`: one or two agents + hub (IceModel.Sys2) behind the line protocol of
harness/inpkg/zz_verif_agent_test.go.  See DESIGN.md Appendix C and the harness file for the grammar.
-/
namespace Driver.AgentDrv
open IceModel.AgentCore IceModel.Sys2 Driver

-- @component agent
structure State where
  sys : Sys := {}
  mon : IceSpec.AgentMon.MonState := {}
  deriving Inhabited

def init : State := {}

def kvs (s : String) : List (String × String) :=
  (s.splitOn ",").filterMap fun kv =>
    match kv.splitOn "=" with
    | [k, v] => some (k, v)
    | k :: v :: rest => some (k, "=".intercalate (v :: rest))
    | _ => none

def look (l : List (String × String)) (k : String) : Option String := (l.find? (·.1 == k)).map (·.2)
def lookNat (l : List (String × String)) (k : String) (d : Nat) : Nat := ((look l k).bind String.toNat?).getD d
def lookBool (l : List (String × String)) (k : String) : Bool := look l k == some "1"
def tok (s : String) : String := if s == "_" then "" else s
def ms (n : Nat) : Nat := n * 1000000

def parseCfg (s : String) (tag : Nat) : Agent :=
  let l := kvs s
  let cfg : Config := {
    lite := lookBool l "lite", maxBindingRequests := lookNat l "max" 7,
    -- lite agents without an explicit value use the 10 s consent-expiry default
    disconnectedTimeout := ms (lookNat l "disc" (if lookBool l "lite" then 10000 else 5000)), disconnectedExplicit := (look l "disc").isSome,
    failedTimeout := ms (lookNat l "fail" 25000), keepaliveInterval := ms (lookNat l "ka" 2000),
    checkInterval := ms (lookNat l "ci" 200), hostWait := ms (lookNat l "hw" 0), srflxWait := ms (lookNat l "sw" 500),
    prflxWait := ms (lookNat l "pw" 1000), relayWait := ms (lookNat l "rw" 2000),
    enableRenomination := lookBool l "renom", useCandCheckPriority := lookBool l "ucp",
    blockedIPs := ((look l "blk").map fun v => (v.splitOn "+").filterMap String.toNat?).getD [],
    -- `auto=<ms>`: WithAutomaticRenomination(ms); an interval of 0 keeps the default of 3 s
    autoRenom := (look l "auto").isSome,
    renomInterval := if lookNat l "auto" 0 > 0 then ms (lookNat l "auto" 0) else 3000000000 }
  { cfg := cfg, tieBreaker := lookNat l "tb" 0, localUfrag := tok ((look l "u").getD ""), localPwd := tok ((look l "p").getD ""), tag := tag }

def parseTid (s : String) : Option Nat :=
  if s.startsWith "x" then (s.drop 1).toString.toNat?.map (· + 1000000)
  else match s.splitOn "#" with
    | ["A", n] => n.toNat?.map (2 * ·)
    | ["B", n] => n.toNat?.map (2 * · + 1)
    | _ => none

def showTid (t : Nat) : String :=
  if t ≥ 1000000 then s!"x{t - 1000000}" else (if t % 2 == 0 then "A#" else "B#") ++ toString (t / 2)

def optNat (s : Option String) : Option Nat := s.bind fun v => if v == "-" then none else v.toNat?

def parseMsg (s : String) : Option Msg :=
  let l := kvs s
  match (look l "tid").bind parseTid with
  | none => none
  | some tid =>
    let role : Option (Bool × Nat) := match look l "role" with
      | some "c" => some (true, lookNat l "tb" 0)
      | some "d" => some (false, lookNat l "tb" 0)
      -- both role attributes present: `AttrControl.GetFrom` looks for ICE-CONTROLLING first (tb), whatever the order
      | some "cd" => some (true, lookNat l "tb" 0)
      | some "dc" => some (true, lookNat l "tb" 0)
      | _ => none
    some { cls := lookNat l "cls" 0, method := lookNat l "m" 1, tid := tid,
           user := (look l "user").bind fun v => if v == "-" then none else some (":".intercalate ((v.splitOn ":").map tok)),
           key := (look l "key").bind fun v => if v == "-" then none else some (tok v),
           prio := optNat (look l "prio"), useCand := lookBool l "uc", role := role,
           nom := optNat (look l "nom"), errCode := optNat (look l "err") }

def showOpt (o : Option Nat) : String := match o with | some n => toString n | none => "-"
def showMs (o : Option Nat) : String := match o with | some n => toString (n / 1000000) | none => "-"
def b01 (b : Bool) : String := if b then "1" else "0"

def showMsg (m : Msg) : String :=
  let k := match m.key with | some k => (if k == "" then "_" else k) | none => "-"
  if m.cls == 0 then
    let u := match m.user with | some u => u | none => "-"
    let role := match m.role with | some (c, tb) => (if c then "c" else "d") ++ toString tb | none => "-"
    s!"REQ:{showTid m.tid}:u={u}:k={k}:p={showOpt m.prio}:uc={b01 m.useCand}:role={role}:nom={showOpt m.nom}"
  else if m.cls == 2 then s!"SUC:{showTid m.tid}:k={k}"
  else if m.cls == 3 then s!"ERR:{showTid m.tid}:k={k}:e={showOpt m.errCode}"
  else s!"IND:{showTid m.tid}"

def showDgram (d : Dgram) : String :=
  match d.p with
  | .stun m => s!"{d.src}>{d.dst}:{showMsg m}"
  | .data n => s!"{d.src}>{d.dst}:DATA:{n}"

def showPair (a : Agent) (p : Pair) : String :=
  let la := ((a.localOf p.l).map (·.addr)).getD 0
  let rc := a.remoteOf p.r
  let ra := (rc.map (·.addr)).getD 0
  let rt := (rc.map (·.ty)).getD 0
  s!"{p.id}:{la}>{ra}:{rt}:{p.state.str}:n{b01 p.nominated}d{b01 p.nomOnSuccess}v{showOpt p.deferredNom}:c{p.reqCount}:p{a.pairPrio p}:q{p.reqSent}/{p.reqRecv}/{p.respSent}/{p.respRecv}:k{p.pktSent}/{p.pktRecv}/{p.bytesSent}/{p.bytesRecv}:t{p.rtt}/{showMs p.lastResp}"

/-- tcptype mark of the digest: `^a` active, `^p` passive, `^s` simultaneous-open, nothing when unspecified -/
def ttMark (tt : Nat) : String := if tt == 1 then "^a" else if tt == 2 then "^p" else if tt == 3 then "^s" else ""

def parseTT (s : String) : Option Nat :=
  if s == "-" then some 0 else if s == "a" then some 1 else if s == "p" then some 2 else if s == "s" then some 3 else none

def showRemote (c : Cand) : String :=
  s!"{c.ty}@{c.net}.{c.addr}{if c.form != 0 then s!"~{c.form}" else ""}{ttMark c.tt}:p{c.prio}:r{showOpt c.rel}:lr{showMs c.lastRecv}"
def showLocal (c : Cand) : String := s!"{c.ty}@{c.net}.{c.addr}{ttMark c.tt}:p{c.prio}:ls{showMs c.lastSent}"

/-- udp4, udp6, tcp4, tcp6: the order in which the harness walks the per-network-type candidate sets -/
def byNet (l : List Cand) : List Cand :=
  l.filter (·.net == 0) ++ l.filter (·.net == 1) ++ l.filter (·.net == 2) ++ l.filter (·.net == 3)

/-- address ids name transport addresses: an id is reduced mod `tcpBase` and tagged by the network it is used on -/
def tagAddr (net addr : Nat) : Nat := (if isTCP net then tcpBase else 0) + addr % tcpBase

/-- the source id of an inbound op is on the transport of the receiving local address -/
def tagSrc (la src : Nat) : Nat := (if la ≥ tcpBase then tcpBase else 0) + src % tcpBase

def showAgent (a : Agent) (outs : List Out) : String :=
  let cs := outs.filterMap fun | .cbState s => some s.str | _ => none
  let sp := outs.filterMap fun | .cbPair l r => some s!"{l}>{r}" | _ => none
  let ca := outs.filterMap fun | .cbCand c => some (toString c) | _ => none
  let sel := match a.selected with | some i => toString i | none => "-"
  let pairs := if a.closed then [] else a.checklist.map (showPair a)
  "st=" ++ a.connState.str ++ ";ctl=" ++ b01 a.controlling ++ ";sel=" ++ sel ++
  ";P[" ++ ",".intercalate pairs ++ "];R[" ++ ",".intercalate ((byNet a.remotes).map showRemote) ++
  "];L[" ++ ",".intercalate ((byNet a.locals).map showLocal) ++
  "];cs[" ++ ",".intercalate cs ++ "];sp[" ++ ",".intercalate sp ++ "];ca[" ++ ",".intercalate ca ++
  s!"];bs={a.connBytesSent};br={a.connBytesRecv};pend={a.pending.length};ar={showMs a.lastRenomTime}/{a.nomCounter}"

def resOf (outs : List Out) : String :=
  match outs.filterMap fun | .res r => some r | _ => none with
  | r :: _ => r
  | [] => "-"

def render (s : Sys) (res : String) (oa ob : List Out) (newFrom : Nat) : String :=
  let bd := if s.hasB then showAgent s.b ob else "-"
  "res=" ++ res ++ ";A{" ++ showAgent s.a oa ++ "};B{" ++ bd ++ "};out[" ++
    "|".intercalate ((s.inflight.drop newFrom).map showDgram) ++ "]"

def parseCand (ty net addr prio rel : String) : Option Cand :=
  match ty.toNat?, net.toNat?, addr.toNat?, prio.toNat? with
  | some ty, some net, some addr, some prio =>
    -- only host candidates have a nil related address; the other constructors always allocate one
    some { uid := 0, ty := ty, net := net, addr := tagAddr net addr, prio := prio,
           rel := if ty == 1 then none else if rel == "-" then some 0 else rel.toNat?.map (· % tcpBase) }
  | _, _, _, _ => none

def who (s : String) : Option Bool := if s == "A" then some false else if s == "B" then some true else none

/-- run an event on one agent and render -/
def agentOp (st : State) (isB : Bool) (e : Ev) : Sys × String :=
  let s := st.sys
  let n := s.inflight.length
  let (s, o) := s.agentEv isB e
  (s, if isB then render s (resOf o) [] o n else render s (resOf o) o [] n)

def stepSys (st : State) (toks : List String) : Option (Sys × String) :=
  let s := st.sys
  let n := s.inflight.length
  match toks with
  | ["new", ca, cb] =>
    let s : Sys := { a := parseCfg ca 0, b := if cb == "-" then { tag := 1 } else parseCfg cb 1, hasB := cb != "-" }
    some (s, render s "ok" [] [] 0)
  | ["addlocal", w, ty, net, addr, prio, rel] =>
    match who w, parseCand ty net addr prio rel with
    | some isB, some c => some (agentOp st isB (.addLocal s.now c))
    | _, _ => none
  | ["addremote", w, ty, net, addr, prio, rel] =>
    match who w, parseCand ty net addr prio rel with
    | some isB, some c => some (agentOp st isB (.addRemote s.now c))
    | _, _ => none
  -- trailing `form`: spelling of the signalled address literal (0 canonical, 1 IPv4-mapped / expanded)
  | ["addremote", w, ty, net, addr, prio, rel, form] =>
    match who w, parseCand ty net addr prio rel, form.toNat? with
    | some isB, some c, some form => some (agentOp st isB (.addRemote s.now { c with form := form }))
    | _, _, _ => none
  -- trailing tcptype (a | p | s | -)
  | ["addremote", w, ty, net, addr, prio, rel, form, tt] =>
    match who w, parseCand ty net addr prio rel, form.toNat?, parseTT tt with
    | some isB, some c, some form, some tt => some (agentOp st isB (.addRemote s.now { c with form := form, tt := tt }))
    | _, _, _, _ => none
  | ["addlocal", w, ty, net, addr, prio, rel, tt] =>
    match who w, parseCand ty net addr prio rel, parseTT tt with
    | some isB, some c, some tt => some (agentOp st isB (.addLocal s.now { c with tt := tt }))
    | _, _, _ => none
  | ["start", w, ctl, ru, rp] =>
    (who w).map fun isB => agentOp st isB (.start s.now (ctl == "1") (tok ru) (tok rp))
  | ["creds", w, ru, rp] => (who w).map fun isB => agentOp st isB (.setRemoteCreds (tok ru) (tok rp))
  | ["adv", d] =>
    d.toNat?.map fun d =>
      let (s, oa, ob) := s.advance (s.now + ms d)
      (s, render s "-" oa ob n)
  | ["deliver", k] => k.toNat?.map fun k => let (s, oa, ob) := s.deliver k false; (s, render s "-" oa ob (n - (if k < n then 1 else 0)))
  | ["dup", k] => k.toNat?.map fun k => let (s, oa, ob) := s.deliver k true; (s, render s "-" oa ob n)
  | ["drop", k] => k.toNat?.map fun k => let s := s.drop k; (s, render s "-" [] [] (n - (if k < n then 1 else 0)))
  | ["inject", w, la, src, spec] =>
    match who w, la.toNat?, src.toNat?, parseMsg spec with
    | some isB, some la, some src, some m => some (agentOp st isB (.inbound s.now la (tagSrc la src) m))
    | _, _, _, _ => none
  | ["data", w, la, src, len, sl] =>
    match who w, la.toNat?, src.toNat?, len.toNat? with
    | some isB, some la, some src, some len => some (agentOp st isB (.inboundData s.now la (tagSrc la src) len (sl == "1")))
    | _, _, _, _ => none
  -- `flood X la src len count`: `count` payload datagrams in a row (at most 4000), one digest at the end
  | ["flood", w, la, src, len, count] =>
    match who w, la.toNat?, src.toNat?, len.toNat?, count.toNat? with
    | some isB, some la, some src, some len, some count =>
      let ev : Ev := .inboundData s.now la (tagSrc la src) len false
      let s' := (List.range (min count 4000)).foldl (fun (acc : Sys) _ => (acc.agentEv isB ev).1) s
      some (s', render s' "-" [] [] n)
    | _, _, _, _, _ => none
  | ["write", w, len, sl] =>
    match who w, len.toNat? with
    | some isB, some len => some (agentOp st isB (.write s.now len (sl == "1")))
    | _, _ => none
  | ["writepair", w, id, len, sl] =>
    match who w, id.toNat?, len.toNat? with
    | some isB, some id, some len => some (agentOp st isB (.writeToPair s.now id len (sl == "1")))
    | _, _, _ => none
  -- `read X [cap]`: caller buffer of `cap` bytes; absent = receiveMTU (8192)
  | ["read", w] => (who w).map fun isB => agentOp st isB (.read 8192)
  | ["read", w, cap] =>
    match who w, cap.toNat? with
    | some isB, some cap => some (agentOp st isB (.read cap))
    | _, _ => none
  | ["renom", w, la, ri, v] =>
    match who w, la.toNat?, ri.toNat?, v.toNat? with
    | some isB, some la, some ri, some v =>
      -- the harness indexes the remote candidates set by set (udp4, udp6, tcp4, tcp6); the model lists them in
      -- order of arrival
      let rems := (s.agent isB).remotes
      let ri' := match (byNet rems)[ri]? with
        | some c => rems.findIdx (·.uid == c.uid)
        | none => rems.length
      some (agentOp st isB (.renominate s.now la ri' v))
    | _, _, _, _ => none
  | ["restart", w, u, p] => (who w).map fun isB => agentOp st isB (.restart s.now (tok u) (tok p))
  | ["close", w] => (who w).map fun isB => agentOp st isB .close
  | ["nat", src, m] =>
    match src.toNat?, m.toNat? with
    | some src, some m => let s := { s with nat := s.nat ++ [(src, m)] }; some (s, render s "ok" [] [] n)
    | _, _ => none
  | ["block", src, dst] =>
    match src.toNat?, dst.toNat? with
    | some src, some dst => let s := { s with blocked := s.blocked ++ [(src, dst)] }; some (s, render s "ok" [] [] n)
    | _, _ => none
  | ["mark", _] => some (s, render s "-" [] [] n)
  | ["end"] => some ({}, "ended")
  | _ => none

def step (st : State) (toks : List String) (impl : String) : State × Res :=
  match stepSys st toks with
  | none => (st, bad "agent: unparsable op")
  | some (sys, out) =>
    let (mon, viol) := IceSpec.AgentMon.observe st.mon toks impl
    ({ sys := sys, mon := mon }, { model := out, more := viol })

end Driver.AgentDrv
