import IceModel.Notifier
import IceSpec.C11
import IceSpec.C11View
import Driver.Util
/-!
Tie A for the notifier: one op line per recorded history of ONE stream of the real `handlerNotifier`

  `notifier hist <stream> <scenario> <tok> <tok> …`      (implementation output: `recorded`)

tokens, in stamp order: `E<k>:<e>` Enqueue call k with event e starts, `R<k>` it returns, `I<e>` handler
entered with e, `O<e>` handler returns, `C<j>:g|n` Close(graceful|not) call j starts, `D<j>` it returns,
`Q` the recorder saw (under the notifier's mutex) an empty queue and `running == false` with no enqueue
in flight.

(a) the spec monitor `IceSpec.C11.monitorStream` is evaluated on the history;
(b) the history must be a behaviour of `IceModel.Notifier`: a set of model configurations is carried
    along the history; unobserved model steps (the critical sections of pending enqueues / closers,
    `drainLock`, `drainDone`, `closeWait`) are interleaved in every possible way (closure), observed
    events must be enabled.  Model output `recorded`, or `rejected:<position>:<token>:<why>`.  The closure is bounded
    (`closureFuel` expansions); when it gives up and the configuration set later empties the line is INCONCLUSIVE
    (`recorded` + `Res.inconclusive`), never rejected.
-/
namespace Driver.Notifier
open IceModel.Notifier IceSpec.C11 Driver
open IceSpec.C11.View (parseTok)

structure Pend where
  k : Nat
  e : Nat
  done : Bool
  deriving BEq, DecidableEq, Repr

structure Cfg where
  st : State
  pend : List Pend := []
  /-- Close call id ↦ index in `st.closers` -/
  cl : List (Nat × Nat) := []
  /-- how many of the events that the history delivers (in delivery order) have been enqueued so far -/
  nenq : Nat := 0
  deriving BEq, Repr

def Cfg.init : Cfg := { st := IceModel.Notifier.init }

def insertNew (acc : List Cfg) (c : Cfg) : List Cfg × Bool :=
  if acc.contains c then (acc, false) else (acc ++ [c], true)

/-- Canonical form of a model state inside the search: every unobserved step of a DRAINER and the
return of a waiting closer are taken as soon as they are enabled.

* `drainLock` with a non-empty queue (pop) commutes with every other step (enqueue appends at the tail,
  nothing else reads the queue), so popping at once accepts the same histories.
* `drainLock` with an empty queue (exit, `running := false`) taken at once instead of after a later
  enqueue: the later enqueue then spawns a fresh drainer which pops the event — observably the same
  (which goroutine delivers is not observed), and `Q` / `closeWait` only become enabled earlier in a run
  that is itself a run of the model.
* `drainDone` only lowers `wg`; `closeWait` stays enabled once it is (a waiting closer implies `closed`,
  so `wg` cannot grow).

Ended drainers (`gone`, no transitions) are dropped and the ghost lists (never read by `step`) are
cleared, which keeps the configuration set small. -/
def norm (st : State) : State :=
  let st := (List.range st.drainers.length).foldl (fun st i =>
    match st.drainers[i]? with
    | some DPc.atLoop => (step st (.drainLock i)).getD st
    | _ => st) st
  let st := (List.range st.drainers.length).foldl (fun st i =>
    match st.drainers[i]? with
    | some DPc.exiting => (step st (.drainDone i)).getD st
    | _ => st) st
  let st := (List.range st.closers.length).foldl (fun st j =>
    match st.closers[j]? with
    | some CPc.waiting => (step st (.closeWait j)).getD st
    | _ => st) st
  { st with drainers := st.drainers.filter (· != DPc.gone), accepted := [], delivered := [] }

/-- all configurations reachable from `c` by ONE unobserved model step -/
def internalSucc0 (order : List Nat) (c : Cfg) : List Cfg :=
  -- pruning (sound: the model delivers in queue order): on an open notifier an event that the history
  -- delivers is appended only when every event delivered before it has been appended already
  let enqs := (c.pend.filter (fun p => !p.done)).filterMap fun p =>
    let inOrder := order.contains p.e
    let next := order[c.nenq]? == some p.e
    if !c.st.closed && inOrder && !next then none else
    (step c.st (.enqueue p.e)).map fun st =>
      { c with st := st, pend := c.pend.map fun q => if q.k == p.k then { q with done := true } else q,
               nenq := if !c.st.closed && inOrder then c.nenq + 1 else c.nenq }
  let cls := (List.range c.st.closers.length).filterMap fun j =>
    match c.st.closers[j]? with
    | some (CPc.start _) => (step c.st (.closeBody j)).map fun st => { c with st := st }
    | _ => none
  enqs ++ cls

def internalSucc (order : List Nat) (c : Cfg) : List Cfg :=
  (internalSucc0 order c).map fun n => { n with st := norm n.st }

/-- closure under unobserved steps (worklist; `fuel` bounds the number of expansions).  The flag is `true` iff the work
list was emptied (the result IS the closure), `false` iff the search gave up with configurations still unexpanded. -/
def closure (order : List Nat) (fuel : Nat) (seen : List Cfg) (work : List Cfg) : List Cfg × Bool :=
  match fuel, work with
  | _, [] => (seen, true)
  | 0, _ => (seen, false)
  | fuel + 1, c :: rest =>
    let (seen, new) := (internalSucc order c).foldl
      (fun (acc : List Cfg × List Cfg) n =>
        if acc.1.contains n then acc else (acc.1 ++ [n], acc.2 ++ [n])) (seen, [])
    closure order fuel seen (rest ++ new)

def closureFuel : Nat := 4000

def close (order : List Nat) (cs : List Cfg) : List Cfg × Bool :=
  let start := cs.foldl (fun acc c => (insertNew acc c).1) []
  closure order closureFuel start start

def findDrainer (st : State) (p : DPc → Bool) : Option Nat :=
  (List.range st.drainers.length).find? fun i => match st.drainers[i]? with
    | some d => p d
    | none => false

/-- apply one OBSERVED event to one configuration -/
def observe (c : Cfg) : HEv → Option Cfg
  | .enqCall k e => some { c with pend := c.pend ++ [{ k := k, e := e, done := false }] }
  | .enqRet k =>
    if c.pend.any (fun p => p.k == k && p.done) then some { c with pend := c.pend.filter (fun p => p.k != k) }
    else none
  | .enter e => do
    let i ← findDrainer c.st (· == DPc.holding e)
    let st ← step c.st (.callHandler i)
    pure { c with st := st }
  | .exit e => do
    let i ← findDrainer c.st (· == DPc.inHandler e)
    let st ← step c.st (.handlerReturn i)
    pure { c with st := st }
  | .closeCall j g => do
    let st ← step c.st (.closeCall g)
    pure { c with st := st, cl := c.cl ++ [(j, c.st.closers.length)] }
  | .closeRet j => do
    let (_, idx) ← c.cl.find? (fun p => p.1 == j)
    match c.st.closers[idx]? with
    | some (CPc.returned _) => some c
    | _ => none
  | .quiet =>
    if c.st.queue.isEmpty && !c.st.running && c.pend.isEmpty then some c else none
  -- with every handler returned the model always drains; after a graceful close no drainer exists
  | .stuck => none
  | .leak _ => none
  | .crash => none

/-! ### Greedy pass (deterministic, linear): constructs ONE run of the model for the history.
Events the history delivers are appended as early as the delivery order allows (never on a closed
notifier); events it never delivers are appended at the last moment (their return), after a pending
`Close` has taken effect if there is one; a `Close` takes effect at the last moment.  If the pass
succeeds the history IS a behaviour of the model (the run is the witness); if it fails the exhaustive
search below decides. -/

def markDone (c : Cfg) (k : Nat) : List Pend := c.pend.map fun q => if q.k == k then { q with done := true } else q

/-- append every pending delivered event that is next in delivery order, repeatedly.  `fuel` is a termination device:
every round marks one more pending enqueue `done`, so `|pend| + 1` rounds always suffice; and the greedy pass can only
ACCEPT (its run is a witness) — when it fails, whatever the reason, the exhaustive search decides, so running out of
fuel here can never cause a rejection. -/
def greedyEnq (order : List Nat) (fuel : Nat) (c : Cfg) : Cfg :=
  match fuel with
  | 0 => c
  | fuel + 1 =>
    if c.st.closed then c else
    match c.pend.find? (fun p => !p.done && order[c.nenq]? == some p.e) with
    | none => c
    | some p =>
      match step c.st (.enqueue p.e) with
      | none => c
      | some st => greedyEnq order fuel { c with st := norm st, pend := markDone c p.k, nenq := c.nenq + 1 }

def firstStartCloser (st : State) : Option Nat :=
  (List.range st.closers.length).find? fun j => match st.closers[j]? with
    | some (CPc.start _) => true
    | _ => false

def greedyObserve (order : List Nat) (c : Cfg) (ev : HEv) : Option Cfg :=
  match ev with
  | .enqRet k =>
    match c.pend.find? (fun p => p.k == k) with
    | none => none
    | some p =>
      if p.done then observe c ev
      else if order.contains p.e then none
      else
        -- never delivered: let a pending Close take effect first, then append (dropped if closed)
        let st := match firstStartCloser c.st with
          | some j => (step c.st (.closeBody j)).getD c.st
          | none => c.st
        match step st (.enqueue p.e) with
        | none => none
        | some st => observe { c with st := norm st, pend := markDone c k } ev
  | .closeRet j =>
    match c.cl.find? (fun p => p.1 == j) with
    | none => none
    | some (_, idx) =>
      let st := match c.st.closers[idx]? with
        | some (CPc.start _) => norm ((step c.st (.closeBody idx)).getD c.st)
        | _ => c.st
      observe { c with st := st } ev
  | _ => observe c ev

def greedy (order : List Nat) (evs : List HEv) : Bool :=
  let rec go (c : Cfg) : List HEv → Bool
    | [] => true
    | ev :: rest =>
      match greedyObserve order c ev with
      | none => false
      | some c => go (greedyEnq order 10000 { c with st := norm c.st }) rest
  go Cfg.init evs

def whyEmpty : HEv → String
  | .enqRet _ => "enqueue cannot have returned (its event is delivered out of queue order, or the call cannot have taken effect)"
  | .enter _ => "no drainer holds this event (out of order, duplicate, or never accepted)"
  | .exit _ => "no drainer is inside the handler with this event"
  | .closeRet _ => "Close cannot have returned (graceful close must wait for the drainers)"
  | .quiet => "the model is not quiescent (queue non-empty or a drainer running)"
  | .stuck => "the model drains its queue once handlers return"
  | .leak _ => "no drainer exists after a graceful close returned"
  | .crash => "the model has no panics"
  | _ => "not enabled"

/-- Result of the exhaustive search: the model's output and, if the search gave up, why.  A `rejected:` output is
produced only when every closure up to that position was complete (the event is impossible in every configuration of a
FULLY explored frontier); if the configuration set empties after some closure ran out of fuel the configuration that
explains the event may not have been reached: no verdict (`recorded` + reason). -/
def acceptSearch (toks : List String) : String × Option String :=
  let order := toks.filterMap fun t => match parseTok t with
    | some (.enter e) => some e
    | _ => none
  let rec go (cs : List Cfg) (complete : Bool) (pos : Nat) : List String → String × Option String
    | [] => ("recorded", none)
    | t :: rest =>
      match parseTok t with
      | none => (s!"bad-op token {t}", none)
      | some ev =>
        let (next, ok) := close order ((cs.filterMap (observe · ev)).map fun n => { n with st := norm n.st })
        let complete := complete && ok
        if next.isEmpty then
          if complete then (s!"rejected:{pos}:{t}:{whyEmpty ev}", none)
          else ("recorded", some s!"closure over unobserved steps ran out of fuel ({closureFuel} expansions) at or before position {pos} ({t})")
        else go next complete (pos + 1) rest
  let (c0, ok0) := close order [Cfg.init]
  go c0 ok0 0 toks

def accept (toks : List String) : String × Option String :=
  match toks.mapM parseTok with
  | none => acceptSearch toks
  | some evs =>
    let order := evs.filterMap fun | .enter e => some e | _ => none
    if greedy order evs then ("recorded", none) else acceptSearch toks

/-- the string monitor of `IceSpec/C11View.lean` (`C11_view_roundtrip`, `C11_model_passes_string_monitor`) -/
def monitor (toks : List String) : Option String := IceSpec.C11.View.monitorToks toks

def line (toks : List String) (_impl : String) : Res :=
  match toks with
  | "hist" :: _stream :: _scen :: evs =>
    let (model, inc) := accept evs
    { model := model, monitor := monitor evs, prop := "C11", inconclusive := inc }
  | _ => bad "notifier: unknown op"

-- @component notifier
abbrev State := Unit
def init : State := ()
def step (s : State) (toks : List String) (impl : String) : State × Res := (s, line toks impl)

end Driver.Notifier
