import Std.Data.HashSet
import IceModel.WriteAbort
import IceSpec.C13
import Driver.Util
/-!
Driver component `writeabort` (C13, tie A of DESIGN.md §3.4).

Ops:
  `writeabort consts`            → `<blocked bit> <deadline bit> <count mask>` (bit constants of udp_mux.go)
  `writeabort hist <event>…`     → `recorded`
One history = the external events of one run of the real `UDPMuxDefault` over the scripted socket, in
recording order.  Event tokens:
  `wc:<i>:<c|b|a>` write called by writer i: c/b = writeToContext or handle.WriteTo (c = cancellable context),
                   a = the netip.AddrPort path (handle.WriteToAddrPort → udpMuxedConn.WriteToAddrPort → writeToUDPAddrPort)
  `pc:<i>` / `pc:<i>:a` same, probe at quiescence
  `wr:<i>:<ok|timeout|canceled|other>` … returned                             `pr:<i>:<res>` probe returned
  `cx:<i>` context of writer i cancelled
  `sc:<i>` socket WriteTo entered by writer i, `sa:<i>` socket WriteToAddrPort entered by writer i
  `sr:<i>:<ok|to|err>` its outcome decided (err = an error that is not the deadline's)
  `ac:<j>` abortWrite called                       `ar:<j>:<ok|fail>` returned
  `sd:<now|zero>:<ok|fail>` SetWriteDeadline seen by the socket
  `q:<writeState>:<zero|past>` quiescent observation        `stuck` calls did not return
The driver (a) runs the strict monitor `IceSpec.C13.histViolation` on the history and (b) checks that
the history is the observable projection of an execution of `IceModel.WriteAbort.step`: the internal
(unobservable) atomic steps are searched — the set of model states compatible with the prefix is
closed under internal steps after every event; the search is bounded by the history and by `closureFuel`
expansions per event.  Model output `recorded`, or `rejected:<position>:<event>` when no execution of the model has
this projection (every closure complete); a closure that runs out of fuel makes the line INCONCLUSIVE (`recorded` +
`Res.inconclusive`).
-/
namespace Driver.WriteAbort
open IceModel.WriteAbort IceSpec.C13 Driver

/-! ### parsing -/

def parseRes (s : String) : WResult :=
  if s = "ok" then .ok else if s = "timeout" then .timeout else if s = "canceled" then .canceled else .other

def parseEv (tok : String) : Option Ev :=
  match tok.splitOn ":" with
  | ["wc", i, c] => if c = "c" ∨ c = "b" ∨ c = "a" then i.toNat?.map (fun i => Ev.wcall i (c = "c") false) else none
  | ["pc", i] => i.toNat?.map (fun i => Ev.wcall i false true)
  | ["pc", i, "a"] => i.toNat?.map (fun i => Ev.wcall i false true)
  | ["wr", i, r] => i.toNat?.map (fun i => Ev.wret i (parseRes r) false)
  | ["pr", i, r] => i.toNat?.map (fun i => Ev.wret i (parseRes r) true)
  | ["cx", i] => i.toNat?.map Ev.cancel
  | ["sc", i] => i.toNat?.map (fun i => Ev.sockCall i false)
  | ["sa", i] => i.toNat?.map (fun i => Ev.sockCall i true)
  | ["sr", i, r] => i.toNat?.bind (fun i =>
      if r = "ok" then some (Ev.sockRet i .ok) else if r = "to" then some (Ev.sockRet i .timeout)
      else if r = "err" then some (Ev.sockRet i .err) else none)
  | ["ac", j] => j.toNat?.map Ev.acall
  | ["ar", j, r] => j.toNat?.bind (fun j => if r = "ok" then some (Ev.aret j true) else if r = "fail" then some (Ev.aret j false) else none)
  | ["sd", w, r] =>
    if (w = "now" ∨ w = "zero") ∧ (r = "ok" ∨ r = "fail") then some (Ev.setDl (w = "now") (r = "ok")) else none
  | ["q", w, r] => w.toNat?.bind (fun w => if r = "zero" then some (Ev.quiet w false) else if r = "past" then some (Ev.quiet w true) else none)
  | ["stuck"] => some Ev.stuck
  | _ => none

/-! ### membership in the model's observable language -/

/-- One candidate explanation of the history so far. -/
structure Node where
  st : IceModel.WriteAbort.State
  /-- explicit aborter id → index in `st.ab` -/
  amap : List (Nat × Nat)
  /-- helper aborters (goroutine of a context-aware write whose context ended) that may still appear -/
  hidden : Nat
  deriving BEq, Hashable

/-- Facts about writers that are the same in every explanation. -/
structure Ctx where
  /-- writer id → index in `st.wr` (order of the call events) -/
  wmap : List (Nat × Nat) := []
  cancelled : List Nat := []
  sockCalled : List Nat := []
  returned : List Nat := []

def lookup (m : List (Nat × Nat)) (k : Nat) : Option Nat := (m.find? (·.1 == k)).map (·.2)

def idOfIndex (m : List (Nat × Nat)) (idx : Nat) : Option Nat := (m.find? (·.2 == idx)).map (·.1)

/-- The internal (unobservable) actions that may be tried in a node. -/
def internalActions (c : Ctx) (n : Node) : List Action :=
  let ws := (List.range n.st.wr.length).flatMap (fun i =>
    let gated := match idOfIndex c.wmap i with
      | some id =>
        if c.cancelled.contains id then
          [Action.startCtxErr i] ++ (if c.sockCalled.contains id then [] else [Action.writeRet i .notCalled])
        else []
      | none => []
    [Action.start i, .finish i, .clearLoad i, .clearStore i] ++ gated)
  let as := (List.range n.st.ab.length).flatMap (fun j => [Action.abortCas j, .abortArm j, .abortClear j])
  ws ++ as

def internalSucc (c : Ctx) (n : Node) : List Node :=
  let byStep := (internalActions c n).filterMap (fun a =>
    match step n.st a with
    | some s' => if s' == n.st then none else some { n with st := s' }
    | none => none)
  let byHidden := if n.hidden > 0 then
      match step n.st .spawnA with
      | some s' => [{ n with st := s', hidden := n.hidden - 1 }]
      | none => []
    else []
  byStep ++ byHidden

/-- Close a set of nodes under internal steps (worklist; `fuel` bounds the number of expansions). -/
def closure (c : Ctx) (fuel : Nat) (work : List Node) (seen : Std.HashSet Node) : Std.HashSet Node × Bool :=
  match fuel, work with
  | _, [] => (seen, true)
  | 0, _ => (seen, false)
  | fuel + 1, n :: rest =>
    let succ := (internalSucc c n).filter (fun m => !seen.contains m)
    let seen' := succ.foldl (fun s m => s.insert m) seen
    closure c fuel (succ ++ rest) seen'

def wrLoc (n : Node) (idx : Nat) : Option WLoc := n.st.wr[idx]?
def abLoc (n : Node) (idx : Nat) : Option ALoc := n.st.ab[idx]?

/-- Successors of one node under one observable event (before closing under internal steps). -/
def observe (c : Ctx) (e : Ev) (n : Node) : List Node :=
  match e with
  | .wcall _ _ _ => match step n.st .spawnW with
    | some s' => [{ n with st := s' }]
    | none => []
  | .cancel _ => [n]
  | .sockCall i _ => match lookup c.wmap i with
    | some idx => if wrLoc n idx == some .w1 then [n] else []
    | none => []
  | .sockRet i r => match lookup c.wmap i with
    | some idx => match step n.st (.writeRet idx (match r with | .ok => WRes.ok | .timeout => WRes.timeout | .err => WRes.err)) with
      | some s' => [{ n with st := s' }]
      | none => []
    | none => []
  | .wret i _ _ => match lookup c.wmap i with
    | some idx => if wrLoc n idx == some .done then [n] else []
    | none => []
  | .acall j => match step n.st .spawnA with
    | some s' => [{ n with st := s', amap := (j, n.st.ab.length) :: n.amap }]
    | none => []
  | .aret j ok => match lookup n.amap j with
    | some idx => if abLoc n idx == some (.done (!ok)) then [n] else []
    | none => []
  | .setDl true ok =>
    (List.range n.st.ab.length).filterMap (fun j =>
      (step n.st (.abortSet j ok)).map (fun s' => { n with st := s' }))
  | .setDl false true =>
    (List.range n.st.wr.length).filterMap (fun i =>
      (step n.st (.clearSet i)).map (fun s' => { n with st := s' }))
  | .setDl false false => []
  | .quiet word armed =>
    if n.st.allDone && n.st.word == word && n.st.rpast == armed then [{ n with hidden := 0 }] else []
  | .stuck => [n]

def updCtx (c : Ctx) (e : Ev) : Ctx :=
  match e with
  | .wcall i _ _ => { c with wmap := (i, c.wmap.length) :: c.wmap }
  | .cancel i => { c with cancelled := i :: c.cancelled }
  | .sockCall i _ => { c with sockCalled := i :: c.sockCalled }
  | .wret i _ _ => { c with returned := i :: c.returned }
  | _ => c

/-- well-formedness of the event against the context (ids, pairing) -/
def evOk (c : Ctx) (e : Ev) : Bool :=
  match e with
  | .wcall i _ _ => (lookup c.wmap i).isNone
  | .sockCall i _ => (lookup c.wmap i).isSome && !c.sockCalled.contains i
  | .sockRet i _ => c.sockCalled.contains i
  | .wret i _ _ => (lookup c.wmap i).isSome && !c.returned.contains i
  | _ => true

def closureFuel : Nat := 600000

/-- `none` = accepted; `some why` = no execution of the model has this observable projection. -/
def member (evs : List Ev) : Option String :=
  let rec go (pos : Nat) (c : Ctx) (front : List Node) : List Ev → Option String
    | [] => none
    | e :: rest =>
      if !evOk c e then some s!"{pos}:malformed" else
      -- a context cancelled while its write is in progress may bring a helper aborter
      -- (the cancellation is recorded before it takes effect, so a call recorded after `cx` may still
      -- have passed its context checks: the helper is possible unless the write had already returned)
      let front := match e with
        | .cancel i =>
          if (lookup c.wmap i).isSome && !c.returned.contains i then front.map (fun (n : Node) => { n with hidden := n.hidden + 1 })
          else front
        | .wcall i true _ =>
          if c.cancelled.contains i then front.map (fun (n : Node) => { n with hidden := n.hidden + 1 }) else front
        | _ => front
      let c' := updCtx c e
      let nexts := front.flatMap (observe c' e)
      let seen0 : Std.HashSet Node := nexts.foldl (fun s m => s.insert m) {}
      let (seen, complete) := closure c' closureFuel seen0.toList seen0
      if !complete then some s!"{pos}:search-budget"
      else if seen.isEmpty then some s!"{pos}"
      else go (pos + 1) c' seen.toList rest
  let n0 : Node := { st := IceModel.WriteAbort.State.init, amap := [], hidden := 0 }
  go 0 {} [n0] evs

def histLine (toks : List String) : Res :=
  match toks.mapM parseEv with
  | none => bad "writeabort hist: unparsable event"
  | some evs =>
    -- the membership search is bounded (`closureFuel` expansions of hidden steps per event): running out of budget
    -- is INCONCLUSIVE, never a rejection — the history is then judged by the spec monitor alone and the line is
    -- counted (`Res.inconclusive` → `INCONCLUSIVE` line of the driver).  A genuine rejection (`some "<pos>"`) is only
    -- produced when EVERY closure up to that position was complete, i.e. on a fully explored frontier.
    let (out, inc) := match member evs with
      | none => ("recorded", none)
      | some why =>
        if why.endsWith "search-budget" then
          ("recorded", some s!"closure over hidden steps ran out of fuel ({closureFuel} expansions) at event {(why.splitOn ":").headD "?"}")
        else
          let pos := (why.splitOn ":").headD "" |>.toNat? |>.getD 0
          (s!"rejected:{why}:{toks.getD pos "?"}", none)
    { model := out, monitor := histViolation {} evs, prop := "C13", inconclusive := inc }

-- @component writeabort
abbrev State := Unit
def init : State := ()
def step (s : State) (toks : List String) (_impl : String) : State × Res :=
  match toks with
  | ["consts"] => (s, { model := s!"{blockedBitPos} {deadlineBitPos} {countMask}", prop := "C13" })
  | "hist" :: evs => (s, histLine evs)
  | _ => (s, bad "writeabort: unknown op")

end Driver.WriteAbort
