import IceModel.ActiveTcp
import IceSpec.C18Active
import Driver.Util
namespace Driver.ActiveTcp
open IceModel.ActiveTcp IceSpec.C18Active Driver

/-- `h:<0|1>:<0|1>` = host candidate, named, active -/
def parsePub (s : String) : Option Pub :=
  match s.splitOn ":" with
  | [t, n, a] => some { isHost := t == "h", named := n == "1", active := a == "1" }
  | _ => none

def showPub (p : Pub) : String :=
  (if p.isHost then "h" else "x") ++ ":" ++ (if p.named then "1" else "0") ++ ":" ++ (if p.active then "1" else "0")

def render (q : Bool) (m : String) (n : Nat) (ps : List Pub) : String :=
  s!"ok q={if q then 1 else 0} m={m} n={n} c=" ++ (if ps.isEmpty then "-" else ",".intercalate (ps.map showPub))

def look (fs : List String) (k : String) : String :=
  match fs.find? (fun f => f.startsWith (k ++ "=")) with
  | some f => (f.drop (k.length + 1)).toString
  | none => ""

/-- `run <types ⊆ hsr> <mdns d|q|g (asked for)> <nets: t4 | u4 | t4u4 | all> <disableActive 0|1>`; the implementation
reports the EFFECTIVE mDNS mode `m=` (the mode is downgraded when the mDNS socket cannot be opened), the number `n=` of
eligible local addresses, whether the canary found finding C18-G13 (`q=`), and the published candidates `c=` -/
def line (toks : List String) (impl : String) : Res :=
  match toks with
  | ["run", types, _mdns, nets, dis] =>
    let fs := impl.splitOn " "
    if fs.head? != some "ok" then { model := impl, prop := "C18" } else
    let m := look fs "m"
    let n := (look fs "n").toNat?.getD 0
    let q := look fs "q" == "1"
    let cfg : Cfg := { host := types.contains 'h', netEnabled := nets == "all" || (nets.splitOn "t4").length > 1,
                       disableActive := dis == "1", mdnsGather := m == "g", g13 := q }
    let ps := publish cfg n
    let mon := match look fs "c" with
      | "-" => none
      | cs => match (cs.splitOn ",").mapM parsePub with
        | some l => violation cfg l
        | none => some "unparsable implementation output"
    { model := render q m n ps, monitor := mon, prop := "C18" }
  | _ => bad "activetcp: unknown op"

-- @component activetcp
abbrev State := Unit
def init : State := ()
def step (s : State) (toks : List String) (impl : String) : State × Res := (s, line toks impl)

end Driver.ActiveTcp
