import Driver.Util
namespace Driver.AtcClose
open Driver

/-- C08 on an active ICE-TCP connection: whatever the state of the TCP connection, `Close` releases a parked `ReadFrom`
(the candidate's receive loop, for which `Agent.Close` and `Restart` wait) and reports no error.  The model is the
property itself: the outcome does not depend on the scenario. -/
def outcome (_scenario : String) : String := "released closeerr=0"

def line (toks : List String) (impl : String) : Res :=
  match toks with
  | ["run", sc] =>
    if impl == "skip" then { model := "skip", prop := "C08" } else
    { model := outcome sc,
      monitor := if impl.startsWith "released" then none
                 else some ("a ReadFrom parked on an active ICE-TCP connection is not released by Close (scenario " ++ sc ++ "): Agent.Close would wait for the candidate's receive loop forever"),
      prop := "C08" }
  | _ => bad "atcclose: unknown op"

-- @component atcclose
abbrev State := Unit
def init : State := ()
def step (s : State) (toks : List String) (impl : String) : State × Res := (s, line toks impl)

end Driver.AtcClose
