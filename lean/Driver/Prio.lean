import IceModel.Prio
import IceModel.Crc32
import IceSpec.C17
import Driver.Util
namespace Driver.Prio
open IceModel.Prio IceSpec.C17 Driver

def candLine (args : List String) (impl : String) : Res :=
  match args with
  | [ty, tcp, _v6, tt, rp, ha, off, comp] =>
    match ty.toNat?, parseBool? tcp, tt.toNat?, parseBool? ha, off.toNat?, comp.toNat? with
    | some ty, some tcp, some tt, some ha, some off, some comp =>
      let proto := (rp.drop 3).toString
      let cty := CandType.ofCode ty
      let ctt := TcpType.ofCode tt
      let effOff := if ha then off else defaultTCPPriorityOffset
      let tp := typePreference cty tcp effOff
      let lp := localPreference cty tcp ctt (relayPref proto)
      let pr := priority tp lp comp
      let mon :=
        match natsOf impl with
        | some [itp, ilp, ipr] =>
          candViolation { ty := cty, isTCP := tcp, tt := ctt, relayProto := proto, offset := effOff, component := comp }
            { tp := itp, lp := ilp, prio := ipr }
        | _ => some "unparsable implementation output"
      { model := joinNats [tp, lp, pr], monitor := mon, prop := "C17" }
    | _, _, _, _, _, _ => bad "prio cand: args"
  | _ => bad "prio cand: arity"

def pairLine (args : List String) (impl : String) : Res :=
  match args with
  | [l, r, c] =>
    match l.toNat?, r.toNat?, parseBool? c with
    | some l, some r, some c =>
      if l == 0 || r == 0 then { model := "skip" } else
      let v := pairPriority c l r
      let (g, d) := if c then (l, r) else (r, l)
      let mon := match impl.toNat? with
        | some iv => pairViolation g d iv
        | none => some "unparsable implementation output"
      { model := toString v, monitor := mon, prop := "C17" }
    | _, _, _ => bad "prio pair: args"
  | _ => bad "prio pair: arity"

/-- `found <type> <tcp> <address>`: the implementation prints "<network type code> <foundation>"; the
network type depends on the address family (decided by Go's netip parser), so it is taken from the
implementation's output and only the foundation is recomputed. -/
def foundLine (args : List String) (impl : String) : Res :=
  match args with
  | [ty, _tcp, addr] =>
    match ty.toNat?, impl.splitOn " " with
    | some ty, [net, _] =>
      match net.toNat? with
      | some net => { model := s!"{net} {IceModel.Crc32.foundation ty addr net}" }
      | none => { model := "error" }
    | _, _ => { model := "error" }
  | _ => bad "prio found: arity"

def line (toks : List String) (impl : String) : Res :=
  match toks with
  | "cand" :: rest => candLine rest impl
  | "found" :: rest => foundLine rest impl
  | "pair" :: rest => pairLine rest impl
  | _ => bad "prio: unknown op"

-- @component prio
abbrev State := Unit
def init : State := ()
def step (s : State) (toks : List String) (impl : String) : State × Res := (s, line toks impl)

end Driver.Prio
