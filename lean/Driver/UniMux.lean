import IceModel.UniMux
import IceSpec.C12Uni
import Driver.UdpMux
/-!
Line-protocol driver of the `udpmuxuni` component (C12 on `UniversalUDPMuxDefault`).

A session is one universal mux on an unspecified socket.  The operations of the embedded mux are those of
the `udpmux` component and are handed to its driver (`Driver.UdpMux.stepCore`, single-mux mode): the
embedded mux's model state and the base monitor's history live there (`b.muxes[0]`, `b.specs[0]`).  The
universal layer's own operations run `IceModel.UniMux.step` on that state plus the layer's table, and the
monitor `IceSpec.C12Uni.step` on the IMPLEMENTATION's output.

`new <ap> <ttl> s` selects the STRICT reading of the monitor for the session (default: the letter of C12).

Every output is `<main>` followed by ` u=<server key>:<v>` if a table entry's mapped address was written
and ` x<k>=<result>` for the `GetXORMappedAddr` calls that returned during the operation.
-/
namespace Driver.UniMux
open IceModel.UdpMux IceModel.UniMux Driver
open IceSpec.C12Uni (UState Verdict)
open Driver.UdpMux (parseAddr showAddr parseKind nameOf parseConn mon showOut)

structure State where
  active : Bool := false
  b : Driver.UdpMux.State := {}
  /-- the layer's part of the model state (`x.base` is a placeholder, see `withBase`) -/
  x : UMux := IceModel.UniMux.init 0
  /-- the layer's part of the monitor state (`m.base` is a placeholder) -/
  m : UState := UState.init

def init : State := {}

def baseMux (st : State) : Mux := (st.b.muxes[0]?).getD IceModel.UdpMux.init
def baseSpec (st : State) : IceSpec.C12.SState := (st.b.specs[0]?).getD IceSpec.C12.SState.init

def putMux (st : State) (u : UMux) : State :=
  { st with x := { u with base := IceModel.UdpMux.init }, b := { st.b with muxes := st.b.muxes.set 0 u.base } }
def putSpec (st : State) (s : UState) : State :=
  { st with m := { s with base := IceSpec.C12.SState.init }, b := { st.b with specs := st.b.specs.set 0 s.base } }

def showRes : WRes → String
  | .ok v => s!"ok:{v}"
  | .timeout => "timeout"
  | .noMap => "nomap"
  | .writeErr => "werr"

def showFx (fx : Fx) : String :=
  (match fx.learned with
   | some (a, v) => s!" u={showAddr a}:{v}"
   | none => "") ++ String.join (fx.woke.map (fun (w, r) => s!" x{w}={showRes r}"))

def parseRes (s : String) : Option WRes :=
  if s = "timeout" then some .timeout else if s = "nomap" then some .noMap else if s = "werr" then some .writeErr
  else if s.startsWith "ok:" then ((s.drop 3).toString.toNat?).map .ok else none

/-- split an implementation output into its main part and the effects; `none` = unparsable effects -/
def splitImpl (impl : String) : String × Option Fx :=
  let toks := impl.splitOn " "
  let isFx (t : String) : Bool := t.startsWith "u=" || (t.startsWith "x" && t.contains '=')
  let main := " ".intercalate (toks.filter (fun t => !isFx t))
  let fx : Option Fx := (toks.filter isFx).foldl (fun acc t =>
    match acc with
    | none => none
    | some fx =>
      if t.startsWith "u=" then
        match ((t.drop 2).toString).splitOn ":" with
        | [a, v] =>
          match parseAddr a, v.toNat?, fx.learned with
          | some a, some v, none => some { fx with learned := some (a, v) }
          | _, _, _ => none
        | _ => none
      else
        match ((t.drop 1).toString).splitOn "=" with
        | [w, r] =>
          match w.toNat?, parseRes r with
          | some w, some r => some { fx with woke := fx.woke ++ [(w, r)] }
          | _, _ => none
        | _ => none) (some {})
  (main, fx)

/-- `<kind>` of an `in` operation: the embedded mux's view and the layer's view -/
def parseXKind (tok : String) : Option (Kind × XView) :=
  let sel (s : String) : Option TidSel := if s = "o" then some .own else if s = "w" then some .foreign else none
  match tok.splitOn ":" with
  | ["xs", s, v] => do let t ← sel s; let v ← v.toNat?; pure (.stunNoUser, { cls := .success, tid := t, xa := .value v })
  | ["xn", s] => do let t ← sel s; pure (.stunNoUser, { cls := .success, tid := t, xa := .absent })
  | ["xb", s] => do let t ← sel s; pure (.stunNoUser, { cls := .success, tid := t, xa := .malformed })
  | ["xe", s, v] => do let t ← sel s; let v ← v.toNat?; pure (.stunNoUser, { cls := .error, tid := t, xa := .value v })
  | ["xi", v] => do let v ← v.toNat?; pure (.stunNoUser, { cls := .indication, tid := .foreign, xa := .value v })
  | ["xr", v] => do let v ← v.toNat?; pure (.stunNoUser, { cls := .request, tid := .foreign, xa := .value v })
  | "xq" :: v :: user =>
    if user.isEmpty then none else do
      let v ← v.toNat?
      pure (.stunUser (nameOf (":".intercalate user)), { cls := .request, tid := .foreign, xa := .value v })
  | _ => (parseKind tok).map (fun k => (k, XView.plain))

def vmon (v : Verdict) (model : String) : Res := { model := model, monitor := v.toOption, prop := "C12" }

/-- the monitor's clauses about returned calls for an operation handed to the `udpmux` driver -/
def fxOnly (st : State) (fx : Fx) : State × Verdict :=
  let (s1, v1) := IceSpec.C12Uni.wokeV { st.m with base := baseSpec st } fx.woke
  (putSpec st s1, (IceSpec.C12Uni.noLearnV fx).orElse (v1.orElse (IceSpec.C12Uni.overdueV s1)))

def unparsable : Verdict := .uni "uni_answer: unparsable effects in the output"

def stepCore (st : State) (toks : List String) (impl : String) : State × Res :=
  match toks with
  | "new" :: ap :: ttl :: mode =>
    match ttl.toNat? with
    | none => (st, bad "udpmuxuni new: ttl")
    | some ttl =>
      if mode ≠ [] ∧ mode ≠ ["s"] then (st, bad "udpmuxuni new: mode") else
      let (b, _) := Driver.UdpMux.stepCore {} ["new", "u", ap] "ok"
      -- `s`: the strict reading of the monitor; default: the letter of C12 (base clauses on every datagram) plus
      -- the clauses about the layer doing its job
      ({ active := true, b := b, x := IceModel.UniMux.init ttl, m := { UState.init with strict := mode = ["s"] } },
       mon none "ok")
  | ["end"] => ({}, mon none "end ok")
  | _ =>
  if !st.active then (st, bad "udpmuxuni: no session") else
  let (main, ifx) := splitImpl impl
  match toks with
  | ["xoraddr", a, d] =>
    match parseAddr a, d.toNat? with
    | some srv, some d =>
      let (u1, o) := IceModel.UniMux.step { st.x with base := baseMux st } (.xorStart srv d)
      let st1 := putMux st u1
      let modelOut := (match o.main with
        | .started w true => s!"x{w} req:{showAddr srv}"
        | .started w false => s!"x{w} noreq"
        | _ => "bad") ++ showFx o.fx
      let io : Option UOut :=
        match main.splitOn " ", ifx with
        | [w, r], some fx =>
          if w.startsWith "x" then
            match (w.drop 1).toString.toNat? with
            | some w => some { main := .started w (r.startsWith "req:"), fx := fx }
            | none => none
          else none
        | _, _ => none
      match io with
      | some io =>
        let (s1, v) := IceSpec.C12Uni.step { st1.m with base := baseSpec st1 } (.xorStart srv d) io
        (putSpec st1 s1, vmon v modelOut)
      | none => (st1, vmon unparsable modelOut)
    | _, _ => (st, bad "udpmuxuni xoraddr: args")
  | ["tick", d] =>
    match d.toNat? with
    | some d =>
      let (u1, o) := IceModel.UniMux.step { st.x with base := baseMux st } (.tick d)
      let st1 := putMux st u1
      let modelOut := "ok" ++ showFx o.fx
      match ifx with
      | some fx =>
        let (s1, v) := IceSpec.C12Uni.step { st1.m with base := baseSpec st1 } (.tick d) { main := .ticked, fx := fx }
        (putSpec st1 s1, vmon (if main = "ok" then v else unparsable) modelOut)
      | none => (st1, vmon unparsable modelOut)
    | none => (st, bad "udpmuxuni tick: args")
  | ["in", "0", a, kTok, pTok] =>
    match parseAddr a, parseXKind kTok, pTok.toNat? with
    | some src, some (k, x), some pid =>
      let (u1, o) := IceModel.UniMux.step { st.x with base := baseMux st } (.inbound src k x pid)
      let st1 := putMux st u1
      let modelOut := (match o.main with
        | .base bo => showOut 0 0 bo
        | _ => "bad") ++ showFx o.fx
      let bo : Option Out :=
        if main = "none" then some .dropped
        else match parseConn main with
          | some (0, c) => some (.delivered c)
          | _ => none
      match bo, ifx with
      | some bo, some fx =>
        let (s1, v) := IceSpec.C12Uni.step { st1.m with base := baseSpec st1 } (.inbound src k x pid) { main := .base bo, fx := fx }
        (putSpec st1 s1, vmon v modelOut)
      | none, _ => (st1, vmon (.base ("dispatch: datagram handed to more than one connection or queue corrupted: " ++ main)) modelOut)
      | _, none => (st1, vmon unparsable modelOut)
    | _, _, _ => (st, bad "udpmuxuni in: args")
  | ["relayed"] => (st, mon none "err:notimpl")
  | ["xstate"] =>
    let ents := st.x.started.filterMap (fun a =>
      match st.x.xmap a with
      | some e =>
        some (s!"{showAddr a}=" ++ (match e.addr with | some v => toString v | none => "p") ++
              (if e.signalled then "s" else "w") ++ s!"@{e.expiresAt}")
      | none => none)
    let sorted := ents.mergeSort (fun a b => decide (a ≤ b))
    (st, mon none (s!"t={st.x.now} [" ++ ";".intercalate sorted ++ "]"))
  | ["closein", _, _, _, _, _] => (st, mon none "bad-op")
  | _ =>
    -- an operation of the embedded mux
    let toks' : List String :=
      match toks with
      | ["getconnforurl", u, url, a] => ["getconn", u ++ url, a]
      | _ => toks
    let (b1, r) := Driver.UdpMux.stepCore st.b toks' main
    let st1 : State := { st with b := b1 }
    match ifx with
    | some fx =>
      let (st2, v) := fxOnly st1 fx
      (st2, { r with monitor := match r.monitor with | some w => some w | none => v.toOption })
    | none => (st1, { r with monitor := match r.monitor with | some w => some w | none => unparsable.toOption })

-- @component udpmuxuni
def step (st : State) (toks : List String) (impl : String) : State × Res :=
  let (st1, r) := stepCore st toks impl
  ({ st1 with b := Driver.UdpMux.quiesce st1.b }, r)

end Driver.UniMux
