import IceModel.Rewrite
import IceSpec.C19
import Driver.Util
/-!
Driver component `rewrite` (C19).  Ops (tokens after the component name):

  new rules|opt <rule;rule;…|->                   -> ok <nHost>,<nSrflx>,<nRelay> <replace bits> | nil | err:invalid | err:unsupported
  new legacy <candtype> <entry,entry,…|->         -> same (validateLegacyNAT1To1IPs, legacyNAT1To1Rules, newAddressRewriteMapper)
  lookup <candtype> <ip> <iface|->                -> <mode> <matched> <ip,ip,…|-> | err:invalid | nomapper
  apply <host|hostmux|srflx|relay> <ip> <iface|-> <orig ip>   -> <ok> <ip,ip,…|->

rule  = <type>|<mode>|<iface or ->|<cidr or ->|<local or ->|<nets or ->|<externals or ->
ip    = 4:<n> | 6:<n> | bad<k> (unparsable text) | ws (blank text: an absent Local, an unparsable anything else)
cidr  = 4:<n>/<bits> | 6:<n>/<bits> | bad<k> | ws
entry = part[/part…], part = ip | e (empty)
-/
namespace Driver.Rewrite
open IceModel.Rewrite IceSpec.C19 Driver

def parseIP? (s : String) : Option IP :=
  match s.splitOn ":" with
  | ["4", n] => match n.toNat? with
    | some v => if v < 4294967296 then some { v4 := true, val := v } else none
    | none => none
  | ["6", n] => match n.toNat? with
    | some v => if v < 340282366920938463463374607431768211456 then some (IP.canon { v4 := false, val := v }) else none
    | none => none
  | _ => none

def isBadTok (s : String) : Bool := s.startsWith "bad" || s == "ws"

def parseIPTok? (s : String) : Option IPTok :=
  if s == "ws" then some .blank else if isBadTok s then some .bad else (parseIP? s).map .ok

def parseLoc? (s : String) : Option LocTok :=
  if s == "-" || s == "ws" then some .none
  else if isBadTok s then some .bad
  else (parseIP? s).map .ok

def parseCidr? (s : String) : Option CidrTok :=
  if s == "-" then some .none
  else if isBadTok s then some .bad
  else match s.splitOn "/" with
    | [a, b] =>
      match parseIP? a, b.toNat? with
      | some ip, some bits => some (.ok { v4 := ip.v4, base := ip.val, bits := bits })
      | _, _ => none
    | _ => none

def parseList? {α : Type} (f : String → Option α) (s : String) (sep : String) : Option (List α) :=
  if s == "-" then some [] else (s.splitOn sep).mapM f

def parseRule? (s : String) : Option Rule :=
  match s.splitOn "|" with
  | [ty, mo, ifc, ci, lo, ne, ex] =>
    match ty.toNat?, mo.toNat?, parseCidr? ci, parseLoc? lo, parseList? String.toNat? ne ",", parseList? parseIPTok? ex "," with
    | some ty, some mo, some ci, some lo, some ne, some ex =>
      some { ctype := ty, mode := mo, iface := if ifc == "-" then "" else ifc, cidr := ci, loc := lo, nets := ne, ext := ex }
    | _, _, _, _, _, _ => none
  | _ => none

def parsePart? (s : String) : Option Part :=
  if s == "e" || s == "ws" then some .empty   -- the entry is trimmed as a whole, its second part again
  else if isBadTok s then some .bad
  else (parseIP? s).map .ip

def parseEntry? (s : String) : Option Entry := (s.splitOn "/").mapM parsePart?

def showIPs (l : List IP) : String := if l.isEmpty then "-" else ",".intercalate (l.map showIP)

def parseIPs? (s : String) : Option (List IP) := parseList? parseIP? s ","

def showErr : Err → String
  | .invalid => "err:invalid"
  | .unsupported => "err:unsupported"

def bit (b : Bool) : String := if b then "1" else "0"

def showNew : Except Err (Option Mapper) → String
  | .error e => showErr e
  | .ok none => "nil"
  | .ok (some m) =>
    let n (ct : Nat) := toString (rulesFor m ct).length
    "ok " ++ n 1 ++ "," ++ n 2 ++ "," ++ n 4 ++ " " ++ bit (shouldReplace m 1) ++ bit (shouldReplace m 2) ++ bit (shouldReplace m 4)

def implErr? (impl : String) : Option (Option Err) :=
  if impl == "err:invalid" then some (some .invalid)
  else if impl == "err:unsupported" then some (some .unsupported)
  else if impl == "nil" || impl.startsWith "ok " then some none
  else none

structure State where
  rules : List Rule := []
  mapper : Except Err (Option Mapper) := .ok none

def init : State := {}

/-- `given` = the rules as the user wrote them (validation monitor); `eff` = the rules in effect
for later lookups (after `sanitizeAddressRewriteRule` on the option path). -/
def newRes (path : Path) (given eff : List Rule) (mapper : Except Err (Option Mapper)) (impl : String) : State × Res :=
  let mon := match implErr? impl with
    | some e => newViolation path given e
    | none => some "unparsable implementation output"
  let eff := match mapper with
    | .error _ => []     -- construction failed: no rule is in effect
    | .ok _ => eff
  ({ rules := eff, mapper := mapper }, { model := showNew mapper, monitor := mon, prop := "C19" })

def parseRes? (impl : String) : Option IceModel.Rewrite.Res :=
  match impl.splitOn " " with
  | [m, ma, ips] =>
    match m.toNat?, parseBool? ma, parseIPs? ips with
    | some m, some ma, some ips => some { ips := ips, matched := ma, mode := m }
    | _, _, _ => none
  | _ => none

def showRes' (r : IceModel.Rewrite.Res) : String := toString r.mode ++ " " ++ toString r.matched ++ " " ++ showIPs r.ips

def parseKind? (s : String) : Option Kind :=
  if s == "host" then some .host else if s == "hostmux" then some .hostMux
  else if s == "srflx" then some .srflx else if s == "relay" then some .relay else none

def kindType : Kind → Nat
  | .host | .hostMux => 1
  | .srflx => 2
  | .relay => 4

def parseApply? (impl : String) : Option (List IP × Bool) :=
  match impl.splitOn " " with
  | [ok, ips] =>
    match parseBool? ok, parseIPs? ips with
    | some ok, some ips => some (ips, ok)
    | _, _ => none
  | _ => none

def showApply (p : List IP × Bool) : String :=
  let q := canonApply p
  toString q.2 ++ " " ++ showIPs q.1

def step (s : State) (toks : List String) (impl : String) : State × Res :=
  match toks with
  | ["new", "rules", enc] =>
    match parseList? parseRule? enc ";" with
    | some rules => newRes .direct rules rules (newMapper rules) impl
    | none => (s, bad "rewrite new: rules")
  | ["new", "opt", enc] =>
    match parseList? parseRule? enc ";" with
    | some rules =>
      -- WithAddressRewriteRules: sanitize every rule, then (NewAgent) newAddressRewriteMapper
      let clean := match sanitizeAll rules with
        | .error _ => []
        | .ok clean => clean
      newRes .option rules clean (optionPath rules) impl
    | none => (s, bad "rewrite new: opt")
  | ["new", "legacy", ty, enc] =>
    match ty.toNat?, parseList? parseEntry? enc "," with
    | some ty, some es =>
      -- NewAgent: validateLegacyNAT1To1IPs, then legacyNAT1To1Rules, then newAddressRewriteMapper
      let ct := if ty = 0 then 1 else ty
      match validateLegacy es with
      | .error e => newRes (.legacy es) [] [] (.error e) impl
      | .ok _ =>
        match legacyRules ct es with
        | .error e => newRes (.legacy es) [] [] (.error e) impl
        | .ok rules => newRes (.legacy es) rules rules (newMapper rules) impl
    | _, _ => (s, bad "rewrite new: legacy")
  | ["lookup", ct, ip, ifc] =>
    match ct.toNat?, parseIPTok? ip with
    | some ct, some key =>
      let iface := if ifc == "-" then "" else ifc
      match s.mapper with
      | .error _ => (s, { model := "nomapper" })
      | .ok none =>
        let mon := match key with
          | .ok kip => if impl == "nomapper" then lookupViolation s.rules { ct := ct, ip := kip, iface := iface } Res.noMatch else none
          | _ => none
        (s, { model := "nomapper", monitor := mon, prop := "C19" })
      | .ok (some m) =>
        match findExternalIPs m ct key iface with
        | .error e => (s, { model := showErr e })
        | .ok r =>
          let mon := match key, parseRes? impl with
            | .ok kip, some ir => lookupViolation s.rules { ct := ct, ip := kip, iface := iface } ir
            | _, _ => some "unparsable implementation output"
          (s, { model := showRes' r, monitor := mon, prop := "C19" })
    | _, _ => (s, bad "rewrite lookup: args")
  | ["apply", kind, ip, ifc, orig] =>
    match parseKind? kind, parseIPTok? ip, parseIP? orig with
    | some kind, some key, some orig =>
      -- applyHostRewriteForUDPMux has no interface name to offer: it always looks up with ""
      let iface := if ifc == "-" || kind == .hostMux then "" else ifc
      let out := match s.mapper with
        | .ok (some m) => applyRes kind orig (findExternalIPs m (kindType kind) key iface)
        | _ => ([orig], true)
      let mon := match key, parseApply? impl with
        | .ok kip, some ia => applyViolation kind s.rules { ct := kindType kind, ip := kip, iface := iface } orig ia
        | _, some _ => none
        | _, none => some "unparsable implementation output"
      (s, { model := showApply out, monitor := mon, prop := "C19" })
    | _, _, _ => (s, bad "rewrite apply: args")
  | _ => (s, bad "rewrite: unknown op")

-- @component rewrite

end Driver.Rewrite
