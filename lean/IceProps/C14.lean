import IceProofs.Framing
import IceTie.Framing
/-!
# C14 — ICE-TCP framing preserves packet boundaries

Property theorems only (lemmas: `IceProofs/Framing.lean`; model: `IceModel/Framing.lean`; spec
monitors: `IceSpec/C14.lean`).  Every statement quantifies over ALL packet lists, ALL byte
streams and ALL segmentations `segs` (any list of segments — empty segments, i.e. `Read`s that
return `(0, nil)`, included — whose concatenation `segs.flatten` is the stream), ALL buffer
capacities and ALL terminal errors of the connection.  No bound on lengths or counts.

`readAll cap e segs` = (results of calling `readStreamingPacket` until it fails, ghost log of the
`Read` calls); `wire pkts` = the bytes `writeStreamingPacket` puts on a healthy connection.
-/
namespace IceProps.C14
open IceModel.Framing IceSpec.C14 IceProofs.Framing

/-- The reader is the RFC 4571 parser of the flattened stream: whatever the segmentation, the
results of the reading loop are exactly the frames the flat stream holds. -/
theorem C14_reader_is_parser (cap : Nat) (e : IoErr) (segs : Segs) :
    (readAll cap e segs).1 = parse cap e segs.flatten :=
  readAll_eq_parse cap e segs

example : (readAll 8 .eof [[0], [2, 7], [9, 0, 1], [5, 0]]).1 = [.pkt [7, 9], .pkt [5], .err .eof] := by decide

/-- Chunking is irrelevant: two segmentations of the same byte stream give the same results. -/
theorem C14_chunking_irrelevant (cap : Nat) (e : IoErr) (segs₁ segs₂ : Segs)
    (h : segs₁.flatten = segs₂.flatten) : (readAll cap e segs₁).1 = (readAll cap e segs₂).1 := by
  rw [C14_reader_is_parser, C14_reader_is_parser, h]

example : (readAll 8 .eof [[0, 2, 7, 9, 0, 1, 5]]).1 = (readAll 8 .eof [[0], [2], [], [7], [9, 0], [1, 5]]).1 := by
  decide

/-- Round trip: packets that fit the 16-bit field and the reader's buffer, written one after the
other and delivered in ANY segmentation, are read back as the same packets in the same order,
followed by the connection's terminal error. -/
theorem C14_roundtrip (cap : Nat) (e : IoErr) (pkts : List (List UInt8)) (segs : Segs)
    (h16 : ∀ p ∈ pkts, p.length ≤ 65535) (hcap : ∀ p ∈ pkts, p.length ≤ cap)
    (hs : segs.flatten = wire pkts) :
    (readAll cap e segs).1 = pkts.map .pkt ++ [.err e] := by
  rw [C14_reader_is_parser, hs]
  have := parse_wire_append cap e pkts [] h16 hcap
  rw [List.append_nil, parse_nil] at this
  exact this

example : (∀ p ∈ [[1, 2, 3], [], [9]], List.length (α := UInt8) p ≤ 65535) := by decide
example : [[0, 3, 1], [2, 3, 0, 0, 0], [1, 9]].flatten = wire [[1, 2, 3], [], [9]] := by decide
example : (readAll 3 .closed [[0, 3, 1], [2, 3, 0, 0, 0], [1, 9]]).1 = [.pkt [1, 2, 3], .pkt [], .pkt [9], .err .closed] := by
  decide

/-- The property's headline: packets up to the receive MTU, read with the users' 8192-byte buffer. -/
theorem C14_roundtrip_mtu (e : IoErr) (pkts : List (List UInt8)) (segs : Segs)
    (hmtu : ∀ p ∈ pkts, p.length ≤ 8192) (hs : segs.flatten = wire pkts) :
    (readAll 8192 e segs).1 = pkts.map .pkt ++ [.err e] :=
  C14_roundtrip 8192 e pkts segs (fun p hp => by have := hmtu p hp; omega) hmtu hs

example : (readAll 8192 .eof [[0, 2, 5], [6, 0], [0]]).1 = [.pkt [5, 6], .pkt [], .err .eof] := by decide

/-- Short buffer: after any packets that fit, a frame whose header announces more than `cap(buf)`
yields `(declared length, ErrShortBuffer)` — and nothing after it, whatever follows on the stream. -/
theorem C14_short_buffer (cap : Nat) (e : IoErr) (pkts : List (List UInt8)) (hi lo : UInt8)
    (tail : List UInt8) (segs : Segs)
    (h16 : ∀ p ∈ pkts, p.length ≤ 65535) (hcap : ∀ p ∈ pkts, p.length ≤ cap)
    (hbig : cap < hi.toNat * 256 + lo.toNat)
    (hs : segs.flatten = wire pkts ++ hi :: lo :: tail) :
    (readAll cap e segs).1 = pkts.map .pkt ++ [.shortBuffer (hi.toNat * 256 + lo.toNat)] := by
  rw [C14_reader_is_parser, hs, parse_wire_append cap e pkts _ h16 hcap, parse_cons_cons, if_pos hbig]

/-- … in particular for a well-formed frame of a packet larger than the buffer. -/
theorem C14_short_buffer_packet (cap : Nat) (e : IoErr) (pkts : List (List UInt8)) (big tail : List UInt8)
    (segs : Segs) (h16 : ∀ p ∈ pkts, p.length ≤ 65535) (hcap : ∀ p ∈ pkts, p.length ≤ cap)
    (hb16 : big.length ≤ 65535) (hbig : cap < big.length)
    (hs : segs.flatten = wire pkts ++ encode big ++ tail) :
    (readAll cap e segs).1 = pkts.map .pkt ++ [.shortBuffer big.length] := by
  obtain ⟨hi, lo, hh, hn⟩ := header_toNat big.length hb16
  have := C14_short_buffer cap e pkts hi lo (big ++ tail) segs h16 hcap (by omega)
    (by rw [hs, encode, hh]; simp)
  rw [hn] at this
  exact this

example : (readAll 2 .eof [[0, 1, 7, 0], [3, 1, 2, 3, 0, 0]]).1 = [.pkt [7], .shortBuffer 3] := by decide

/-- Truncation: a stream that ends inside a frame (after `k` bytes of it: inside the header, or
inside the body, or — `k = 0` — between frames) delivers the complete packets before it and then an
error, never a packet for the truncated frame: the connection's error, or short-buffer if the
complete header already announces more than the buffer holds. -/
theorem C14_truncated (cap : Nat) (e : IoErr) (pkts : List (List UInt8)) (q : List UInt8) (k : Nat)
    (segs : Segs) (h16 : ∀ p ∈ pkts, p.length ≤ 65535) (hcap : ∀ p ∈ pkts, p.length ≤ cap)
    (hq16 : q.length ≤ 65535) (hk : k < (encode q).length)
    (hs : segs.flatten = wire pkts ++ (encode q).take k) :
    (readAll cap e segs).1 =
      pkts.map .pkt ++ [if 2 ≤ k ∧ q.length > cap then .shortBuffer q.length else .err e] := by
  rw [C14_reader_is_parser, hs, parse_wire_append cap e pkts _ h16 hcap, parse_truncated cap e q k hq16 hk]
  split <;> rfl

/-- … the usual case: the truncated frame would have fitted, the error is the connection's. -/
theorem C14_truncated_fitting (cap : Nat) (e : IoErr) (pkts : List (List UInt8)) (q : List UInt8) (k : Nat)
    (segs : Segs) (h16 : ∀ p ∈ pkts, p.length ≤ 65535) (hcap : ∀ p ∈ pkts, p.length ≤ cap)
    (hq16 : q.length ≤ 65535) (hqcap : q.length ≤ cap) (hk : k < (encode q).length)
    (hs : segs.flatten = wire pkts ++ (encode q).take k) :
    (readAll cap e segs).1 = pkts.map .pkt ++ [.err e] := by
  rw [C14_truncated cap e pkts q k segs h16 hcap hq16 hk hs, if_neg (by omega)]

example : (readAll 8 .eof [[0, 1, 7, 0], [3, 1, 2]]).1 = [.pkt [7], .err .eof] := by decide
example : (readAll 8 .other [[0, 1, 7, 0]]).1 = [.pkt [7], .err .other] := by decide

/-- Arbitrary garbage: on EVERY byte stream in EVERY segmentation the results are some packets
followed by exactly one error; the delivered packets, re-encoded, are a prefix of the stream
(nothing merged, split or fabricated), each fits the buffer; the error is the connection's or a
short-buffer report of a length that really exceeds the buffer. -/
theorem C14_arbitrary_stream (cap : Nat) (e : IoErr) (segs : Segs) :
    ∃ (ps : List (List UInt8)) (r : Res),
      (readAll cap e segs).1 = ps.map .pkt ++ [r] ∧ r.isPkt = false
      ∧ wire ps <+: segs.flatten ∧ (∀ p ∈ ps, p.length ≤ cap ∧ p.length ≤ 65535)
      ∧ (r = .err e ∨ ∃ n, r = .shortBuffer n ∧ cap < n ∧ n ≤ 65535) := by
  rw [C14_reader_is_parser]
  exact parseN_structure cap e _ segs.flatten (by omega)

example : (readAll 4 .eof [[255, 255, 1], [2, 3]]).1 = [.shortBuffer 65535] := by decide

/-- Bounded read: every `Read` the loop issues asks for at least one byte and for no more than what
is still missing of the current header / body of the flattened stream, and no `Read` follows the
call that had to fail (the spec monitor `readsViolation` accepts the model's whole ghost log). -/
theorem C14_bounded_read (cap : Nat) (e : IoErr) (segs : Segs) :
    readsViolation cap segs.flatten (readAll cap e segs).2 = none := by
  unfold readsViolation readAll units
  exact readAllN_reads cap e _ segs

example : (readAll 8 .eof [[0], [2, 7], [9, 0, 1], [5, 0]]).2
    = [(2, 1), (1, 1), (2, 1), (1, 1), (2, 2), (1, 1), (2, 1), (1, 0)] := by decide
example : readsViolation 8 [0, 3, 7, 9] [(2, 2), (4, 2)] = some msgTooMuch := by decide

/-- … and in absolute terms: never more than `max 2 (min cap 65535)` bytes per `Read`. -/
theorem C14_read_sizes (cap : Nat) (e : IoErr) (segs : Segs) :
    ∀ r ∈ (readAll cap e segs).2, 1 ≤ r.1 ∧ r.1 ≤ max 2 (min cap 65535) ∧ r.2 ≤ r.1 :=
  readAllN_log_bound cap e _ segs

example : ∀ r ∈ (readAll 1 .eof [[0, 1], [7, 0], [0, 9]]).2, 1 ≤ r.1 ∧ r.1 ≤ 2 := by decide

/-- The model's observable results pass the read monitor (the clause evaluated on the
implementation's output by the driver). -/
theorem C14_model_passes_read_monitor (cap : Nat) (e : IoErr) (segs : Segs) :
    readViolation cap e segs.flatten ((readAll cap e segs).1.map obsOf) = none := by
  rw [C14_reader_is_parser]
  unfold readViolation
  generalize (parse cap e segs.flatten).map obsOf = l
  generalize 0 = i
  induction l generalizing i with
  | nil => rfl
  | cons x xs ih => simp [resultsViolationFrom, ih]

example : readViolation 8 .eof [0, 1, 7, 0, 1, 9] [.pkt 2 (digest [7, 0]), .err .eof]
    = some "result 0: packet boundary moved (merged, split or fabricated packet): expected 1 bytes, got 2" := by
  decide

-- `hfit` is unused by `simp` while the model has no length guard (pinned tree) and is needed once the
-- guard of the F4 fix is in the model; the proofs below check in both states.
set_option linter.unusedSimpArgs false

/-- Writer, packets that fit the length field: ONE write of the 2-byte big-endian length followed
by the packet; the reported count is the packet's length; a refused write reports the error. -/
theorem C14_write_ok (connFails : Bool) (p : List UInt8) (h16 : p.length ≤ 65535) :
    writeViolation connFails p (obsOfWrite (write connFails p)) = none := by
  have hh : header p.length = [UInt8.ofNat (p.length / 256), UInt8.ofNat (p.length % 256)] := by
    simp only [header]
    rw [Nat.mod_eq_of_lt (by omega)]
  have hfit : ¬ p.length > 65535 := by omega
  unfold writeViolation
  rw [if_neg hfit]
  cases connFails <;> simp [write, encode, hh, obsOfWrite, hfit]

example : write false [7, 9] = { n := 2, err := none, wire := [[0, 2, 7, 9]] } := by decide

/-- `wire pkts` (the stream the reader theorems speak about) is what the writer produces: the
concatenation of the single writes of the packets, provided each fits the length field. -/
theorem C14_wire_is_written (pkts : List (List UInt8)) (h16 : ∀ p ∈ pkts, p.length ≤ 65535) :
    (pkts.map fun p => (write false p).wire.flatten).flatten = wire pkts
    ∧ ∀ p ∈ pkts, (write false p).err = none ∧ (write false p).n = p.length := by
  constructor
  · unfold wire
    congr 1
    apply List.map_congr_left
    intro p hp
    have hfit : ¬ p.length > 65535 := by have := h16 p hp; omega
    simp [write, hfit]
  · intro p hp
    have hfit : ¬ p.length > 65535 := by have := h16 p hp; omega
    simp [write, encode, header, hfit]

example : (write false [1]).wire.flatten ++ (write false []).wire.flatten = wire [[1], []] := by decide

/-- … and the header decodes to the packet's length (used by the round trip). -/
theorem C14_header_decodes (p : List UInt8) (h16 : p.length ≤ 65535) :
    decodeLen (header p.length) = p.length := by
  obtain ⟨hi, lo, hh, hn⟩ := header_toNat p.length h16
  rw [hh, decodeLen_pair, hn]

example : decodeLen (header 513) = 513 ∧ header 513 = [2, 1] := by decide

/-- Packets too long for the 16-bit length field are rejected and nothing is written: no truncated
length header can reach the wire (finding F4, fixed). -/
theorem C14_too_long_rejected (connFails : Bool) (p : List UInt8) (h : p.length > 65535) :
    (write connFails p).err = some .tooLong ∧ (write connFails p).wire = [] ∧ (write connFails p).n = 0 := by
  simp [write, h]

example : (List.replicate 70000 (0 : UInt8)).length > 65535 := by rw [List.length_replicate]; omega

/-- The writer passes the (strict) write monitor for EVERY packet, of any length. -/
theorem C14_write_passes_monitor (connFails : Bool) (p : List UInt8) :
    writeViolation connFails p (obsOfWrite (write connFails p)) = none := by
  by_cases h : p.length > 65535
  · unfold writeViolation
    rw [if_pos h]
    simp [write, h, obsOfWrite]
  · exact C14_write_ok connFails p (by omega)

/-! ### code ties (T): `writeStreamingPacket` and `readStreamingPacket` (tcp_mux.go) are REGENERATED on every run (effect mode,
`IceGen.T_Framing`; the two short-read loops cut out with their source text pinned) and proved equal to the model -/

/-- the writer, for every packet whose length is a Go `int` and both outcomes of `conn.Write`: too long ⇒ rejected before
anything is written; otherwise the 16-bit length field `uint16(len)`, the payload copied behind it, ONE `conn.Write`, and
the result `n − 2` — i.e. the model's `write`: same first result, same error, the same number of writes, the length field
`header` encodes -/
theorem C14_code_write (connFails : Bool) (p : List UInt8) (h : p.length + 2 < 2 ^ 63) (n : Int64) :
    IceGen.writeStreamingPacket (Int64.ofNat p.length) connFails n
      = (if p.length > 65535 then ([], (0, "ErrShortBuffer"))
         else ([IceTie.Framing.ePut (p.length % 65536), IceTie.Framing.eCopy, IceTie.Framing.eWrite],
               if connFails then (0, "err") else (n - 2, "nil"))) ∧
    IceTie.Framing.outOf (IceGen.writeStreamingPacket (Int64.ofNat p.length) connFails (Int64.ofNat (encode p).length))
      = (((write connFails p).n : Int), (write connFails p).err, (write connFails p).wire.length,
         if p.length > 65535 then [] else [decodeLen (header p.length)]) :=
  ⟨IceTie.Framing.writeStreamingPacket_tie p.length (by omega) connFails n,
   IceTie.Framing.writeStreamingPacket_model connFails p h⟩

/-- the reader, for every segmentation of every stream, every capacity and terminal error: with the header loop = `fill segs 2`,
the declared length = `decodeLen` of the two bytes and the body loop = `fill` for that many bytes, the regenerated function
returns what the model's `readPacket` returns (`(0, err)` / `(length, io.ErrShortBuffer)` / the bytes read), and it enters
the body loop exactly when the header was read and the declared length fits the buffer -/
theorem C14_code_read (cap : Nat) (hc : cap < 2 ^ 63) (e : IoErr) (segs : Segs) :
    let f1 := fill segs 2
    let len := decodeLen (f1.1.getD [])
    let f2 := fill f1.2.1 len
    let g := IceGen.readStreamingPacket f1.1.isNone (Int64.ofNat len) (Int64.ofNat cap) f2.1.isNone
                (Int64.ofNat (f2.1.getD []).length)
    IceTie.Framing.resOf g e (f2.1.getD []) = (readPacket cap e segs).1 ∧
    (g.1.contains IceTie.Framing.eFillBody = (f1.1.isSome && decide (len ≤ cap))) :=
  IceTie.Framing.readStreamingPacket_model cap hc e segs

/-- non-vacuity: 65535 bytes are framed, 65536 rejected; a frame of declared length 9 into a buffer of capacity 8 -/
example : IceGen.writeStreamingPacket 65535 false 65537
      = ([IceModel.Eff.call "putLength" [IceModel.Val.n 65535], IceModel.Eff.call "copyPayloadAt2" [],
          IceModel.Eff.call "write" []], (65535, "nil")) ∧
    IceGen.writeStreamingPacket 65536 false 0 = ([], (0, "ErrShortBuffer")) ∧
    IceGen.readStreamingPacket false 9 8 false 9 = ([IceModel.Eff.call "fillHeader" []], (9, "ErrShortBuffer")) ∧
    IceGen.readStreamingPacket false 8 8 false 8
      = ([IceModel.Eff.call "fillHeader" [], IceModel.Eff.call "fillBody" []], (8, "nil")) ∧
    IceGen.readStreamingPacket true 8 8 false 8 = ([IceModel.Eff.call "fillHeader" []], (0, "err")) := by decide

/-! ### the packet connection's `ReadFrom` and the caller's buffer -/

/-- **A packet is handed over whole or not at all.**  For every caller buffer length and every queued packet,
`tcpPacketConn.ReadFrom` returns either the packet itself — and then it fits the buffer's LENGTH, the only part of the
slice the caller looks at — or `io.ErrShortBuffer` with nothing; never a truncated packet.  (After the fix of F35.) -/
theorem C14_packetconn_read_whole (blen : Nat) (p : List UInt8) :
    (packetConnRead blen p = some p ∧ p.length ≤ blen) ∨ (packetConnRead blen p = none ∧ blen < p.length) := by
  unfold packetConnRead
  by_cases h : blen < p.length
  · right; simp [h]
  · left; simp [h]; omega

/-- the code with finding F35 tested the buffer's CAPACITY and copied its LENGTH: with `len 0, cap 1` a one-byte
packet was reported as read (`n = 1`) although no byte of it reached the caller — not a behaviour of the repaired model -/
theorem C14_packetconn_read_F35_witness : packetConnRead 0 [7] = none ∧ packetConnRead 1 [7] = some [7] := by decide

example : packetConnRead 4 [1, 2, 3, 4] = some [1, 2, 3, 4] ∧ packetConnRead 3 [1, 2, 3, 4] = none := by decide

end IceProps.C14
