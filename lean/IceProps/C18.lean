import IceTie.Lifecycle
import IceModel.Gather
import IceSpec.C18
import IceSpec.C03Gather
import IceProofs.GatherUnits
import IceProofs.GatherCyc
import IceProofs.GatherProv
import IceProofs.GatherComplete
import IceProofs.GatherCycReach
import IceTie.Gather
import IceModel.ActiveTcp
import IceSpec.C18Active
/-!
# C18 — gathering produces exactly the candidates the configuration allows

Property theorems only (lemmas are in `IceProofs/GatherUnits.lean`, `IceProofs/GatherCyc.lean`).
The model (`IceModel.Gather`) is compared with the real agent after every operation by the `gather`
component (`Driver/Gather.lean`, `harness/inpkg/zz_verif_gather_test.go`); the spec
(`IceSpec.C18`) is written independently of the gatherers and is also evaluated on the
implementation's published candidates.

All theorems speak about the repaired code (`cfg.quirks = []`, i.e. none of the findings C18-G1 … G5 is
present; the harness detects which are present and the witnesses below show what each one breaks).
-/
namespace IceProps.C18
open IceModel.Gather IceSpec.C18 IceProofs.GatherUnits

/-! ### glue between the model's tests and the spec's -/

theorem onAccepted_of_local {cfg : Config} {nts : List NetType} {ifs : List Iface} {a : Addr}
    (h : Local cfg nts ifs a) : onAcceptedIface cfg ifs a = true := by
  obtain ⟨i, hi, hacc, ha, hok⟩ := h
  unfold onAcceptedIface
  rw [List.any_eq_true]
  refine ⟨i, hi, ?_⟩
  simp only [ifaceAccepted, ifFilterAccepts, Bool.and_eq_true, Bool.not_eq_true', Bool.and_eq_false_imp] at hacc
  simp only [addrAccepted, ipFilterAccepts, Bool.and_eq_true, Bool.not_eq_true', Bool.and_eq_false_imp] at hok
  obtain ⟨⟨hup, hlo⟩, hif⟩ := hacc
  obtain ⟨⟨hlo2, _⟩, hip⟩ := hok
  have h1 : (!i.loopback || cfg.includeLoopback) = true := by
    cases hl : i.loopback <;> simp_all
  have h2 : (!a.cls.isLoopback || cfg.includeLoopback) = true := by
    cases hl : a.cls.isLoopback <;> simp_all
  have h3 : i.addrs.contains a = true := List.contains_iff_mem.2 ha
  simp only [hup, h1, h2, h3, Bool.and_true, Bool.true_and]
  cases hf : cfg.ifFilter <;> cases hp : cfg.ipFilter <;> simp_all

theorem local_supported {cfg : Config} {nts : List NetType} {ifs : List Iface} {a : Addr}
    (h : Local cfg nts ifs a) : a.cls.is6 = true → a.cls.supported6 = true := by
  obtain ⟨i, _, _, _, hok⟩ := h
  intro h6
  simp only [addrAccepted, h6, ↓reduceIte, Bool.and_eq_true] at hok
  exact hok.1.2.2

theorem supported_not_excluded {c : AddrClass} (h : c.is6 = true → c.supported6 = true) :
    excludedClass c = false := by
  cases c <;> simp_all [excludedClass, AddrClass.is6, AddrClass.supported6]

theorem netEnabled_of_configured {cfg : Config} {n : NetType}
    (h : (configured cfg.netTypes).contains n = true) : netEnabled cfg n = true := by
  rcases contains_configured.1 h with h | h
  · simp [netEnabled, h]
  · simp only [netEnabled, Bool.or_eq_true]
    exact Or.inr (List.contains_iff_mem.2 h)

theorem portOk_own (cfg : Config) : portOk cfg (ownPortFlag cfg) = true := by
  unfold portOk ownPortFlag rangeConfigured portRange
  by_cases h1 : cfg.portMin = 0 <;> by_cases h2 : cfg.portMax = 0 <;> simp [h1, h2]

theorem ownPortFlag_ne_M (cfg : Config) : (ownPortFlag cfg == PFlag.M) = false := by
  unfold ownPortFlag; split <;> rfl

theorem typesEnabled_of_mem {cfg : Config} {t : CandType} (h : cfg.candTypes.contains t = true) :
    t ∈ typesEnabled cfg := by
  unfold typesEnabled
  split
  · rename_i he
    simp [List.isEmpty_iff] at he
    simp [he] at h
  · exact List.contains_iff_mem.1 h

theorem ofTransport_is6 (tcp v6 : Bool) : (NetType.ofTransport tcp v6).is6 = v6 := by
  cases tcp <;> cases v6 <;> rfl

/-- base clause for a unit that binds either an accepted local address (filters installed) or the
wildcard address -/
theorem baseOk_of {cfg : Config} {nts : List NetType} {ifs : List Iface} {b : Addr} {v6 : Bool}
    (h : if useFilteredLocalAddrs cfg then Local cfg nts ifs b else b = unspec v6) : baseOk cfg ifs b = true := by
  unfold baseOk filtersInstalled
  unfold useFilteredLocalAddrs at h
  split at h
  · rename_i hf
    simp only [hf, ↓reduceIte]
    exact onAccepted_of_local h
  · rename_i hf
    simp only [hf, Bool.false_eq_true, ↓reduceIte]
    subst h
    cases v6 <;> rfl

/-! ### C18_sound -/

/-- **Soundness.** Every candidate that a gather unit of any cycle can publish — for ALL
configurations, interface tables, unit, address index and server reply — satisfies every clause of
the spec: enabled candidate type and network type (empty list = all), never a site-local or
IPv4-compatible address, link-local only behind the mDNS name, mDNS name iff gather mode, and for
sockets the agent opens itself: accepted interface and address, port inside the range. -/
theorem C18_sound (cfg : Config) (ifs : List Iface) (hq : cfg.quirks = []) (hwf : realAddrs cfg ifs = true)
    (u : GUnit)
    (hu : u ∈ allUnits cfg ifs) (ci m : Nat)
    (hp : publishable cfg (unitCand cfg u ci m) = true) (hh : (unitCand cfg u ci m).hidden = false) :
    candViolation cfg ifs (unitCand cfg u ci m) = none := by
  unfold allUnits at hu
  simp only [List.mem_append] at hu
  rcases hu with (hu | hu) | hu
  · -- host
    split at hu
    · rename_i hty
      have hT := typesEnabled_of_mem hty
      simp only [List.mem_append] at hu
      rcases hu with hu | hu
      · -- UDP mux
        obtain ⟨addrs, a, mp, hmux, hamem, hmp, rfl, hen, hsup⟩ := (mem_hostMuxUnits hq).1 hu
        have hne := netEnabled_of_configured hen
        have hex := supported_not_excluded hsup
        by_cases hmd : cfg.mdnsGather = true
        · -- mDNS gather mode (after the fix of F34): the candidate carries the network type and the address of the listen
          -- address itself (no rewriting in this mode), behind the mDNS name — a link-local one included
          have hma : mp = a := by
            rcases mem_muxMapped hmp with h | ⟨h, _⟩
            · exact h
            · simp [hmd] at h
          subst hma
          have hw := hwf
          simp only [realAddrs, hmux, Option.getD_some, Bool.and_eq_true, List.all_eq_true] at hw
          have hnm : (mp.cls == AddrClass.nm) = false := by simpa using hw.1.1.2 mp hamem
          simp [candViolation, unitCand, hmd, hT, hne, hex, hnm, hmux, ofTransport_is6]
        · have hmd' : cfg.mdnsGather = false := by simpa using hmd
          have hq9 : cfg.has 9 = false := by simp [Config.has, hq]
          have hk : mp.cls.isLinkLocal6 = false := by simpa [unitCand, hmd', hq9] using hh
          have hw := hwf
          simp only [realAddrs, hmux, Option.getD_some, Bool.and_eq_true, List.all_eq_true] at hw
          rcases mem_muxMapped hmp with hma | ⟨_, r, hr, hext⟩
          · subst hma
            have hnm : (mp.cls == AddrClass.nm) = false := by simpa using hw.1.1.2 mp hamem
            simp [candViolation, unitCand, GUnit.sockBase, hmd', hT, hne, hex, hk, hmux, hnm, ofTransport_is6]
          · have hnm : (mp.cls == AddrClass.nm) = false := by
              simp only [hr, Option.map_some, Option.getD_some] at hw
              simpa using hw.2 mp hext
            have hce : mp ∈ hostExts cfg := by
              simp only [hostExts, hr, Option.map_some, Option.getD_some]; exact hext
            by_cases hma : mp = a
            · subst hma
              simp [candViolation, unitCand, GUnit.sockBase, hmd', hT, hne, hex, hk, hmux, hnm, ofTransport_is6]
            · simp [candViolation, unitCand, GUnit.sockBase, hma, hce, hmd', hT, hne, hex, hk, hmux, hnm, ofTransport_is6]
      · -- interface table: the socket is on `bind`, the candidate publishes `mapped`
        obtain ⟨kind, net, bind, url, n, mapped, uifc⟩ := u
        obtain ⟨a, ifc, mp, hmem, hmp, hb, hmpd, _, _, _, hsup, h⟩ := (mem_hostIfaceUnits hq).1 hu
        simp only at hb hmpd h
        subst hb hmpd
        have hl := local_of_mem hmem
        simp only at hl
        have hacc := onAccepted_of_local hl
        have hex := supported_not_excluded hsup
        have hw := hwf
        simp only [realAddrs, Bool.and_eq_true, List.all_eq_true] at hw
        have hnmb : (bind.cls == AddrClass.nm) = false := by
          obtain ⟨i, hi, _, ha, _⟩ := hl
          simpa using hw.1.1.1 i hi bind ha
        -- what the published address can be: the socket's, or an external address of the rule (never with mDNS)
        have hpub : (mapped = bind) ∨ (mapped ≠ bind ∧ cfg.mdnsGather = false ∧ mapped ∈ hostExts cfg
            ∧ (mapped.cls == AddrClass.nm) = false) := by
          by_cases hma : mapped = bind
          · exact Or.inl hma
          · rcases mem_hostMapped hmp with h' | ⟨hmd, r, hr, hext⟩
            · exact absurd h' hma
            · refine Or.inr ⟨hma, hmd, ?_, ?_⟩
              · simp only [hostExts, hr, Option.map_some, Option.getD_some]; exact hext
              · simp only [hr, Option.map_some, Option.getD_some] at hw
                simpa using hw.2 mapped hext
        rcases h with ⟨rfl, rfl, hen, hmux⟩ | ⟨rfl, rfl, hen, hmux⟩
        · have hne := netEnabled_of_configured hen
          have htm : cfg.tcpMux.isSome = true := by
            unfold tcpMuxAccepts at hmux
            cases h : cfg.tcpMux <;> simp_all
          have hk : (mapped.cls.isLinkLocal6 && !cfg.mdnsGather) = false := by
            simpa [unitCand, Bool.and_comm] using hh
          rcases hpub with hma | ⟨hma, hmd, hce, hnm⟩
          · subst hma
            simp [candViolation, unitCand, GUnit.sockBase, hT, hne, hex, hnmb, hk, htm, ofTransport_is6]
          · have hk' : mapped.cls.isLinkLocal6 = false := by simpa [hmd] using hk
            simp [candViolation, unitCand, GUnit.sockBase, hma, hce, hmd, hT, hne, hex, hnm, hk', htm, ofTransport_is6]
        · have hne := netEnabled_of_configured hen
          have hk : (mapped.cls.isLinkLocal6 && !cfg.mdnsGather) = false := by
            simpa [unitCand, Bool.and_comm] using hh
          have hnt : (NetType.ofTransport false mapped.cls.is6).isTCP = false := by cases mapped.cls.is6 <;> rfl
          rcases hpub with hma | ⟨hma, hmd, hce, hnm⟩
          · subst hma
            simp [candViolation, unitCand, GUnit.sockBase, hT, hne, hex, hnmb, hk, ownPortFlag_ne_M, hnt, hmux, hacc,
              portOk_own, ofTransport_is6]
          · have hk' : mapped.cls.isLinkLocal6 = false := by simpa [hmd] using hk
            simp [candViolation, unitCand, GUnit.sockBase, hma, hce, hmd, hT, hne, hex, hnm, hk', ownPortFlag_ne_M, hnt,
              hmux, hacc, portOk_own, ofTransport_is6]
    · simp at hu
  · -- server reflexive
    split at hu
    · rename_i hty
      have hT := typesEnabled_of_mem hty
      unfold srflxAllUnits at hu
      simp only [List.mem_append] at hu
      rcases hu with hu | hu
      · split at hu
        · simp at hu
        · split at hu
          · obtain ⟨hk, hn, hudp, hsm⟩ := mem_srflxMuxUnits hu
            obtain ⟨kind, net, bind, url, n⟩ := u
            simp only at hk hn hudp
            subst hk
            have hne := netEnabled_of_configured (List.contains_iff_mem.2 hn)
            cases h6 : net.is6 <;>
              simp [candViolation, unitCand, hT, hne, h6, excludedClass, AddrClass.isLinkLocal6, hsm]
          · obtain ⟨hk, hn, hudp, hb⟩ := mem_srflxUnits hu
            obtain ⟨kind, net, bind, url, n⟩ := u
            simp only at hk hn hudp hb
            subst hk
            have hne := netEnabled_of_configured (List.contains_iff_mem.2 hn)
            have hbase := baseOk_of hb
            cases h6 : net.is6 <;>
              simp [candViolation, unitCand, hT, hne, h6, excludedClass, AddrClass.isLinkLocal6,
                ownPortFlag_ne_M, hbase, portOk_own]
      · obtain ⟨hk, hn, hudp, hb⟩ := mem_srflxMappedUnits hq hu
        obtain ⟨kind, net, bind, url, n⟩ := u
        simp only at hk hn hudp hb
        subst hk
        have hne := netEnabled_of_configured (List.contains_iff_mem.2 hn)
        have hbase : baseOk cfg ifs bind = true := by
          apply baseOk_of (nts := configured cfg.netTypes) (v6 := net.is6)
          split at hb
          · rename_i hf; simp only [hf, ↓reduceIte]; exact hb.1
          · rename_i hf; simp only [hf, Bool.false_eq_true, ↓reduceIte]; exact hb
        -- the published address: the bound address itself, an external address of a catch-all rule, or an
        -- external address of a pinned rule
        have hfam : bind.cls.is6 = net.is6 := by
          split at hb
          · exact hb.2
          · subst hb; cases net.is6 <;> rfl
        have hnetEq : NetType.ofTransport false net.is6 = net := by
          cases net <;> simp_all [NetType.ofTransport, NetType.is6, NetType.isTCP]
        have hbind : (excludedClass bind.cls && bind.cls != AddrClass.u6 && bind.cls != AddrClass.l6) = false
            ∧ (bind.cls == AddrClass.nm) = false := by
          split at hb
          · obtain ⟨hl, _⟩ := hb
            have hex := supported_not_excluded (local_supported hl)
            obtain ⟨i, hi, _, ha, _⟩ := hl
            simp only [realAddrs, Bool.and_eq_true, List.all_eq_true] at hwf
            exact ⟨by simp [hex], by simpa using hwf.1.1.1 i hi bind ha⟩
          · subst hb; cases net.is6 <;> simp [unspec, excludedClass]
        have hpub := hp
        simp only [publishable, unitCand, Bool.and_eq_true, Bool.or_eq_true, Bool.not_eq_true', bne_iff_ne, ne_eq,
          reduceCtorEq, not_true_eq_false, decide_false, Bool.false_eq_true, false_or, beq_iff_eq] at hpub
        -- the network type of the candidate (family of the mapped address) is enabled: the `netType` test
        have hnet : netEnabled cfg (NetType.ofTransport false
            ((((srflxMappedAddrs cfg bind).getD [])[ci]?).getD bind).cls.is6) = true :=
          netEnabled_of_configured hpub.1.2
        have hk := hpub.1.1.2
        -- an IPv6 mapped address is a supported one: the `supported6` test
        have hsup : ((((srflxMappedAddrs cfg bind).getD [])[ci]?).getD bind).cls.is6 = true →
            ((((srflxMappedAddrs cfg bind).getD [])[ci]?).getD bind).cls.supported6 = true := by
          intro h6; rcases hpub.2 with h | h
          · simp [h6] at h
          · exact h
        have haddr : ∀ a : Addr, a = (((srflxMappedAddrs cfg bind).getD [])[ci]?).getD bind →
            (excludedClass a.cls && a.cls != AddrClass.u6 && a.cls != AddrClass.l6) = false
              ∧ (a.cls == AddrClass.nm) = false := by
          intro a ha
          rcases mappedAddr_cases cfg bind ci with h | h | ⟨r, exts, hpe, hmem⟩
          · rw [← ha] at h; subst h
            exact hbind
          · rw [← ha] at h
            exact by simp [h.1, excludedClass]
          · rw [← ha] at hmem hsup
            have hex := supported_not_excluded hsup
            have hw := hwf
            simp only [realAddrs, hpe, Option.map_some, Option.getD_some, Bool.and_eq_true, List.all_eq_true] at hw
            exact ⟨by simp [hex], by simpa using hw.1.2 a hmem⟩
        obtain ⟨hex, hnm⟩ := haddr _ rfl
        simp [candViolation, unitCand, hT, hnet, hex, hnm, hk, ownPortFlag_ne_M, hbase, portOk_own]
    · simp at hu
  · -- relay
    split at hu
    · rename_i hty
      have hT := typesEnabled_of_mem hty
      obtain ⟨hk, hn, hb⟩ := mem_relayUnits hu
      obtain ⟨kind, net, bind, url, n, mp, uifc⟩ := u
      simp only at hk hn hb
      subst hk hn
      have hq3 : cfg.has 3 = false := by simp [Config.has, hq]
      have hne : netEnabled cfg .udp4 = true := by
        apply netEnabled_of_configured
        have := hp
        simp only [publishable, unitCand, hq3, Bool.or_false, Bool.and_eq_true, Bool.or_eq_true] at this
        rcases this.1 with h | h
        · simp at h
        · exact h
      have hbase := baseOk_of (v6 := false) hb
      have haddr : excludedClass (unitCand cfg ⟨.relay, .udp4, bind, url, n, mp, uifc⟩ ci m).addr.cls = false
          ∧ ((unitCand cfg ⟨.relay, .udp4, bind, url, n, mp, uifc⟩ ci m).addr.cls == AddrClass.nm) = false
          ∧ (unitCand cfg ⟨.relay, .udp4, bind, url, n, mp, uifc⟩ ci m).addr.cls.isLinkLocal6 = false := by
        simp only [unitCand]
        rcases relayAddr_cases cfg m ci with h | h <;> rw [h] <;> simp [excludedClass, AddrClass.isLinkLocal6]
      obtain ⟨hex, hnm, hk⟩ := haddr
      simp only [unitCand] at hex hnm hk
      simp [candViolation, unitCand, hT, hne, hex, hnm, hk, hbase]
    · simp at hu

open IceProofs.GatherAgent IceProofs.GatherProv in
/-- **Soundness of every observation of the model, with an interface table that changes.** For every
configuration (repaired code), initial interface table, operation sequence on a fresh agent — including any number of
`ifaces` operations that replace the table, ticks of the monitor of continual gathering and its re-gather passes —
and every further operation: every candidate the model lists in `GetLocalCandidates` passes the spec's
`candViolation` for a table the fake Net has had (the initial one or the one of an `ifaces` operation: the table at
the time of the pass that gathered it), so does every candidate it delivers to `OnCandidate`, and a HOST candidate
delivered to `OnCandidate` passes it for the table IN FORCE during that operation — i.e. every trace the model can
produce passes the soundness part of the monitor (`IceSpec.C18.soundViolation`) that is also run on the
implementation. With no `ifaces` operation this is the old statement: one table, every candidate judged against it. -/
theorem C18_sound_reachable (cfg : Config) (ifs : List Iface) (hq : cfg.quirks = [])
    (s0 : MState) (h0 : newAgent cfg ifs = .ok s0) (ops : List Op) (op : Op)
    (hwf : ∀ T ∈ ifs :: opTables (ops ++ [op]), realAddrs cfg T = true) :
    let s := (step (runOps s0 ops) op).1
    (∀ T ∈ s.ifs :: s.ifsHist, T ∈ ifs :: opTables (ops ++ [op]))
    ∧ (∀ c ∈ (observe s).cands ++ (observe s).evs, ∃ T ∈ s.ifs :: s.ifsHist, candViolation cfg T c.1 = none)
    ∧ (∀ c ∈ (observe s).evs, c.1.ty = .host → candViolation cfg s.ifs c.1 = none) := by
  intro s
  have hi : ProvS cfg s0 := prov_init cfg ifs s0 h0
  have hp : ProvS cfg s := step_prov (runOps_prov ops hi) op
  -- the tables the run has had
  have htab : ∀ T ∈ s.ifs :: s.ifsHist, T ∈ ifs :: opTables (ops ++ [op]) := by
    intro T hT
    have h1 : T ∈ (runOps s0 (ops ++ [op])).ifs :: (runOps s0 (ops ++ [op])).ifsHist := by
      have : runOps s0 (ops ++ [op]) = s.flush := runOps_snoc s0 ops op
      rw [this]; exact hT
    have h2 := runOps_tabs (ops ++ [op]) hi T h1
    have hs0 : s0.ifs :: s0.ifsHist = [ifs] := by rw [newAgent_ok h0]
    rw [hs0] at h2
    rcases h2 with h2 | h2
    · simp only [List.mem_singleton] at h2; subst h2; simp
    · exact List.mem_cons_of_mem _ h2
  have sound : ∀ T ∈ s.ifs :: s.ifsHist, ∀ d, FromUnit cfg T d → d.hidden = false → candViolation cfg T d = none := by
    rintro T hT d ⟨u, hu, ci, m, rfl, hpub⟩ hh
    exact C18_sound cfg T hq (hwf T (htab T hT)) u hu ci m hpub hh
  refine ⟨htab, ?_, ?_⟩
  · intro c hc
    simp only [observe, List.mem_append] at hc
    rcases hc with hc | hc
    · split at hc
      · simp at hc
      · simp only [List.mem_map, List.mem_filter] at hc
        obtain ⟨mc, ⟨hmc, hnh⟩, rfl⟩ := hc
        obtain ⟨T, hT, hf⟩ := hp.cands mc hmc
        exact ⟨T, hT, sound T hT mc.d hf (by simpa using hnh)⟩
    · simp only [List.mem_map] at hc
      obtain ⟨e, he, rfl⟩ := hc
      obtain ⟨⟨T, hT, hf⟩, _, hh⟩ := hp.evs e he
      exact ⟨T, hT, sound T hT e.1 hf hh⟩
  · intro c hc hty
    simp only [observe, List.mem_map] at hc
    obtain ⟨e, he, rfl⟩ := hc
    obtain ⟨_, hcur, hh⟩ := hp.evs e he
    exact sound s.ifs (by simp) e.1 (hcur hty) hh
where
  runOps_snoc (s0 : MState) : ∀ (ops : List Op) (op : Op),
      IceProofs.GatherAgent.runOps s0 (ops ++ [op]) = (step (IceProofs.GatherAgent.runOps s0 ops) op).1.flush := by
    intro ops
    induction ops generalizing s0 with
    | nil => intro op; rfl
    | cons o ops ih => intro op; simp only [List.cons_append, IceProofs.GatherAgent.runOps]; exact ih _ op

/-! ### C18_complete -/

theorem local_of_onAccepted {cfg : Config} {ifs : List Iface} {a : Addr} (nts : List NetType)
    (h : onAcceptedIface cfg ifs a = true)
    (hfam : if a.cls.is6 then v6Requested nts = true ∧ a.cls.supported6 = true else v4Requested nts = true) :
    Local cfg nts ifs a := by
  unfold onAcceptedIface at h
  rw [List.any_eq_true] at h
  obtain ⟨i, hi, h⟩ := h
  simp only [Bool.and_eq_true, Bool.or_eq_true, Bool.not_eq_true'] at h
  obtain ⟨⟨⟨⟨⟨hup, hlo⟩, hif⟩, hmem⟩, hlo2⟩, hip⟩ := h
  refine ⟨i, hi, ?_, List.contains_iff_mem.1 hmem, ?_⟩
  · simp only [ifaceAccepted, ifFilterAccepts, hup, Bool.true_and, Bool.and_eq_true, Bool.not_eq_true',
      Bool.and_eq_false_imp]
    refine ⟨?_, ?_⟩
    · intro hl; rcases hlo with h | h <;> simp_all
    · cases hf : cfg.ifFilter <;> simp_all
  · simp only [addrAccepted, ipFilterAccepts, Bool.and_eq_true, Bool.not_eq_true', Bool.and_eq_false_imp]
    refine ⟨⟨?_, ?_⟩, ?_⟩
    · intro hl; rcases hlo2 with h | h <;> simp_all
    · split at hfam
      · rename_i h6; simp [h6, hfam.1, hfam.2]
      · rename_i h6; simp [h6, hfam]
    · cases hf : cfg.ipFilter <;> simp_all

theorem requested_of_enabled {cfg : Config} {tcp v6 : Bool} (h : netEnabled cfg (NetType.ofTransport tcp v6) = true) :
    (if v6 then v6Requested (configured cfg.netTypes) else v4Requested (configured cfg.netTypes)) = true
    ∧ (configured cfg.netTypes).contains (NetType.ofTransport tcp v6) = true := by
  have hmem : NetType.ofTransport tcp v6 ∈ configured cfg.netTypes := by
    apply mem_configured.2
    simp only [netEnabled, Bool.or_eq_true, List.isEmpty_iff] at h
    rcases h with h | h
    · exact Or.inl h
    · exact Or.inr (List.contains_iff_mem.1 h)
  refine ⟨?_, List.contains_iff_mem.2 hmem⟩
  cases v6
  · simp only [Bool.false_eq_true, ↓reduceIte, v4Requested, Bool.or_eq_true]
    right
    rw [List.any_eq_true]
    exact ⟨_, hmem, by cases tcp <;> rfl⟩
  · simp only [↓reduceIte, v6Requested, Bool.or_eq_true]
    right
    rw [List.any_eq_true]
    exact ⟨_, hmem, by cases tcp <;> rfl⟩

theorem not_excluded_supported {c : AddrClass} (h : excludedClass c = false) : c.is6 = true → c.supported6 = true := by
  cases c <;> simp_all [excludedClass, AddrClass.supported6, AddrClass.is6]

/-- an eligible address on a given accepted interface, of a requested family, is in `localInterfaces` with
that interface -/
theorem eligible_local {cfg : Config} {ifs : List Iface} {a : Addr} {tcp : Bool} {ifc : Nat}
    (he : eligibleAddr cfg ifs a = true) (hifc : ifc ∈ acceptedIfacesOf cfg ifs a)
    (hen : netEnabled cfg (NetType.ofTransport tcp a.cls.is6) = true) :
    (a, ifc) ∈ localAddrs cfg (configured cfg.netTypes) ifs := by
  simp only [eligibleAddr, Bool.and_eq_true, Bool.not_eq_true', Bool.or_eq_true] at he
  obtain ⟨⟨hacc, hex⟩, _⟩ := he
  have hreq := (requested_of_enabled hen).1
  have hfam : if a.cls.is6 then v6Requested (configured cfg.netTypes) = true ∧ a.cls.supported6 = true
      else v4Requested (configured cfg.netTypes) = true := by
    cases h6 : a.cls.is6
    · simpa [h6] using hreq
    · simp only [↓reduceIte]
      exact ⟨by simpa [h6] using hreq, not_excluded_supported hex h6⟩
  -- the address part of the test does not depend on the interface
  obtain ⟨_, _, _, _, hok⟩ := local_of_onAccepted (configured cfg.netTypes) hacc hfam
  simp only [acceptedIfacesOf, List.mem_map, List.mem_filter, Bool.and_eq_true, Bool.or_eq_true,
    Bool.not_eq_true'] at hifc
  obtain ⟨i, ⟨hi, ⟨⟨hup, hlo⟩, hif⟩, hmem⟩, rfl⟩ := hifc
  refine mem_localAddrs.2 ⟨i, hi, ?_, rfl, List.contains_iff_mem.1 hmem, hok⟩
  simp only [ifaceAccepted, ifFilterAccepts, hup, Bool.true_and, Bool.and_eq_true, Bool.not_eq_true',
    Bool.and_eq_false_imp]
  refine ⟨?_, ?_⟩
  · intro hl; rcases hlo with h | h <;> simp_all
  · cases hf : cfg.ifFilter <;> simp_all

theorem isEmpty_filter_eq {α : Type} (p : α → Bool) (l : List α) : (l.filter p).isEmpty = !l.any p := by
  induction l with
  | nil => rfl
  | cons x t ih => cases hx : p x <;> simp [List.filter, hx, ih]

/-- the model's lookup is the spec's reading of the rule (`ruleApplies` / `ruleExts`) -/
theorem lookup_spec {cfg : Config} {r : HostRule} (hr : cfg.hostRule = some r) (hmd : cfg.mdnsGather = false)
    (a : Addr) (ifc : Option Nat) :
    r.lookup a ifc = if ruleApplies cfg a ifc then some (ruleExts cfg a ifc) else none := by
  unfold ruleExts ruleApplies HostRule.lookup
  simp only [hr, hmd, Bool.not_false, Bool.true_and]
  cases hi : r.iface with
  | none =>
    cases hp : r.pin with
    | none =>
      simp only [Option.isSome_none, Bool.false_and, Bool.false_eq_true, ↓reduceIte, Bool.true_and, isEmpty_filter_eq]
      cases hany : r.exts.any (fun e => e.cls.is6 == a.cls.is6) <;> simp
    | some p =>
      by_cases hpa : a = p
      · subst hpa; simp
      · have : (p == a) = false := by simpa using fun h => hpa h.symm
        simp [hpa, this]
  | some i =>
    by_cases hic : ifc = some i
    · subst hic
      cases hp : r.pin with
      | none =>
        simp only [Option.isSome_some, bne_self_eq_false, Bool.and_false, Bool.false_eq_true, ↓reduceIte, beq_self_eq_true,
          Bool.true_and, isEmpty_filter_eq, Option.isSome_none]
        cases hany : r.exts.any (fun e => e.cls.is6 == a.cls.is6) <;> simp
      | some p =>
        by_cases hpa : a = p
        · subst hpa; simp
        · have : (p == a) = false := by simpa using fun h => hpa h.symm
          simp [hpa, this]
    · have h1 : (some i != ifc) = true := by simpa using fun h => hic h.symm
      have h2 : (ifc == some i) = false := by simpa using hic
      simp [h1, h2]

theorem hostMapped_self {cfg : Config} {a : Addr} {ifc : Nat} (h : ruleReplaces cfg a (some ifc) = false) :
    a ∈ hostMapped cfg a ifc := by
  unfold hostMapped
  split
  · simp
  · rename_i hmd
    have hmd' : cfg.mdnsGather = false := by simpa using hmd
    cases hr : cfg.hostRule with
    | none => simp
    | some r =>
      simp only
      split
      · simp
      · rw [lookup_spec hr hmd']
        simp only [ruleReplaces, hr, Option.map_some, Option.getD_some, Bool.and_eq_false_imp] at h
        cases hap : ruleApplies cfg a (some ifc)
        · simp
        · cases hrep : r.replace
          · simp
          · simp [h hrep] at hap

theorem hostMapped_ext {cfg : Config} {a e : Addr} {ifc : Nat} (hk : a.cls.isLinkLocal6 = false)
    (h : e ∈ ruleExts cfg a (some ifc)) : e ∈ hostMapped cfg a ifc := by
  have hap : ruleApplies cfg a (some ifc) = true := by
    unfold ruleExts at h; split at h
    · assumption
    · simp at h
  cases hr : cfg.hostRule with
  | none => simp [ruleApplies, hr] at hap
  | some r =>
    have hmd : cfg.mdnsGather = false := by
      simp only [ruleApplies, hr, Bool.and_eq_true, Bool.not_eq_true'] at hap; exact hap.1.1
    unfold hostMapped
    simp only [hmd, Bool.false_eq_true, ↓reduceIte, hr, hk, lookup_spec hr hmd, hap, List.mem_append]
    exact Or.inr h

theorem muxMapped_self {cfg : Config} {a : Addr} (h : ruleReplaces cfg a none = false) : a ∈ muxMapped cfg a := by
  unfold muxMapped
  split
  · simp
  · rename_i hmd
    have hmd' : cfg.mdnsGather = false := by simpa using hmd
    cases hr : cfg.hostRule with
    | none => simp
    | some r =>
      simp only
      rw [lookup_spec hr hmd']
      simp only [ruleReplaces, hr, Option.map_some, Option.getD_some, Bool.and_eq_false_imp] at h
      cases hap : ruleApplies cfg a none
      · simp
      · cases hrep : r.replace
        · simp
        · simp [h hrep] at hap

theorem muxMapped_ext {cfg : Config} {a e : Addr} (h : e ∈ ruleExts cfg a none) : e ∈ muxMapped cfg a := by
  have hap : ruleApplies cfg a none = true := by
    unfold ruleExts at h; split at h
    · assumption
    · simp at h
  cases hr : cfg.hostRule with
  | none => simp [ruleApplies, hr] at hap
  | some r =>
    have hmd : cfg.mdnsGather = false := by
      simp only [ruleApplies, hr, Bool.and_eq_true, Bool.not_eq_true'] at hap; exact hap.1.1
    unfold muxMapped
    simp only [hmd, Bool.false_eq_true, ↓reduceIte, hr, lookup_spec hr hmd, hap, List.mem_append]
    exact Or.inr h

/-- `e` is one of the addresses the configuration has interface address `a` (seen on interface `ifc`, or
`none` for a mux listen address) published as: `a` itself where the host rule leaves it in place, and every
external address the rule assigns to it -/
def PublishedAs (cfg : Config) (a : Addr) (ifc : Option Nat) (e : Addr) : Prop :=
  (e = a ∧ ruleReplaces cfg a ifc = false) ∨ e ∈ ruleExts cfg a ifc

theorem hostMapped_of_publishedAs {cfg : Config} {ifs : List Iface} {a e : Addr} {ifc : Nat}
    (he : eligibleAddr cfg ifs a = true) (h : PublishedAs cfg a (some ifc) e) : e ∈ hostMapped cfg a ifc := by
  rcases h with ⟨rfl, h⟩ | h
  · exact hostMapped_self h
  · by_cases hmd : cfg.mdnsGather = true
    · exfalso
      unfold ruleExts ruleApplies at h
      cases hr : cfg.hostRule <;> simp [hr, hmd] at h
    · apply hostMapped_ext _ h
      simp only [eligibleAddr, Bool.and_eq_true, Bool.or_eq_true, Bool.not_eq_true'] at he
      rcases he.2 with h' | h'
      · exact h'
      · exact absurd h' hmd

/-- **Completeness.** For ALL configurations and interface tables: every eligible interface address `a`
(accepted interface and address, not in an excluded class, link-local only in mDNS gather mode), on every
accepted interface `ifc` carrying it, has for each address `e` it is to be published as (`PublishedAs`: itself
where the host rule leaves it in place, every external address the rule assigns to it) that is not in an
excluded class, and for each transport with a listener whose network types (the one of `e` and the one of the
socket's own address `a`) are enabled, a host gather unit with its socket on `a` whose candidate carries
exactly the network type of `e` and the address `e` — published unless `e` is location-tracked; UDP on an own
socket when no UDP mux is configured, TCP on the TCP mux when the mux listener covers `a`.  (That a unit
whose listen succeeds in a live cycle does add its candidate is `C18_complete_gather` below.) -/
theorem C18_complete (cfg : Config) (ifs : List Iface) (hq : cfg.quirks = [])
    (hh : cfg.candTypes.contains .host = true) (a : Addr) (he : eligibleAddr cfg ifs a = true)
    (ifc : Nat) (hifc : ifc ∈ acceptedIfacesOf cfg ifs a) (e : Addr) (hpub : PublishedAs cfg a (some ifc) e)
    (hexe : excludedClass e.cls = false) :
    (cfg.udpMux = none → netEnabled cfg (NetType.ofTransport false e.cls.is6) = true →
        netEnabled cfg (NetType.ofTransport false a.cls.is6) = true →
      ∃ u ∈ allUnits cfg ifs, u.kind = .hostUdp ∧ u.bind = a ∧
        (unitCand cfg u 0 0).hidden = (!cfg.mdnsGather && e.cls.isLinkLocal6)
        ∧ (unitCand cfg u 0 0).net = NetType.ofTransport false e.cls.is6 ∧ (unitCand cfg u 0 0).addr = e)
    ∧ (tcpMuxAccepts cfg a = true → netEnabled cfg (NetType.ofTransport true e.cls.is6) = true →
        netEnabled cfg (NetType.ofTransport true a.cls.is6) = true →
      ∃ u ∈ allUnits cfg ifs, u.kind = .hostTcp ∧ u.bind = a ∧
        (unitCand cfg u 0 0).hidden = (!cfg.mdnsGather && e.cls.isLinkLocal6)
        ∧ (unitCand cfg u 0 0).net = NetType.ofTransport true e.cls.is6 ∧ (unitCand cfg u 0 0).addr = e) := by
  have hm := hostMapped_of_publishedAs he hpub
  have hsup := not_excluded_supported hexe
  constructor
  · intro hmux hen hena
    refine ⟨{ kind := .hostUdp, net := NetType.ofTransport false e.cls.is6, bind := a, mapped := e, ifc := ifc }, ?_, rfl, rfl, rfl, rfl, rfl⟩
    simp only [allUnits, hh, ↓reduceIte, List.mem_append]
    refine Or.inl (Or.inl (Or.inr ?_))
    exact (mem_hostIfaceUnits hq).2 ⟨a, ifc, e, eligible_local he hifc hena, hm, rfl, rfl, rfl, rfl, rfl, hsup,
      Or.inr ⟨rfl, rfl, (requested_of_enabled hen).2, hmux⟩⟩
  · intro hmux hen hena
    refine ⟨{ kind := .hostTcp, net := NetType.ofTransport true e.cls.is6, bind := a, mapped := e, ifc := ifc }, ?_, rfl, rfl, rfl, rfl, rfl⟩
    simp only [allUnits, hh, ↓reduceIte, List.mem_append]
    refine Or.inl (Or.inl (Or.inr ?_))
    exact (mem_hostIfaceUnits hq).2 ⟨a, ifc, e, eligible_local he hifc hena, hm, rfl, rfl, rfl, rfl, rfl, hsup,
      Or.inl ⟨rfl, rfl, (requested_of_enabled hen).2, hmux⟩⟩

open IceProofs.GatherComplete in
/-- **Completeness, end to end, for UDP on ephemeral ports.** From ANY state of the repaired model whose
gathering state is New (fresh agent, or after any history that ended with a Restart) with host
gathering enabled, no UDP mux and no port range: `GatherCandidates` is accepted and afterwards every
eligible interface address `a`, for every address `e` it is to be published as (itself where the host rule
leaves it in place, every external address the rule assigns to it) outside the excluded classes and with the
UDP network types of `e` and of `a` enabled, has a host candidate with exactly the network type of `e` and the
address `e` in the candidate list — published unless `e` is location-tracked.  (With a port range the same
holds whenever a port of the range is free on the address at that moment; that case, TCP and the mux are
covered by `C18_complete` / `C18_complete_mux` plus the lock-step comparison.) -/
theorem C18_complete_gather (s : MState) (hq : s.cfg.quirks = []) (hh : s.cfg.candTypes.contains .host = true)
    (hmux : s.cfg.udpMux = none) (hpr : portRange s.cfg = none) (hnc : s.cyc.closed = false)
    (hnew : s.cyc.gs = Cycle.GS.new) (a : Addr) (he : eligibleAddr s.cfg s.ifs a = true)
    (ifc : Nat) (hifc : ifc ∈ acceptedIfacesOf s.cfg s.ifs a) (e : Addr) (hpub : PublishedAs s.cfg a (some ifc) e)
    (hexe : excludedClass e.cls = false)
    (hen : netEnabled s.cfg (NetType.ofTransport false e.cls.is6) = true)
    (hena : netEnabled s.cfg (NetType.ofTransport false a.cls.is6) = true) :
    (step s .gather).2 = Rtok.ok ∧
      ∃ mc ∈ (step s .gather).1.cands, mc.d.ty = .host ∧ mc.d.net = NetType.ofTransport false e.cls.is6
        ∧ mc.d.addr = e ∧ mc.d.hidden = (!s.cfg.mdnsGather && e.cls.isLinkLocal6) := by
  obtain ⟨s1, hc, hi, hl, hstep⟩ := step_gather_new s hnc hnew
  rw [hstep]
  refine ⟨rfl, ?_⟩
  simp only [finishCycle_cands]
  have hu : ({ kind := .hostUdp, net := NetType.ofTransport false e.cls.is6, bind := a, mapped := e, ifc := ifc } : GUnit)
      ∈ hostIfaceUnits s1.cfg s1.ifs := by
    rw [hc, hi]
    exact (mem_hostIfaceUnits hq).2 ⟨a, ifc, e, eligible_local he hifc hena, hostMapped_of_publishedAs he hpub,
      rfl, rfl, rfl, rfl, rfl, not_excluded_supported hexe, Or.inr ⟨rfl, rfl, (requested_of_enabled hen).2, hmux⟩⟩
  obtain ⟨mc, hmc, hd⟩ := runCycleUnits_hostUdp s1 s.cyc.cycles.length s.cyc.gen (by rw [hc]; exact hh)
    (by rw [hc]; exact hmux) (by rw [hc]; exact hpr) hl _ hu rfl
  refine ⟨mc, hmc, ?_⟩
  rw [hd, hc]
  exact ⟨rfl, rfl, rfl, rfl⟩

/-- completeness for the UDP mux: every listen address `a`, for every address `e` it is to be published as
(lookup without interface name) that is of an enabled family and not in an excluded class, has its unit -/
theorem C18_complete_mux (cfg : Config) (ifs : List Iface) (hq : cfg.quirks = [])
    (hh : cfg.candTypes.contains .host = true) (addrs : List Addr) (hm : cfg.udpMux = some addrs) (a : Addr)
    (ha : a ∈ addrs) (e : Addr) (hpub : PublishedAs cfg a none e)
    (hen : netEnabled cfg (NetType.ofTransport false e.cls.is6) = true)
    (hex : excludedClass e.cls = false) :
    ∃ u ∈ allUnits cfg ifs, u.kind = .hostMux ∧ u.bind = a ∧ u.mapped = e := by
  refine ⟨{ kind := .hostMux, net := NetType.ofTransport false e.cls.is6, bind := a, mapped := e }, ?_, rfl, rfl, rfl⟩
  simp only [allUnits, hh, ↓reduceIte, List.mem_append]
  refine Or.inl (Or.inl (Or.inl ?_))
  refine (mem_hostMuxUnits hq).2 ⟨addrs, a, e, hm, ha, ?_, rfl, (requested_of_enabled hen).2, not_excluded_supported hex⟩
  rcases hpub with ⟨rfl, h⟩ | h
  · exact muxMapped_self h
  · exact muxMapped_ext h

/-! ### C18_cycle -/

open IceModel.Gather.Cycle IceProofs.GatherCyc in
/-- the cycle clauses that do not depend on the check/hand-off window, for ALL event sequences (every
interleaving of GatherCandidates / Restart / Close calls with the tasks and context checks of every
cycle's goroutine, and with the ticks and re-gather passes of the monitor of continual gathering), for the code
with (`r = true`) or without (`r = false`) the re-check, for either gathering policy (`k` = continual) -/
theorem cycle_core (r k : Bool) (evs : List Cycle.Ev) :
    let res := Cycle.run r { continual := k } evs
    -- cycles never overlap: at most one cycle is not cancelled …
    (∀ (i j : Nat) (ci cj : Cyc), res.1.cycles[i]? = some ci → res.1.cycles[j]? = some cj →
        ci.cancelled = false → cj.cancelled = false → i = j)
    -- … it belongs to the current generation, and it has reached Gathering iff the state has left New
    ∧ (∀ (i : Nat) (c : Cyc), res.1.cycles[i]? = some c → c.cancelled = false →
        c.gen = res.1.gen ∧ (c.applied = true ↔ res.1.gs ≠ GS.new))
    -- never a second nil candidate in one generation
    ∧ (∀ g, nilCount res.2 g ≤ 1)
    -- a GatherCandidates call issued once the state has left New is refused and changes nothing
    ∧ (res.1.closed = false → res.1.gs ≠ GS.new → Cycle.step r res.1 .gather = (res.1, [Out.refused]))
    -- Restart cancels every cycle, returns to New in the next generation, and a fresh cycle is accepted
    ∧ (res.1.closed = false →
        let s' := (Cycle.step r res.1 .restart).1
        s'.gs = GS.new ∧ s'.gen = res.1.gen + 1 ∧ (∀ c ∈ s'.cycles, c.cancelled = true)
          ∧ (Cycle.step r s' .gather).2 = [Out.accepted s'.cycles.length s'.gen])
    -- New → Gathering → Complete: within a generation the state never moves backwards
    ∧ (∀ e, e ≠ Cycle.Ev.restart → rank res.1.gs ≤ rank (Cycle.step r res.1 e).1.gs
        ∧ (Cycle.step r res.1 e).1.gen = res.1.gen)
    -- CONTINUAL GATHERING: the cycle never completes and no nil candidate is ever delivered
    ∧ (k = true → res.1.gs ≠ GS.complete ∧ ∀ g, nilCount res.2 g = 0)
    -- a re-gather pass of the monitor is only ever begun by a tick of the ONE live cycle, which belongs to the current
    -- generation, while the agent is open and the state is Gathering; it changes nothing in the cycle state
    ∧ (∀ e c g, Out.regather c g ∈ (Cycle.step r res.1 e).2 →
        e = .tick c ∧ k = true ∧ res.1.closed = false ∧ g = res.1.gen ∧ res.1.gs = GS.gathering
          ∧ (Cycle.step r res.1 e).1 = res.1 ∧ ∃ cy, res.1.cycles[c]? = some cy ∧ cy.cancelled = false ∧ cy.gen = g)
    -- Restart cancels the monitor with the cycle: whatever tick follows, no re-gather pass begins
    ∧ (res.1.closed = false → ∀ c, (Cycle.step r (Cycle.step r res.1 .restart).1 (.tick c)).2 = []) := by
  intro res
  have hn : NInv res.1 ([] ++ res.2) := ninv_run r evs (ninv_init' k)
  have hi := hn.inv
  have hk : res.1.continual = k := run_continual r evs _
  have hnil := fun (h : k = true) => run_no_nil_continual r evs (s := { continual := k }) h (by simp)
  refine ⟨fun i j ci cj h1 h2 l1 l2 => hi.unique h1 h2 l1 l2, fun i c h l => hi.live i c h l,
    fun g => by simpa using hn.once g, fun hc hg => gather_refused r _ hc hg, ?_, fun e he => gs_forward r hi e he,
    fun h => ⟨(hnil h).2, (hnil h).1⟩, ?_, ?_⟩
  · intro hc
    have hr := restart_effect r res.1 hc
    refine ⟨hr.1, hr.2.1, hr.2.2, ?_⟩
    have hc' : (Cycle.step r res.1 .restart).1.closed = false := by simp [Cycle.step, hc]
    rw [gather_accepted r _ hc' hr.1]
  · intro e c g ho
    obtain ⟨he, hcl, hg, hgs, hcont, hsame, cy, hcy, hlive, _, hgen⟩ :=
      regather_live r hi (fun h => (hnil (hk ▸ h)).2) e c g ho
    exact ⟨he, hk ▸ hcont, hcl, hg, hgs, hsame, cy, hcy, hlive, hgen⟩
  · intro hc c
    exact tick_after_cancel r _ (restart_effect r res.1 hc).2.2 c

open IceModel.Gather.Cycle IceProofs.GatherCyc in
/-- **C18_cycle for the code as it stands (partial).** All cycle clauses hold for every interleaving;
the clause "results of the cancelled cycle are not published into the new generation" holds under the
explicit hypothesis `quiet`: no Restart task runs while an `addCandidate` call is between its context
check and its hand-off to the task loop.  Full statement (false for the code, see the witness):
`∀ evs, ∀ o ∈ (Cycle.run false {} evs).2, stale o = false`. -/
theorem C18_cycle_partial (evs : List Cycle.Ev) (hq : quiet {} evs = true) :
    ∀ o ∈ (Cycle.run false {} evs).2, stale o = false :=
  no_stale_run_quiet evs inv_init winv_init hq

open IceModel.Gather.Cycle IceProofs.GatherCyc in
/-- the excluded schedule is real (S5): GatherCandidates; the cycle reaches Gathering; `addCandidate`
passes its context check; Restart; the hand-off is accepted by the idle loop — a candidate of the
cycle of generation 0 is started and published in generation 1 -/
theorem C18_cycle_stale_witness :
    ¬ (∀ evs : List Cycle.Ev, ∀ o ∈ (Cycle.run false {} evs).2, stale o = false) := by
  intro h
  have := h [.gather, .start 0, .addCheck 0, .restart, .addHandoff 0] (Out.published 0 0 1)
    (by rw [stale_witness]; simp)
  simp [stale] at this

open IceModel.Gather.Cycle IceProofs.GatherCyc in
/-- with the re-check of the cycle's context inside the task (the proposed repair of S5) the clause
holds for every interleaving -/
theorem C18_cycle_recheck (evs : List Cycle.Ev) :
    ∀ o ∈ (Cycle.run true {} evs).2, stale o = false :=
  no_stale_run_recheck evs inv_init

open IceModel.Gather.Cycle IceProofs.GatherCyc IceProofs.GatherAgent IceProofs.GatherCycReach in
/-- **The cycle clauses hold in the agent model that is compared with the implementation.** Its cycle
component is always a state the cycle machine reaches from its initial state (the agent model changes
it through `Cycle.step` only), so after ANY operation sequence on a fresh agent: at most one cycle is
not cancelled and it belongs to the current generation; `GatherCandidates` outside New is refused
(`err:multiple`) and changes nothing; Restart returns to New in the next generation. -/
theorem C18_cycle_agent (cfg : Config) (ifs : List Iface) (s0 : MState) (h0 : newAgent cfg ifs = .ok s0) (ops : List Op) :
    let s := runOps s0 ops
    (∀ (i j : Nat) (ci cj : Cyc), s.cyc.cycles[i]? = some ci → s.cyc.cycles[j]? = some cj →
        ci.cancelled = false → cj.cancelled = false → i = j)
    ∧ (∀ (i : Nat) (c : Cyc), s.cyc.cycles[i]? = some c → c.cancelled = false →
        c.gen = s.cyc.gen ∧ (c.applied = true ↔ s.cyc.gs ≠ GS.new))
    ∧ (s.cyc.closed = false → s.cyc.gs ≠ GS.new → IceModel.Gather.step s .gather = (s, Rtok.multiple))
    ∧ (s.cyc.closed = false →
        (IceModel.Gather.step s .restart).2 = Rtok.ok ∧ (IceModel.Gather.step s .restart).1.cyc.gs = GS.new
        ∧ (IceModel.Gather.step s .restart).1.cyc.gen = s.cyc.gen + 1) := by
  intro s
  obtain ⟨evs, hevs⟩ := runOps_reach ops (init_reach cfg ifs s0 h0)
  have hc := cycle_core false cfg.continual evs
  simp only at hc
  rw [← hevs] at hc
  refine ⟨hc.1, hc.2.1, ?_, ?_⟩
  · intro hcl hgs
    simp [IceModel.Gather.step, gather_refused false s.cyc hcl hgs]
  · intro hcl
    have hr : Cycle.step false s.cyc .restart
        = ({ s.cyc with cycles := cancelAll s.cyc.cycles, gs := .new, gen := s.cyc.gen + 1 }, [Out.restarted (s.cyc.gen + 1)]) := by
      simp [Cycle.step, hcl]
    simp only [IceModel.Gather.step, hr]
    refine ⟨trivial, ?_, ?_⟩ <;> (rw [resume_cyc]; rfl)

open IceModel.Gather.Cycle in
/-- **Back-to-back calls.** Two `GatherCandidates` tasks that run before the first cycle's goroutine gets
its `setGatheringState(Gathering)` task through (both see state New, both are accepted): the second call
cancels the first cycle, whose goroutine then ends without marking Gathering — exactly one cycle starts.
From ANY state in New, with or without the re-check. (This is what the `gather2` operation of the
harness produces on the real agent by holding the task loop; the model's `step .gather2` is these four
transitions plus the gatherers of the one cycle that starts.) -/
theorem C18_back_to_back (r : Bool) (s : Cycle.State) (hc : s.closed = false) (hn : s.gs = GS.new) :
    (Cycle.run r s [.gather, .gather, .start s.cycles.length, .start (s.cycles.length + 1)]).2
      = [Out.accepted s.cycles.length s.gen, Out.accepted (s.cycles.length + 1) s.gen,
         Out.stateSet (s.cycles.length + 1) GS.gathering] := by
  simp [Cycle.run, Cycle.step, hc, hn, cancelAll, List.getElem?_append, Cycle.modify]

open IceModel.Gather.Cycle in
/-- the same with a `Restart` queued between the two calls: the cycle accepted before the Restart never
starts, the one accepted after it starts in the next generation -/
theorem C18_gather_restart_gather (r : Bool) (s : Cycle.State) (hc : s.closed = false) (hn : s.gs = GS.new) :
    (Cycle.run r s [.gather, .restart, .gather, .start s.cycles.length, .start (s.cycles.length + 1)]).2
      = [Out.accepted s.cycles.length s.gen, Out.restarted (s.gen + 1), Out.accepted (s.cycles.length + 1) (s.gen + 1),
         Out.stateSet (s.cycles.length + 1) GS.gathering] := by
  simp [Cycle.run, Cycle.step, hc, hn, cancelAll, List.getElem?_append, Cycle.modify]

open IceModel.Gather.Cycle in
/-- **Restart during continual gathering.** From ANY state in which cycle `c` is monitoring (its first pass is over,
it is not cancelled, the agent is open): a tick begins a re-gather pass of that cycle in the current generation;
after `Restart` the monitor's `select` only sees its cancelled context — it ends without a pass, a candidate the
cancelled pass still tries to add is refused — and the `GatherCandidates` that follows is accepted in the next
generation and starts a fresh cycle (with the re-check of `addCandidate`, and without it for an add that makes its
context check after the Restart). -/
theorem C18_restart_cancels_monitor (r : Bool) (s : Cycle.State) (c : Nat) (cy : Cyc) (hc : s.closed = false)
    (hk : s.continual = true) (hcy : s.cycles[c]? = some cy) (hm : cy.monitoring = true) (hap : cy.applied = true)
    (hf : cy.finished = false) (hl : cy.cancelled = false) :
    (Cycle.step r s (.tick c)).2 = [Out.regather c cy.gen]
    ∧ (Cycle.run r s [.restart, .tick c, .addCheck c, .gather, .start s.cycles.length]).2
      = [Out.restarted (s.gen + 1), Out.accepted s.cycles.length (s.gen + 1), Out.stateSet s.cycles.length GS.gathering] := by
  have hlt : c < s.cycles.length := (List.getElem?_eq_some_iff.1 hcy).1
  have hne : ¬ (s.cycles.length = c) := by omega
  have hget : s.cycles[c] = cy := (List.getElem?_eq_some_iff.1 hcy).2
  constructor
  · simp [Cycle.step, hcy, hm, hap, hf, hl, hc, hk]
  · simp [Cycle.run, Cycle.step, hc, hk, hcy, hm, hap, hf, cancelAll, List.getElem?_append, Cycle.modify, hlt,
      List.getElem?_modify, hne, hget]

/-- the model's agent runs check and hand-off back to back (as every quiescent point of the harness
does): from a state in which the cycle is outside the window the two variants cannot be told apart -/
theorem check_handoff_atomic (s : Cycle.State) (c : Nat) (cy : Cycle.Cyc) (hc : s.cycles[c]? = some cy)
    (hw : cy.inWindow = 0) :
    Cycle.run true s [.addCheck c, .addHandoff c] = Cycle.run false s [.addCheck c, .addHandoff c] := by
  by_cases h1 : (!cy.applied || cy.finished) = true
  · simp [Cycle.run, Cycle.step, hc, h1, hw]
  · by_cases h2 : (s.closed || cy.cancelled) = true
    · simp [Cycle.run, Cycle.step, hc, h1, h2, hw]
    · have h2' : s.closed = false ∧ cy.cancelled = false := by simpa using h2
      have hlt : c < s.cycles.length := (List.getElem?_eq_some_iff.1 hc).1
      simp [Cycle.run, Cycle.step, hc, h1, Cycle.modify, h2'.1, h2'.2, hw]

/-! ### non-vacuity -/

/-- a configuration and interface table on which soundness and completeness say something -/
def exCfg : Config := { candTypes := [.host, .srflx], netTypes := [.udp4, .tcp6], tcpMux := some none, stunUrls := 1 }
def exIfs : List Iface := [{ name := 0, up := true, loopback := false, addrs := [⟨.g4, 1⟩, ⟨.g6, 1⟩, ⟨.k6, 1⟩, ⟨.s6, 1⟩] }]

example : (allUnits exCfg exIfs).length = 4 := by decide
example : realAddrs exCfg exIfs = true := by decide
example : eligibleAddr exCfg exIfs ⟨.g4, 1⟩ = true ∧ eligibleAddr exCfg exIfs ⟨.s6, 1⟩ = false
    ∧ eligibleAddr exCfg exIfs ⟨.k6, 1⟩ = false := by decide
/-- the spec does reject candidates: the IPv6 UDP host candidate the unrepaired code (G1) publishes -/
example : candViolation exCfg exIfs { ty := .host, net := .udp6, addr := ⟨.g6, 1⟩ }
    = some "network type not enabled: host candidate gathered from the interface table" := by decide
/-- G1 in the model: with the quirk the unit exists, without it it does not -/
example : ({ kind := .hostUdp, net := .udp6, bind := ⟨.g6, 1⟩ } : GUnit) ∈ allUnits { exCfg with quirks := [1] } exIfs
    ∧ ({ kind := .hostUdp, net := .udp6, bind := ⟨.g6, 1⟩ } : GUnit) ∉ allUnits exCfg exIfs := by decide
/-- regression for the former excluded point C18-G7 (repaired): a pinned rule whose externals are site-local
(`fec0::1`), IPv4-compatible (`::10.1.0.1`) and a usable IPv4 address.  The first two would be rejected by the
spec, are not publishable (`supported6` test), and the agent model publishes only the third and has closed the
two sockets it opened for them (3 opens, 2 closes; the udp6 unit's unmatched wildcard `::` is turned away by the
same test: 1 more open and close) -/
def g7Cfg : Config := { candTypes := [.srflx], srflxPinned := some (true, [⟨.s6, 1⟩, ⟨.c6, 1⟩, ⟨.x4, 80⟩]) }
def g7Ifs : List Iface := [{ name := 0, up := true, loopback := false, addrs := [⟨.g4, 1⟩] }]

example : candViolation g7Cfg g7Ifs (unitCand g7Cfg { kind := .srflxMapped, net := .udp4, bind := unspec false, n := 3 } 0 0)
    = some "site-local or IPv4-compatible IPv6 address published" := by decide
example : publishable g7Cfg (unitCand g7Cfg { kind := .srflxMapped, net := .udp4, bind := unspec false, n := 3 } 0 0) = false
    ∧ publishable g7Cfg (unitCand g7Cfg { kind := .srflxMapped, net := .udp4, bind := unspec false, n := 3 } 1 0) = false
    ∧ publishable g7Cfg (unitCand g7Cfg { kind := .srflxMapped, net := .udp4, bind := unspec false, n := 3 } 2 0) = true := by
  decide
example : (match newAgent g7Cfg g7Ifs with
    | .ok s => let s' := (step s .gather).1
               (s'.cands.map (fun c => (c.d.net, c.d.addr)), s'.opens, s'.closes, s'.liveRes.length)
    | .error _ => ([], 9, 9, 9)) = ([(NetType.udp4, ⟨.x4, 80⟩)], 4, 3, 1) := by decide

/-- regression for the former excluded point (C18-G6, repaired): only udp4 enabled, pinned rule
`0.0.0.0 → [2001:db8:ffff::50]`.  The candidate would be rejected by the spec … -/
def g6Cfg : Config := { candTypes := [.srflx], netTypes := [.udp4], srflxPinned := some (true, [⟨.x6, 80⟩]) }
def g6Ifs : List Iface := [{ name := 0, up := true, loopback := false, addrs := [⟨.g4, 1⟩, ⟨.g6, 1⟩] }]

example : candViolation g6Cfg g6Ifs (unitCand g6Cfg { kind := .srflxMapped, net := .udp4, bind := unspec false } 0 0)
    = some "network type not enabled: server reflexive candidate" := by decide
/-- … and is not published: the `netType` test turns it away, `addCandidate` is never reached, … -/
example : publishable g6Cfg (unitCand g6Cfg { kind := .srflxMapped, net := .udp4, bind := unspec false } 0 0) = false := by
  decide
/-- … the agent model publishes nothing and has closed the socket it opened for it (1 open, 1 close), … -/
example : (match newAgent g6Cfg g6Ifs with
    | .ok s => let s' := (step s .gather).1
               (s'.cands.length, s'.evs.length, s'.opens, s'.closes, s'.liveRes.length, s'.cyc.gs)
    | .error _ => (9, 9, 9, 9, 9, Cycle.GS.new)) = (0, 0, 1, 1, 0, Cycle.GS.complete) := by decide
/-- … and that path of the program is balanced: listen, addresses, location filter, IPv6 class test, NewCandidate ok, network type refused -/
example : (srflxMappedProg 1).run [.ok, .ok, .ok, .ok, .ok, .fail] {} = some { slots := [.released], misuse := false } := by
  decide
example : IceProofs.GatherCyc.quiet {} [.gather, .start 0, .addCheck 0, .addHandoff 0, .complete 0, .restart, .gather] = true := by
  decide
example : (Cycle.run false {} [.gather, .start 0, .complete 0, .gather, .restart, .gather]).2
    = [.accepted 0 0, .stateSet 0 .gathering, .nilCand 0 0, .stateSet 0 .complete, .refused, .restarted 1, .accepted 1 1] := by
  decide

/-! ### host rewrite rules: the hypotheses of the completeness theorems are satisfiable, and C18-G8 -/

/-- replace-mode catch-all rule: IPv4 locals are published as `x4.70`, IPv6 locals as the site-local `s6.71`
(C18-G8: that one must not be published) and `x6.72` -/
def hrCfg : Config := { candTypes := [.host], hostRule := some { replace := true, exts := [⟨.x4, 70⟩, ⟨.s6, 71⟩, ⟨.x6, 72⟩] } }
def hrIfs : List Iface := [{ name := 0, up := true, loopback := false, addrs := [⟨.g4, 1⟩, ⟨.g6, 1⟩] },
                           { name := 1, up := true, loopback := false, addrs := [⟨.g4, 2⟩] }]

example : realAddrs hrCfg hrIfs = true := by decide
example : eligibleAddr hrCfg hrIfs ⟨.g6, 1⟩ = true ∧ acceptedIfacesOf hrCfg hrIfs ⟨.g6, 1⟩ = [0] := by decide
/-- the rule takes `g6.1` away and has it published as `s6.71` and `x6.72`; `g4.2` (interface 1) as `x4.70` -/
example : PublishedAs hrCfg ⟨.g6, 1⟩ (some 0) ⟨.x6, 72⟩ ∧ PublishedAs hrCfg ⟨.g6, 1⟩ (some 0) ⟨.s6, 71⟩
    ∧ ¬ PublishedAs hrCfg ⟨.g6, 1⟩ (some 0) ⟨.g6, 1⟩ ∧ PublishedAs hrCfg ⟨.g4, 2⟩ (some 1) ⟨.x4, 70⟩ := by
  refine ⟨Or.inr (by decide), Or.inr (by decide), ?_, Or.inr (by decide)⟩
  rintro (⟨_, h⟩ | h)
  · exact absurd h (by decide)
  · exact absurd h (by decide)
/-- with an interface-scoped rule the other interface's address stays in place -/
example : PublishedAs { hrCfg with hostRule := some { replace := true, iface := some 1, exts := [⟨.x4, 70⟩] } }
    ⟨.g4, 1⟩ (some 0) ⟨.g4, 1⟩ := Or.inl ⟨rfl, by decide⟩
/-- the units of the repaired model: socket on the local address, candidate on the mapped one; no unit for `s6.71` -/
example : (allUnits hrCfg hrIfs).map (fun u => (u.bind, u.mapped))
    = [(⟨.g4, 1⟩, ⟨.x4, 70⟩), (⟨.g6, 1⟩, ⟨.x6, 72⟩), (⟨.g4, 2⟩, ⟨.x4, 70⟩)] := by decide
/-- C18-G8 in the model: with the quirk the unit for the site-local external address exists and the spec
rejects its candidate; without the quirk it does not exist -/
example : ({ kind := .hostUdp, net := .udp6, bind := ⟨.g6, 1⟩, mapped := ⟨.s6, 71⟩ } : GUnit) ∈ allUnits { hrCfg with quirks := [8] } hrIfs
    ∧ ({ kind := .hostUdp, net := .udp6, bind := ⟨.g6, 1⟩, mapped := ⟨.s6, 71⟩ } : GUnit) ∉ allUnits hrCfg hrIfs := by decide
example : candViolation hrCfg hrIfs (unitCand hrCfg { kind := .hostUdp, net := .udp6, bind := ⟨.g6, 1⟩, mapped := ⟨.s6, 71⟩ } 0 0)
    = some "site-local or IPv4-compatible IPv6 address published" := by decide
/-- the spec looks at the SOCKET for the filter clause: a rewritten candidate whose socket sits on an address
no accepted interface carries is rejected -/
example : candViolation hrCfg hrIfs { ty := .host, net := .udp4, addr := ⟨.x4, 70⟩, base := some ⟨.g4, 9⟩ }
    = some "socket of the rewritten host candidate on an interface/address the filters or the loopback setting reject" := by decide
example : candViolation hrCfg hrIfs { ty := .host, net := .udp4, addr := ⟨.x4, 99⟩, base := some ⟨.g4, 1⟩ }
    = some "host candidate publishes an address that is neither its socket's nor an external address of the host rewrite rule" := by
  decide
/-- the agent model on that configuration: three sockets, three candidates (the two IPv4 ones differ by their port) -/
example : (match newAgent hrCfg hrIfs with
    | .ok s => let s' := (step s .gather).1
               (s'.cands.map (fun c => (c.d.net, c.d.addr, c.d.base)), s'.opens, s'.closes)
    | .error _ => ([], 9, 9))
    = ([(NetType.udp4, ⟨.x4, 70⟩, some ⟨.g4, 1⟩), (NetType.udp6, ⟨.x6, 72⟩, some ⟨.g6, 1⟩), (NetType.udp4, ⟨.x4, 70⟩, some ⟨.g4, 2⟩)], 3, 0) := by
  decide
/-- … and with a single-port range the second IPv4 candidate is a duplicate: its socket is closed at once -/
example : (match newAgent { hrCfg with portMin := 5000, portMax := 5000 } hrIfs with
    | .ok s => let s' := (step s .gather).1
               (s'.cands.map (fun c => (c.d.addr, c.d.base)), s'.opens, s'.closes, s'.liveRes.length)
    | .error _ => ([], 9, 9, 9))
    = ([(⟨.x4, 70⟩, some ⟨.g4, 1⟩), (⟨.x6, 72⟩, some ⟨.g6, 1⟩)], 3, 1, 2) := by decide
/-- the constructor refuses a host rule in mDNS gather mode and without the host candidate type -/
example : (match newAgent { hrCfg with mdnsGather := true } hrIfs with | .error e => some e | .ok _ => none) = some .mdnsRewrite
    ∧ (match newAgent { hrCfg with candTypes := [.srflx] } hrIfs with | .error e => some e | .ok _ => none) = some .ineffectiveHost := by
  decide

/-! ### continual gathering: an address appears and disappears (non-vacuity of the extended theorems) -/

def cgCfg : Config := { candTypes := [.host], continual := true, monIntervalMs := 733 }
def cgIfs (as : List Addr) : List Iface := [{ name := 0, up := true, loopback := false, addrs := as }]

/-- the model on: gather; `g4.2` appears; the clock stops 1 ms before the tick, then reaches it; `g4.1` disappears;
a tick; `g4.1` comes back; a tick; Restart; two more ticks' worth of time -/
def cgRun : List Op := [.gather, .ifaces (cgIfs [⟨.g4, 1⟩, ⟨.g4, 2⟩]), .adv 732, .adv 1, .ifaces (cgIfs [⟨.g4, 2⟩]), .adv 733,
  .ifaces (cgIfs [⟨.g4, 1⟩, ⟨.g4, 2⟩]), .adv 733, .restart, .adv 1466]

/-- what the model publishes after each prefix: (published addresses, opens, closes, gathering state, nil count) -/
def cgTrace (n : Nat) : List Addr × Nat × Nat × Cycle.GS × Nat :=
  match newAgent cgCfg (cgIfs [⟨.g4, 1⟩]) with
  | .ok s =>
    let s' := IceProofs.GatherAgent.runOps s (cgRun.take n)
    (s'.cands.map (·.d.addr), s'.opens, s'.closes, s'.cyc.gs, s'.nilsGen)
  | .error _ => ([], 9, 9, .new, 9)

/-- the first pass does not complete: state Gathering, no nil candidate -/
example : cgTrace 1 = ([⟨.g4, 1⟩], 1, 0, .gathering, 0) := by decide
/-- 1 ms before the first tick the new address has no candidate yet … -/
example : cgTrace 3 = ([⟨.g4, 1⟩], 1, 0, .gathering, 0) := by decide
/-- … the tick finds it and re-gathers EVERYTHING: a second socket and candidate for `g4.1`, the first for `g4.2` -/
example : cgTrace 4 = ([⟨.g4, 1⟩, ⟨.g4, 1⟩, ⟨.g4, 2⟩], 3, 0, .gathering, 0) := by decide
/-- an address that disappears: no pass, its candidates and sockets stay -/
example : cgTrace 6 = ([⟨.g4, 1⟩, ⟨.g4, 1⟩, ⟨.g4, 2⟩], 3, 0, .gathering, 0) := by decide
/-- … it comes back: it is new again, one more pass -/
example : cgTrace 8 = ([⟨.g4, 1⟩, ⟨.g4, 1⟩, ⟨.g4, 2⟩, ⟨.g4, 1⟩, ⟨.g4, 2⟩], 5, 0, .gathering, 0) := by decide
/-- Restart releases everything and cancels the monitor: no pass afterwards -/
example : cgTrace 10 = ([], 5, 5, .new, 0) := by decide
/-- the hypothesis of `C18_sound_reachable` holds for this run: every table it has is one of real addresses -/
example : ∀ T ∈ cgIfs [⟨.g4, 1⟩] :: IceProofs.GatherProv.opTables cgRun, realAddrs cgCfg T = true := by decide
/-- the code WITH finding C18-G10 (`quirks := [10]`): `g4.2` known to the first cycle, gone at the Restart, back
afterwards — never gathered again in the new generation -/
example : (match newAgent { cgCfg with quirks := [10] } (cgIfs [⟨.g4, 1⟩, ⟨.g4, 2⟩]) with
    | .ok s => ((IceProofs.GatherAgent.runOps s [.gather, .ifaces (cgIfs [⟨.g4, 1⟩]), .restart, .gather,
        .ifaces (cgIfs [⟨.g4, 1⟩, ⟨.g4, 2⟩]), .adv 733, .adv 733]).cands.map (·.d.addr))
    | .error _ => []) = [⟨.g4, 1⟩] := by decide
/-- … the repaired code gathers it at the first tick -/
example : (match newAgent cgCfg (cgIfs [⟨.g4, 1⟩, ⟨.g4, 2⟩]) with
    | .ok s => ((IceProofs.GatherAgent.runOps s [.gather, .ifaces (cgIfs [⟨.g4, 1⟩]), .restart, .gather,
        .ifaces (cgIfs [⟨.g4, 1⟩, ⟨.g4, 2⟩]), .adv 733]).cands.map (·.d.addr))
    | .error _ => []) = [⟨.g4, 1⟩, ⟨.g4, 1⟩, ⟨.g4, 2⟩] := by decide
/-- the monitor judges a host candidate delivered now against the table in force now: `g4.1` after it disappeared -/
example : soundViolation cgCfg [cgIfs [⟨.g4, 2⟩], cgIfs [⟨.g4, 1⟩]] (cgIfs [⟨.g4, 2⟩])
    { evs := [({ ty := .host, net := .udp4, addr := ⟨.g4, 1⟩ }, some 0)] }
    = some "host candidate on an interface/address the filters or the loopback setting reject" := by decide
/-- … but accepts it in the LIST: it was gathered under the earlier table -/
example : soundViolation cgCfg [cgIfs [⟨.g4, 2⟩], cgIfs [⟨.g4, 1⟩]] (cgIfs [⟨.g4, 2⟩])
    { cands := [({ ty := .host, net := .udp4, addr := ⟨.g4, 1⟩ }, some 0)] } = none := by decide
/-- the cycle machine with the continual policy: the first pass ends in `monitorStarted`, a tick begins a pass, Restart
ends the monitor, never a nil candidate -/
example : (Cycle.run false { continual := true } [.gather, .start 0, .complete 0, .tick 0, .addCheck 0, .addHandoff 0,
      .restart, .tick 0, .gather, .start 1]).2
    = [.accepted 0 0, .stateSet 0 .gathering, .monitorStarted 0, .regather 0 0, .published 0 0 0, .restarted 1,
       .accepted 1 1, .stateSet 1 .gathering] := by decide

/-! ### code ties (T): the address-class and network-type tests are REGENERATED from net.go / gather.go /
networktype.go on every run (`IceGen.T_Gather`) and proved equal to the tests the model uses -/

/-- `isSupportedIPv6Partial` (net.go): for EVERY 16-byte address whose bytes lie in the range of its class
(`IceTie.Gather.Bytes6`: `::/96`, `fe80::/10`, `fec0::/10`, the rest) the Go function returns the model's
`supported6` — and therefore the IPv6 branch of the model's per-address test `addrAccepted` of `localInterfaces`
is the Go test -/
theorem C18_code_supported6 (cfg : Config) (nts : List NetType) (a : Addr) (zeros12 : Bool) (b0 b1 : UInt8)
    (h : IceTie.Gather.Bytes6 a.cls zeros12 b0 b1) :
    IceGen.isSupportedIPv6Partial 16 zeros12 b0 b1 = a.cls.supported6 ∧
    addrAccepted cfg nts a =
      (!(a.cls.isLoopback && !cfg.includeLoopback)
       && (if a.cls.is6 then v6Requested nts && IceGen.isSupportedIPv6Partial 16 zeros12 b0 b1 else v4Requested nts)
       && ipFilterAccepts cfg a) := by
  have e := IceTie.Gather.isSupportedIPv6Partial_tie a.cls zeros12 b0 b1 h
  exact ⟨e, by rw [e]; rfl⟩

/-- the location-tracking filter (`shouldFilterLocationTrackedIP`, gather.go; `isIPv6LinkLocal`, addr.go) on the
`netip` predicates of a class is the model's `isLinkLocal6`; `shouldFilterLocationTracked` applies it to the
unmapped address of a well-formed slice only -/
theorem C18_code_location_filter (c : AddrClass) :
    IceGen.shouldFilterLocationTrackedIP c.is6 (IceTie.Gather.LinkLocalUnicast c) false = c.isLinkLocal6 ∧
    IceGen.isIPv6LinkLocal c.is6 (IceTie.Gather.LinkLocalUnicast c) false = c.isLinkLocal6 ∧
    (∀ ok f, IceGen.shouldFilterLocationTracked ok f = (ok && f)) :=
  ⟨IceTie.Gather.shouldFilterLocationTrackedIP_tie c, IceTie.Gather.isIPv6LinkLocal_tie c,
   IceTie.Gather.shouldFilterLocationTracked_tie⟩

/-- `hostNetworkTypeEnabled` ∘ `determineNetworkType` ∘ `networkTypeEnabled` (gather.go, networktype.go), composed
as the code composes them, is the model's `hostNetEnabled` (fixes of G1/G2) for every configured list,
transport and address -/
theorem C18_code_host_network_type (nts : List NetType) (tcp : Bool) (a : Addr) :
    IceGen.hostNetworkTypeEnabled (nts.map IceTie.Gather.code)
        (IceGen.determineNetworkType (!tcp) tcp (!a.cls.is6)).1 (IceGen.determineNetworkType (!tcp) tcp (!a.cls.is6)).2
      = hostNetEnabled nts tcp a :=
  IceTie.Gather.hostNetworkTypeEnabled_tie nts tcp a

/-- `configuredNetworkTypes` (gather.go) with `supportedNetworkTypes` (networktype.go) on a sanitized list is the
model's `configured` -/
theorem C18_code_configured_network_types (nts : List NetType) :
    IceGen.configuredNetworkTypes (nts.eraseDups.map IceTie.Gather.code) = (configured nts).map IceTie.Gather.code :=
  IceTie.Gather.configuredNetworkTypes_tie nts

/-- non-vacuity: `fec0::1` (site-local) and `::10.1.0.1` are rejected, `2001:db8::1` and `fe80::1` accepted, a 4-byte
slice rejected; `fe80::1` is location tracked; tcp on an IPv6 address needs tcp6 -/
example : IceGen.isSupportedIPv6Partial 16 false 0xfe 0xc0 = false ∧ IceGen.isSupportedIPv6Partial 16 true 0 0 = false ∧
    IceGen.isSupportedIPv6Partial 16 false 0x20 0x01 = true ∧ IceGen.isSupportedIPv6Partial 16 false 0xfe 0x80 = true ∧
    IceGen.isSupportedIPv6Partial 4 false 10 1 = false := by decide
example : IceTie.Gather.Bytes6 .s6 false 0xfe 0xd0 ∧ IceTie.Gather.Bytes6 .k6 false 0xfe 0xbf ∧
    IceTie.Gather.Bytes6 .g6 false 0xfd 0 ∧ IceTie.Gather.Bytes6 .c6 true 0 0 := by
  simp [IceTie.Gather.Bytes6]
example : IceGen.shouldFilterLocationTrackedIP true true false = true ∧
    IceGen.shouldFilterLocationTrackedIP false true false = false := by decide
example : IceGen.hostNetworkTypeEnabled [1, 3] (IceGen.determineNetworkType false true false).1
      (IceGen.determineNetworkType false true false).2 = false ∧
    IceGen.hostNetworkTypeEnabled [1, 4] (IceGen.determineNetworkType false true false).1
      (IceGen.determineNetworkType false true false).2 = true := by decide
example : IceGen.configuredNetworkTypes [] = [1, 2, 3, 4] ∧ IceGen.configuredNetworkTypes [3] = [3] := by decide

/-! ### UDP mux host candidates under the mDNS name (F34 fixed): real family, real address -/

def mdMuxCfg : Config := { candTypes := [.host], mdnsGather := true, udpMux := some [⟨.c6, 3⟩, ⟨.c6, 4⟩, ⟨.k6, 2⟩] }

/-- the IPv4-compatible listen addresses are excluded, the link-local one yields the one candidate: udp6, address `k6.2`,
announced under the mDNS name, on the mux port -/
example : (match newAgent mdMuxCfg (cgIfs [⟨.g4, 1⟩]) with
    | .ok s => ((step s .gather).1.cands.map fun c => (c.d.net, c.d.addr, c.d.mdns, c.d.pflag, c.d.resolved))
    | .error _ => []) = [(NetType.udp6, ⟨.k6, 2⟩, true, PFlag.M, true)] := by decide
/-- what the code published before the fix (udp4, no address) is rejected when udp4 is not enabled -/
example : candViolation { mdMuxCfg with netTypes := [.udp6] } (cgIfs [⟨.g4, 1⟩])
    { ty := .host, net := .udp4, addr := ⟨.k6, 2⟩, mdns := true, pflag := .M }
    = some "network type not enabled: host candidate borrowed from the UDP mux" := by decide
/-- … and its digest without a transport address is rejected by the C03 clause of the gather component -/
example : IceSpec.C03Gather.addrViolation
    { cands := [({ ty := .host, net := .udp4, addr := ⟨.nm, 0⟩, mdns := true, pflag := .M, resolved := false }, some 0)] }
    ≠ none := by decide
/-- several listen addresses in mDNS mode: `existingConfigs` is keyed by (name, port), only the first admissible one counts -/
example : (match newAgent { mdMuxCfg with udpMux := some [⟨.g6, 1⟩, ⟨.g4, 1⟩], netTypes := [.udp4] } (cgIfs [⟨.g4, 1⟩]) with
    | .ok s => ((step s .gather).1.cands.map fun c => (c.d.net, c.d.addr), (step s .gather).1.opens)
    | .error _ => ([], 9)) = ([(NetType.udp4, ⟨.g4, 1⟩)], 1) := by decide

/-! ### active ICE-TCP candidates (the only local candidates published outside a gathering cycle) -/

/-- **Soundness of the active ICE-TCP path.**  For every configuration and any number of eligible local addresses,
every local candidate the agent publishes when a remote passive TCP candidate is added passes the C18 clauses: it is a
host candidate only if the host candidate type is enabled, its network type is enabled, and it is published under the
mDNS name exactly in mDNS gather mode.  (Repaired code: without finding C18-G13, see the witness.) -/
theorem C18_active_tcp_sound (c : IceModel.ActiveTcp.Cfg) (h13 : c.g13 = false) (n : Nat) :
    IceSpec.C18Active.violation c (IceModel.ActiveTcp.publish c n) = none := by
  unfold IceSpec.C18Active.violation
  rw [List.findSome?_eq_none_iff]
  intro p hp
  unfold IceModel.ActiveTcp.publish at hp
  rw [h13] at hp
  rcases c with ⟨host, net, dis, md, g13⟩
  cases host <;> cases net <;> cases dis <;> cases md <;>
    simp [List.mem_replicate] at hp <;>
    (obtain ⟨_, rfl⟩ := hp; simp [IceSpec.C18Active.pubViolation])

/-- nothing is published with `WithDisableActiveTCP`, for a disabled network type, or without the host candidate type -/
theorem C18_active_tcp_none (c : IceModel.ActiveTcp.Cfg) (h13 : c.g13 = false) (n : Nat)
    (h : c.disableActive = true ∨ c.netEnabled = false ∨ c.host = false) :
    IceModel.ActiveTcp.publish c n = [] := by
  unfold IceModel.ActiveTcp.publish
  rcases c with ⟨host, net, dis, md, g13⟩
  simp only at h h13
  subst h13
  cases host <;> cases net <;> cases dis <;> simp at h ⊢

/-- the code with finding C18-G13 (no test of the host candidate type, raw interface addresses): an agent configured
for server-reflexive candidates only publishes a host candidate, and an agent in mDNS gather mode exposes the address -/
theorem C18_active_tcp_G13_witness :
    ¬ (∀ (c : IceModel.ActiveTcp.Cfg) (n : Nat), IceSpec.C18Active.violation c (IceModel.ActiveTcp.publish c n) = none) := by
  intro h
  have := h { host := false, netEnabled := true, disableActive := false, mdnsGather := false, g13 := true } 1
  exact absurd this (by decide)

example : IceModel.ActiveTcp.publish { host := true, netEnabled := true, disableActive := false, mdnsGather := true } 2
    = [{ isHost := true, named := true, active := true }, { isHost := true, named := true, active := true }] := by decide
example : IceSpec.C18Active.violation { host := true, netEnabled := true, disableActive := false, mdnsGather := true, g13 := true }
    (IceModel.ActiveTcp.publish { host := true, netEnabled := true, disableActive := false, mdnsGather := true, g13 := true } 1)
    = some "interface address exposed in mDNS gather mode (active ICE-TCP candidate)" := by decide


/-! ## Tie to the code (T, round 4): the `GatherCandidates` task and the start of the gathering goroutine (`IceGen.T_Lifecycle`) -/

/-- a second `GatherCandidates` without Restart is refused with nothing but the error; an accepted one cancels the previous cycle
first and starts a new one — the model's `gatherCall`; a cycle cancelled before its Gathering task ends without gathering — the
model's `cycleStart` -/
theorem C18_code_gather_task :
    (∀ state noHandler, IceGen.agent_GatherCandidates_task state noHandler
      = if state != 1 then [IceModel.Eff.set "gatherErr" (IceModel.Val.s "ErrMultipleGatherAttempted")]
        else if noHandler then [IceModel.Eff.set "gatherErr" (IceModel.Val.s "ErrNoOnCandidateHandler")]
        else IceTie.Lifecycle.acceptEffs) ∧
    (∀ s : IceModel.GatherCycle.State, s.closed = false →
      IceModel.GatherCycle.step s .gatherCall =
        if s.gstate ≠ .new then some s
        else some { s with cycles := IceModel.GatherCycle.cancelCur s ++ [{ ufrag := s.ufrag }],
                           cur := some (IceModel.GatherCycle.cancelCur s).length }) ∧
    (∀ (s : IceModel.GatherCycle.State) (cidx : Nat) (cy : IceModel.GatherCycle.Cycle),
      s.cycles[cidx]? = some cy → cy.pc = .start → s.closed = false → cy.cancelled = true →
      IceModel.GatherCycle.step s (.cycleStart cidx) = some { s with cycles := s.cycles.set cidx { cy with pc := .done } }) ∧
    (∀ policy, IceGen.agent_gatherCandidates false false policy
      = [IceTie.Lifecycle.deferClose, IceTie.Lifecycle.deferWait, IceTie.Lifecycle.c "setGatheringState(Gathering)"]) :=
  ⟨IceTie.Lifecycle.GatherCandidates_task_tie, IceTie.Lifecycle.gatherCall_model, IceTie.Lifecycle.cycleStart_cancelled_model,
   fun policy => by rw [IceTie.Lifecycle.gatherCandidates_tie]; rfl⟩

example : IceGen.agent_GatherCandidates_task 1 true = [IceModel.Eff.set "gatherErr" (IceModel.Val.s "ErrNoOnCandidateHandler")] := by decide

end IceProps.C18
