import IceTie.Options
import IceTie.AgentDefaults
import IceTie.AgentTick
import IceTie.AgentDispatch
import IceTie.AgentSwitch
import IceTie.AgentSuccess
import IceTie.AgentSelector
import IceProofs.AgentC03Own
import IceTie.Addr
/-!
# C03 — only validated and nominated pairs are ever selected

Property theorems only (lemmas: `IceProofs/AgentC03*.lean`; tie: `IceTie/AgentSwitch.lean`).  They are about
the executable model `IceModel.AgentCore.step`, for EVERY state reachable from an initial agent (empty
checklist / candidate lists, nothing selected, arbitrary configuration) by an ARBITRARY event list: the
peer is an arbitrary source of messages (`Ev.inbound` with any `Msg` at any time), so early, repeated or
conflicting USE-CANDIDATE, forged or replayed responses, role conflicts, … are covered by the quantifier.

Ghost fields of a pair (never read by `step`): `gReq` / `gNomReq` — an authenticated Binding request
(… carrying USE-CANDIDATE or a nomination value) arrived on it; `gResp` / `gRespUC` — an authenticated,
transaction-matched success response (… to a request of ours that carried USE-CANDIDATE) arrived on it.
-/
namespace IceProps.C03
open IceModel.AgentCore IceProofs.C03 IceTie.AgentSwitch

/-! ## Concrete histories used by the non-vacuity examples -/

-- (glue) decidable equality of outputs, so that examples about emitted datagrams can be evaluated
deriving instance DecidableEq for Out

def lc : Cand := { uid := 0, ty := 1, net := 0, addr := 16, prio := 2130706431 }
def rc1 : Cand := { uid := 0, ty := 1, net := 0, addr := 32, prio := 2130706431 }
def rc2 : Cand := { uid := 0, ty := 1, net := 0, addr := 48, prio := 2130706175 }
def full0 : Agent := { localUfrag := "L", localPwd := "lp" }
def lite0 : Agent := { localUfrag := "L", localPwd := "lp", cfg := { lite := true } }
/-- authenticated request carrying USE-CANDIDATE (peer claims the controlling role) -/
def ucReq (tid : Nat) : Msg :=
  { cls := 0, tid := tid, user := some "L:R", key := some "lp", useCand := true, role := some (true, 5), prio := some 100 }
def okResp (tid : Nat) : Msg := { cls := 2, tid := tid, key := some "rp" }
/-- authenticated request whose role attribute conflicts with a controlled agent of tie-breaker 0 -/
def conflictReq : Msg :=
  { cls := 0, tid := 1001, user := some "L:R", key := some "lp", role := some (false, 0), prio := some 100 }

/-- controlling side: check, response, nomination (USE-CANDIDATE) at the 200 ms tick -/
def evsCtl : List Ev :=
  [.addLocal 0 lc, .addRemote 0 rc1, .start 0 true "R" "rp", .inbound 1 16 32 (okResp 2), .advance 300000000]
/-- controlled side: USE-CANDIDATE arrives before the pair is valid -/
def evsCld : List Ev := [.addLocal 0 lc, .addRemote 0 rc1, .start 0 false "R" "rp", .inbound 1 16 32 (ucReq 1001)]
/-- controlled, two pairs, the lower-priority pair 2 selected, the higher pair 1 valid -/
def evsDown : List Ev :=
  [.addLocal 0 lc, .addRemote 0 rc1, .addRemote 0 rc2, .start 0 false "R" "rp",
   .inbound 1 16 48 (ucReq 1001), .inbound 2 16 48 (okResp 4), .inbound 3 16 32 (okResp 2)]
/-- … the higher pair 1 nominated before it is valid -/
def evsDown2 : List Ev :=
  [.addLocal 0 lc, .addRemote 0 rc1, .addRemote 0 rc2, .start 0 false "R" "rp",
   .inbound 1 16 48 (ucReq 1001), .inbound 2 16 48 (okResp 4), .inbound 3 16 32 (ucReq 1002)]

-- the histories above start from initial agents, so their end states are `Reachable`
example : Reachable (run full0 evsCld) := ⟨full0, evsCld, ⟨rfl, rfl, rfl, rfl⟩, rfl⟩
example : Reachable (run lite0 (evsCld.take 3)) := ⟨lite0, evsCld.take 3, ⟨rfl, rfl, rfl, rfl⟩, rfl⟩

/-! ## The invariant -/

/-- `Inv3` holds in every reachable state … -/
theorem C03_invariant (a : Agent) (h : Reachable a) : Inv3 a := Inv3_reachable h

/-- … because it holds initially and EVERY step preserves it (from any state satisfying it). -/
theorem C03_invariant_step (a : Agent) (e : Ev) (h : Inv3 a) : Inv3 (step a e).1 := Inv3_step e h

/-- What `Inv3` says, spelled out. For every listed pair `p`: full agent — valid ⇒ an authenticated,
transaction-matched success response arrived on it (lite agent: … or it was validated by an authenticated
nomination); a deferred nomination mark ⇒ an authenticated nominating request arrived on it; a USE-CANDIDATE
response is a response. The selected pair is listed, valid, nominated, has its response (unless the agent is
lite) and a nomination proof. Pair ids are unique. -/
theorem C03_invariant_spec (a : Agent) (h : Inv3 a) :
    (∀ p ∈ a.checklist,
      (a.cfg.lite = false → p.state = .succeeded → p.gResp = true) ∧
      (p.state = .succeeded → p.gResp = true ∨ (a.cfg.lite = true ∧ p.gNomReq = true)) ∧
      (p.nomOnSuccess = true → p.gNomReq = true) ∧
      (p.gRespUC = true → p.gResp = true)) ∧
    (∀ id, a.selected = some id → ∃ sp, a.pairById id = some sp ∧ sp.state = .succeeded ∧ sp.nominated = true ∧
      (a.cfg.lite = true ∨ sp.gResp = true) ∧ (sp.gRespUC = true ∨ sp.gNomReq = true)) ∧
    (∀ p ∈ a.checklist, ∀ q ∈ a.checklist, p.id = q.id → p = q) := by
  refine ⟨?_, ?_, fun p hp q hq e => mem_unique h.ids hp hq e⟩
  · intro p hp
    have hk := h.pairs p hp
    refine ⟨fun hl hs => ?_, hk.valid, hk.deferred, hk.respUC⟩
    rcases hk.valid hs with h1 | ⟨h1, _⟩
    · exact h1
    · rw [hl] at h1; cases h1
  · intro id hs
    obtain ⟨sp, hsp, hid, hk⟩ := h.sel id hs
    refine ⟨sp, hid ▸ pairById_of_mem h.ids hsp, hk.succ, hk.nominated, ?_, hk.nom⟩
    rcases (h.pairs sp hsp).valid hk.succ with h1 | ⟨h1, _⟩
    · exact Or.inr h1
    · exact Or.inl h1

example : (run full0 evsCld).checklist ≠ [] ∧ (run full0 (evsCld ++ [.inbound 2 16 32 (okResp 4)])).selected = some 1 := by
  decide

/-- Ghost flags and validity are monotone: as long as a pair id stays listed they are never reset by any
step (also across prflx supersession, which keeps the id). -/
theorem C03_ghost_monotone (a : Agent) (h : Reachable a) (e : Ev) (p p' : Pair) (hp : p ∈ a.checklist)
    (hp' : p' ∈ (step a e).1.checklist) (hid : p'.id = p.id) :
    (p.gReq = true → p'.gReq = true) ∧ (p.gNomReq = true → p'.gNomReq = true) ∧
    (p.gResp = true → p'.gResp = true) ∧ (p.gRespUC = true → p'.gRespUC = true) ∧
    (p.state = .succeeded → p'.state = .succeeded) := by
  have hi := Inv3_reachable h
  have := ((step_hsel a e).rel hi).flag_transfer hi hp hp' hid
  exact ⟨this.gReq, this.gNomReq, this.gResp, this.gRespUC, this.succ⟩

example : ∃ p ∈ (run full0 evsCld).checklist, p.gNomReq = true := by decide

/-! ## Selection -/

/-- **Only validated and nominated pairs become selected.** Full agent, any reachable state, any event:
if pair `id` BECOMES the selected pair in this step then (1) the role did not change in this step (so "the
role" below is the pre- and the post-state role), (2) in the post-state the pair is listed, valid, nominated
and has an authenticated transaction-matched success response of its own, and (3) controlling role: that
response answered a request of ours that carried USE-CANDIDATE; controlled role: an authenticated request
with USE-CANDIDATE (or a nomination value) was received on this very pair. -/
theorem C03_selected_valid_nominated (a : Agent) (h : Reachable a) (e : Ev) (id : Nat)
    (hfull : a.cfg.lite = false)
    (hsel : (step a e).1.selected = some id) (hnew : a.selected ≠ some id) :
    (step a e).1.controlling = a.controlling ∧
    ∃ p, (step a e).1.pairById id = some p ∧ p.state = .succeeded ∧ p.nominated = true ∧ p.gResp = true ∧
      (if (step a e).1.controlling then p.gRespUC = true else p.gNomReq = true) := by
  have hi := Inv3_reachable h
  have hS := step_hsel a e
  have hi' := hS.inv hi
  obtain ⟨hc, p1, hp1, hid1, hn1⟩ := hS.sel hi id hsel hnew
  obtain ⟨p, hp, hid, hk⟩ := hi'.sel id hsel
  have e1 : p1 = p := mem_unique hi'.ids hp1 hp (hid1.trans hid.symm)
  subst e1
  refine ⟨hc, p1, hid ▸ pairById_of_mem hi'.ids hp, hk.succ, hk.nominated, ?_, ?_⟩
  · rcases (hi'.pairs p1 hp).valid hk.succ with h1 | ⟨h1, _⟩
    · exact h1
    · rw [hS.cfg, hfull] at h1; cases h1
  · rw [hc]; exact hn1

/-- A role flip (role conflict, `start`) and a new selection never happen in the same step. -/
theorem C03_role_flip_keeps_selection (a : Agent) (h : Reachable a) (e : Ev)
    (hflip : (step a e).1.controlling ≠ a.controlling) (id : Nat) (hsel : (step a e).1.selected = some id) :
    a.selected = some id := by
  apply Classical.byContradiction
  intro hnew
  exact hflip ((step_hsel a e).sel (Inv3_reachable h) id hsel hnew).1

-- controlling side: the response to the USE-CANDIDATE check (tid 4) selects pair 1
example : (run full0 evsCtl).selected = none ∧ (run full0 evsCtl).controlling = true ∧
    (step (run full0 evsCtl) (.inbound 300000001 16 32 (okResp 4))).1.selected = some 1 := by decide
-- controlled side: the response to its own check (tid 2) selects the pair nominated earlier
example : (run full0 evsCld).selected = none ∧ (run full0 evsCld).controlling = false ∧
    (step (run full0 evsCld) (.inbound 2 16 32 (okResp 2))).1.selected = some 1 := by decide

/-! ## USE-CANDIDATE is only sent by a controlling agent -/

/-- Every Binding request emitted in a step carries the role the agent has AFTER the step (a role flip
happens before anything is sent in that step), and a request with USE-CANDIDATE carries ICE-CONTROLLING:
it was built while controlling. Holds from ANY state. -/
theorem C03_controlled_never_sends_use_candidate (a : Agent) (e : Ev) (f t : Nat) (m : Msg)
    (hm : Out.dgram f t m ∈ (step a e).2) (hreq : m.cls = 0) :
    (∃ tb, m.role = some ((step a e).1.controlling, tb)) ∧
    (m.useCand = true → (step a e).1.controlling = true ∧ ∃ tb, m.role = some (true, tb)) := by
  obtain ⟨⟨tb, hr⟩, hu⟩ := (step_hsel a e).out f t m hm hreq
  exact ⟨⟨tb, hr⟩, fun h => ⟨hu h, tb, by rw [hr, hu h]⟩⟩

/-- `RenominateCandidate` on a controlled agent is refused: nothing is sent, nothing changes. -/
theorem C03_controlled_renominate_sends_nothing (a : Agent) (now la ri v : Nat) (hc : a.controlling = false) :
    step a (.renominate now la ri v) = (a, [.res "err:notcontrolling"]) := by
  simp [step, hc]

/-- the USE-CANDIDATE check the controlling agent of `evsCtl` sends at its 200 ms tick -/
def nominationCheck : Msg :=
  { cls := 0, tid := 4, user := some "R:L", key := some "rp", prio := some 2130706431, useCand := true, role := some (true, 0) }

example : Out.dgram 16 32 nominationCheck ∈ (step (run full0 (evsCtl.take 4)) (.advance 300000000)).2 := by
  decide

/-! ## The priority guard -/

/-- **A plain USE-CANDIDATE never moves the selection downward.** Agent with the priority check (full, or
lite with `useCandCheckPriority`), reachable state, an inbound STUN message that moves the selection from
pair `pid` to a different pair `qid`, where the message is plain: a request without nomination value, or a
success response on a pair whose deferred nomination carried no value (and, for an agent that is
controlling, whose own request carried none — value-carrying nominations are renomination, C20). Then
`pairPrio pid ≤ pairPrio qid`, both evaluated in the POST-state (the pair `qid` may have been created in
this very step by a lite agent; both pairs are listed there: `qid` is selected, and the statement is about
every listed pair with these ids). -/
theorem C03_no_downward_switch (a : Agent) (h : Reachable a) (now la src : Nat) (m : Msg) (pid qid : Nat)
    (hneed : needsPrioCheck a.cfg = true)
    (hplainReq : m.cls = 0 → m.nom = none)
    (hplainResp : m.cls = 2 → (∀ q0 ∈ a.checklist, q0.id = qid → q0.deferredNom = none) ∧
      (∀ pd ∈ a.pending, pd.tid = m.tid → pd.nom = none))
    (hs : a.selected = some pid) (hs' : (step a (.inbound now la src m)).1.selected = some qid)
    (hne : pid ≠ qid) :
    ∀ p ∈ (step a (.inbound now la src m)).1.checklist, ∀ q ∈ (step a (.inbound now la src m)).1.checklist,
      p.id = pid → q.id = qid →
      (step a (.inbound now la src m)).1.pairPrio p ≤ (step a (.inbound now la src m)).1.pairPrio q :=
  (step_inbound_down a now la src m (Inv3_reachable h) hneed hplainReq hplainResp hs hs' hne).1.concl

/-- … strictly upward on the immediate path (the USE-CANDIDATE request itself moves the selection). -/
theorem C03_no_downward_switch_immediate (a : Agent) (h : Reachable a) (now la src : Nat) (m : Msg)
    (pid qid : Nat) (hneed : needsPrioCheck a.cfg = true) (hreq : m.cls = 0) (hplain : m.nom = none)
    (hs : a.selected = some pid) (hs' : (step a (.inbound now la src m)).1.selected = some qid)
    (hne : pid ≠ qid) :
    ∀ p ∈ (step a (.inbound now la src m)).1.checklist, ∀ q ∈ (step a (.inbound now la src m)).1.checklist,
      p.id = pid → q.id = qid →
      (step a (.inbound now la src m)).1.pairPrio p < (step a (.inbound now la src m)).1.pairPrio q :=
  ((step_inbound_down a now la src m (Inv3_reachable h) hneed (fun _ => hplain)
    (fun h2 => by rw [hreq] at h2; cases h2) hs hs' hne).2 hreq).concl

/-- A step that ends with a selected pair has dropped no pair (pairs only disappear by the wipes of
connection state Failed / Restart, which clear the selection): in particular when the selection moves from
`pid` to `qid` BOTH are listed in the post-state, so the comparisons above are never vacuous. -/
theorem C03_pairs_stay_listed (a : Agent) (h : Reachable a) (e : Ev) (hsel : (step a e).1.selected ≠ none) :
    (∀ p ∈ a.checklist, ∃ p' ∈ (step a e).1.checklist, p'.id = p.id) ∧
    (∀ pid, a.selected = some pid → ∃ p' ∈ (step a e).1.checklist, p'.id = pid) := by
  have hi := Inv3_reachable h
  have hf := (step_hsel a e).fwd hi hsel
  refine ⟨hf, fun pid hs => ?_⟩
  obtain ⟨p, hp, hid, _⟩ := hi.sel pid hs
  obtain ⟨p', hp', e'⟩ := hf p hp
  exact ⟨p', hp', e'.trans hid⟩

/-- The same comparison in the PRE-state, when it is well defined: both pairs exist before the step and the
message does not create a peer-reflexive candidate (it is a response, or a request from a known remote
address). Then the step leaves the priority of every pair unchanged (`pairPrio` is the same function of the
pair id before and after), so `pairPrio pid ≤ pairPrio qid` holds in the pre-state as well. -/
theorem C03_no_downward_switch_pre (a : Agent) (h : Reachable a) (now la src : Nat) (m : Msg) (pid qid : Nat)
    (hneed : needsPrioCheck a.cfg = true)
    (hplainReq : m.cls = 0 → m.nom = none)
    (hplainResp : m.cls = 2 → (∀ q0 ∈ a.checklist, q0.id = qid → q0.deferredNom = none) ∧
      (∀ pd ∈ a.pending, pd.tid = m.tid → pd.nom = none))
    (hknown : m.cls = 0 → ∀ l, a.localByAddr la = some l → ∃ r, a.findRemote l.net src = some r)
    (hs : a.selected = some pid) (hs' : (step a (.inbound now la src m)).1.selected = some qid)
    (hne : pid ≠ qid) :
    (∀ p ∈ a.checklist, ∀ p' ∈ (step a (.inbound now la src m)).1.checklist, p'.id = p.id →
      (step a (.inbound now la src m)).1.pairPrio p' = a.pairPrio p) ∧
    (∀ p ∈ a.checklist, ∀ q ∈ a.checklist, p.id = pid → q.id = qid → a.pairPrio p ≤ a.pairPrio q) ∧
    (m.cls = 0 → ∀ p ∈ a.checklist, ∀ q ∈ a.checklist, p.id = pid → q.id = qid → a.pairPrio p < a.pairPrio q) := by
  have hi := Inv3_reachable h
  have hr := step_inbound_rel_true a now la src m hknown hi
  have hsame : ∀ p ∈ a.checklist, ∀ p' ∈ (step a (.inbound now la src m)).1.checklist, p'.id = p.id →
      (step a (.inbound now la src m)).1.pairPrio p' = a.pairPrio p := by
    intro p hp p' hp' e
    obtain ⟨p0, hp0, e0, _, hpr⟩ := hr.old p' hp' (by rw [e]; exact hi.ids.le p hp)
    rw [hpr trivial, mem_unique hi.ids hp0 hp (e0.trans e)]
  have hf := (step_hsel a (.inbound now la src m)).fwd hi (by rw [hs']; exact fun h => by cases h)
  have hd := step_inbound_down a now la src m hi hneed hplainReq hplainResp hs hs' hne
  refine ⟨hsame, ?_, ?_⟩
  · intro p hp q hq e1 e2
    obtain ⟨p', hp', ep⟩ := hf p hp
    obtain ⟨q', hq', eq⟩ := hf q hq
    rw [← hsame p hp p' hp' ep, ← hsame q hq q' hq' eq]
    exact hd.1.concl p' hp' q' hq' (ep.trans e1) (eq.trans e2)
  · intro h0 p hp q hq e1 e2
    obtain ⟨p', hp', ep⟩ := hf p hp
    obtain ⟨q', hq', eq⟩ := hf q hq
    rw [← hsame p hp p' hp' ep, ← hsame q hq q' hq' eq]
    exact (hd.2 h0).concl p' hp' q' hq' (ep.trans e1) (eq.trans e2)

-- the hypothesis `hknown` of the pre-state version is satisfiable (the request of the next example comes from a known remote)
example : ((run full0 evsDown).localByAddr 16).all
    (fun l => ((run full0 evsDown).findRemote l.net 32).isSome) = true := by decide
-- immediate path: pair 2 selected, USE-CANDIDATE on the valid higher pair 1 moves the selection to it
example : (run full0 evsDown).selected = some 2 ∧ needsPrioCheck (run full0 evsDown).cfg = true ∧
    (step (run full0 evsDown) (.inbound 4 16 32 (ucReq 1002))).1.selected = some 1 := by decide
-- deferred path: the response validating the already nominated higher pair 1 moves the selection to it
example : (run full0 evsDown2).selected = some 2 ∧
    (∀ q0 ∈ (run full0 evsDown2).checklist, q0.id = 1 → q0.deferredNom = none) ∧
    (∀ pd ∈ (run full0 evsDown2).pending, pd.tid = 2 → pd.nom = none) ∧
    (step (run full0 evsDown2) (.inbound 4 16 32 (okResp 2))).1.selected = some 1 := by decide

/-! ## The lite agent in the controlled role -/

/-- A lite agent that is in the controlled role after a step has emitted no Binding request in that step —
whatever the event (ticks, forced ticks, inbound requests/responses, API calls). Holds from ANY state. -/
theorem C03_lite_controlled_no_requests (a : Agent) (e : Ev) (hl : a.cfg.lite = true)
    (hc : (step a e).1.controlling = false) (f t : Nat) (m : Msg) (hm : Out.dgram f t m ∈ (step a e).2) :
    m.cls ≠ 0 := step_noReq a e hl hc f t m hm

/-- the ordinary check a lite agent sends right after a role conflict made it controlling -/
def liteFlipCheck : Msg :=
  { cls := 0, tid := 2, user := some "R:L", key := some "rp", prio := some 2130706431, role := some (true, 0) }

/-- The same with the PRE-state role would be false: a role conflict can turn a lite controlled agent into a
(lite) controlling one, whose forced tick in the same step sends an ordinary check (as a controlling agent —
`C03_controlled_never_sends_use_candidate` gives its role attribute). -/
theorem C03_lite_controlled_pre_role_witness :
    ¬ (∀ (a : Agent) (e : Ev), Reachable a → a.cfg.lite = true → a.controlling = false →
        ∀ f t m, Out.dgram f t m ∈ (step a e).2 → m.cls ≠ 0) := by
  intro hall
  have := hall (run lite0 [.addLocal 0 lc, .start 0 false "R" "rp"]) (.inbound 1 16 32 conflictReq)
    ⟨lite0, _, ⟨rfl, rfl, rfl, rfl⟩, rfl⟩ (by decide) (by decide) 16 32 liteFlipCheck (by decide)
  exact this rfl

/-- **A lite controlled agent selects on an authenticated nomination, without a check of its own.**
`Agent.handleInbound` is what `step` runs for an inbound STUN message (followed only by a pending forced
tick, which for a lite controlled agent is `validateSelectedPair`). For an authenticated Binding request
(USERNAME and MESSAGE-INTEGRITY verified) from a known remote `r` on local candidate `l`, without role
conflict, that carries USE-CANDIDATE or a nomination value accepted by `shouldAcceptNomination`: afterwards
the pair (l, r) — `reqPairId`, found or created — is valid (`state = succeeded`) although no check of the
agent's own was ever answered on it, its ghost log holds the nomination, the selection is this pair iff
`shouldSwitchSelectedPair` (`cldSw`, tied to the code by `C03_switch_rule_code`) holds in the decision
state, else unchanged; and no Binding request is emitted. -/
theorem C03_lite_controlled_selects_on_nomination (a : Agent) (h : Reachable a) (now : Nat) (l : Cand)
    (src : Nat) (m : Msg) (r : Cand)
    (hl : a.cfg.lite = true) (hc : a.controlling = false)
    (hmeth : m.method = 1) (hreq : m.cls = 0)
    (huser : m.user = some (a.localUfrag ++ ":" ++ a.remoteUfrag)) (hkey : m.key = some a.localPwd)
    (hr : a.findRemote l.net src = some r)
    (hrole : ∀ c tb, m.role = some (c, tb) → c ≠ a.controlling)
    (hn : (m.useCand || m.nom.isSome) = true) (hacc : acceptsNomination a m = true) :
    (∃ q ∈ (a.handleInbound now l src m).1.checklist, q.id = reqPairId a l r ∧ q.state = .succeeded ∧
        q.gNomReq = true) ∧
    (∃ p, (liteDecisionState a m l r).pairById (reqPairId a l r) = some p ∧
      (a.handleInbound now l src m).1.selected =
        if cldSw (liteDecisionState a m l r) (reqPairId a l r) m p then some (reqPairId a l r) else a.selected) ∧
    (∀ f t m', Out.dgram f t m' ∈ (a.handleInbound now l src m).2 → m'.cls ≠ 0) :=
  handleInbound_lite_nomination a now l src m r (Inv3_reachable h) hl hc hmeth hreq huser hkey hr hrole hn hacc

-- a lite controlled agent: the first authenticated USE-CANDIDATE selects the pair; no request is sent
example : (run lite0 (evsCld.take 3)).selected = none ∧ (run lite0 (evsCld.take 3)).cfg.lite = true ∧
    (run lite0 (evsCld.take 3)).controlling = false ∧
    (step (run lite0 (evsCld.take 3)) (.inbound 1 16 32 (ucReq 1001))).1.selected = some 1 ∧
    (∀ p ∈ (step (run lite0 (evsCld.take 3)) (.inbound 1 16 32 (ucReq 1001))).1.checklist, p.gResp = false) := by
  decide

/-! ## A check of its own (fix of F17)

Since the fix of F17 a pending transaction records the address of the local candidate its request left from
(`Pending.src`, Go: `bindingRequest.source`) and a success response is accepted only on a local candidate with
that address (`responseSymmetric`, tie: `C02_symmetry_code`).  Hence a pair is validated only by the answer
to a check sent on ITS OWN addresses. -/

/-- local candidates 16 and 32, remote 176: the scenario of `corpus/C03/agent.ops` (F17) -/
def lcB : Cand := { uid := 0, ty := 1, net := 0, addr := 32, prio := 1694498815 }
def rcF : Cand := { uid := 0, ty := 1, net := 0, addr := 176, prio := 1862270975 }
/-- controlling agent; pair 2 (32>176) is validated (response to tid 4 on local 32) and nominated at the tick:
the USE-CANDIDATE check tid 6 leaves from 32 to 176 -/
def evsOwn : List Ev :=
  [.addLocal 0 lc, .addLocal 0 lcB, .addRemote 0 rcF, .start 0 true "R" "rp",
   .inbound 1 32 176 (okResp 4), .advance 300000000]

example : Fresh full0 := ⟨⟨rfl, rfl, rfl, rfl⟩, rfl, rfl⟩
example : (run full0 evsOwn).pending.map (fun pd => (pd.tid, pd.src, pd.dest, pd.useCand))
    = [(2, 16, 176, false), (6, 32, 176, true)] := by decide
example : requestLog full0 evsOwn = [(2, 16, 176), (4, 32, 176), (6, 32, 176)] := by decide

/-- **Every pending transaction is a request of the agent's own, sent from the recorded source to the recorded
destination** (K3).  Fresh agent (nothing listed, nothing pending), ANY history: for every pending entry `pd`
of the reached state some step of the history emitted a Binding request datagram with transaction id `pd.tid`
from address `pd.src` to address `pd.dest`. -/
theorem C03_pending_is_own_request (a0 : Agent) (evs : List Ev) (h0 : Fresh a0)
    (pd : Pending) (hpd : pd ∈ (run a0 evs).pending) :
    ∃ k, k < evs.length ∧ ∃ e m, evs[k]? = some e ∧
      Out.dgram pd.src pd.dest m ∈ (step (run a0 (evs.take k)) e).2 ∧ m.cls = 0 ∧ m.tid = pd.tid :=
  mem_requestLog ((own_run h0 evs).pending_logged hpd)

/-- **Every validated pair answered a check of its own — invariant form.**  Fresh agent (lite or full), ANY
history (the peer is an arbitrary source of messages, on any local candidate): every listed pair with `gResp`
(a transaction-matched authenticated success response arrived on it) had a Binding request of this agent
emitted, by some step of the history, from the address of ITS local candidate to the address of ITS remote
candidate.  (Both candidates exist for every listed pair of a non-closed agent: `C06_pair_ends_current`.)
Before the fix the witness below (`C03_foreign_response_ignored`) selected pair 1 without any request from 16
to 176 having been answered. -/
theorem C03_validated_by_own_check_inv (a0 : Agent) (evs : List Ev) (h0 : Fresh a0)
    (p : Pair) (hp : p ∈ (run a0 evs).checklist) (hg : p.gResp = true)
    (l r : Cand) (hl : (run a0 evs).localOf p.l = some l) (hr : (run a0 evs).remoteOf p.r = some r) :
    ∃ k, k < evs.length ∧ ∃ e m, evs[k]? = some e ∧
      Out.dgram l.addr r.addr m ∈ (step (run a0 (evs.take k)) e).2 ∧ m.cls = 0 := by
  obtain ⟨tid, ht⟩ := (own_run h0 evs).gResp_logged hp hg hl hr
  obtain ⟨k, hk, e, m, he, hm, hc, _⟩ := mem_requestLog ht
  exact ⟨k, hk, e, m, he, hm, hc⟩

/-- … so on a FULL agent every valid pair — in particular the selected pair — answered a check of its own:
it has `gResp` (`C03_invariant`) and a Binding request was sent from its local to its remote address. -/
theorem C03_selected_by_own_check (a0 : Agent) (evs : List Ev) (h0 : Fresh a0) (hfull : a0.cfg.lite = false) :
    (∀ p ∈ (run a0 evs).checklist, p.state = .succeeded → p.gResp = true) ∧
    (∀ id, (run a0 evs).selected = some id → ∃ sp, (run a0 evs).pairById id = some sp ∧ sp.gResp = true) ∧
    (∀ p ∈ (run a0 evs).checklist, p.state = .succeeded →
      ∀ l r, (run a0 evs).localOf p.l = some l → (run a0 evs).remoteOf p.r = some r →
      ∃ k, k < evs.length ∧ ∃ e m, evs[k]? = some e ∧
        Out.dgram l.addr r.addr m ∈ (step (run a0 (evs.take k)) e).2 ∧ m.cls = 0) := by
  have hi : Inv3 (run a0 evs) := Inv3_reachable ⟨a0, evs, h0.1, rfl⟩
  have hlite : (run a0 evs).cfg.lite = false := by
    have := (own_run h0 evs).lite_eq
    rw [hfull] at this
    exact this
  obtain ⟨hpairs, hsel, _⟩ := C03_invariant_spec _ hi
  refine ⟨fun p hp hs => (hpairs p hp).1 hlite hs, ?_, ?_⟩
  · intro id hs
    obtain ⟨sp, hsp, _, _, hg, _⟩ := hsel id hs
    refine ⟨sp, hsp, ?_⟩
    rcases hg with hg | hg
    · rw [hlite] at hg; cases hg
    · exact hg
  · intro p hp hs l r hl hr
    exact C03_validated_by_own_check_inv a0 evs h0 p hp ((hpairs p hp).1 hlite hs) l r hl hr

/-- **Every validated pair answered a check of its own — step form.**  ANY state `a` (no invariant needed), ANY
event `e`: if the step newly validates a listed pair `p'` — sets `gResp`, or, on a full agent, sets its state to
Succeeded, where no pair with that id had it before the step — then

* the event is the arrival of an authenticated (`m.key = remotePwd`) Binding success response `m` on the local
  candidate `l` (`localByAddr la`) from the address `src` of the known remote candidate `r`;
* its transaction was pending and unexpired, `pd` is the entry this step consumes (`takePending`), and `pd` passed
  the symmetry test: sent over `l`'s network type, TO the response's source, FROM the address of the local
  candidate the response arrived on (`pd.src = l.addr` — the conjunct added by the fix of F17);
* `p'` is the pair of `(l, r)`: the pre-state pair `p = findPair l r` has `p'`'s id, and its own local and
  remote candidates `pl`, `pr` have `pl.addr = pd.src` and `pr.addr = pd.dest`: the response answered a request
  that was sent from THAT pair's local address to THAT pair's remote address.

No other event, timer or forced tick validates a pair (`IceProofs.C03.step_own`, relation `NoNew`). -/
theorem C03_validated_by_own_check (a : Agent) (e : Ev) (p' : Pair) (hp' : p' ∈ (step a e).1.checklist)
    (hnew : (p'.gResp = true ∧ ∀ p ∈ a.checklist, p.id = p'.id → p.gResp = false) ∨
            (a.cfg.lite = false ∧ p'.state = .succeeded ∧ ∀ p ∈ a.checklist, p.id = p'.id → p.state ≠ .succeeded)) :
    ∃ now la src m l r pd p pl pr,
      e = .inbound now la src m ∧ m.method = 1 ∧ m.cls = 2 ∧ m.key = some a.remotePwd ∧
      a.localByAddr la = some l ∧ a.findRemote l.net src = some r ∧
      (a.takePending now m.tid).2 = some pd ∧ pd ∈ a.pending ∧ pd.tid = m.tid ∧
      pd.net = l.net ∧ pd.dest = src ∧ pd.src = l.addr ∧
      a.findPair l r = some p ∧ p.id = p'.id ∧ p ∈ a.checklist ∧
      a.localOf p.l = some pl ∧ a.remoteOf p.r = some pr ∧ pl.addr = pd.src ∧ pr.addr = pd.dest :=
  step_validates_own a e p' hp' hnew

-- non-vacuity: the step `.inbound 1 32 176 (okResp 4)` of `evsOwn` newly validates pair 2 (both forms of the
-- hypothesis), and the entry it consumes was sent from 32 to 176
example :
    let a := run full0 (evsOwn.take 4)
    ∃ p' ∈ (step a (.inbound 1 32 176 (okResp 4))).1.checklist, p'.id = 2 ∧
      (p'.gResp = true ∧ ∀ p ∈ a.checklist, p.id = p'.id → p.gResp = false) ∧
      (a.cfg.lite = false ∧ p'.state = .succeeded ∧ ∀ p ∈ a.checklist, p.id = p'.id → p.state ≠ .succeeded) ∧
      ((a.takePending 1 4).2.map fun pd => (pd.src, pd.dest)) = some (32, 176) := by decide

-- non-vacuity: pair 2 of `evsOwn` is valid, has its ends, and the request from 32 to 176 is the one of step 4
example : ∃ p ∈ (run full0 evsOwn).checklist, p.id = 2 ∧ p.gResp = true ∧ p.state = .succeeded ∧
    ((run full0 evsOwn).localOf p.l).map (·.addr) = some 32 ∧
    ((run full0 evsOwn).remoteOf p.r).map (·.addr) = some 176 := by decide

/-- **The F17 replay on the model** (`corpus/C03/agent.ops`): the response to the USE-CANDIDATE check tid 6, which
left from local address 32, arriving on local address 16 validates nothing and selects nothing (the
transaction is consumed); arriving on 32 it selects pair 2.  Before the fix the first case marked pair 1
(16>176) Succeeded and selected it. -/
theorem C03_foreign_response_ignored :
    (step (run full0 evsOwn) (.inbound 300000001 16 176 (okResp 6))).1.selected = none ∧
    (step (run full0 evsOwn) (.inbound 300000001 16 176 (okResp 6))).1.checklist = (run full0 evsOwn).checklist ∧
    (step (run full0 evsOwn) (.inbound 300000001 16 176 (okResp 6))).1.pending.map (·.tid) = [2] ∧
    (step (run full0 evsOwn) (.inbound 300000001 32 176 (okResp 6))).1.selected = some 2 := by decide

/-! ## Tie to the code -/

/-- The switch rule and its guards as they are in the CURRENT source (regenerated on every run): for all
arguments the generated `shouldSwitchSelectedPair` equals the rule `cldHandleRequest` applies inline, the
generated `needsToCheckPriorityOnNominated` equals `needsPrioCheck`, and the generated
`shouldAcceptNomination` decision equals `acceptsNomination`. -/
theorem C03_switch_rule_code :
    (∀ (hasSelected samePair hasValue hasLast needsPrio : Bool) (sp pp : UInt64),
      IceGen.controlledSelector_shouldSwitchSelectedPair hasSelected samePair hasValue hasLast needsPrio sp pp =
      shouldSwitch hasSelected samePair hasValue hasLast needsPrio sp.toNat pp.toNat) ∧
    (∀ (a : Agent) (id : Nat) (m : Msg) (p : Pair),
      cldSw a id m p =
      match a.selected.bind a.pairById with
      | none => shouldSwitch false false m.nom.isSome a.lastNomination.isSome (needsPrioCheck a.cfg) 0 (a.pairPrio p)
      | some sp => shouldSwitch true (sp.id == id) m.nom.isSome a.lastNomination.isSome (needsPrioCheck a.cfg)
          (a.pairPrio sp) (a.pairPrio p)) ∧
    (∀ cfg : Config, IceGen.agent_needsToCheckPriorityOnNominated cfg.lite cfg.useCandCheckPriority = needsPrioCheck cfg) ∧
    (∀ (a : Agent) (m : Msg) (v last : UInt32), (m.nom = none ∨ m.nom = some v.toNat) →
      (a.lastNomination = none ∨ a.lastNomination = some last.toNat) →
      (IceGen.controlledSelector_shouldAcceptNomination m.nom.isSome v a.lastNomination.isSome last).2 =
      acceptsNomination a m) :=
  ⟨shouldSwitch_gen_eq_model, cldSw_eq_shouldSwitch, needsPrio_gen_eq_model, shouldAccept_gen_eq_model⟩

example : IceGen.controlledSelector_shouldSwitchSelectedPair true false false false true 5 7 = true ∧
    IceGen.controlledSelector_shouldSwitchSelectedPair true false false false true 7 7 = false ∧
    -- once a nomination value has been accepted a value-less nomination no longer moves the selection (fix of F29)
    IceGen.controlledSelector_shouldSwitchSelectedPair true false false true true 5 7 = false := by decide

/-- `controllingSelector.isNominatable` (selection.go, regenerated on every run) is the model's `Agent.nominatable`: for
every candidate type code and all non-negative durations, the candidate is nominatable iff the selector has run for at
least the wait of its type (an unknown type never is) -/
theorem C03_code_isNominatable (a : Agent) (now : Nat) (c : Cand) (ty : UInt8) (elapsed hw sw pw rw : Int64)
    (h0 : 0 ≤ elapsed.toInt) (h1 : 0 ≤ hw.toInt) (h2 : 0 ≤ sw.toInt) (h3 : 0 ≤ pw.toInt) (h4 : 0 ≤ rw.toInt)
    (ht : ty.toNat = c.ty) (he : IceTie.AgentSuccess.dur elapsed = now - a.selStart)
    (e1 : IceTie.AgentSuccess.dur hw = a.cfg.hostWait) (e2 : IceTie.AgentSuccess.dur sw = a.cfg.srflxWait)
    (e3 : IceTie.AgentSuccess.dur pw = a.cfg.prflxWait) (e4 : IceTie.AgentSuccess.dur rw = a.cfg.relayWait) :
    IceGen.controllingSelector_isNominatable ty elapsed hw sw pw rw = a.nominatable now c :=
  IceTie.AgentSuccess.isNominatable_model a now c ty elapsed hw sw pw rw h0 h1 h2 h3 h4 ht he e1 e2 e3 e4

/-- non-vacuity: the default waits (host 0, srflx 500 ms, prflx 1 s, relay 2 s) at 600 ms -/
example : IceGen.controllingSelector_isNominatable 1 600000000 0 500000000 1000000000 2000000000 = true ∧
    IceGen.controllingSelector_isNominatable 2 600000000 0 500000000 1000000000 2000000000 = true ∧
    IceGen.controllingSelector_isNominatable 3 600000000 0 500000000 1000000000 2000000000 = false ∧
    IceGen.controllingSelector_isNominatable 4 600000000 0 500000000 1000000000 2000000000 = false ∧
    IceGen.controllingSelector_isNominatable 0 600000000 0 0 0 0 = false := by decide
example : (0 : Int64).toInt ≥ 0 ∧ IceTie.AgentSuccess.dur 500000000 = ({} : Config).srflxWait := by decide

/-- `ContactCandidates` of both selectors and `controllingSelector.HandleBindingRequest` (selection.go, regenerated in effect mode
on every run), for ALL arguments: what a tick does — validate + keepalive on a selected pair, re-nominate the nominated pair,
nominate the best valid pair only when BOTH its candidates are nominatable (marked and remembered first), else ping — and when an
inbound request makes the controlling agent nominate: only on a listed, succeeded pair, with nothing nominated and nothing
selected, that is the best available pair with nominatable candidates -/
theorem C03_code_tick_and_request
    (hasSelected selectedValid autoRenom enableRenom hasNominated hasBestValid localOk remoteOk hasPair hasBest bestIsPair : Bool)
    (pairState : Int64) :
    IceGen.controllingSelector_ContactCandidates hasSelected selectedValid autoRenom enableRenom hasNominated hasBestValid
        localOk remoteOk
      = (if hasSelected then
          IceTie.AgentSelector.c "validateSelectedPair" :: (if selectedValid then
            [IceTie.AgentSelector.c "checkKeepalive"]
              ++ (if autoRenom && enableRenom then [IceTie.AgentSelector.c "keepAliveCandidatesForRenomination"] else [])
              ++ [IceTie.AgentSelector.c "checkForAutomaticRenomination"] else [])
        else if hasNominated then [IceTie.AgentSelector.c "nominatePair"]
        else if hasBestValid && localOk && remoteOk then
          [IceModel.Eff.set "p.nominated" (IceModel.Val.b true), IceModel.Eff.set "s.nominatedPair" (IceModel.Val.s "bestValid"),
           IceTie.AgentSelector.c "nominatePair"]
        else [IceTie.AgentSelector.c "pingAllCandidates"]) ∧
    IceGen.controlledSelector_ContactCandidates hasSelected selectedValid
      = (if hasSelected then IceTie.AgentSelector.c "validateSelectedPair" ::
            (if selectedValid then [IceTie.AgentSelector.c "checkKeepalive"] else [])
         else [IceTie.AgentSelector.c "pingAllCandidates"]) ∧
    IceGen.controllingSelector_HandleBindingRequest hasPair pairState hasNominated hasSelected hasBest bestIsPair localOk remoteOk
      = IceTie.AgentSelector.c "sendBindingSuccess" ::
        (if !hasPair then [IceTie.AgentSelector.c "addPair", IceTie.AgentSelector.c "updateRequestReceived"]
         else IceTie.AgentSelector.c "updateRequestReceived" ::
           ((if pairState == 4 && !hasNominated && !hasSelected && hasBest && bestIsPair && localOk && remoteOk
             then [IceModel.Eff.set "s.nominatedPair" (IceModel.Val.s "pair"), IceTie.AgentSelector.c "nominatePair"] else [])
            ++ [IceTie.AgentSelector.c "customHandler"])) :=
  ⟨IceTie.AgentSelector.ctlContactCandidates_tie hasSelected selectedValid autoRenom enableRenom hasNominated hasBestValid localOk remoteOk,
   IceTie.AgentSelector.cldContactCandidates_tie hasSelected selectedValid,
   IceTie.AgentSelector.ctlHandleBindingRequest_tie hasPair pairState hasNominated hasSelected hasBest bestIsPair localOk remoteOk⟩

/-- … and the model's tick is the same decision tree (every state; definitional unfolding of `Agent.contactCandidates`) -/
theorem C03_model_tick (a : Agent) (now : Nat) :
    (a.controlling = true → a.contactCandidates now =
      if a.selected.isSome then
        (if (a.validateSelected now).2.2 then
          ((((a.validateSelected now).1.keepalive now).1.autoRenom now).1,
           (a.validateSelected now).2.1 ++ ((a.validateSelected now).1.keepalive now).2 ++
             (((a.validateSelected now).1.keepalive now).1.autoRenom now).2)
         else ((a.validateSelected now).1, (a.validateSelected now).2.1))
      else match a.nominatedPair.bind a.pairById with
        | some p => a.nominate now p
        | none =>
          match a.nominatedPair with
          | some _ => (a, [])
          | none =>
            match a.bestValid with
            | some p =>
              match a.localOf p.l, a.remoteOf p.r with
              | some l, some r =>
                if a.nominatable now l && a.nominatable now r then
                  ({ (a.modPair p.id fun p => { p with nominated := true }) with nominatedPair := some p.id }).nominate now p
                else a.pingAll now
              | _, _ => a.pingAll now
            | none => a.pingAll now) ∧
    (a.controlling = false → a.cfg.lite = false → a.contactCandidates now =
      if a.selected.isSome then
        (if (a.validateSelected now).2.2 then
          (((a.validateSelected now).1.keepalive now).1, (a.validateSelected now).2.1 ++ ((a.validateSelected now).1.keepalive now).2)
         else ((a.validateSelected now).1, (a.validateSelected now).2.1))
      else a.pingAll now) :=
  ⟨IceTie.AgentSelector.contactCandidates_controlling a now, IceTie.AgentSelector.contactCandidates_controlled a now⟩

example : IceGen.controllingSelector_ContactCandidates false false false false false true true false
      = [IceModel.Eff.call "pingAllCandidates" []] ∧
    IceGen.controllingSelector_ContactCandidates false false false false false true true true
      = [IceModel.Eff.set "p.nominated" (IceModel.Val.b true), IceModel.Eff.set "s.nominatedPair" (IceModel.Val.s "bestValid"),
         IceModel.Eff.call "nominatePair" []] ∧
    IceGen.controllingSelector_HandleBindingRequest true 4 false false true true true true
      = [IceModel.Eff.call "sendBindingSuccess" [], IceModel.Eff.call "updateRequestReceived" [],
         IceModel.Eff.set "s.nominatedPair" (IceModel.Val.s "pair"), IceModel.Eff.call "nominatePair" [],
         IceModel.Eff.call "customHandler" []] := by decide

/-- the source address a response is matched against (`netAddrToAddrPort`, `portFitsInUint16`; addr.go, regenerated): every port
0 … 65535 — 65535 included — of a UDP or TCP address is valid, so a check answered from port 65535 is not discarded as coming from
an invalid source -/
theorem C03_code_source_port (isUDPAddr isTCPAddr : Bool) (port : Int64) (parseFails : Bool)
    (hk : (isUDPAddr || isTCPAddr) = true) (h0 : 0 ≤ port.toInt) (h1 : port.toInt ≤ 65535) :
    IceGen.portFitsInUint16 port = true ∧
    IceGen.netAddrToAddrPort false isUDPAddr isTCPAddr false port parseFails = "a.AddrPort()" := by
  refine ⟨?_, IceTie.Addr.netAddrToAddrPort_valid isUDPAddr isTCPAddr port parseFails hk h0 h1⟩
  rw [IceTie.Addr.portFitsInUint16_tie]
  simp [h0, h1]

example : IceGen.portFitsInUint16 65535 = true := by decide

/-! ## Tie to the code (T, round 3): `nominatePair`, one iteration of `getBestValidCandidatePair`, the acceptance-wait defaults -/

open IceTie.AgentDispatch in
/-- `controllingSelector.nominatePair`: the nomination request carries USE-CANDIDATE, the controlling role, the local priority,
the username `remote:local` and the remote password, and goes out through `sendBindingRequest`; the model's `nominate` is
`sendRequest … true none`, whose datagram has exactly these fields -/
theorem C03_code_nominatePair :
    (∀ buildErr, IceGen.controllingSelector_nominatePair buildErr
      = [c "attrs(BindingRequest,TransactionID,Username(remote:local),UseCandidate,Controlling,Priority)",
         c "attrs+=(Integrity(remotePwd),Fingerprint)"] ++ (if buildErr then [] else [c "sendBindingRequest"])) ∧
    (∀ (a : Agent) (now : Nat) (p : Pair) (l r : Cand), a.localOf p.l = some l → a.remoteOf p.r = some r →
      a.nominate now p = a.sendRequest now l r true none) ∧
    (∀ (a : Agent) (now : Nat) (l r : Cand) (uc : Bool) (nom : Option Nat), ∃ tid, (a.sendRequest now l r uc nom).2 =
      [.dgram l.addr r.addr { cls := 0, tid := tid, user := some (a.remoteUfrag ++ ":" ++ a.localUfrag), key := some a.remotePwd,
                               prio := some l.prio, useCand := uc, role := some (a.controlling, a.tieBreaker), nom := nom }]) :=
  ⟨nominatePair_tie, nominate_model, sendRequest_msg⟩

example : (IceGen.controllingSelector_nominatePair false).length = 3 ∧ (IceGen.controllingSelector_nominatePair true).length = 2 := by
  decide

open IceTie.AgentTick in
/-- one iteration of `getBestValidCandidatePair` (the pair `ContactCandidates` nominates): only a Succeeded pair (state 4) can
become `best`; the first one does, a later one only with a strictly higher priority; the model's `bestBy` folds the same step -/
theorem C03_code_bestValid_iter :
    (∀ state bestNil bestPrio pPrio, IceGen.agent_getBestValidCandidatePair_iter state bestNil bestPrio pPrio
      = bestEffs (state == 4 && (bestNil || decide (bestPrio.toNat < pPrio.toNat)))) ∧
    (∀ (a : Agent) (ok : Pair → Bool), a.bestBy ok = a.checklist.foldl (bestStep a ok) none) ∧
    (∀ (a : Agent) (ok : Pair → Bool) (best : Option Pair) (p : Pair), bestStep a ok best p =
      if ok p && (best.isNone || decide ((best.map a.pairPrio).getD 0 < a.pairPrio p)) then some p else best) :=
  ⟨getBestValidCandidatePair_iter_tie, bestBy_fold, bestStep_take⟩

example : IceGen.agent_getBestValidCandidatePair_iter 2 true 0 9 = IceTie.AgentTick.bestEffs false ∧
    IceGen.agent_getBestValidCandidatePair_iter 4 false 5 5 = IceTie.AgentTick.bestEffs false ∧
    IceGen.agent_getBestValidCandidatePair_iter 4 false 5 6 = IceTie.AgentTick.bestEffs true := by decide

open IceTie.AgentDefaults in
/-- agent_config.go `initWithDefaults`, nomination fields: `maxBindingRequests` 7, acceptance waits host 0 / srflx 500 ms /
prflx 1 s / relay 2 s (0 for a relay-only agent) unless configured — the field defaults of the model's `Config` -/
theorem C03_code_acceptance_defaults :
    (∀ n1 v1 n2 v2 n3 v3 n4 v4 n5 v5 relayDefault,
      IceGen.agentConfig_initWithDefaults_nomination n1 v1 n2 v2 n3 v3 n4 v4 n5 v5 relayDefault
      = [setN "agent.maxBindingRequests" n1 7 v1, setI "agent.hostAcceptanceMinWait" n2 0 v2,
         setI "agent.srflxAcceptanceMinWait" n3 500000000 v3, setI "agent.prflxAcceptanceMinWait" n4 1000000000 v4,
         setI "agent.relayAcceptanceMinWait" n5 relayDefault v5]) ∧
    (∀ one ty0, IceGen.defaultRelayAcceptanceMinWaitFor one ty0 = if one && ty0 == 4 then 0 else 2000000000) ∧
    (∀ v w, IceGen.agentConfig_initWithDefaults_nomination true w true v true v true v true v (IceGen.defaultRelayAcceptanceMinWaitFor false 0)
      = [IceModel.Eff.set "agent.maxBindingRequests" (IceModel.Val.n ({} : Config).maxBindingRequests),
         IceModel.Eff.set "agent.hostAcceptanceMinWait" (IceModel.Val.i ({} : Config).hostWait),
         IceModel.Eff.set "agent.srflxAcceptanceMinWait" (IceModel.Val.i ({} : Config).srflxWait),
         IceModel.Eff.set "agent.prflxAcceptanceMinWait" (IceModel.Val.i ({} : Config).prflxWait),
         IceModel.Eff.set "agent.relayAcceptanceMinWait" (IceModel.Val.i ({} : Config).relayWait)]) :=
  ⟨initWithDefaults_nomination_tie, defaultRelayAcceptanceMinWaitFor_tie, fun v w => (defaults_model v w).1⟩

example : IceGen.defaultRelayAcceptanceMinWaitFor true 4 = 0 ∧ IceGen.defaultRelayAcceptanceMinWaitFor true 1 = 2000000000 := by decide

/-! ## Tie to the code (T, round 4): the nomination OPTIONS of agent_options.go (`IceGen.T_Options`) -/

/-- `WithMaxBindingRequests`, the four acceptance-wait options, `WithICELite`, `WithEnableUseCandidateCheckPriority`: refused on a
constructed agent, otherwise exactly one field written; through the field table they are the updates of the model's `Config` fields
`maxBindingRequests`, `hostWait` … `relayWait`, `lite`, `useCandCheckPriority` -/
theorem C03_code_nomination_options :
    (∀ constructed n, IceGen.opt_WithMaxBindingRequests constructed n = IceTie.Options.guard constructed ([IceTie.Options.setN "a.maxBindingRequests" n], "nil")) ∧
    (∀ constructed w,
      IceGen.opt_WithHostAcceptanceMinWait constructed w = IceTie.Options.guard constructed ([IceTie.Options.setI "a.hostAcceptanceMinWait" w], "nil") ∧
      IceGen.opt_WithSrflxAcceptanceMinWait constructed w = IceTie.Options.guard constructed ([IceTie.Options.setI "a.srflxAcceptanceMinWait" w], "nil") ∧
      IceGen.opt_WithPrflxAcceptanceMinWait constructed w = IceTie.Options.guard constructed ([IceTie.Options.setI "a.prflxAcceptanceMinWait" w], "nil") ∧
      IceGen.opt_WithRelayAcceptanceMinWait constructed w = IceTie.Options.guard constructed ([IceTie.Options.setI "a.relayAcceptanceMinWait" w], "nil")) ∧
    (∀ constructed lite, IceGen.opt_WithICELite constructed lite = IceTie.Options.guard constructed ([IceTie.Options.setB "a.lite" lite], "nil")) ∧
    (∀ constructed, IceGen.opt_WithEnableUseCandidateCheckPriority constructed
      = IceTie.Options.guard constructed ([IceTie.Options.setB "a.enableUseCandidateCheckPriority" true], "nil")) ∧
    (∀ (cfg : Config) (t : Int64) (n : UInt16),
      IceTie.Options.applyEffs cfg [IceTie.Options.setN "a.maxBindingRequests" n] = { cfg with maxBindingRequests := n.toNat } ∧
      IceTie.Options.applyEffs cfg [IceTie.Options.setI "a.hostAcceptanceMinWait" t] = { cfg with hostWait := t.toInt.toNat } ∧
      IceTie.Options.applyEffs cfg [IceTie.Options.setI "a.srflxAcceptanceMinWait" t] = { cfg with srflxWait := t.toInt.toNat } ∧
      IceTie.Options.applyEffs cfg [IceTie.Options.setI "a.prflxAcceptanceMinWait" t] = { cfg with prflxWait := t.toInt.toNat } ∧
      IceTie.Options.applyEffs cfg [IceTie.Options.setI "a.relayAcceptanceMinWait" t] = { cfg with relayWait := t.toInt.toNat }) :=
  ⟨IceTie.Options.WithMaxBindingRequests_tie, IceTie.Options.acceptanceWaits_tie, IceTie.Options.WithICELite_tie, IceTie.Options.WithEnableUseCandidateCheckPriority_tie, IceTie.Options.nomination_cfg⟩

example : IceGen.opt_WithMaxBindingRequests false 3 = ([IceModel.Eff.set "a.maxBindingRequests" (IceModel.Val.n 3)], "nil") ∧
    (IceTie.Options.applyEffs {} (IceGen.opt_WithSrflxAcceptanceMinWait false 0).1).srflxWait = 0 ∧
    IceGen.opt_WithICELite true true = ([], "ErrAgentOptionNotUpdatable") := by decide

end IceProps.C03
