import IceTie.MuxUdp
import IceProofs.UdpMuxSim
import IceProofs.UniMuxSim
import IceProofs.UniMuxConc
import IceProofs.UdpMuxViewModel
/-!
# C12 — UDP mux delivers each datagram to the right agent and to no other

Property theorems only.  They are about the sequential model `IceModel.UdpMux` (tied to
`udp_mux.go` / `udp_muxed_conn.go` / `shared_packet_conn.go` / `addr.go` by the correspondence check
`udpmux`) and quantify over ALL operation sequences `ops : List Op` from the initial state — any
number of ufrags, connections, handles, addresses, any interleaving of `GetConn`, writes, inbound
datagrams of every kind, `RemoveConnByUfrag`, handle closes, runs of the asynchronous close watchers
(explicit operation `watcherRun`, so every position of the watcher relative to the other operations
is covered), mux close and reads.

`hist ops` is the HISTORY state the spec monitor `IceSpec.C12` derives from the trace alone (who wrote
last to a transport address, which connection `GetConn` handed out for a ufrag and family, which
connections were removed / closed / reaped, which datagrams were delivered and not yet read); the
theorems say that the model's behaviour is the one the history demands.
-/
namespace IceProps.C12
open IceModel.UdpMux IceProofs.UdpMux
open IceSpec.C12 (SState stateAfter monitor verdicts expected byUfrag endpoint srcIsV6 ufragOf to16 pow32)

/-- model state after `ops` -/
def after (ops : List Op) : Mux := (run init ops).1
/-- trace `(operation, output)` of `ops` -/
def trace (ops : List Op) : List (Op × Out) := (run init ops).2
/-- the spec monitor's history state after the trace of `ops` -/
def hist (ops : List Op) : SState := stateAfter SState.init (trace ops)

/-- The state invariant `Inv` (family maps consistent and duplicate-free; address-map entries point to
existing connections whose address list contains the address; the address list of a registered
connection maps back to it; `refs` = number of open handles; closed connections hold no packets; a
reaped connection is closed, unregistered and owns no binding; an open connection is registered; a
closed mux has empty family maps) holds after every operation sequence. -/
theorem C12_invariant (ops : List Op) : Inv (after ops) :=
  (sim_run ops init SState.init inv_init sim_init).1

/-- After every operation sequence the model state and the monitor's history state are related by the
simulation relation `Sim` (handles, keys, closed / removed / reaped flags, registrations ↔ family maps,
last writers ↔ address map, undelivered queues ↔ FIFOs). -/
theorem C12_refines_history (ops : List Op) : Sim (after ops) (hist ops) :=
  (sim_run ops init SState.init inv_init sim_init).2.1

example : Sim init SState.init := sim_init

example : Inv init := inv_init

/-- Every trace of the model is accepted by the spec monitor of C12 (all clauses at once). -/
theorem C12_model_passes_monitor (ops : List Op) : monitor (trace ops) = none := by
  have h := (sim_run ops init SState.init inv_init sim_init).2.2
  unfold monitor
  rw [List.findSome?_eq_none_iff]
  intro v hv
  exact h v hv

/-- **dispatch.** An inbound datagram is handed to exactly the connection the RULE `expected` names —
the last writer to the canonical source if it is neither removed nor closed; for an unseen source (no
writer, or the writer removed, or closed and reaped) the connection registered for the source's family
under the text before the first `:` of the USERNAME of a decodable STUN message, if open; otherwise it
is dropped — and the packet queue of no other connection changes. -/
theorem C12_dispatch (ops : List Op) (src : Addr) (k : Kind) (pid : Nat) :
    (step (after ops) (.inbound src k pid)).2 =
      (match expected (hist ops) src k with
       | some c => .delivered c
       | none => .dropped)
    ∧ ∀ c', (step (after ops) (.inbound src k pid)).2 ≠ .delivered c' →
        ((step (after ops) (.inbound src k pid)).1.conn c').fifo = ((after ops).conn c').fifo := by
  have hi := C12_invariant ops
  have hs := C12_refines_history ops
  exact ⟨inbound_out_expected _ _ hi hs src k pid, fun c' hne => inbound_fifo_other _ src k pid c' hne⟩

/-- **faithful.** What a read returns is the OLDEST datagram delivered to that connection and not yet
read, with the identical payload and the true (raw, uncanonicalised) source address; and a read that
would block means nothing delivered is outstanding. -/
theorem C12_faithful (ops : List Op) (h : Nat) :
    (∀ pid src, (step (after ops) (.read h)).2 = .pkt pid src →
      ∃ c rest, (hist ops).hconn h = some c ∧ (hist ops).queue c = (pid, src) :: rest)
    ∧ ((step (after ops) (.read h)).2 = .empty →
      ∃ c, (hist ops).hconn h = some c ∧ (hist ops).queue c = []) := by
  have hi := C12_invariant ops
  have hs := C12_refines_history ops
  constructor
  · intro pid src ho
    obtain ⟨k1, rest, hr⟩ := read_pkt _ h pid src ho
    have k3 : ((after ops).conn ((after ops).hconn h)).closed = false := by
      cases hc : ((after ops).conn ((after ops).hconn h)).closed
      · rfl
      · have := hi.cfifo _ hc; rw [hr] at this; cases this
    refine ⟨(after ops).hconn h, rest.map (fun p => (p.pid, p.src)), ?_, ?_⟩
    · rw [hs.hconn h]; simp [k1]
    · rw [hs.queue _ (hi.hnd h k1) k3, hr]; rfl
  · intro ho
    obtain ⟨k1, k3, k4⟩ := read_empty _ h ho
    refine ⟨(after ops).hconn h, ?_, ?_⟩
    · rw [hs.hconn h]; simp [k1]
    · rw [hs.queue _ (hi.hnd h k1) k3, k4]; rfl

/-- **no cross-ufrag.** A connection that receives a datagram without being the last writer to its
source was handed out by `GetConn` for exactly the ufrag before the first `:` of the datagram's
USERNAME and for the IP family of the source; payloads without a decodable USERNAME never reach a
connection that did not write to the source. -/
theorem C12_no_cross_ufrag (ops : List Op) (src : Addr) (k : Kind) (pid c : Nat)
    (hd : (step (after ops) (.inbound src k pid)).2 = .delivered c)
    (hw : (hist ops).lastW (endpoint src) ≠ some c) :
    ∃ n, k = .stunUser n ∧ (hist ops).ckey c = (ufragOf n, srcIsV6 src) := by
  have hs := C12_refines_history ops
  have h1 := (C12_dispatch ops src k pid).1
  rw [hd] at h1
  have he : expected (hist ops) src k = some c := by
    cases he : expected (hist ops) src k with
    | none => rw [he] at h1; cases h1
    | some c' => rw [he] at h1; injection h1 with h1; rw [h1]
  have hb : byUfrag (hist ops) src k = some c := by
    unfold expected at he
    split at he
    · cases he
    · split at he
      · next c' hl =>
        split at he
        · exact he
        · split at he
          · split at he
            · exact he
            · cases he
          · injection he with he; subst he; exact absurd hl hw
      · exact he
  cases k with
  | stunUser n =>
    refine ⟨n, rfl, ?_⟩
    simp only [byUfrag] at hb
    split at hb
    · next c' hr =>
      split at hb
      · cases hb
      · injection hb with hb; subst hb
        exact hs.regK _ _ _ hr
    · cases hb
  | stunNoUser => cases hb
  | stunBad => cases hb
  | nonStun => cases hb

/-- **after removal.** (a) A datagram is never handed to a removed or closed connection.
(b) A removed connection, and a closed connection once its watcher has run, owns no address binding
and is in no family map — immediately after `RemoveConnByUfrag` / the watcher, and for ever after
(whatever is written through stale handles). -/
theorem C12_after_removal (ops : List Op) :
    (∀ src k pid c, (step (after ops) (.inbound src k pid)).2 = .delivered c →
        (hist ops).removed c = false ∧ (hist ops).closed c = false)
    ∧ (∀ c, c < (after ops).nconns → ((hist ops).removed c = true ∨ (hist ops).reaped c = true) →
        (∀ a, (after ops).addrMap a ≠ some c) ∧ ¬ registered (after ops) c) := by
  have hi := C12_invariant ops
  have hs := C12_refines_history ops
  constructor
  · intro src k pid c hd
    obtain ⟨_, hm, hop⟩ := inbound_delivered _ src k pid c hd
    exact removed_false_of_open _ _ hs c (modelDest_lt _ hi src k c hm) hop
  · intro c hc h
    rcases h with h | h
    · refine ⟨hs.remB c hc h, ?_⟩
      intro hr
      rw [registered_famMap _ hi] at hr
      have := (hs.regB _ _ c (hs.regF _ _ c hr)).2.1
      rw [h] at this; cases this
    · rw [hs.reaped c hc] at h
      exact ⟨(hi.watched c hc h).2.2, (hi.watched c hc h).2.1⟩

/-- **canonical.** Raw addresses that denote the same transport address — the 4-byte and the
`::ffff:a.b.c.d` form, any zone on an address that is not link-local IPv6 — are dispatched identically
(in every state, reachable or not) and register the same binding when written to. -/
theorem C12_canonical (m : Mux) (a b : Addr) (hab : endpoint a = endpoint b) (k : Kind) (pid h : Nat) :
    (step m (.inbound a k pid)).2 = (step m (.inbound b k pid)).2
    ∧ step m (.writeTo h a) = step m (.writeTo h b) := by
  have hc : canonAddr a = canonAddr b := (canon_eq_iff a b).mpr hab
  constructor
  · simp only [IceModel.UdpMux.step, inbound, hc]
    split
    · rfl
    · split
      · rfl
      · split <;> rfl
  · simp only [IceModel.UdpMux.step, writeTo, hc]

/-- the aliasing forms named by the property: 4-byte vs IPv4-mapped, and zones off link-local -/
theorem C12_canonical_forms (x port hi lo : Nat) (z z' : Name) (hx : x < 4294967296) :
    endpoint { ip := { is4 := true, hi := 0, lo := x, zone := [] }, port := port }
      = endpoint { ip := { is4 := false, hi := 0, lo := 65535 * 4294967296 + x, zone := z }, port := port }
    ∧ (llBits hi = false →
        endpoint { ip := { is4 := false, hi := hi, lo := lo, zone := z }, port := port }
          = endpoint { ip := { is4 := false, hi := hi, lo := lo, zone := z' }, port := port }) := by
  constructor
  · simp only [endpoint, to16, linkLocal_eq, llBits_zero, pow32, Bool.false_eq_true, if_false, if_true]
    rw [Nat.mod_eq_of_lt hx]
  · intro h
    simp only [endpoint, to16, linkLocal_eq, h, Bool.false_eq_true, if_false]

/-! ## non-vacuity: concrete histories on which the clauses are exercised -/

private def uA : Name := [97]            -- "a"
private def uB : Name := [98]            -- "b"
private def userA : Name := [97, 58, 120] -- "a:x"
private def x4 : Addr := { ip := { is4 := true, hi := 0, lo := 168361985, zone := [] }, port := 5000 }
private def x4mapped : Addr := { ip := { is4 := false, hi := 0, lo := 281470850105345, zone := [101] }, port := 5000 }
private def y6 : Addr := { ip := { is4 := false, hi := 2306139568115548160, lo := 5, zone := [] }, port := 6000 }

/-- last writer wins over the ufrag, through the IPv4-mapped alias of the address -/
example : trace [.getConn uA false, .getConn uB false, .writeTo 1 x4, .inbound x4mapped (.stunUser userA) 7, .read 1]
    = [(.getConn uA false, .conn 0 0), (.getConn uB false, .conn 1 1), (.writeTo 1 x4, .wrote),
       (.inbound x4mapped (.stunUser userA) 7, .delivered 1), (.read 1, .pkt 7 x4mapped)] := by decide

/-- unseen source: by ufrag and family; wrong family, no username, non-STUN are dropped -/
example : (trace [.getConn uA false, .inbound x4 (.stunUser userA) 1, .inbound y6 (.stunUser userA) 2,
      .inbound x4 .stunNoUser 3, .inbound x4 .nonStun 4, .inbound x4 .stunBad 5]).map Prod.snd
    = [.conn 0 0, .delivered 0, .dropped, .dropped, .dropped, .dropped] := by decide

/-- the F9 history: remove, write through the stale handle, re-register, close the stale handle — the
new connection stays registered and receives; the stale handle cannot write -/
example : (trace [.getConn uA false, .removeByUfrag uA, .writeTo 0 x4, .getConn uA false, .closeHandle 0,
      .watcherRun 0, .inbound x4 (.stunUser userA) 9]).map Prod.snd
    = [.conn 0 0, .done, .errClosed, .conn 1 1, .done, .done, .delivered 1] := by decide

/-- hypotheses of `C12_no_cross_ufrag` are satisfiable -/
example : (step (after [.getConn uA false]) (.inbound x4 (.stunUser userA) 1)).2 = .delivered 0
    ∧ (hist [.getConn uA false]).lastW (endpoint x4) ≠ some 0 := by decide

/-- hypotheses of `C12_after_removal` (b) are satisfiable: a removed connection exists -/
example : 0 < (after [.getConn uA false, .writeTo 0 x4, .removeByUfrag uA]).nconns
    ∧ (hist [.getConn uA false, .writeTo 0 x4, .removeByUfrag uA]).removed 0 = true := by decide

/-- the two aliases have one endpoint (hypothesis of `C12_canonical`), and link-local zones differ -/
example : endpoint x4 = endpoint x4mapped := by decide
example : endpoint { ip := { is4 := false, hi := 18338657682652659712, lo := 1, zone := [101, 48] }, port := 1 }
    ≠ endpoint { ip := { is4 := false, hi := 18338657682652659712, lo := 1, zone := [101, 49] }, port := 1 } := by decide

/-! ## The output line: what the driver prints is what the driver's monitor reads

`IceSpec/C12View.lean` holds THE printer (`printWire`; `printOut i g = printWire ∘ toWire i g` for a typed output
of mux `i` under session-wide handle id `g`) and THE parser (`parseWire`) of the `udpmux` output line; the driver
uses no other string function on outputs.  `Wire` is what a line says: `wrote` and `done` are both `ok`, a
connection is named with its socket index, a handle by its session-wide id; `ofWire` / `decode` give back the typed
output, given the operation and the monitor's handle counter. -/

open IceSpec.C12View IceProofs.UdpMuxView

/-- **the line is read back.**  Every line `printWire` can print — every `Wire` value whose datagram source (the
only free text on a line) is printable: a 4-byte address without `hi` and zone, a zone of character codes other
than `,` and space that is not the text `-` — is read back by `parseWire` as the same value. -/
theorem C12_view_roundtrip (x : Wire) (h : x.wf = true) : parseWire (printWire x) = some x :=
  parseWire_printWire x h

example : (Wire.pkt 7 x4mapped).wf = true := by decide
example : (Wire.conn 3 1 0).wf = true ∧ (Wire.closeIn false (some (2, 5))).wf = true := by decide
/-- the hypothesis is needed: a zone with a space does not survive the line -/
example : (Wire.pkt 7 { x4mapped with ip := { x4mapped.ip with zone := [101, 32] } }).wf = false := by decide

/-- The `closein` line (`ok w|q` + the line of the datagram's output) is a `Wire` line as well, for both outputs
an inbound datagram has in the model. -/
theorem C12_view_roundtrip_closein (ops : List Op) (src : Addr) (k : Kind) (pid i : Nat) (w : Bool) :
    ∃ x, closeInWire w i (step (after ops) (.inbound src k pid)).2 = some x
      ∧ parseWire (printCloseIn w i (step (after ops) (.inbound src k pid)).2) = some x := by
  have h := (C12_dispatch ops src k pid).1
  cases he : expected (hist ops) src k with
  | none =>
    rw [he] at h
    refine ⟨.closeIn w none, by rw [h]; rfl, ?_⟩
    rw [printCloseIn_eq w i _ (.closeIn w none) (by rw [h]; rfl)]
    exact parseWire_printWire _ rfl
  | some c =>
    rw [he] at h
    refine ⟨.closeIn w (some (i, c)), by rw [h]; rfl, ?_⟩
    rw [printCloseIn_eq w i _ (.closeIn w (some (i, c))) (by rw [h]; rfl)]
    exact parseWire_printWire _ rfl

example : printCloseIn true 2 (step (after [.getConn uA false]) (.inbound x4 (.stunUser userA) 1)).2 = "ok w m2c0" := by
  decide

/-- Every address the driver reads from a (space-free) input token is printable: the hypothesis `opWf` of the two
theorems below holds for every operation the driver can be given. -/
theorem C12_view_inputs_printable (tok : String) (a : Addr) (h : parseAddr tok = some a) (hs : ' ' ∉ tok.toList) :
    wfAddr a = true :=
  wfAddr_parseAddr tok a h hs

example : parseAddr "6,0,281470850105345,e,5000" = some x4mapped := by
  rw [show "6,0,281470850105345,e,5000" = showAddr x4mapped by decide]
  exact parseAddr_showAddr _ (by decide)

/-- **every output of the model is read back — and decodes to itself.**  For every operation sequence with
printable datagram sources, every output of the model, printed by the driver's printer for any socket index and
handle id, is read back by the driver's parser as its `Wire` form, and `decode` (parser, then `ofWire` with the
operation and the monitor's handle counter) gives the typed output itself. -/
theorem C12_view_roundtrip_model (ops : List Op) (op : Op) (hops : ∀ x ∈ ops, opWf x = true) (i g : Nat) :
    parseWire (printOut i g (step (after ops) op).2) = some (toWire i g (step (after ops) op).2)
    ∧ decode op (hist ops).nh (printOut i g (step (after ops) op).2) = some (step (after ops) op).2 := by
  have hi := C12_invariant ops
  have hs := C12_refines_history ops
  have hq : QInv (hist ops) := qinv_run ops init SState.init qinv_init hops
  exact ⟨parseWire_printOut i g _ (wfOut_step _ _ hi hs hq op), decode_step _ _ hi hs hq op i g⟩

example : opWf (.inbound x4mapped (.stunUser userA) 7) = true := by decide
example : printOut 0 1 (step (after [.getConn uA false, .inbound x4mapped (.stunUser userA) 7]) (.read 0)).2
    = "p7 6,0,281470850105345,e,5000" := by decide

/-- **the model passes the monitor on lines.**  Every run of the model (printable datagram sources), printed line
by line with the driver's printer (any socket index / handle id per line) and read back with the driver's parser,
is accepted by the spec monitor of C12. -/
theorem C12_model_passes_string_monitor (ig : Op × Out → Nat × Nat) (ops : List Op)
    (hops : ∀ x ∈ ops, opWf x = true) : lineMonitor (printTrace ig (trace ops)) = none := by
  unfold lineMonitor
  rw [show trace ops = (run init ops).2 from rfl,
    lineVerdicts_run ig ops init SState.init inv_init sim_init qinv_init hops]
  exact C12_model_passes_monitor ops

/-- the line monitor rejects: a datagram for ufrag `a` answered with the line of another connection, and a
line that is no output line -/
example : lineMonitor [(.getConn uA false, printOut 0 0 (.conn 0 0)), (.getConn uB false, printOut 0 1 (.conn 1 1)),
    (.inbound x4 (.stunUser userA) 1, printOut 0 0 (.delivered 1))] ≠ none := by
  have h1 := parseWire_printOut 0 0 (.conn 0 0) rfl
  have h2 := parseWire_printOut 0 1 (.conn 1 1) rfl
  have h3 := parseWire_printOut 0 0 (.delivered 1) rfl
  simp only [lineMonitor, lineVerdicts, decode, h1, h2, h3, Option.bind_some, ofWire, toWire, okOf]
  decide
example : lineMonitor [(.getConn uA false, "h m0c0 x y")] = some "dispatch: unparsable output line" := by decide
example : lineMonitor (printTrace (fun _ => (0, 0)) (trace [.getConn uA false, .inbound x4 (.stunUser userA) 1, .read 0]))
    = none := C12_model_passes_string_monitor _ _ (by decide)

/-! # The universal mux (`UniversalUDPMuxDefault`, udp_mux_universal.go)

Model `IceModel.UniMux` (tied to the code by the correspondence check `udpmuxuni`): the embedded mux of the
theorems above plus the per-server table of `GetXORMappedAddr`, the calls in flight and a virtual clock.
All theorems quantify over ALL sequences `ops : List UOp` (operations of the embedded mux, datagrams of every
STUN class / transaction id / with, without or with a malformed XOR-MAPPED-ADDRESS, `GetConnForURL`,
`GetXORMappedAddr` calls with any deadline, passage of time) and every cache TTL. -/

open IceModel.UniMux IceProofs.UniMux IceProofs.UniMuxConc
open IceSpec.C12Uni (UState Verdict answerOf)

/-- model state of the universal mux after `ops` -/
def uafter (ttl : Nat) (ops : List UOp) : UMux := (IceModel.UniMux.run (IceModel.UniMux.init ttl) ops).1
/-- trace `(operation, output)` of `ops` -/
def utrace (ttl : Nat) (ops : List UOp) : List (UOp × UOut) := (IceModel.UniMux.run (IceModel.UniMux.init ttl) ops).2
/-- history state of the universal-mux monitor after the trace of `ops` -/
def uhist (ttl : Nat) (ops : List UOp) : UState := IceSpec.C12Uni.stateAfter UState.init (utrace ttl ops)

/-- **the layer never touches the embedded mux.** After any operation sequence the embedded mux is in the
state the plain mux reaches on the projected sequence (datagrams stripped of what only the layer looks at,
`GetConnForURL(u, url)` as `GetConn(u ++ url)`, discovery calls and clock ticks dropped): every theorem above
holds of it verbatim — in particular `C12_faithful`, `C12_after_removal`, `C12_canonical`. -/
theorem C12_uni_embedded (ttl : Nat) (ops : List UOp) : (uafter ttl ops).base = after (projAll ops) :=
  run_base ops (IceModel.UniMux.init ttl)

/-- The invariant of the embedded mux, and of the layer's own state (`XInv`): table keys are canonical
addresses for which `GetXORMappedAddr` was called; an entry, once created, never disappears; an entry is
pending iff its channel is open; every blocked call hangs on the pending entry of its server and its timer
lies in the future (no call can block for ever, none waits on a dead entry). -/
theorem C12_uni_invariant (ttl : Nat) (ops : List UOp) : Inv (uafter ttl ops).base ∧ XInv (uafter ttl ops) :=
  ⟨by rw [C12_uni_embedded]; exact C12_invariant _, xinv_run ops _ (xinv_init ttl)⟩

example : XInv (IceModel.UniMux.init 0) := xinv_init 0

/-- **dispatch on the universal mux.** Whatever the layer does with a datagram (any class, transaction id,
attribute), the datagram is handed to exactly the connection THE RULE names on the history of the embedded
mux — also when it comes from a STUN server's address — and the embedded mux moves as the plain mux does:
nothing is diverted, nothing is swallowed. -/
theorem C12_uni_dispatch (ttl : Nat) (ops : List UOp) (src : Addr) (k : Kind) (x : XView) (pid : Nat) :
    (IceModel.UniMux.step (uafter ttl ops) (.inbound src k x pid)).2.main =
      .base (match expected (hist (projAll ops)) src k with
             | some c => .delivered c
             | none => .dropped)
    ∧ (IceModel.UniMux.step (uafter ttl ops) (.inbound src k x pid)).1.base
        = (step (after (projAll ops)) (.inbound src k pid)).1 := by
  constructor
  · show (IceModel.UniMux.inbound _ src k x pid).2.main = _
    rw [inbound_main, C12_uni_embedded]
    exact congrArg UMain.base (C12_dispatch (projAll ops) src k pid).1
  · show (IceModel.UniMux.inbound _ src k x pid).1.base = _
    rw [inbound_base, C12_uni_embedded]; rfl

/-- **the interception rule.** The layer takes a datagram (records its mapped address) iff the mux is open,
the datagram is a decodable STUN message carrying a well-formed XOR-MAPPED-ADDRESS and its CANONICAL source
has a table entry — nothing else is looked at; it records the value under that key, releases exactly the
calls blocked on that key, each with that value; a datagram it does not take changes nothing of the layer;
no other table entry is ever touched. -/
theorem C12_uni_intercept (ttl : Nat) (ops : List UOp) (src : Addr) (k : Kind) (x : XView) (pid : Nat) :
    (∀ a v, (IceModel.UniMux.step (uafter ttl ops) (.inbound src k x pid)).2.fx.learned = some (a, v) ↔
        (uafter ttl ops).base.closed = false ∧ decodable k = true ∧ x.xa = .value v ∧ a = canonAddr src
          ∧ ((uafter ttl ops).xmap (canonAddr src)).isSome = true)
    ∧ (∀ v, (IceModel.UniMux.step (uafter ttl ops) (.inbound src k x pid)).2.fx.learned = some (canonAddr src, v) →
        (IceModel.UniMux.step (uafter ttl ops) (.inbound src k x pid)).2.fx.woke
            = (blockedOn (uafter ttl ops) (canonAddr src)).map (fun i => (i, WRes.ok v))
        ∧ ∃ e, (uafter ttl ops).xmap (canonAddr src) = some e ∧
            (IceModel.UniMux.step (uafter ttl ops) (.inbound src k x pid)).1.xmap (canonAddr src)
              = some { e with addr := some v, signalled := true })
    ∧ ((IceModel.UniMux.step (uafter ttl ops) (.inbound src k x pid)).2.fx.learned = none →
        (IceModel.UniMux.step (uafter ttl ops) (.inbound src k x pid)).2.fx.woke = []
        ∧ (IceModel.UniMux.step (uafter ttl ops) (.inbound src k x pid)).1.xmap = (uafter ttl ops).xmap
        ∧ (IceModel.UniMux.step (uafter ttl ops) (.inbound src k x pid)).1.waiter = (uafter ttl ops).waiter)
    ∧ (∀ b, b ≠ canonAddr src →
        (IceModel.UniMux.step (uafter ttl ops) (.inbound src k x pid)).1.xmap b = (uafter ttl ops).xmap b) := by
  have hx := (C12_uni_invariant ttl ops).2
  generalize uafter ttl ops = m at hx ⊢
  show (∀ a v, (IceModel.UniMux.inbound m src k x pid).2.fx.learned = some (a, v) ↔ _)
    ∧ (∀ v, (IceModel.UniMux.inbound m src k x pid).2.fx.learned = some (canonAddr src, v) →
        (IceModel.UniMux.inbound m src k x pid).2.fx.woke = _
        ∧ ∃ e, m.xmap (canonAddr src) = some e ∧ (IceModel.UniMux.inbound m src k x pid).1.xmap (canonAddr src) = _)
    ∧ ((IceModel.UniMux.inbound m src k x pid).2.fx.learned = none →
        (IceModel.UniMux.inbound m src k x pid).2.fx.woke = []
        ∧ (IceModel.UniMux.inbound m src k x pid).1.xmap = m.xmap
        ∧ (IceModel.UniMux.inbound m src k x pid).1.waiter = m.waiter)
    ∧ (∀ b, b ≠ canonAddr src → (IceModel.UniMux.inbound m src k x pid).1.xmap b = m.xmap b)
  rw [inbound_fx, inbound_xmap, inbound_waiter]
  rcases Bool.eq_false_or_eq_true m.base.closed with hc | hc
  · rw [if_pos hc, if_pos hc, if_pos hc]
    refine ⟨fun a v => ⟨fun h => (by cases h), fun h => (by rw [hc] at h; cases h.1)⟩, fun v h => (by cases h),
      fun _ => ⟨rfl, rfl, rfl⟩, fun _ _ => rfl⟩
  · have hn : ¬ m.base.closed = true := by simp [hc]
    rw [if_neg hn, if_neg hn, if_neg hn]
    refine ⟨fun a v => ⟨fun h => ⟨hc, (tap_learned_iff m src k x a v).mp h⟩, fun h => (tap_learned_iff m src k x a v).mpr h.2⟩,
      ?_, ?_, fun b hb => tap_xmap_other m src k x b hb⟩
    · intro v h
      exact ⟨tap_woke m hx src k x v h, tap_xmap_self m src k x v h⟩
    · intro h
      rw [tap_none m src k x h]
      exact ⟨rfl, rfl, rfl⟩

/-- **no cross-ufrag on the universal mux** — unchanged by the layer: a connection that receives a datagram
without being the last writer to its source was handed out (by `GetConn`, or by `GetConnForURL` under the key
`ufrag ++ url`) for exactly the text before the first `:` of the USERNAME and the family of the source. -/
theorem C12_uni_no_cross_ufrag (ttl : Nat) (ops : List UOp) (src : Addr) (k : Kind) (x : XView) (pid c : Nat)
    (hd : (IceModel.UniMux.step (uafter ttl ops) (.inbound src k x pid)).2.main = .base (.delivered c))
    (hw : (hist (projAll ops)).lastW (endpoint src) ≠ some c) :
    ∃ n, k = .stunUser n ∧ (hist (projAll ops)).ckey c = (ufragOf n, srcIsV6 src) := by
  refine C12_no_cross_ufrag (projAll ops) src k pid c ?_ hw
  have : (IceModel.UniMux.inbound (uafter ttl ops) src k x pid).2.main = .base (.delivered c) := hd
  rw [inbound_main, C12_uni_embedded] at this
  injection this

/-- **what the layer takes — partial.**  FULL statement (the property text: the layer may take only what is
addressed to itself):

  `learned = some (a, v) → answerOf (uhist ttl ops) src k x = some v`

i.e. the datagram is the success response, with the transaction id of the layer's own latest and still
unanswered discovery request to that source.  It is FALSE of the code (`C12_uni_consumed_witness`).  What
holds: a datagram is taken only if `GetXORMappedAddr` was called — at some time, answered or not, expired
or not — for a server with the same transport address. -/
theorem C12_uni_consumed_partial (ttl : Nat) (ops : List UOp) (src : Addr) (k : Kind) (x : XView) (pid : Nat)
    (a : Addr) (v : Nat)
    (h : (IceModel.UniMux.step (uafter ttl ops) (.inbound src k x pid)).2.fx.learned = some (a, v)) :
    ∃ srv d, UOp.xorStart srv d ∈ ops ∧ endpoint srv = endpoint src := by
  obtain ⟨_, _, _, _, h5⟩ := ((C12_uni_intercept ttl ops src k x pid).1 a v).mp h
  cases he : (uafter ttl ops).xmap (canonAddr src) with
  | none => rw [he] at h5; cases h5
  | some e =>
    have hk := ((C12_uni_invariant ttl ops).2.key _ e he).2
    rcases (mem_started_iff ops _ (xinv_init ttl) (canonAddr src)).mp hk with h0 | ⟨srv, d, h1, h2⟩
    · cases h0
    · exact ⟨srv, d, h1, (canon_eq_iff srv src).mp h2⟩

private def srvS : Addr := { ip := { is4 := true, hi := 0, lo := 168361985, zone := [] }, port := 3478 }
private def srvSmapped : Addr := { ip := { is4 := false, hi := 0, lo := 281470850105345, zone := [] }, port := 3478 }
private def xOwn (v : Nat) : XView := { cls := .success, tid := .own, xa := .value v }
private def xForeign (v : Nat) : XView := { cls := .success, tid := .foreign, xa := .value v }
private def xRequest (v : Nat) : XView := { cls := .request, tid := .foreign, xa := .value v }

/-- the full statement fails: with one discovery pending, a Binding success response with a FOREIGN
transaction id from the server's address is taken (and a second one after the answer, and a request) -/
theorem C12_uni_consumed_witness :
    ¬ (∀ (ttl : Nat) (ops : List UOp) (src : Addr) (k : Kind) (x : XView) (pid : Nat) (a : Addr) (v : Nat),
        (IceModel.UniMux.step (uafter ttl ops) (.inbound src k x pid)).2.fx.learned = some (a, v) →
        answerOf (uhist ttl ops) src k x = some v) := by
  intro h
  have := h 1000 [.xorStart srvS 500] srvS .stunNoUser (xForeign 9) 1 srvS 9 (by decide)
  revert this
  decide

/-- … and what the layer takes is ALSO delivered when a connection owns the source: "at most one consumer"
fails for the layer's own answer -/
theorem C12_uni_both_witness :
    ¬ (∀ (ttl : Nat) (ops : List UOp) (src : Addr) (k : Kind) (x : XView) (pid : Nat),
        (IceModel.UniMux.step (uafter ttl ops) (.inbound src k x pid)).2.fx.learned.isSome = true →
        (IceModel.UniMux.step (uafter ttl ops) (.inbound src k x pid)).2.main = .base .dropped) := by
  intro h
  have := h 1000 [.getConnForURL uA [115] false, .base (.writeTo 0 srvS), .xorStart srvS 500] srvS .stunNoUser (xOwn 7) 1
    (by decide)
  revert this
  decide

/-- **the monitor on the model.** On every trace of the model the universal-mux monitor never reports a clause
of the base monitor (`dispatch` / `no_cross_ufrag` / `after_removal` / `faithful`): whatever it objects to is
a clause about the layer. -/
theorem C12_uni_monitor_base_clauses (ttl : Nat) (ops : List UOp) (w : String) :
    Verdict.base w ∉ IceSpec.C12Uni.verdicts UState.init (utrace ttl ops) := by
  intro hm
  exact (usim_run ops (IceModel.UniMux.init ttl) UState.init inv_init sim_init).2.2 _ hm

/-! ## non-vacuity for the universal mux -/

private def isUni : Verdict → Bool
  | .uni _ => true
  | _ => false

/-- a clean discovery: request, the server's own answer through the IPv4-mapped alias of its address, a second
call served from the table, expiry, a call that times out — accepted by the monitor, clause by clause -/
example : IceSpec.C12Uni.monitor (utrace 1000 [.xorStart srvS 500, .xorStart srvSmapped 300,
      .inbound srvSmapped .stunNoUser (xOwn 7) 1, .xorStart srvS 0, .tick 1001, .xorStart srvS 200, .tick 200]) = none := by
  decide

example : (utrace 1000 [.xorStart srvS 500, .xorStart srvSmapped 300, .inbound srvSmapped .stunNoUser (xOwn 7) 1,
      .xorStart srvS 0, .tick 1001, .xorStart srvS 200, .tick 200]).map Prod.snd
    = [{ main := .started 0 true }, { main := .started 1 true },
       { main := .base .dropped, fx := { learned := some (srvS, 7), woke := [(0, .ok 7), (1, .ok 7)] } },
       { main := .started 2 false, fx := { woke := [(2, .ok 7)] } }, { main := .ticked },
       { main := .started 3 true }, { main := .ticked, fx := { woke := [(3, .timeout)] } }] := by decide

/-- the monitor objects to the model exactly where the code leaves the property text: foreign transaction id,
a request carrying the attribute, a second answer, and the answer also delivered -/
example : ((IceSpec.C12Uni.verdicts UState.init (utrace 1000 [.xorStart srvS 500,
      .inbound srvS .stunNoUser (xForeign 9) 1])).map isUni) = [false, true] := by decide
example : ((IceSpec.C12Uni.verdicts UState.init (utrace 1000 [.xorStart srvS 500,
      .inbound srvS .stunNoUser (xRequest 9) 1])).map isUni) = [false, true] := by decide
example : ((IceSpec.C12Uni.verdicts UState.init (utrace 1000 [.xorStart srvS 500,
      .inbound srvS .stunNoUser (xOwn 7) 1, .inbound srvS .stunNoUser (xOwn 8) 2])).map isUni) = [false, false, true] := by decide
example : ((IceSpec.C12Uni.verdicts UState.init (utrace 1000 [.getConnForURL uA [115] false, .base (.writeTo 0 srvS),
      .xorStart srvS 500, .inbound srvS .stunNoUser (xOwn 7) 1])).map isUni) = [false, false, false, true] := by decide

/-- hypotheses of `C12_uni_no_cross_ufrag` and `C12_uni_consumed_partial` are satisfiable; a datagram from a
server address that the layer does not take is dispatched by ufrag like any other -/
example : (IceModel.UniMux.step (uafter 1000 [.getConnForURL uA [] false, .xorStart x4 500]) (.inbound x4 (.stunUser userA) XView.plain 1)).2
    = { main := .base (.delivered 0) } := by decide
example : (IceModel.UniMux.step (uafter 1000 [.xorStart srvS 500]) (.inbound srvSmapped .stunNoUser (xOwn 7) 1)).2.fx.learned
    = some (srvS, 7) := by decide

/-! ## one-step theorems of the layer, for ALL states of the model -/

/-- after Close a call neither blocks nor sends: it returns the write error, or an address still cached -/
theorem C12_uni_closed_call_returns (m : UMux) (srv : Addr) (d : Nat) (hc : m.base.closed = true) :
    (IceModel.UniMux.xorStart m srv d).2.main = .started m.nwaiters false ∧
    ∃ res, ((IceModel.UniMux.xorStart m srv d).1.waiter m.nwaiters).res = some res ∧ (res = .writeErr ∨ ∃ v, res = .ok v) := by
  rw [xorStart_eq]
  simp only []
  split
  · next v _ => exact ⟨rfl, .ok v, by simp [upd], Or.inr ⟨_, rfl⟩⟩
  · have h2 : (withEntry (cached m (canonAddr srv)).1 (canonAddr srv)).base.closed = true := by
      rw [withEntry_base, cached_base]; exact hc
    rw [if_pos h2]
    exact ⟨rfl, _, by simp [upd], Or.inl rfl⟩

example : (uafter 1000 [.xorStart srvS 500, .inbound srvS .stunNoUser (xOwn 7) 1, .base .closeMux]).base.closed = true
    ∧ ((IceModel.UniMux.xorStart (uafter 1000 [.xorStart srvS 500, .inbound srvS .stunNoUser (xOwn 7) 1, .base .closeMux]) srvS 5).1.waiter 1).res
        = some (.ok 7)
    ∧ ((IceModel.UniMux.xorStart (uafter 1000 [.xorStart srvS 500, .inbound srvS .stunNoUser (xOwn 7) 1, .base .closeMux]) x4 5).1.waiter 1).res
        = some .writeErr := by decide

/-- the timer: a tick releases exactly the blocked calls whose deadline has passed, with the timeout error -/
theorem C12_uni_timer_exact (m : UMux) (dt i : Nat) (hi : i < m.nwaiters) (hb : (m.waiter i).res = none) :
    ((m.waiter i).deadlineAt ≤ m.now + dt →
        ((IceModel.UniMux.tick m dt).1.waiter i).res = some .timeout ∧ (i, WRes.timeout) ∈ (IceModel.UniMux.tick m dt).2.fx.woke) ∧
    (m.now + dt < (m.waiter i).deadlineAt →
        ((IceModel.UniMux.tick m dt).1.waiter i).res = none ∧ ∀ x, (i, x) ∉ (IceModel.UniMux.tick m dt).2.fx.woke) := by
  constructor
  · intro h
    simp [IceModel.UniMux.tick, hi, hb, h]
  · intro h
    have h' : ¬ (m.waiter i).deadlineAt ≤ m.now + dt := by omega
    simp [IceModel.UniMux.tick, hi, hb, h']
    intro x j _ _ h3 hj; subst hj; exact absurd h3 h'

example : 0 < (uafter 1000 [.xorStart srvS 500]).nwaiters ∧ ((uafter 1000 [.xorStart srvS 500]).waiter 0).res = none
    ∧ ((uafter 1000 [.xorStart srvS 500]).waiter 0).deadlineAt ≤ (uafter 1000 [.xorStart srvS 500]).now + 500
    ∧ (uafter 1000 [.xorStart srvS 500]).now + 499 < ((uafter 1000 [.xorStart srvS 500]).waiter 0).deadlineAt := by decide

/-- Close of the mux does NOT release the calls blocked in GetXORMappedAddr (they run to their deadline):
the step closes the embedded mux and leaves the calls, the table and the clock alone -/
theorem C12_uni_close_leaves_waiters (m : UMux) :
    (IceModel.UniMux.step m (.base .closeMux)).1.waiter = m.waiter ∧
    (IceModel.UniMux.step m (.base .closeMux)).1.nwaiters = m.nwaiters ∧
    (IceModel.UniMux.step m (.base .closeMux)).1.xmap = m.xmap ∧
    (IceModel.UniMux.step m (.base .closeMux)).1.now = m.now ∧
    (IceModel.UniMux.step m (.base .closeMux)).1.base.closed = true ∧
    (IceModel.UniMux.step m (.base .closeMux)).2.fx.woke = [] := by
  refine ⟨rfl, rfl, rfl, rfl, ?_, rfl⟩
  show (closeMux m.base).closed = true
  unfold closeMux
  split
  · assumption
  · rfl

/-- a call is blocked across Close -/
example : ((IceModel.UniMux.step (uafter 1000 [.xorStart srvS 500]) (.base .closeMux)).1.waiter 0).res = none
    ∧ 0 < (IceModel.UniMux.step (uafter 1000 [.xorStart srvS 500]) (.base .closeMux)).1.nwaiters := by decide

/-- a call that returns an address returns the one the table holds for ITS server after the step; that entry
was written by a response in this very step, or it is not expired -/
theorem C12_uni_waiter_answer_fresh (m : UMux) (op : UOp) (w v : Nat)
    (hw : (w, WRes.ok v) ∈ (IceModel.UniMux.step m op).2.fx.woke) :
    ∃ e, (IceModel.UniMux.step m op).1.xmap ((IceModel.UniMux.step m op).1.waiter w).srv = some e ∧ e.addr = some v ∧
      ((IceModel.UniMux.step m op).2.fx.learned = some (((IceModel.UniMux.step m op).1.waiter w).srv, v) ∨ (IceModel.UniMux.step m op).1.now ≤ e.expiresAt) := by
  have hin : ∀ src k x pid, (w, WRes.ok v) ∈ (IceModel.UniMux.inbound m src k x pid).2.fx.woke →
      ∃ e, (IceModel.UniMux.inbound m src k x pid).1.xmap ((IceModel.UniMux.inbound m src k x pid).1.waiter w).srv = some e ∧ e.addr = some v ∧
        ((IceModel.UniMux.inbound m src k x pid).2.fx.learned = some (((IceModel.UniMux.inbound m src k x pid).1.waiter w).srv, v) ∨
          (IceModel.UniMux.inbound m src k x pid).1.now ≤ e.expiresAt) := by
    intro src k x pid h
    rw [inbound_fx] at h
    rw [inbound_fx, inbound_xmap, inbound_waiter]
    by_cases hc : m.base.closed = true
    · rw [if_pos hc] at h; cases h
    · rw [if_neg hc] at h
      simp only [if_neg hc]
      obtain ⟨e, h1, h2, h3⟩ := tap_woke_fresh m src k x w v h
      exact ⟨e, h1, h2, Or.inl h3⟩
  cases op with
  | base bop =>
    cases bop with
    | inbound src k pid => exact hin src k XView.plain pid hw
    | _ => cases hw
  | inbound src k x pid => exact hin src k x pid hw
  | getConnForURL u url v6 => cases hw
  | xorStart srv d =>
    obtain ⟨e, h1, h2, h3⟩ := xorStart_woke_fresh m srv d w v hw
    exact ⟨e, h1, h2, Or.inr h3⟩
  | tick dt =>
    exfalso
    change (w, WRes.ok v) ∈ (IceModel.UniMux.tick m dt).2.fx.woke at hw
    simp [IceModel.UniMux.tick] at hw

/-- released by a response; served from the table -/
example : (0, WRes.ok 7) ∈ (IceModel.UniMux.step (uafter 1000 [.xorStart srvS 500]) (.inbound srvSmapped .stunNoUser (xOwn 7) 1)).2.fx.woke := by
  decide
example : (1, WRes.ok 7) ∈ (IceModel.UniMux.step (uafter 1000 [.xorStart srvS 500, .inbound srvSmapped .stunNoUser (xOwn 7) 1])
    (.xorStart srvS 0)).2.fx.woke := by decide
/-! ## Tie to the code (T, round 3): one iteration of `UDPMuxDefault.connWorker` (udp_mux.go), REGENERATED on every run
(`IceGen.T_Mux`, loop mode) -/

open IceTie.MuxUdp in
/-- where a datagram goes: the canonical source is looked up in the address map first; only an unmapped source with a STUN payload
that decodes and has a USERNAME is looked up by the text before the first ':' in the map of the canonical source's family; the
datagram is written to exactly one connection iff one of the lookups found it, otherwise dropped; the worker ends only on a closed
mux or a non-timeout read error.  The model's `inbound` consults the address map first and `lookupUfrag` answers only for
`Kind.stunUser`, on `beforeColon` and the family of the canonical address -/
theorem C12_code_connWorker :
    (∀ closed readErr isTimeout e1 e2 e3 mapped isStun decodeErr noUsername byUfrag,
      IceGen.udpMux_connWorker_iter closed readErr isTimeout e1 e2 e3 mapped isStun decodeErr noUsername byUfrag
        = if closed then ([c "readFromUDPConn"], some ())
          else if readErr then ([c "readFromUDPConn"], if isTimeout then none else some ())
          else (c "readFromUDPConn" :: udpHead ++
                 (if !mapped && isStun then
                    udpLookup ++ (if decodeErr || noUsername then [] else udpByUfrag ++ (if byUfrag then [udpWrite] else []))
                  else if mapped then [udpWrite] else []), none)) ∧
    (∀ isTimeout e1 e2 e3 mapped isStun decodeErr noUsername byUfrag,
      (IceGen.udpMux_connWorker_iter false false isTimeout e1 e2 e3 mapped isStun decodeErr noUsername byUfrag).1.count udpWrite
        = if udpRouted mapped isStun decodeErr noUsername byUfrag then 1 else 0) ∧
    (∀ (m : Mux) (src : Addr) (k : Kind) (pid c : Nat), m.closed = false → m.addrMap (canonAddr src) = some c →
      (m.conn c).closed = false → (inbound m src k pid).2 = .delivered c) ∧
    (∀ (m : Mux) (a : Addr) (k : Kind), lookupUfrag m a k =
      match k with
      | .stunUser n => (famMap m (!a.ip.is4)).get? (beforeColon n)
      | _ => none) :=
  ⟨connWorker_iter_tie, connWorker_delivers_iff, inbound_mapped, lookupUfrag_only_user⟩

/-- non-vacuity: a mapped source is written without any STUN parsing; an unmapped non-STUN datagram is dropped -/
example : (IceGen.udpMux_connWorker_iter false false false false false false true true false false false).1
      = IceTie.MuxUdp.c "readFromUDPConn" :: IceTie.MuxUdp.udpHead ++ [IceTie.MuxUdp.udpWrite] ∧
    (IceGen.udpMux_connWorker_iter false false false false false false false false false false true).1
      = IceTie.MuxUdp.c "readFromUDPConn" :: IceTie.MuxUdp.udpHead := by decide

end IceProps.C12
