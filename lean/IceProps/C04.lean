import IceTie.Lifecycle
import IceTie.Options
import IceTie.AgentDefaults
import IceTie.AgentTick
import IceProofs.AgentC04Run
import IceTie.AgentTiming
import IceTie.Order
/-!
# C04 — connection state follows the documented lifecycle and liveness timing

Property theorems only.  Model: `IceModel.AgentCore.step` (one agent, validated against the real agent under a
virtual clock).  A *history* is an arbitrary event list run from an `Initial` agent (state New, not started,
not closed, nothing selected, no candidates; arbitrary configuration incl. zero timeouts and lite).
`trace a0 evs` is the sequence of states handed to the connection-state notifier (`Out.cbState`, the ENQUEUE
order — delivery order is C11's); `ltrace` labels each notification with the agent before the step and the
event of the step that produced it.

FINDING (F13).  The documented graph does NOT hold for all histories: the agent goes Failed → Connected without
Restart when a local candidate is added while it is Failed (late gathering) and a nominating check arrives.
`C04_path_partial` proves the exact graph of the model (documented graph + that one edge), `C04_path_witness`
refutes the documented graph on a concrete history, `C04_path_no_late_candidates` proves the documented graph
for every history that adds no local candidate while Failed.
-/
namespace IceProps.C04
open IceModel.AgentCore IceProofs.AgentC04

/-! ## the graph -/

/-- the model's graph over the agent's configuration `cfg`: the documented graph (`docEdge`: New→Checking;
Checking→Connected|Failed; Connected⇄Disconnected; Disconnected→Failed; Connected→Failed iff
`cfg.disconnectedTimeout = 0`; Connected|Disconnected|Failed→Checking only by `.restart`; any→Closed only by
`.close`; nothing from Closed) plus `lateEdge`: Failed→Connected by an `.inbound` event of an agent that has a
local candidate. -/
def edge (cfg : Config) (a : Agent) (e : Ev) (p n : ConnState) : Bool := docEdge cfg e p n || lateEdge a e p n

theorem edge_irrefl (cfg : Config) (a : Agent) (e : Ev) (p n : ConnState) (h : edge cfg a e p n = true) : p ≠ n := by
  cases p <;> cases n <;> simp_all [edge, docEdge, lateEdge]

/-- **C04_path (partial: see the finding).**  For every history: (1) every consecutive pair of notifications,
including (New, first), is an edge of `edge` — labelled with the event that caused it; (2) no notification
repeats its predecessor and the first is not New; (3) the last notification is the current state, i.e. the
notifications are exactly the changes of the state variable, in order.

FULL STATEMENT (false, see `C04_path_witness`):
`∀ a0 evs, Initial a0 → lpath (fun _ e => docEdge a0.cfg e) .new (ltrace a0 evs) = true`. -/
theorem C04_path_partial (a0 : Agent) (h0 : Initial a0) (evs : List Ev) :
    lpath (edge a0.cfg) .new (ltrace a0 evs) = true ∧
    noRepeat .new (trace a0 evs) = true ∧
    endState .new (trace a0 evs) = (run a0 evs).connState ∧
    trace a0 evs = (ltrace a0 evs).map (·.2.2) := by
  have hi := h0.inv
  obtain ⟨hp, hl⟩ := run_path_tight a0 evs hi
  rw [h0.connState] at hp hl
  have hp' : lpath (edge a0.cfg) .new (ltrace a0 evs) = true := by
    refine lpath_congr _ _ (fun x hx p n h => ?_) hp
    have := tightEdge_edgeAt x.1 x.2.1 p n h
    unfold edgeAt at this
    rw [ltrace_cfg a0 evs hi x hx] at this
    exact this
  refine ⟨hp', ?_, hl, trace_eq_ltrace a0 evs⟩
  rw [trace_eq_ltrace]
  exact noRepeat_of_lpath (edge_irrefl a0.cfg) _ _ hp'

/-- the exact causes of every notification: `headEdge` (New→Checking only by `.start`; →Connected only by
`.inbound`, or `.addRemote` re-selecting from Disconnected; →Checking by `.restart`; →Closed by `.close`) or a
timer edge `tickEdge` (Checking→Failed, Connected⇄Disconnected, Disconnected→Failed, Connected→Failed iff the
disconnected timeout is 0). -/
theorem C04_path_causes (a0 : Agent) (h0 : Initial a0) (evs : List Ev) :
    lpath tightEdge .new (ltrace a0 evs) = true := by
  have := (run_path_tight a0 evs h0.inv).1
  rwa [h0.connState] at this

/-! ### the finding: Failed → Connected without Restart -/

def wCfg : Config :=
  { lite := true, failedTimeout := 1000000000, disconnectedTimeout := 1000000000, disconnectedExplicit := true,
    checkInterval := 0, keepaliveInterval := 0 }
def wA : Agent := { cfg := wCfg, localUfrag := "u", localPwd := "p" }
def wL : Cand := { uid := 0, ty := 1, net := 0, addr := 16, prio := 100 }
def wR : Cand := { uid := 0, ty := 1, net := 0, addr := 176, prio := 100 }
/-- an authenticated Binding request with USE-CANDIDATE from the remote candidate -/
def wNom : Msg := { cls := 0, tid := 7, user := some "u:v", key := some "p", useCand := true }
/-- start, fail on the checking deadline, THEN a local candidate, a remote candidate and a nominating check -/
def wLate : List Ev :=
  [.addLocal 0 wL, .addRemote 0 wR, .start 0 false "v" "q", .advance 3000000000,
   .addLocal 3000000000 wL, .addRemote 3000000000 wR, .inbound 3000000000 16 176 wNom]

theorem wA_initial : Initial wA := ⟨rfl, rfl, rfl, rfl, rfl, rfl, rfl⟩

set_option maxRecDepth 100000 in
/-- the notifications of the witness history -/
theorem C04_path_witness_trace : trace wA wLate = [.checking, .failed, .connected] := by decide

set_option maxRecDepth 100000 in
/-- **the documented graph fails**: an initial agent and a history whose notifications leave it. -/
theorem C04_path_witness :
    ¬ (∀ (a0 : Agent) (evs : List Ev), Initial a0 → lpath (fun _ e => docEdge a0.cfg e) .new (ltrace a0 evs) = true) := by
  intro h
  have h1 := h wA wLate wA_initial
  have h2 : lpath (fun _ e => docEdge wA.cfg e) .new (ltrace wA wLate) = false := by decide
  rw [h2] at h1
  cases h1

/-- **C04_path for histories without late local candidates.**  If no `.addLocal` happens while the agent is
Failed (`noLateLocal`), every notification follows the documented graph. -/
theorem C04_path_no_late_candidates (a0 : Agent) (h0 : Initial a0) (evs : List Ev) (hn : noLateLocal a0 evs = true) :
    lpath (fun _ e => docEdge a0.cfg e) .new (ltrace a0 evs) = true := by
  have hi := h0.inv
  have hp := run_path_doc a0 evs hi (fun _ => h0.locals) hn
  rw [h0.connState] at hp
  refine lpath_congr _ _ (fun x hx p n h => ?_) hp
  rw [← ltrace_cfg a0 evs hi x hx]
  exact h

set_option maxRecDepth 100000 in
example : noLateLocal wA (wLate.take 4) = true ∧ noLateLocal wA wLate = false := by decide

/-! ## selection and release -/

/-- **Connected/Disconnected only while a pair is selected** — in every reachable state (for a non-closed
agent the converse holds too: a selected pair exists only in Connected/Disconnected). -/
theorem C04_connected_needs_selection (a0 : Agent) (h0 : Initial a0) (evs : List Ev) :
    let a := run a0 evs
    ((a.connState = .connected ∨ a.connState = .disconnected) → a.selected.isSome = true) ∧
    (a.closed = false → a.selected.isSome = true → (a.connState = .connected ∨ a.connState = .disconnected)) := by
  have hi := run_inv a0 evs h0.inv
  refine ⟨fun h => ?_, fun hc hs => (hi.good hc).sel.mp hs⟩
  cases hc : (run a0 evs).closed with
  | false => exact (hi.good hc).sel.mpr h
  | true =>
    have := hi.closed hc
    rcases h with h | h <;> rw [this] at h <;> cases h

set_option maxRecDepth 100000 in
example : (run wA wLate).connState = .connected ∧ (run wA wLate).selected.isSome = true := by decide

/-- **Failed only after release**: whenever a step of a reachable agent notifies Failed, the state after the
step is Failed and the checklist, both candidate lists, the selection and the pending transactions are empty. -/
theorem C04_failed_after_release (a0 : Agent) (h0 : Initial a0) (evs : List Ev) (e : Ev)
    (hf : Out.cbState .failed ∈ (step (run a0 evs) e).2) :
    let a' := (step (run a0 evs) e).1
    a'.checklist = [] ∧ a'.locals = [] ∧ a'.remotes = [] ∧ a'.selected = none ∧ a'.pending = [] ∧
    a'.connState = .failed := by
  have hs := step_ok (run a0 evs) e (run_inv a0 evs h0.inv)
  obtain ⟨⟨w1, w2, w3, w4, w5⟩, hc⟩ := hs.released (mem_states.mpr hf)
  exact ⟨w1, w2, w3, w4, w5, hc⟩

set_option maxRecDepth 100000 in
example : Out.cbState .failed ∈ (step (run wA (wLate.take 3)) (.advance 3000000000)).2 :=
  mem_states.mp (by decide)

/-! ## the tick rule -/

/-- the documented function of the silence `d` of the selected remote and the two timeouts (zero disables
either threshold; `cur` only matters for the forced Disconnected-before-Failed step) -/
def tickState (cfg : Config) (cur : ConnState) (d : Nat) : ConnState :=
  if cfg.failedTimeout ≠ 0 ∧ d > cfg.failedTimeout + cfg.disconnectedTimeout then
    (if (cfg.disconnectedTimeout ≠ 0 ∧ d > cfg.disconnectedTimeout) ∧ cur ≠ .disconnected ∧ cur ≠ .failed
      then .disconnected else .failed)
  else if cfg.disconnectedTimeout ≠ 0 ∧ d > cfg.disconnectedTimeout then .disconnected else .connected

theorem sfd_tickState (cfg : Config) (cur : ConnState) (d : Nat) :
    stateForDisconnection cfg cur (some d) (totalToFailure cfg) = tickState cfg cur d := by
  rw [sfd_some, totalToFailure_eq]
  unfold tickState
  by_cases hf : cfg.failedTimeout = 0
  · simp [hf]
  · simp [hf]

/-- **Tick rule.**  One timer tick (`contact now`) of a reachable, open agent with a selected pair whose remote
was last heard at `t`: the state after the tick is `tickState` of the silence `now − t`. -/
theorem C04_tick_rule (a0 : Agent) (h0 : Initial a0) (evs : List Ev) (now : Nat) (p : Pair) (r : Cand) (t : Nat) :
    let a := run a0 evs
    a.closed = false → a.selected.bind a.pairById = some p → a.remoteOf p.r = some r → r.lastRecv = some t →
    (a.contact now).1.connState = tickState a.cfg a.connState (now - t) := by
  intro a hc hp hr ht
  have hi := run_inv a0 evs h0.inv
  have hsel : a.selected.isSome = true := by
    cases hs : a.selected with
    | none => simp [hs] at hp
    | some _ => rfl
  rw [contact_tick_rule a now p hc ((hi.good hc).sel.mp hsel) hp, hr]
  simp only [Option.bind_some, silence, ht, Option.map_some]
  exact sfd_tickState _ _ _

/-- … and when the selected remote was never heard (Go: `time.Since(zero)` = 2^63−1 ns): as if silent for the
maximum duration, for all timeouts below it. -/
theorem C04_tick_rule_never_heard (a0 : Agent) (h0 : Initial a0) (evs : List Ev) (now : Nat) (p : Pair) (r : Cand) :
    let a := run a0 evs
    a.closed = false → a.selected.bind a.pairById = some p → a.remoteOf p.r = some r → r.lastRecv = none →
    a.cfg.disconnectedTimeout < 2 ^ 63 - 1 → totalToFailure a.cfg < 2 ^ 63 - 1 →
    (a.contact now).1.connState = tickState a.cfg a.connState (2 ^ 63 - 1) := by
  intro a hc hp hr ht b1 b2
  have hi := run_inv a0 evs h0.inv
  have hsel : a.selected.isSome = true := by
    cases hs : a.selected with
    | none => simp [hs] at hp
    | some _ => rfl
  rw [contact_tick_rule a now p hc ((hi.good hc).sel.mp hsel) hp, hr]
  simp only [Option.bind_some, silence, ht, Option.map_none]
  rw [IceTie.AgentTiming.silence_none_is_max _ _ _ b1 b2]
  exact sfd_tickState _ _ _

/-- Connected up to the disconnected timeout (and within the failure threshold) -/
theorem C04_tick_connected (cfg : Config) (cur : ConnState) (d : Nat)
    (h1 : cfg.disconnectedTimeout = 0 ∨ d ≤ cfg.disconnectedTimeout)
    (h2 : cfg.failedTimeout = 0 ∨ d ≤ cfg.failedTimeout + cfg.disconnectedTimeout) :
    tickState cfg cur d = .connected := by
  unfold tickState
  rw [if_neg (by omega), if_neg (by omega)]

/-- Disconnected beyond the disconnected timeout, up to disconnected + failed -/
theorem C04_tick_disconnected (cfg : Config) (cur : ConnState) (d : Nat)
    (h1 : cfg.disconnectedTimeout ≠ 0) (h1' : d > cfg.disconnectedTimeout)
    (h2 : cfg.failedTimeout = 0 ∨ d ≤ cfg.failedTimeout + cfg.disconnectedTimeout) :
    tickState cfg cur d = .disconnected := by
  unfold tickState
  rw [if_neg (by omega), if_pos ⟨h1, h1'⟩]

/-- Failed beyond disconnected + failed, once Disconnected was reported (or the disconnected timeout is disabled) -/
theorem C04_tick_failed (cfg : Config) (cur : ConnState) (d : Nat)
    (h2 : cfg.failedTimeout ≠ 0) (h2' : d > cfg.failedTimeout + cfg.disconnectedTimeout)
    (h1 : cfg.disconnectedTimeout = 0 ∨ cur = .disconnected ∨ cur = .failed) :
    tickState cfg cur d = .failed := by
  unfold tickState
  rw [if_pos ⟨h2, h2'⟩, if_neg]
  rintro ⟨⟨h, _⟩, h3, h4⟩
  rcases h1 with h1 | h1 | h1
  · exact h h1
  · exact h3 h1
  · exact h4 h1

/-- the forced Disconnected-before-Failed step: both thresholds exceeded while still Connected -/
theorem C04_tick_forced_disconnected (cfg : Config) (d : Nat)
    (h1 : cfg.disconnectedTimeout ≠ 0) (h2 : cfg.failedTimeout ≠ 0) (h2' : d > cfg.failedTimeout + cfg.disconnectedTimeout) :
    tickState cfg .connected d = .disconnected := by
  unfold tickState
  rw [if_pos ⟨h2, h2'⟩, if_pos ⟨⟨h1, by omega⟩, by decide, by decide⟩]

example : tickState wCfg .connected 1000000000 = .connected ∧ tickState wCfg .connected 1000000001 = .disconnected ∧
    tickState wCfg .connected 2000000001 = .disconnected ∧ tickState wCfg .disconnected 2000000001 = .failed ∧
    tickState { wCfg with disconnectedTimeout := 0 } .connected 1000000001 = .failed ∧
    tickState { wCfg with failedTimeout := 0 } .disconnected (2 ^ 63 - 1) = .disconnected := by decide

/-! ## the checking deadline -/

/-- **Checking deadline.**  One timer tick of a reachable, open agent in Checking (it has no selected pair —
`C04_connected_needs_selection`): with `start` = the time of the first tick seen in Checking, the agent stays
Checking unless `checkingTimeout ≠ 0 ∧ now − start > checkingTimeout`, in which case this tick notifies Failed;
`checkingTimeout` is `initialCheckingTimeout` of the configuration, fixed at start. -/
theorem C04_checking_deadline (a0 : Agent) (h0 : Initial a0) (evs : List Ev) (now : Nat) :
    let a := run a0 evs
    a.closed = false → a.connState = .checking →
    let start := if a.lastSeen = .checking then a.checkingStart else now
    let expired := a.checkingTimeout ≠ 0 ∧ now - start > a.checkingTimeout
    (a.contact now).1.connState = (if expired then .failed else .checking) ∧
    states (a.contact now).2 = (if expired then [.failed] else []) ∧
    (a.contact now).1.checkingStart = start ∧ (a.contact now).1.lastSeen = (a.contact now).1.connState ∧
    (a.contact now).1.checkingTimeout = a.checkingTimeout ∧
    a.checkingTimeout = a.initialCheckingTimeout := by
  intro a hc hk
  have hi := run_inv a0 evs h0.inv
  have g := hi.good hc
  have hsel : a.selected = none := by
    cases hs : a.selected with
    | none => rfl
    | some _ => have := g.sel.mp (by rw [hs]; rfl); rw [hk] at this; simp at this
  have hst : a.started = true := by
    cases hs : a.started
    · have := g.newIff.mpr hs; rw [hk] at this; cases this
    · rfl
  obtain ⟨c1, c2, c3, c4, c5⟩ := contact_checking a now hc hk hsel
  exact ⟨c1, c5, c2, c3, c4, hi.ctimeout hst⟩

/-- events that never run the timer -/
def noTimerEv : Ev → Bool
  | .setRemoteCreds _ _ | .inboundData _ _ _ _ _ | .write _ _ _ | .writeToPair _ _ _ _ | .read _ | .renominate _ _ _ _ => true
  | _ => false

/-- between ticks the deadline bookkeeping is stable: events that do not run the timer change neither the state
nor `checkingStart`, `lastSeen`, `checkingTimeout` (for ANY agent, reachable or not) and notify nothing. -/
theorem C04_timer_fields_stable (a : Agent) (e : Ev) (he : noTimerEv e = true) :
    (step a e).1.connState = a.connState ∧ (step a e).1.checkingStart = a.checkingStart ∧
    (step a e).1.lastSeen = a.lastSeen ∧ (step a e).1.checkingTimeout = a.checkingTimeout ∧ states (step a e).2 = [] := by
  have q : QuietO a (step a e) := by
    cases e with
    | setRemoteCreds ru rp => exact step_setRemoteCreds_quiet a ru rp
    | inboundData now la src len sl => exact step_inboundData_quiet a now la src len sl
    | write now len sl => exact write_quiet a now len sl
    | writeToPair now id len sl => exact writeToPair_quiet a now id len sl
    | read cap => exact step_read_quiet a cap
    | renominate now la ri v => exact renominate_quiet a now la ri v
    | _ => cases he
  exact ⟨q.1.connState, q.1.cstart, q.1.lastSeen, q.1.frame.ctimeout, q.2⟩

/-- the checking timeout of every started reachable agent is the configuration's `initialCheckingTimeout` -/
theorem C04_checking_timeout_fixed (a0 : Agent) (h0 : Initial a0) (evs : List Ev) :
    (run a0 evs).started = true →
    (run a0 evs).checkingTimeout = (run a0 evs).initialCheckingTimeout ∧ (run a0 evs).cfg = a0.cfg :=
  fun hs => ⟨(run_inv a0 evs h0.inv).ctimeout hs, run_cfg a0 evs h0.inv⟩

/-- with `failedTimeout = 0` a tick never fails an agent in Checking -/
theorem C04_checking_never_fails_without_failed_timeout (a0 : Agent) (h0 : Initial a0) (evs : List Ev) (now : Nat) :
    let a := run a0 evs
    a.closed = false → a.connState = .checking → a.cfg.failedTimeout = 0 →
    (a.contact now).1.connState = .checking ∧ states (a.contact now).2 = [] := by
  intro a hc hk hf
  obtain ⟨c1, c2, _, _, _, c6⟩ := C04_checking_deadline a0 h0 evs now hc hk
  have hf' : (run a0 evs).cfg.failedTimeout = 0 := hf
  have hz : (run a0 evs).checkingTimeout = 0 := by
    rw [c6]; unfold Agent.initialCheckingTimeout; simp [hf']
  rw [hz] at c1 c2
  rw [if_neg (fun h => h.1 rfl)] at c1 c2
  exact ⟨c1, c2⟩

/-- **zero disables failing**: with `failedTimeout = 0` no history ever notifies Failed (neither from Checking
nor from Disconnected) and the agent is never in state Failed. -/
theorem C04_never_failed_without_failed_timeout (a0 : Agent) (h0 : Initial a0) (evs : List Ev)
    (hf : a0.cfg.failedTimeout = 0) :
    ConnState.failed ∉ trace a0 evs ∧ (run a0 evs).connState ≠ .failed := by
  have hn := run_nofail a0 evs h0.inv hf
  refine ⟨hn, fun hc => ?_⟩
  have hl := (run_path_tight a0 evs h0.inv).2
  rw [h0.connState, hc] at hl
  rcases endState_mem_or .new (trace a0 evs) with ⟨_, h2⟩ | hm
  · rw [hl] at h2; cases h2
  · rw [hl] at hm; exact hn hm

set_option maxRecDepth 100000 in
/-- non-vacuity: the deadline is 2 s here; the tick at 2 s keeps Checking, the tick at 3 s fails -/
example : (run wA (wLate.take 3)).connState = .checking ∧ (run wA (wLate.take 3)).checkingTimeout = 2000000000 ∧
    (run wA (wLate.take 3 ++ [.advance 2000000000])).connState = .checking ∧
    (run wA (wLate.take 3 ++ [.advance 3000000000])).connState = .failed := by decide

/-! ## Closed is final -/

/-- **After Close**: `.close` closes every agent; from then on no event notifies anything and the state
stays Closed. -/
theorem C04_after_closed (a0 : Agent) (h0 : Initial a0) (evs evs' : List Ev) :
    (run a0 (evs ++ [.close])).closed = true ∧
    trace (run a0 (evs ++ [.close])) evs' = [] ∧
    (run a0 (evs ++ [.close] ++ evs')).connState = .closed := by
  have hi := run_inv a0 (evs ++ [.close]) h0.inv
  have hcl : (run a0 (evs ++ [.close])).closed = true := by
    rw [run_append]
    show (step (run a0 evs) .close).1.closed = true
    cases hc : (run a0 evs).closed with
    | true => exact (step_closed _ _ hc).1.frame.closed.trans hc
    | false =>
      simp only [step]
      rw [if_neg (by simp [hc]), setConnState_nf _ _ (by decide)]
  obtain ⟨r1, r2, _⟩ := run_closed _ evs' hi hcl
  exact ⟨hcl, r1, by rw [run_append]; exact r2⟩

/-- … stated for any reachable closed agent and any single event -/
theorem C04_after_closed_step (a0 : Agent) (h0 : Initial a0) (evs : List Ev) (e : Ev) (s : ConnState) :
    (run a0 evs).closed = true →
    (run a0 evs).connState = .closed ∧ Out.cbState s ∉ (step (run a0 evs) e).2 ∧
    (step (run a0 evs) e).1.closed = true ∧ (step (run a0 evs) e).1.connState = .closed := by
  intro hc
  have hi := run_inv a0 evs h0.inv
  have q := step_closed _ e hc
  refine ⟨hi.closed hc, fun hm => ?_, q.1.frame.closed.trans hc, q.1.connState.trans (hi.closed hc)⟩
  have := mem_states.mpr hm
  rw [q.2] at this
  cases this

/-! ## the lifecycle is inhabited -/

/-- New → Checking → Connected → Disconnected → Failed -/
def wLife : List Ev :=
  [.addLocal 0 wL, .addRemote 0 wR, .start 0 false "v" "q", .inbound 0 16 176 wNom, .advance 3000000000]
/-- Restart from Connected -/
def wRestart : List Ev :=
  [.addLocal 0 wL, .addRemote 0 wR, .start 0 false "v" "q", .inbound 0 16 176 wNom, .restart 5 "u2" "p2"]

set_option maxRecDepth 100000 in
example : trace wA wLife = [.checking, .connected, .disconnected, .failed] := by decide
set_option maxRecDepth 100000 in
example : trace wA wRestart = [.checking, .connected, .checking] := by decide
set_option maxRecDepth 100000 in
example : trace wA (wRestart ++ [.close, .advance 9000000000, .restart 6 "u3" "p3"]) = [.checking, .connected, .checking, .closed] := by decide
set_option maxRecDepth 100000 in
example : lpath (fun _ e => docEdge wA.cfg e) .new (ltrace wA wLife) = true ∧ noLateLocal wA wLife = true := by decide

set_option maxRecDepth 100000 in
/-- non-vacuity of `C04_never_failed_without_failed_timeout`: same history, `failedTimeout = 0`, 30 s of silence -/
example : trace { wA with cfg := { wCfg with failedTimeout := 0 } } (wLife ++ [.advance 30000000000])
    = [.checking, .connected, .disconnected] := by decide

/-! ## the timing code (tie T) -/

open IceTie.AgentTiming in
/-- **The Go timing functions are the model's**, for ALL `Int64` durations in the non-negative range: the
definitions regenerated from agent.go equal `stateForDisconnection` (hence `tickState`) and
`initialCheckingTimeout`; "never heard" (`time.Since` of the zero time = the maximum duration) is the model's
`none`. -/
theorem C04_timing_code :
    (∀ (dt total disc cs : Int64) (cfg : Config), 0 ≤ dt.toInt → 0 ≤ total.toInt → 0 ≤ disc.toInt →
      cfg.disconnectedTimeout = dur disc →
      IceGen.agent_connectionStateForDisconnection dt total disc cs
        = csCode (stateForDisconnection cfg (csOf cs) (some (dur dt)) (dur total))) ∧
    (∀ (total disc cs : Int64) (cfg : Config), 0 ≤ total.toInt → 0 ≤ disc.toInt →
      total.toInt < 2 ^ 63 - 1 → disc.toInt < 2 ^ 63 - 1 → cfg.disconnectedTimeout = dur disc →
      IceGen.agent_connectionStateForDisconnection Int64.maxValue total disc cs
        = csCode (stateForDisconnection cfg (csOf cs) none (dur total))) ∧
    (∀ (failed disc : Int64) (lite explicit : Bool) (a : Agent), 0 ≤ failed.toInt → 0 ≤ disc.toInt →
      (if lite && !explicit then 5000000000 else disc.toInt) + failed.toInt < 2 ^ 63 →
      a.cfg.failedTimeout = dur failed → a.cfg.disconnectedTimeout = dur disc → a.cfg.lite = lite →
      a.cfg.disconnectedExplicit = explicit →
      (IceGen.agent_initialCheckingTimeout failed disc lite explicit).toInt = (a.initialCheckingTimeout : Int)) :=
  ⟨fun dt total disc cs cfg h1 h2 h3 hc => connectionStateForDisconnection_tie dt total disc cs h1 h2 h3 cfg hc,
   fun total disc cs cfg h2 h3 h2' h3' hc => connectionStateForDisconnection_tie_none total disc cs h2 h3 h2' h3' cfg hc,
   fun failed disc lite explicit a h1 h2 hov hf hd hl he =>
     initialCheckingTimeout_tie failed disc lite explicit h1 h2 hov a hf hd hl he⟩

/-- non-vacuity of the range hypotheses: the default configuration (5 s / 25 s) -/
example : IceGen.agent_connectionStateForDisconnection 31000000000 30000000000 5000000000 6 = 5 ∧
    IceGen.agent_connectionStateForDisconnection 31000000000 30000000000 5000000000 3 = 6 ∧
    IceGen.agent_initialCheckingTimeout 25000000000 5000000000 false false = 30000000000 := by decide

/-! ## Tie to the code (T, order of effects): `setSelectedPair` and `updateConnectionState` (agent.go) are REGENERATED on every
run in effect mode; the theorems state the list of effects in program order -/

/-- `Agent.setSelectedPair`: the pair is marked nominated and STORED before the state is updated to Connected (Connected is
reported only while a selected pair exists), the pair notification follows the state notification, the state is updated once;
the model's `Agent.select` hands `setConnState .connected` a state that already has the selection -/
theorem C04_code_setSelectedPair :
    (∀ isNil, IceGen.agent_setSelectedPair isNil
      = if isNil then [IceTie.Order.c1 "selectedPair.Store" (IceModel.Val.s "nil")]
        else [IceModel.Eff.set "pair.nominated" (IceModel.Val.b true), IceTie.Order.c1 "selectedPair.Store" (IceModel.Val.s "pair"),
              IceTie.Order.c "onConnectedOnce.Do(close onConnected)", IceTie.Order.eConnected,
              IceTie.Order.c1 "selectedCandidatePairNotifier.Enqueue" (IceModel.Val.s "pair")]) ∧
    (IceTie.Order.pos (IceGen.agent_setSelectedPair false) (IceTie.Order.c1 "selectedPair.Store" (IceModel.Val.s "pair"))
        < IceTie.Order.pos (IceGen.agent_setSelectedPair false) IceTie.Order.eConnected ∧
     IceTie.Order.pos (IceGen.agent_setSelectedPair false) IceTie.Order.eConnected
        < IceTie.Order.pos (IceGen.agent_setSelectedPair false)
            (IceTie.Order.c1 "selectedCandidatePairNotifier.Enqueue" (IceModel.Val.s "pair")) ∧
     (IceGen.agent_setSelectedPair false).count IceTie.Order.eConnected = 1) ∧
    (∀ (a : Agent) (id : Nat), a.select id =
      let a1 : Agent := { (a.modPair id fun p => { p with nominated := true }) with selected := some id, onConnectedFired := true }
      let r := a1.setConnState .connected
      let ends : Nat × Nat := match r.1.pairById id with
        | some p => (((r.1.localOf p.l).map (·.addr)).getD 0, ((r.1.remoteOf p.r).map (·.addr)).getD 0)
        | none => (0, 0)
      (r.1, r.2 ++ [.cbPair ends.1 ends.2])) :=
  ⟨IceTie.Order.setSelectedPair_tie, IceTie.Order.setSelectedPair_order, IceTie.Order.select_order⟩

/-- `Agent.updateConnectionState`: nothing on an unchanged state; on Failed the release of the mux ufrag, checklist, pair index,
pending transactions, selection and candidates comes BEFORE the state is set and notified (Failed only after selection, pairs and
candidates were released); the model's `setConnState` wipes in the same step -/
theorem C04_code_updateConnectionState (cur newState : Int64) :
    IceGen.agent_updateConnectionState cur newState
      = (if cur == newState then []
         else (if newState == 5 then IceTie.Order.releaseEffs else [])
          ++ [IceModel.Eff.set "a.connectionState" (IceModel.Val.i newState.toInt),
              IceTie.Order.c1 "connectionStateNotifier.Enqueue" (IceModel.Val.i newState.toInt)]) ∧
    ((cur == 5) = false → ∀ e ∈ IceTie.Order.releaseEffs, IceTie.Order.pos (IceGen.agent_updateConnectionState cur 5) e
      < IceTie.Order.pos (IceGen.agent_updateConnectionState cur 5)
          (IceTie.Order.c1 "connectionStateNotifier.Enqueue" (IceModel.Val.i 5))) ∧
    (∀ (a : Agent) (s : ConnState), a.setConnState s = if a.connState == s then (a, [])
      else ({ (if s == .failed then a.wipe else a) with connState := s }, [.cbState s])) :=
  ⟨IceTie.Order.updateConnectionState_tie cur newState, IceTie.Order.updateConnectionState_failed_order cur,
   IceTie.Order.setConnState_order⟩

example : IceGen.agent_updateConnectionState 3 5
    = IceTie.Order.releaseEffs ++ [IceModel.Eff.set "a.connectionState" (IceModel.Val.i 5),
        IceModel.Eff.call "connectionStateNotifier.Enqueue" [IceModel.Val.i 5]] ∧
    IceGen.agent_updateConnectionState 3 3 = [] ∧ ((3 : Int64) == 5) = false := by decide

/-! ## Tie to the code (T, round 3): `validateSelectedPair`, `checkKeepalive`, `liteSelector.ContactCandidates` and the timing
defaults of agent_config.go are REGENERATED on every run (`IceGen.T_Round3`) -/

open IceTie.AgentTiming IceTie.AgentTick in
/-- `Agent.validateSelectedPair`: without a selected pair nothing happens (`false`); with one, exactly one
`updateConnectionState(connectionStateForDisconnection(silence, total))`, `total` = failedTimeout (+ disconnectedTimeout when
non-zero); for non-negative, non-overflowing durations that argument is the model's `stateForDisconnection` on `totalToFailure`,
which is what `Agent.validateSelected` hands to `setConnState` -/
theorem C04_code_validateSelectedPair :
    (∀ hasSelected silence failed disc cs, IceGen.agent_validateSelectedPair hasSelected silence failed disc cs
      = if hasSelected then
          ([c1 "updateConnectionState"
              (IceModel.Val.i (IceGen.agent_connectionStateForDisconnection silence (totalCode failed disc) disc cs).toInt)], true)
        else ([], false)) ∧
    (∀ (silence failed disc cs : Int64), 0 ≤ silence.toInt → 0 ≤ failed.toInt → 0 ≤ disc.toInt →
      failed.toInt + disc.toInt < 2 ^ 63 → ∀ cfg : Config, cfg.failedTimeout = dur failed → cfg.disconnectedTimeout = dur disc →
      IceGen.agent_validateSelectedPair true silence failed disc cs
        = ([c1 "updateConnectionState"
              (IceModel.Val.i (csCode (stateForDisconnection cfg (csOf cs) (some (dur silence)) (totalToFailure cfg))).toInt)], true)) ∧
    (∀ (a : Agent) (now : Nat), a.selected.bind a.pairById = none → a.validateSelected now = (a, [], false)) :=
  ⟨validateSelectedPair_tie, fun s f d cs h0 h1 h2 hov cfg hf hd => validateSelectedPair_model s f d cs h0 h1 h2 hov cfg hf hd,
   fun a now h => by rw [validateSelected_model, h]⟩

/-- non-vacuity: 6 s of silence with the default timeouts (5 s / 25 s) reports Disconnected (6); 31 s reports Failed (5) from
Disconnected -/
example : IceGen.agent_validateSelectedPair true 6000000000 25000000000 5000000000 3
      = ([IceTie.AgentTick.c1 "updateConnectionState" (IceModel.Val.i 6)], true) ∧
    IceGen.agent_validateSelectedPair true 31000000000 25000000000 5000000000 6
      = ([IceTie.AgentTick.c1 "updateConnectionState" (IceModel.Val.i 5)], true) ∧
    IceGen.agent_validateSelectedPair false 0 0 0 0 = ([], false) := by decide

open IceTie.AgentTick in
/-- `Agent.checkKeepalive`: one ping on the selected pair iff there is one and `keepaliveInterval ≠ 0`; the model's `keepalive`
does nothing under `keepaliveInterval = 0`.  `liteSelector.ContactCandidates`: over a controlled selector ONLY
`validateSelectedPair` — the model's lite controlled tick is `validateSelected` alone -/
theorem C04_code_keepalive_and_lite :
    (∀ hasSelected keepalive, IceGen.agent_checkKeepalive hasSelected keepalive
      = if hasSelected && keepalive != 0 then [c "PingCandidate(selected)"] else []) ∧
    (∀ (a : Agent) (now : Nat), a.cfg.keepaliveInterval = 0 → a.keepalive now = (a, [])) ∧
    (∀ isControlling isControlled, IceGen.liteSelector_ContactCandidates isControlling isControlled
      = if isControlling then [c "inner.ContactCandidates"] else if isControlled then [c "validateSelectedPair"] else []) ∧
    (∀ (a : Agent) (now : Nat), a.controlling = false → a.cfg.lite = true →
      a.contactCandidates now = ((a.validateSelected now).1, (a.validateSelected now).2.1)) :=
  ⟨checkKeepalive_tie, keepalive_off, liteContactCandidates_tie, contactCandidates_lite_controlled⟩

example : IceGen.agent_checkKeepalive true 2000000000 = [IceTie.AgentTick.c "PingCandidate(selected)"] ∧
    IceGen.agent_checkKeepalive true 0 = [] ∧
    IceGen.liteSelector_ContactCandidates false true = [IceTie.AgentTick.c "validateSelectedPair"] := by decide

open IceTie.AgentDefaults in
/-- agent_config.go `initWithDefaults`, timing fields: each is assigned once, the default (disconnected 5 s, failed 25 s,
keepalive 2 s, check interval 200 ms) when the option is nil; these are the field defaults of the model's `Config` -/
theorem C04_code_timing_defaults :
    (∀ n1 v1 n2 v2 n3 v3 n4 v4, IceGen.agentConfig_initWithDefaults_timing n1 v1 n2 v2 n3 v3 n4 v4
      = [setI "agent.disconnectedTimeout" n1 5000000000 v1, IceModel.Eff.set "agent.disconnectedTimeoutExplicit" (IceModel.Val.b (!n1)),
         setI "agent.failedTimeout" n2 25000000000 v2, setI "agent.keepaliveInterval" n3 2000000000 v3,
         setI "agent.checkInterval" n4 200000000 v4]) ∧
    (∀ v, IceGen.agentConfig_initWithDefaults_timing true v true v true v true v
      = [IceModel.Eff.set "agent.disconnectedTimeout" (IceModel.Val.i ({} : Config).disconnectedTimeout),
         IceModel.Eff.set "agent.disconnectedTimeoutExplicit" (IceModel.Val.b ({} : Config).disconnectedExplicit),
         IceModel.Eff.set "agent.failedTimeout" (IceModel.Val.i ({} : Config).failedTimeout),
         IceModel.Eff.set "agent.keepaliveInterval" (IceModel.Val.i ({} : Config).keepaliveInterval),
         IceModel.Eff.set "agent.checkInterval" (IceModel.Val.i ({} : Config).checkInterval)]) :=
  ⟨initWithDefaults_timing_tie, fun v => (defaults_model v 0).2⟩

example : IceGen.agentConfig_initWithDefaults_timing false 1000 true 0 true 0 true 0
    = [IceModel.Eff.set "agent.disconnectedTimeout" (IceModel.Val.i 1000), IceModel.Eff.set "agent.disconnectedTimeoutExplicit" (IceModel.Val.b true),
       IceModel.Eff.set "agent.failedTimeout" (IceModel.Val.i 25000000000), IceModel.Eff.set "agent.keepaliveInterval" (IceModel.Val.i 2000000000),
       IceModel.Eff.set "agent.checkInterval" (IceModel.Val.i 200000000)] := by decide

/-! ## Tie to the code (T, round 4): the timing OPTIONS of agent_options.go and `candidateBase.seen`, REGENERATED on every run
(`IceGen.T_Options`, `IceGen.T_Lifecycle`) -/

/-- `WithDisconnectedTimeout` / `WithFailedTimeout` / `WithKeepaliveInterval` / `WithCheckInterval`: refused on a constructed agent
(nothing written), otherwise exactly one field is written (`WithDisconnectedTimeout` also marks the timeout explicit — what the lite
default looks at); read through the field table `applyEff` they are the corresponding updates of the model's `Config` -/
theorem C04_code_timing_options :
    (∀ constructed t, IceGen.opt_WithDisconnectedTimeout constructed t
      = IceTie.Options.guard constructed ([IceTie.Options.setI "a.disconnectedTimeout" t, IceTie.Options.setB "a.disconnectedTimeoutExplicit" true], "nil")) ∧
    (∀ constructed t, IceGen.opt_WithFailedTimeout constructed t = IceTie.Options.guard constructed ([IceTie.Options.setI "a.failedTimeout" t], "nil")) ∧
    (∀ constructed t, IceGen.opt_WithKeepaliveInterval constructed t = IceTie.Options.guard constructed ([IceTie.Options.setI "a.keepaliveInterval" t], "nil")) ∧
    (∀ constructed t, IceGen.opt_WithCheckInterval constructed t = IceTie.Options.guard constructed ([IceTie.Options.setI "a.checkInterval" t], "nil")) ∧
    (∀ (cfg : IceModel.AgentCore.Config) (t : Int64),
      IceTie.Options.applyEffs cfg [IceTie.Options.setI "a.disconnectedTimeout" t, IceTie.Options.setB "a.disconnectedTimeoutExplicit" true]
        = { cfg with disconnectedTimeout := t.toInt.toNat, disconnectedExplicit := true } ∧
      IceTie.Options.applyEffs cfg [IceTie.Options.setI "a.failedTimeout" t] = { cfg with failedTimeout := t.toInt.toNat } ∧
      IceTie.Options.applyEffs cfg [IceTie.Options.setI "a.keepaliveInterval" t] = { cfg with keepaliveInterval := t.toInt.toNat } ∧
      IceTie.Options.applyEffs cfg [IceTie.Options.setI "a.checkInterval" t] = { cfg with checkInterval := t.toInt.toNat }) :=
  ⟨IceTie.Options.WithDisconnectedTimeout_tie, IceTie.Options.WithFailedTimeout_tie, IceTie.Options.WithKeepaliveInterval_tie, IceTie.Options.WithCheckInterval_tie, IceTie.Options.timing_cfg⟩

example : IceGen.opt_WithFailedTimeout true 5 = ([], "ErrAgentOptionNotUpdatable") ∧
    IceGen.opt_WithKeepaliveInterval false 0 = ([IceModel.Eff.set "a.keepaliveInterval" (IceModel.Val.i 0)], "nil") ∧
    (IceTie.Options.applyEffs {} (IceGen.opt_WithDisconnectedTimeout false 7000000000).1).disconnectedTimeout = 7000000000 ∧
    (IceTie.Options.applyEffs {} (IceGen.opt_WithDisconnectedTimeout false 7000000000).1).disconnectedExplicit = true := by decide

/-- `candidateBase.seen`: inbound traffic refreshes only the last-received time (whose age `validateSelectedPair` measures),
outbound only the last-sent time; the model's `seenRemoteRecv` / `seenLocalSent` write the same single field -/
theorem C04_code_seen :
    (∀ outbound, IceGen.candidateBase_seen outbound
      = if outbound then [IceTie.Lifecycle.c "setLastSent(now)"] else [IceTie.Lifecycle.c "setLastReceived(now)"]) ∧
    (∀ (a : Agent) (uid now : Nat),
      (a.seenLocalSent uid now).remotes = a.remotes ∧
      (a.seenLocalSent uid now).locals = updCand a.locals uid (fun c => { c with lastSent := some now }) ∧
      (a.seenRemoteRecv uid now).locals = a.locals ∧
      (a.seenRemoteRecv uid now).remotes = updCand a.remotes uid (fun c => { c with lastRecv := some now })) :=
  ⟨IceTie.Lifecycle.seen_tie, IceTie.Lifecycle.seen_model⟩

example : IceGen.candidateBase_seen false = [IceTie.Lifecycle.c "setLastReceived(now)"] := by decide

end IceProps.C04
