import IceTie.MuxTcp
import IceProofs.TcpMuxCauseStep
import IceProofs.TcpMuxSimEnd
import IceSpec.C15
import IceSpec.C15View
import IceProofs.TcpMuxDriver
/-!
# C15 — TCP mux routes connections by ufrag and cleans up after itself

Property theorems only.  All statements are about the executable model `IceModel.TcpMux`
(`step` = one public call or client event, run to quiescence) and quantify over ALL configurations
and ALL operation sequences (`run (init cfg) ops`); the model is tied to `tcp_mux.go` /
`tcp_packet_conn.go` by the correspondence component `tcpmux` (notes/C15.md).
-/
namespace IceProps.C15
open IceModel.TcpMux IceProofs.TcpMux

/-! ## Concrete sessions used by the non-vacuity examples -/

def exCfg : Config := ⟨4, false, 30, 50⟩
def exKeyA : Key := ⟨"a", false, 0⟩
def exUser (fid : Nat) (u : String) (len : Nat := 32) : Frame := ⟨fid, .user u, len⟩
/-- a handle for ufrag "a", one accepted client from 0:1000 on local IP 0 -/
def exOps1 : List Op := [.getConn exKeyA, .accept ⟨0, 1000⟩ 0]

/-! ## First frame -/

/-- what "the TCP connection is closed and nothing else changes" means: only connection `k` is touched
(closed; the ghost log `sent` records the frame) -/
def rejected (s : State) (k : Nat) (f : Frame) : State :=
  setTcp s k (fun t => { closeTcp t with sent := t.sent ++ [f] })

/-- the provisional packet connection `handleConn` creates for an unknown ufrag -/
def provisionalPc (s : State) (key : Key) : PConn :=
  { key := key, provisional := true, alive := some (s.now + effTimeout s.cfg.t2), refs := 0, created := s.now }

/-- TCP connection `k` (whose state before was `t`) has been attached to packet connection `p` (whose
state before was `pc`) with first frame `f`: it is registered under its peer address, its first frame
is the newest entry of the receive queue — or, if the queue is full, is held by its reader, which is
first in line for that packet connection — and no other connection or packet connection changed. -/
structure AttachedTo (s s' : State) (k : Nat) (t : Tcp) (f : Frame) (p : Nat) (pc : PConn) : Prop where
  ex : ∃ t' pc', s'.tcps[k]? = some t' ∧ s'.pcs[p]? = some pc' ∧
    t'.phase = .attached p ∧ t'.pc = some p ∧ t'.peer = t.peer ∧
    pc'.key = pc.key ∧ pc'.closed = false ∧ pc'.conns = pc.conns ++ [(t.peer, k)] ∧
    ((pc.recvQ.length < s.cfg.cap ∧ t'.reader = .idle ∧ pc'.hist = pc.hist ++ [pktOf t.peer k f] ∧
        pc'.recvQ = pc.recvQ ++ [pktOf t.peer k f]) ∨
     (¬ pc.recvQ.length < s.cfg.cap ∧ t'.reader = .blocked (pktOf t.peer k f) false ∧
        pc'.blockedQ = pc.blockedQ ++ [k] ∧ pc'.recvQ = pc.recvQ ∧ pc'.hist = pc.hist))
  others : ∀ j, j ≠ k → s'.tcps[j]? = s.tcps[j]?
  otherPcs : ∀ q, q ≠ p → q < s.pcs.length → s'.pcs[q]? = s.pcs[q]?

/-- **First frame.** Let `k` be a connection whose handler is still waiting for the first frame
(`pending d`) and whose client has neither closed nor stopped mid-frame, and let the complete frame
`f` arrive. Then
* (in time) the first-bind deadline `d` has not passed;
* if `f` is larger than 512 bytes, does not decode as STUN, is not a Binding, or has no USERNAME
  (`classify f = none`), the connection is closed and nothing else changes;
* otherwise, with `u` the USERNAME text before the first `:`, the target is the open packet connection
  under (u, family of the peer, local IP of the connection):
  - if there is one and it has no connection from this remote address, `k` is attached to it;
  - if there is one and it already has a connection from this remote address, `k` is closed and nothing
    else changes;
  - if there is none, a provisional packet connection (alive timer armed for now + alive duration, no
    handles) is created at the next index and `k` is attached to it. -/
theorem C15_first_frame (cfg : Config) (ops : List Op) (k : Nat) (t : Tcp) (d : Nat) (f : Frame) :
    let s := run (init cfg) ops
    s.tcps[k]? = some t → t.phase = .pending d → t.cEnd = false → t.stuck = false →
    let s' := (step s (.frame k f)).1
    s.now < d ∧
    (classify f = none → s' = rejected s k f) ∧
    (∀ u, classify f = some u →
      match findPc s.pcs ⟨u, t.peer.v6, t.lip⟩ with
      | some p => ∃ pc, s.pcs[p]? = some pc ∧ pc.closed = false ∧ pc.key = ⟨u, t.peer.v6, t.lip⟩ ∧
          ((lookupConn pc.conns t.peer).isSome = true → s' = rejected s k f) ∧
          (lookupConn pc.conns t.peer = none → AttachedTo s s' k t f p pc)
      | none =>
          s'.pcs.length = s.pcs.length + 1 ∧
          AttachedTo s s' k t f s.pcs.length (provisionalPc s ⟨u, t.peer.v6, t.lip⟩)) := by
  intro s ht hph hce hst s'
  have hi : Inv s := reachable_inv cfg ops
  have hnow : s.now < d := by
    have := hi.phase k t ht
    simpa [PhaseOk, hph] using this
  have hs' : s' = (match classify f with
      | some u => attach s k t u f
      | none => rejected s k f) := by
    show (step s (.frame k f)).1 = _
    simp only [step, ht, hce, hst, hph, Bool.or_self, Bool.false_eq_true, if_false]
    cases classify f <;> rfl
  refine ⟨hnow, ?_, ?_⟩
  · intro hc; rw [hs', hc]
  · intro u hu
    have hlen : f.len ≤ receiveMTU := by
      have := ((classify_iff f u).1 hu).1
      unfold receiveMTU; omega
    rw [hu] at hs'
    simp only [attach] at hs'
    cases hfind : findPc s.pcs ⟨u, t.peer.v6, t.lip⟩ with
    | some p =>
      simp only
      obtain ⟨pc, hp, hopen, hkey⟩ := findPc_some hfind
      have he : ensurePc s ⟨u, t.peer.v6, t.lip⟩ = (s, p) := by unfold ensurePc; rw [hfind]
      rw [he] at hs'
      simp only at hs'
      refine ⟨pc, hp, hopen, hkey, ?_, ?_⟩
      · intro hdup
        rw [hs']
        unfold addConn
        simp only [hp, hdup, Bool.or_true, if_true]
        rfl
      · intro hnd
        obtain ⟨t', pc', a1, a2, a3, a4, a5, a6, a7, a8, a9, a10, a11, a12⟩ := addConn_attached s p k t f pc ht hp hopen hnd hlen
        rw [hs']
        exact ⟨⟨t', pc', a1, a2, a3, a4, a5, a7, a8, a9, a10⟩, a11, fun q hq _ => a12 q hq⟩
    | none =>
      simp only
      have he : ensurePc s ⟨u, t.peer.v6, t.lip⟩ =
          ({ s with pcs := s.pcs ++ [provisionalPc s ⟨u, t.peer.v6, t.lip⟩] }, s.pcs.length) := by
        unfold ensurePc; rw [hfind]; rfl
      rw [he] at hs'
      simp only at hs'
      have hp1 : ({ s with pcs := s.pcs ++ [provisionalPc s ⟨u, t.peer.v6, t.lip⟩] } : State).pcs[s.pcs.length]? =
          some (provisionalPc s ⟨u, t.peer.v6, t.lip⟩) := List.getElem?_concat_length
      obtain ⟨t', pc', a1, a2, a3, a4, a5, a6, a7, a8, a9, a10, a11, a12⟩ :=
        addConn_attached { s with pcs := s.pcs ++ [provisionalPc s ⟨u, t.peer.v6, t.lip⟩] } s.pcs.length k t f _
          ht hp1 rfl rfl hlen
      rw [hs']
      refine ⟨?_, ⟨t', pc', a1, a2, a3, a4, a5, a7, a8, a9, a10⟩, a11, ?_⟩
      · -- the length of `pcs` is not changed by `addConn`
        have hlen' : ∀ q : Nat, (addConn { s with pcs := s.pcs ++ [provisionalPc s ⟨u, t.peer.v6, t.lip⟩] } s.pcs.length k t f).pcs[q]? = none ↔
            (s.pcs ++ [provisionalPc s ⟨u, t.peer.v6, t.lip⟩])[q]? = none := by
          intro q
          by_cases hq : q = s.pcs.length
          · subst hq; rw [a2]; simp
          · rw [a12 q hq]
        have h1 := (hlen' (s.pcs.length + 1)).2 (by simp)
        have h2 : (addConn { s with pcs := s.pcs ++ [provisionalPc s ⟨u, t.peer.v6, t.lip⟩] } s.pcs.length k t f).pcs[s.pcs.length]? ≠ none := by
          rw [a2]; simp
        rw [List.getElem?_eq_none_iff] at h1
        rw [Ne, List.getElem?_eq_none_iff] at h2
        omega
      · intro q hq hql
        rw [a12 q hq]
        exact List.getElem?_append_left hql

-- non-vacuity: the hypotheses hold in a reachable state, and each branch of the conclusion is taken
example : ((run (init exCfg) exOps1).tcps[0]?).map (fun t => (t.phase, t.cEnd, t.stuck)) = some (.pending 30, false, false) := by decide
-- known ufrag: attached to the existing packet connection 0, first frame queued
example : let s' := run (init exCfg) (exOps1 ++ [.frame 0 (exUser 1 "a")])
    (s'.tcps[0]?).map (·.phase) = some (.attached 0) ∧ (s'.pcs[0]?).map (·.recvQ.length) = some 1 := by decide
-- unknown ufrag: a provisional packet connection is created at the next index
example : let s' := run (init exCfg) (exOps1 ++ [.frame 0 (exUser 1 "b")])
    (s'.tcps[0]?).map (·.phase) = some (.attached 1) ∧
    (s'.pcs[1]?).map (fun pc => (pc.provisional, pc.alive, pc.refs)) = some (true, some 50, 0) := by decide
-- oversized (516 > 512), no USERNAME, other method, not STUN: closed
example : ((run (init exCfg) (exOps1 ++ [.frame 0 (exUser 1 "a" 516)])).tcps[0]?).map (·.phase) = some .closed := by decide
example : ((run (init exCfg) (exOps1 ++ [.frame 0 ⟨1, .noUser, 20⟩])).tcps[0]?).map (·.phase) = some .closed := by decide
-- exactly 512 bytes is accepted
example : ((run (init exCfg) (exOps1 ++ [.frame 0 (exUser 1 "a" 512)])).tcps[0]?).map (·.phase) = some (.attached 0) := by decide
-- a second connection from the same remote address is refused
example : ((run (init exCfg) (exOps1 ++ [.frame 0 (exUser 1 "a"), .accept ⟨0, 1000⟩ 0, .frame 1 (exUser 2 "a")])).tcps[1]?).map (·.phase)
    = some .closed := by decide
-- full receive channel (capacity 0): the reader holds the first frame
example : ((run (init ⟨0, false, 30, 50⟩) (exOps1 ++ [.frame 0 (exUser 1 "a")])).tcps[0]?).map (·.reader)
    = some (.blocked (pktOf ⟨0, 1000⟩ 0 (exUser 1 "a")) false) := by decide

/-- … consequently: the connection ends up attached iff the frame fits 512 bytes, is a STUN Binding
with USERNAME, and the target packet connection does not already have a connection from the same
remote address. -/
theorem C15_first_frame_iff (cfg : Config) (ops : List Op) (k : Nat) (t : Tcp) (d : Nat) (f : Frame) :
    let s := run (init cfg) ops
    s.tcps[k]? = some t → t.phase = .pending d → t.cEnd = false → t.stuck = false →
    ((∃ t' p, (step s (.frame k f)).1.tcps[k]? = some t' ∧ t'.phase = .attached p) ↔
      ∃ u, f.len ≤ 512 ∧ f.kind = .user u ∧
        ∀ p pc, findPc s.pcs ⟨u, t.peer.v6, t.lip⟩ = some p → s.pcs[p]? = some pc → lookupConn pc.conns t.peer = none) := by
  intro s ht hph hce hst
  obtain ⟨_, hrej, hacc⟩ := C15_first_frame cfg ops k t d f ht hph hce hst
  have rej_closed : ∀ t', (rejected s k f).tcps[k]? = some t' → t'.phase = .closed := by
    intro t' h
    simp only [rejected, setTcp] at h
    rw [getElem?_modify_eq, ht] at h
    simp only [Option.map_some, Option.some.injEq] at h
    rw [← h]; rfl
  constructor
  · rintro ⟨t', p, h1, h2⟩
    cases hc : classify f with
    | none =>
      rw [hrej hc] at h1
      rw [rej_closed t' h1] at h2; cases h2
    | some u =>
      obtain ⟨hl, hk⟩ := (classify_iff f u).1 hc
      refine ⟨u, hl, hk, ?_⟩
      intro p0 pc0 hf0 hp0
      have := hacc u hc
      rw [hf0] at this
      simp only at this
      obtain ⟨pc, hp, _, _, hdup, _⟩ := this
      rw [hp0] at hp; cases hp
      cases hlk : lookupConn pc0.conns t.peer with
      | none => rfl
      | some j =>
        rw [hdup (by simp [hlk])] at h1
        rw [rej_closed t' h1] at h2; cases h2
  · rintro ⟨u, hl, hk, hnd⟩
    have hc := (classify_iff f u).2 ⟨hl, hk⟩
    have := hacc u hc
    cases hfind : findPc s.pcs ⟨u, t.peer.v6, t.lip⟩ with
    | some p =>
      rw [hfind] at this
      simp only at this
      obtain ⟨pc, hp, _, _, _, hatt⟩ := this
      obtain ⟨⟨t', pc', a1, _, a3, _⟩, _, _⟩ := hatt (hnd p pc hfind hp)
      exact ⟨t', p, a1, a3⟩
    | none =>
      rw [hfind] at this
      simp only at this
      obtain ⟨_, ⟨t', pc', a1, _, a3, _⟩, _, _⟩ := this
      exact ⟨t', _, a1, a3⟩

/-- **Late.** The handler's deadline is accept time + first-bind timeout (a zero timeout means 30 s);
it never changes (`C15_history_monotone`); a pending connection whose deadline is reached by an
`advance` is closed by it; and a closed connection ignores whatever its client sends afterwards. -/
theorem C15_first_frame_late (cfg : Config) (ops : List Op) (k : Nat) (t : Tcp) (d dt : Nat) (f : Frame) :
    let s := run (init cfg) ops
    (s.listenerOpen = true → ∀ peer lip,
      (step s (.accept peer lip)).1.tcps[s.tcps.length]? =
        some { peer := peer, lip := lip, phase := .pending (s.now + effTimeout cfg.t1) }) ∧
    (s.tcps[k]? = some t → t.phase = .pending d → d ≤ s.now + dt →
      ∃ t', (step s (.advance dt)).1.tcps[k]? = some t' ∧ t'.phase = .closed) ∧
    (s.tcps[k]? = some t → t.phase = .closed → (step s (.frame k f)).1 = s) := by
  intro s
  refine ⟨?_, ?_, ?_⟩
  · intro hl peer lip
    have hcfg : s.cfg = cfg := reachable_cfg cfg ops
    simp only [step, hl, if_true]
    rw [List.getElem?_concat_length, hcfg]
  · intro ht hph hle
    obtain ⟨t1, ht1, e⟩ := closePcsWhere_phaseKeep (fun pc => aliveExpired (s.now + dt) pc) s k t ht
    refine ⟨expireTcp (s.now + dt) t1, by simp only [step]; rw [List.getElem?_map, ht1]; rfl, ?_⟩
    unfold expireTcp
    rcases e with e | e
    · rw [e, hph]; simp only; rw [if_pos hle]; rfl
    · rw [e]; exact e
  · intro ht hph
    simp only [step, ht, hph]
    split <;> rfl

-- non-vacuity: one ms before the deadline the connection is still pending; at the deadline it is closed
example : ((run (init exCfg) (exOps1 ++ [.advance 29])).tcps[0]?).map (·.phase) = some (.pending 30) := by decide
example : ((run (init exCfg) (exOps1 ++ [.advance 30])).tcps[0]?).map (·.phase) = some .closed := by decide

/-! ## Close -/

/-- **Close is total.** In every reachable state in which `Close` has been called and its wait group
has drained (`Close` has returned): the listener is closed, every TCP connection ever accepted is
closed, and nobody is alive — no accept loop, handler, watcher, reader or buffered writer. -/
theorem C15_close_total (cfg : Config) (ops : List Op) :
    let s := run (init cfg) ops
    closeReturned s = true →
      s.listenerOpen = false ∧
      (∀ (k : Nat) (t : Tcp), s.tcps[k]? = some t → t.phase = .closed) ∧
      ledger s = ⟨0, 0, 0, 0, 0⟩ := by
  intro s hret
  have hi : Inv s := reachable_inv cfg ops
  simp only [closeReturned, Bool.and_eq_true, decide_eq_true_eq] at hret
  obtain ⟨hmux, hsum⟩ := hret
  simp only [wgCount, ledger] at hsum
  have hl : s.listenerOpen = false := hi.lis hmux
  have hpend : s.tcps.countP (·.isPending) = 0 := by omega
  have hwatch : s.pcs.countP (fun pc => !pc.closed) = 0 := by omega
  have allpc : ∀ (p : Nat) (pc : PConn), s.pcs[p]? = some pc → pc.closed = true := by
    intro p pc hp
    have := List.countP_eq_zero.1 hwatch pc (List.mem_iff_getElem?.2 ⟨p, hp⟩)
    simpa using this
  have nopend : ∀ (k : Nat) (t : Tcp), s.tcps[k]? = some t → ∀ d, t.phase ≠ .pending d := by
    intro k t ht d hd
    have := List.countP_eq_zero.1 hpend t (List.mem_iff_getElem?.2 ⟨k, ht⟩)
    simp [Tcp.isPending, hd] at this
  have allclosed : ∀ (k : Nat) (t : Tcp), s.tcps[k]? = some t → t.phase = .closed := by
    intro k t ht
    cases hph : t.phase with
    | closed => rfl
    | pending d => exact absurd hph (nopend k t ht d)
    | attached p =>
      have := hi.phase k t ht
      simp only [PhaseOk, hph] at this
      obtain ⟨_, pc, hp, hopen, _⟩ := this
      rw [allpc p pc hp] at hopen; cases hopen
  have noreader : ∀ (k : Nat) (t : Tcp), s.tcps[k]? = some t → t.reader = .none := by
    intro k t ht
    have hr := hi.reader k t ht
    have hcl := allclosed k t ht
    cases hrd : t.reader with
    | none => rfl
    | idle =>
      simp only [ReaderOk, hrd] at hr
      obtain ⟨p, hp⟩ := hr; rw [hcl] at hp; cases hp
    | blocked pkt fin =>
      simp only [ReaderOk, hrd] at hr
      obtain ⟨⟨p, pc, _, hp, hopen, _⟩, _⟩ := hr
      rw [allpc p pc hp] at hopen; cases hopen
  refine ⟨hl, allclosed, ?_⟩
  have hr : s.tcps.countP (·.hasReader) = 0 := by
    apply List.countP_eq_zero.2
    intro t ht
    obtain ⟨k, hk⟩ := List.mem_iff_getElem?.1 ht
    simp [Tcp.hasReader, noreader k t hk]
  have hw : s.tcps.countP (·.isAttached) = 0 := by
    apply List.countP_eq_zero.2
    intro t ht
    obtain ⟨k, hk⟩ := List.mem_iff_getElem?.1 ht
    simp [Tcp.isAttached, allclosed k t hk]
  simp only [ledger, hl, hpend, hwatch, hr, hw]
  simp

-- non-vacuity: Close has returned in a session with an attached and a rejected client …
example : let s := run (init exCfg) (exOps1 ++ [.frame 0 (exUser 1 "a"), .accept ⟨1, 1001⟩ 0, .frame 1 ⟨2, .notStun, 9⟩, .closeMux])
    closeReturned s = true ∧ s.tcps.length = 2 := by decide
-- … and has NOT returned while a silent client holds a handler: it returns when the first-bind timeout fires
example : closeReturned (run (init exCfg) (exOps1 ++ [.closeMux])) = false := by decide
example : closeReturned (run (init exCfg) (exOps1 ++ [.closeMux, .advance 30])) = true := by decide
-- a first frame during that wait creates a provisional connection; Close then returns when it expires
example : closeReturned (run (init exCfg) (exOps1 ++ [.closeMux, .frame 0 (exUser 1 "a"), .advance 49])) = false := by decide
example : closeReturned (run (init exCfg) (exOps1 ++ [.closeMux, .frame 0 (exUser 1 "a"), .advance 50])) = true := by decide

/-- `Close` stops the listener at once, and it can only have returned after it was called. -/
theorem C15_close_stops_listener (cfg : Config) (ops : List Op) :
    let s := run (init cfg) ops
    (s.muxClosed = true → s.listenerOpen = false) ∧ (closeReturned s = true → s.muxClosed = true) := by
  intro s
  refine ⟨(reachable_inv cfg ops).lis, ?_⟩
  intro h
  simp only [closeReturned, Bool.and_eq_true] at h
  exact h.1

/-- **Close returns.** Once first-bind timeout + alive duration have elapsed since `Close` was called,
its wait group is empty, whatever the clients did in between: handlers end at their deadline, and the
only packet connections that can appear after `Close` are provisional ones created by a first frame
that arrived during the wait, which nobody can claim and which expire. -/
theorem C15_close_returns (cfg : Config) (ops : List Op) :
    let s := run (init cfg) ops
    s.muxClosed = true → s.closedAt + effTimeout cfg.t1 + effTimeout cfg.t2 ≤ s.now → closeReturned s = true := by
  intro s hm hlate
  have hi : Inv s := reachable_inv cfg ops
  have h3 : Inv3 s := reachable_inv3 cfg ops
  have hcfg : s.cfg = cfg := reachable_cfg cfg ops
  have hl : s.listenerOpen = false := hi.lis hm
  have hpend : s.tcps.countP (·.isPending) = 0 := by
    apply List.countP_eq_zero.2
    intro t ht
    obtain ⟨k, hk⟩ := List.mem_iff_getElem?.1 ht
    cases hph : t.phase with
    | pending d =>
      have a := hi.phase k t hk
      simp only [PhaseOk, hph] at a
      have b := ((h3.tcp k t hk).dl d hph).2 hm
      rw [hcfg] at b
      have := effTimeout_pos cfg.t2
      omega
    | attached p => simp [Tcp.isPending, hph]
    | closed => simp [Tcp.isPending, hph]
  have hwatch : s.pcs.countP (fun pc => !pc.closed) = 0 := by
    apply List.countP_eq_zero.2
    intro pc hpc
    obtain ⟨p, hp⟩ := List.mem_iff_getElem?.1 hpc
    cases hc : pc.closed with
    | true => simp
    | false =>
      obtain ⟨d, hd, hb⟩ := (h3.pc p pc hp).post hm hc
      have := (hi.pc p pc hp).2.2.2.2.2 d hd
      rw [hcfg] at hb
      omega
  simp only [closeReturned, wgCount, ledger, hm, hl, hpend, hwatch]
  simp

-- non-vacuity: Close called at 0 with a silent client and a client that sends its first frame at 29
example : let s := run (init exCfg) (exOps1 ++ [.accept ⟨1, 1001⟩ 0, .closeMux, .advance 29, .frame 1 (exUser 1 "a"), .advance 51])
    s.muxClosed = true ∧ s.closedAt + effTimeout exCfg.t1 + effTimeout exCfg.t2 ≤ s.now ∧ closeReturned s = true := by decide
-- … and one ms earlier it has not returned: the provisional connection created at 29 expires at 79
example : closeReturned (run (init exCfg) (exOps1 ++ [.accept ⟨1, 1001⟩ 0, .closeMux, .advance 29, .frame 1 (exUser 1 "a"), .advance 49]))
    = false := by decide

/-! ## Provisional connections expire -/

/-- **Provisional connections expire.** A packet connection created for an unknown ufrag that nobody
has obtained through `GetConnByUfrag` has, while it is open, its alive timer armed for creation time +
alive duration, which lies in the future; hence once that time has been reached it is closed, and so is
every TCP connection that was routed to it. -/
theorem C15_provisional_expires (cfg : Config) (ops : List Op) (p : Nat) (pc : PConn) :
    let s := run (init cfg) ops
    s.pcs[p]? = some pc → pc.provisional = true → pc.claimed = false →
      (pc.closed = false →
        pc.alive = some (pc.created + effTimeout cfg.t2) ∧ s.now < pc.created + effTimeout cfg.t2) ∧
      (pc.created + effTimeout cfg.t2 ≤ s.now →
        pc.closed = true ∧ ∀ (k : Nat) (t : Tcp), s.tcps[k]? = some t → t.pc = some p → t.phase = .closed) := by
  intro s hp hprov hcl
  have hi : Inv s := reachable_inv cfg ops
  have h2 : Inv2 s := reachable_inv2 cfg ops
  have hcfg : s.cfg = cfg := reachable_cfg cfg ops
  have a : pc.closed = false →
      pc.alive = some (pc.created + effTimeout cfg.t2) ∧ s.now < pc.created + effTimeout cfg.t2 := by
    intro hopen
    have := (h2.pc p pc hp).prov hprov hcl hopen
    rw [hcfg] at this
    exact ⟨this, (hi.pc p pc hp).2.2.2.2.2 _ this⟩
  refine ⟨a, ?_⟩
  intro hlate
  have hclosed : pc.closed = true := by
    cases hc : pc.closed with
    | true => rfl
    | false => have := (a hc).2; omega
  refine ⟨hclosed, ?_⟩
  intro k t ht htpc
  cases hph : t.phase with
  | closed => rfl
  | pending d =>
    have := ((h2.tcp k t ht).fresh d hph).1
    rw [htpc] at this; cases this
  | attached q =>
    have := hi.phase k t ht
    simp only [PhaseOk, hph] at this
    obtain ⟨e, pcq, hq, hopen, _⟩ := this
    rw [htpc] at e; cases e
    rw [hp] at hq; cases hq
    rw [hclosed] at hopen; cases hopen

-- non-vacuity: an unclaimed provisional connection with a client, one ms before and at its deadline
example : let s := run (init exCfg) [.accept ⟨0, 1000⟩ 0, .frame 0 (exUser 1 "b"), .advance 49]
    (s.pcs[0]?).map (fun pc => (pc.provisional, pc.claimed, pc.closed)) = some (true, false, false) ∧
    (s.tcps[0]?).map (·.phase) = some (.attached 0) := by decide
example : let s := run (init exCfg) [.accept ⟨0, 1000⟩ 0, .frame 0 (exUser 1 "b"), .advance 50]
    (s.pcs[0]?).map (fun pc => (pc.provisional, pc.claimed, pc.closed)) = some (true, false, true) ∧
    (s.tcps[0]?).map (·.phase) = some .closed := by decide
-- claimed in time (GetConnByUfrag at 49): it does not expire
example : let s := run (init exCfg) [.accept ⟨0, 1000⟩ 0, .frame 0 (exUser 1 "b"), .advance 49, .getConn ⟨"b", false, 0⟩, .advance 1000]
    (s.pcs[0]?).map (fun pc => (pc.claimed, pc.closed)) = some (true, false) := by decide

/-! ## Order and source -/

/-- **Order and source.** For every packet connection `p` of every reachable state:
1. FIFO — what `ReadFrom` has returned so far, followed by what is queued, is exactly the sequence in
   which packets entered the receive channel;
2. source — every such packet carries the peer address of the TCP connection it came from, and that
   connection was routed to `p` (and to no other);
3. order — for every TCP connection `k` routed to `p`, the data packets that came from `k` are, in
   order, a prefix of the frames its client sent, beginning with the first frame (no loss in the middle,
   no duplication, no reordering, nothing invented);
4. completeness — while `k` is attached and its reader is waiting for input, that prefix is everything:
   every frame sent has been read or is waiting in the queue. -/
theorem C15_order_and_source (cfg : Config) (ops : List Op) (p : Nat) (pc : PConn) :
    let s := run (init cfg) ops
    s.pcs[p]? = some pc →
      pc.hist = pc.readLog ++ pc.recvQ ∧
      (∀ pkt, pkt ∈ pc.hist → ∃ t, s.tcps[pkt.conn]? = some t ∧ t.pc = some p ∧ pkt.src = t.peer) ∧
      (∀ (k : Nat) (t : Tcp), s.tcps[k]? = some t → t.pc = some p →
        dataIds (fromConn k pc.hist) <+: sentIds t.sent ∧ dataIds (fromConn k pc.readLog) <+: sentIds t.sent) ∧
      (∀ (k : Nat) (t : Tcp), s.tcps[k]? = some t → t.phase = .attached p → t.reader = .idle →
        dataIds (fromConn k pc.hist) = sentIds t.sent) := by
  intro s hp
  have hi : Inv s := reachable_inv cfg ops
  have h2 : Inv2 s := reachable_inv2 cfg ops
  have hd : Drained s := reachable_drained cfg ops
  have pg := h2.pc p pc hp
  refine ⟨pg.fifo, pg.src, ?_, ?_⟩
  · intro k t ht htpc
    have o := ((h2.tcp k t ht).order p pc htpc hp).2
    refine ⟨o, List.IsPrefix.trans ?_ o⟩
    rw [pg.fifo, fromConn_append, dataIds_append]
    exact List.prefix_append _ _
  · intro k t ht hph hidle
    have hph' := hi.phase k t ht
    simp only [PhaseOk, hph] at hph'
    have o := ((h2.tcp k t ht).order p pc hph'.1 hp).1 p hph
    rw [hidle, hd k t ht hidle] at o
    simpa [blkIds, frameIds] using o

-- non-vacuity: two frames from one client, one of them already read
example : let s := run (init exCfg) (exOps1 ++ [.frame 0 (exUser 1 "a"), .frame 0 ⟨2, .notStun, 10⟩, .read 0])
    (s.pcs[0]?).map (fun pc => (dataIds (fromConn 0 pc.hist), dataIds pc.readLog, dataIds pc.recvQ)) =
      some ([(1, 32), (2, 10)], [(1, 32)], [(2, 10)]) ∧
    (s.tcps[0]?).map (fun t => (sentIds t.sent, t.reader)) = some ([(1, 32), (2, 10)], .idle) := by decide
-- two clients of one packet connection on an unbuffered channel: each one's frames stay in order
example : let s := run (init ⟨0, false, 30, 50⟩) (exOps1 ++ [.frame 0 (exUser 1 "a"), .frame 0 ⟨2, .notStun, 10⟩,
      .accept ⟨1, 1000⟩ 0, .frame 1 (exUser 3 "a"), .read 0, .read 0, .read 0])
    (s.pcs[0]?).map (fun pc => dataIds pc.readLog) = some [(1, 32), (3, 32), (2, 10)] := by decide

/-- Once attached, a connection stays with its packet connection, keeps its peer address, and its
logs only grow: later states extend earlier ones (`Ext`). This is what makes the statements above,
which speak about one state, statements about whole executions. -/
theorem C15_history_monotone (cfg : Config) (ops more : List Op) :
    Ext (run (init cfg) ops) (run (run (init cfg) ops) more) :=
  run_ext _ more (reachable_inv cfg ops) (reachable_inv2 cfg ops)

/-- **Closed only for cause.** A TCP connection that was routed to packet connection `p` and has been
closed although `p` is still open was closed because its client closed or reset it, or sent a frame
larger than the 8192-byte read buffer — never because of what other clients or other ufrags did.
(With `Inv`: while a connection is attached its packet connection is open; when a packet connection
closes, every connection attached to it is closed.) -/
theorem C15_closed_only_for_cause (cfg : Config) (ops : List Op) (k p : Nat) (t : Tcp) (pc : PConn) :
    let s := run (init cfg) ops
    s.tcps[k]? = some t → t.pc = some p → t.phase = .closed → s.pcs[p]? = some pc → pc.closed = false →
      t.cEnd = true ∨ ∃ f, f ∈ t.sent ∧ receiveMTU < f.len := by
  intro s ht hpc hph hp hopen
  exact ((reachable_inv3 cfg ops).tcp k t ht).cause p pc hpc hph hp hopen

-- non-vacuity: client 0 closes, client 1 sends 8193 bytes; both are dropped while the packet connection stays open
example : let s := run (init exCfg) (exOps1 ++ [.frame 0 (exUser 1 "a"), .accept ⟨1, 1001⟩ 0, .frame 1 (exUser 2 "a"),
      .clientClose 0 false, .frame 1 ⟨3, .notStun, 8193⟩])
    (s.tcps[0]?).map (fun t => (t.phase, t.pc, t.cEnd)) = some (.closed, some 0, true) ∧
    (s.tcps[1]?).map (fun t => (t.phase, t.pc, t.cEnd)) = some (.closed, some 0, false) ∧
    (s.pcs[0]?).map (·.closed) = some false := by decide

/-! ## Reply path -/

/-- **Reply path.** A write through an open handle to address `dst`:
* if a TCP connection whose peer is `dst` is attached to the handle's packet connection, the write
  succeeds and the payload is appended to the output of exactly that connection — no other connection
  is touched;
* if there is none, nothing is written anywhere and the state is unchanged. -/
theorem C15_reply_path (cfg : Config) (ops : List Op) (h : Nat) (hd : Handle) (dst : Addr) (pid len : Nat) :
    let s := run (init cfg) ops
    s.handles[h]? = some hd → hd.closed = false →
      (∀ (k : Nat) (t : Tcp), s.tcps[k]? = some t → t.phase = .attached hd.pc → t.peer = dst →
        (step s (.write h dst pid len)).2 = .wrote len ∧
        (step s (.write h dst pid len)).1 = setTcp s k (fun t => { t with out := t.out ++ [(pid, len)] })) ∧
      ((∀ (k : Nat) (t : Tcp), s.tcps[k]? = some t → t.phase = .attached hd.pc → t.peer ≠ dst) →
        (step s (.write h dst pid len)).1 = s ∧ (step s (.write h dst pid len)).2 ≠ .wrote len) := by
  intro s hh hopen
  have hi : Inv s := reachable_inv cfg ops
  constructor
  · intro k t ht hph hpeer
    have := hi.phase k t ht
    simp only [PhaseOk, hph] at this
    obtain ⟨_, pc, hp, _, hmem⟩ := this
    have hl : lookupConn pc.conns dst = some k := by
      rw [← hpeer]; exact lookupConn_some_of_mem (hi.pc _ pc hp).2.1 hmem
    simp [step, hh, hopen, hp, hl]
  · intro hnone
    simp only [step, hh, hopen]
    cases hp : s.pcs[hd.pc]? with
    | none => simp
    | some pc =>
      simp only
      cases hl : lookupConn pc.conns dst with
      | none => simp
      | some k =>
        exfalso
        obtain ⟨t, ht, hph, hpe⟩ := (hi.pc _ pc hp).1 dst k (lookupConn_some_mem hl)
        exact hnone k t ht hph hpe

-- non-vacuity: the reply reaches client 0 and only client 0; a write to an unknown address reaches nobody
example : let s := run (init exCfg) (exOps1 ++ [.frame 0 (exUser 1 "a"), .accept ⟨1, 1001⟩ 0, .frame 1 (exUser 2 "a"),
      .write 0 ⟨0, 1000⟩ 7 5])
    (s.tcps[0]?).map (·.out) = some [(7, 5)] ∧ (s.tcps[1]?).map (·.out) = some [] := by decide
example : (step (run (init exCfg) (exOps1 ++ [.frame 0 (exUser 1 "a")])) (.write 0 ⟨0, 1001⟩ 7 5)).2 = .errClosed := by decide

/-- … and "that address" is the source address of what was received: a reply to the source address of
any packet received on `p` goes out on the TCP connection the packet came from, as long as that
connection is still attached. -/
theorem C15_reply_to_source (cfg : Config) (ops : List Op) (h : Nat) (hd : Handle) (pc : PConn) (pkt : Pkt)
    (pid len : Nat) :
    let s := run (init cfg) ops
    s.handles[h]? = some hd → hd.closed = false → s.pcs[hd.pc]? = some pc → pkt ∈ pc.hist →
    (∃ t, s.tcps[pkt.conn]? = some t ∧ t.phase = .attached hd.pc) →
      (step s (.write h pkt.src pid len)).2 = .wrote len ∧
      (step s (.write h pkt.src pid len)).1 = setTcp s pkt.conn (fun t => { t with out := t.out ++ [(pid, len)] }) := by
  intro s hh hopen hp hmem hatt
  obtain ⟨t, ht, hph⟩ := hatt
  obtain ⟨t', ht', _, hsrc⟩ := ((reachable_inv2 cfg ops).pc _ pc hp).src pkt hmem
  rw [ht] at ht'; cases ht'
  exact (C15_reply_path cfg ops h hd pkt.src pid len hh hopen).1 pkt.conn t ht hph hsrc.symm

/-! ## … and, as an iff, which first frames get the connection closed -/

/-- **First frame, closed iff.** For a connection still waiting for its first frame (client neither
closed nor stopped mid-frame): the complete frame `f` gets it CLOSED if and only if `f` is larger than
512 bytes, or is not a STUN Binding with USERNAME, or the packet connection it routes to — the open one
under (ufrag before `:`, family of the peer, local IP) — already has a connection from the same remote
address. (In every other case it is attached, `C15_first_frame_iff`; an unknown ufrag is not a reason to
close: a provisional packet connection is created.) -/
theorem C15_first_frame_closed_iff (cfg : Config) (ops : List Op) (k : Nat) (t : Tcp) (d : Nat) (f : Frame) :
    let s := run (init cfg) ops
    s.tcps[k]? = some t → t.phase = .pending d → t.cEnd = false → t.stuck = false →
    ((∃ t', (step s (.frame k f)).1.tcps[k]? = some t' ∧ t'.phase = .closed) ↔
      (512 < f.len ∨ (∀ u, f.kind ≠ .user u) ∨
        ∃ u p pc, f.kind = .user u ∧ findPc s.pcs ⟨u, t.peer.v6, t.lip⟩ = some p ∧ s.pcs[p]? = some pc ∧
          (lookupConn pc.conns t.peer).isSome = true)) := by
  intro s ht hph hce hst
  have hiff := C15_first_frame_iff cfg ops k t d f ht hph hce hst
  obtain ⟨_, hrej, hacc⟩ := C15_first_frame cfg ops k t d f ht hph hce hst
  -- after the first frame the connection is attached or closed, never both
  have hex : ∃ t', (step s (.frame k f)).1.tcps[k]? = some t' ∧ (t'.phase = .closed ∨ ∃ p, t'.phase = .attached p) := by
    have rej : ∀ s', s' = rejected s k f → ∃ t', s'.tcps[k]? = some t' ∧ (t'.phase = .closed ∨ ∃ p, t'.phase = .attached p) := by
      intro s' e
      refine ⟨{ closeTcp t with sent := t.sent ++ [f] }, ?_, Or.inl rfl⟩
      rw [e]; simp only [rejected, setTcp]; rw [getElem?_modify_eq, ht]; rfl
    cases hc : classify f with
    | none => exact rej _ (hrej hc)
    | some u =>
      have := hacc u hc
      cases hfind : findPc s.pcs ⟨u, t.peer.v6, t.lip⟩ with
      | some p =>
        rw [hfind] at this
        simp only at this
        obtain ⟨pc, hp, _, _, hdup, hatt⟩ := this
        cases hl : lookupConn pc.conns t.peer with
        | some j => exact rej _ (hdup (by rw [hl]; rfl))
        | none =>
          obtain ⟨⟨t', pc', a1, _, a3, _⟩, _, _⟩ := hatt hl
          exact ⟨t', a1, Or.inr ⟨p, a3⟩⟩
      | none =>
        rw [hfind] at this
        simp only at this
        obtain ⟨_, ⟨t', pc', a1, _, a3, _⟩, _, _⟩ := this
        exact ⟨t', a1, Or.inr ⟨_, a3⟩⟩
  obtain ⟨t', ht', hcases⟩ := hex
  have hcl_iff : (∃ t'', (step s (.frame k f)).1.tcps[k]? = some t'' ∧ t''.phase = .closed) ↔
      ¬ ∃ t'' p, (step s (.frame k f)).1.tcps[k]? = some t'' ∧ t''.phase = .attached p := by
    constructor
    · rintro ⟨t1, h1, c1⟩ ⟨t2, p, h2, c2⟩
      rw [h1] at h2; cases h2; rw [c1] at c2; cases c2
    · intro hn
      rcases hcases with hc | ⟨p, hp⟩
      · exact ⟨t', ht', hc⟩
      · exact absurd ⟨t', p, ht', hp⟩ hn
  rw [hcl_iff, hiff]
  constructor
  · intro hn
    by_cases hl : f.len ≤ 512
    · by_cases hk : ∃ u, f.kind = .user u
      · obtain ⟨u, hu⟩ := hk
        right; right
        apply Classical.byContradiction
        intro hno
        apply hn
        refine ⟨u, hl, hu, ?_⟩
        intro p pc hf hp
        cases hlk : lookupConn pc.conns t.peer with
        | none => rfl
        | some j => exact absurd ⟨u, p, pc, hu, hf, hp, by rw [hlk]; rfl⟩ hno
      · right; left
        intro u hu; exact hk ⟨u, hu⟩
    · left; omega
  · rintro (hbig | hnu | ⟨u, p, pc, hu, hf, hp, hdup⟩) ⟨u', hl, hu', hnd⟩
    · omega
    · exact hnu u' hu'
    · rw [hu] at hu'; cases hu'
      rw [hnd p pc hf hp] at hdup; cases hdup

-- non-vacuity: each of the three reasons closes the connection; a valid first frame for an unknown ufrag does not
example : ((run (init exCfg) (exOps1 ++ [.frame 0 (exUser 1 "a" 513)])).tcps[0]?).map (·.phase) = some .closed := by decide
example : ((run (init exCfg) (exOps1 ++ [.frame 0 ⟨1, .otherMethod, 20⟩])).tcps[0]?).map (·.phase) = some .closed := by decide
example : ((run (init exCfg) (exOps1 ++ [.frame 0 (exUser 1 "a"), .accept ⟨0, 1000⟩ 0, .frame 1 (exUser 2 "a")])).tcps[1]?).map (·.phase)
    = some .closed := by decide
example : ((run (init exCfg) (exOps1 ++ [.frame 0 (exUser 1 "zz")])).tcps[0]?).map (·.phase) = some (.attached 1) := by decide

/-! ## Close closes every TCP connection — for every history -/

/-- **Close closes every TCP connection.** For every history (whatever the clients, `GetConnByUfrag`,
`RemoveConnByUfrag`, reads and writes did before and do after the call):
* right after `Close` is called, no TCP connection is attached any more — each one is closed, or is still
  waiting for its first frame (its handler ends at the first-bind deadline or with that frame);
* once first-bind timeout + alive duration have elapsed since the call, EVERY TCP connection ever accepted
  is closed, the listener is closed, and no goroutine of the mux is left. -/
theorem C15_close_closes_all (cfg : Config) (ops : List Op) :
    let s := run (init cfg) ops
    (∀ (k : Nat) (t : Tcp), (step s .closeMux).1.tcps[k]? = some t → s.muxClosed = false →
      t.phase = .closed ∨ ∃ d, t.phase = .pending d) ∧
    (s.muxClosed = true → s.closedAt + effTimeout cfg.t1 + effTimeout cfg.t2 ≤ s.now →
      s.listenerOpen = false ∧ (∀ (k : Nat) (t : Tcp), s.tcps[k]? = some t → t.phase = .closed) ∧
      ledger s = ⟨0, 0, 0, 0, 0⟩) := by
  intro s
  constructor
  · intro k t ht hm
    have hi' : Inv (step s .closeMux).1 := step_inv s .closeMux (reachable_inv cfg ops)
    cases hph : t.phase with
    | closed => exact Or.inl rfl
    | pending d => exact Or.inr ⟨d, rfl⟩
    | attached p =>
      exfalso
      have := hi'.phase k t ht
      simp only [PhaseOk, hph] at this
      obtain ⟨_, pc, hp, hopen, _⟩ := this
      have hp2 : (closePcsWhere (fun _ => true) s).pcs[p]? = some pc := by
        simp only [step, hm, Bool.false_eq_true, if_false] at hp
        exact hp
      rcases (closePcsWhere_spec (fun _ => true) s).2 p pc hp2 with h | h
      · rw [h] at hopen; cases hopen
      · cases h
  · intro hm hlate
    exact C15_close_total cfg ops (C15_close_returns cfg ops hm hlate)

-- non-vacuity: an attached, a silent and a provisional-to-be client when Close is called at time 0
example : let s := run (init exCfg) (exOps1 ++ [.frame 0 (exUser 1 "a"), .accept ⟨1, 1001⟩ 0, .closeMux])
    (s.tcps.map (·.phase)) = [.closed, .pending 30] := by decide
example : let s := run (init exCfg) (exOps1 ++ [.frame 0 (exUser 1 "a"), .accept ⟨1, 1001⟩ 0, .closeMux,
      .advance 29, .frame 1 (exUser 2 "q"), .advance 51])
    s.muxClosed = true ∧ s.closedAt + effTimeout exCfg.t1 + effTimeout exCfg.t2 ≤ s.now ∧
    (s.tcps.map (·.phase)) = [.closed, .closed] := by decide

/-! ## The model is accepted by the spec monitor -/

open IceSpec.C15 IceSpec.C15.View in
/-- **Every run of the model passes the spec monitor of C15.** For every configuration and every
sequence of operations from the initial state — any length, any interleaving of client events with
`GetConnByUfrag` / `RemoveConnByUfrag` / `Close` / reads / writes, any timer values — the observable
trace of the model (`traceOf`: the `new` line, one typed output line per operation, and optionally the
`end` line of the harness's teardown) raises NO clause of the monitor `IceSpec.C15.observeT`: first
frame, late, order and source, reply path, provisional expires, delivery, close.

The proof is a simulation: `IceProofs.TcpMux.Sim` relates the model state to the monitor state
(`C15_monitor_tracks_model`), every operation re-establishes it (`step_sim`).  The monitor that judges the
implementation is `observe = observeT ∘ (parseToks, parseLine)`; the printing of the model's typed line
and its re-reading by these parsers are proved below (`C15_view_roundtrip*`, `C15_view_ops*`,
`C15_model_passes_string_monitor*`, `C15_driver_model_accepted`). -/
theorem C15_model_passes_monitor (cfg : Config) (ops : List Op) (withEnd : Bool) :
    firstViolation (traceOf cfg ops withEnd) = none := by
  unfold firstViolation
  rw [List.findSome?_eq_none_iff]
  intro v hv
  exact IceProofs.TcpMux.trace_ok cfg ops withEnd v hv

open IceSpec.C15 IceSpec.C15.View in
/-- the same, line by line -/
theorem C15_model_passes_monitor_lines (cfg : Config) (ops : List Op) (withEnd : Bool) :
    ∀ v, v ∈ verdicts {} (traceOf cfg ops withEnd) → v = none :=
  IceProofs.TcpMux.trace_ok cfg ops withEnd

open IceSpec.C15 IceSpec.LineProto in
/-- **View round trip.** The monitor's line parser reads back EVERY well-formed observation printed by
`printObs` (the printer the driver uses), whatever result tokens `rt` (free of spaces) it is printed with:
the observation comes back with the result the parser reads from `rt`.  `Obs.wf` (decidable): non-empty
census, payload ids free of ` `, `,`, `:`. -/
theorem C15_view_roundtrip (rt : List String) (o : Obs) (h : o.wf = true) (hrt : ∀ t ∈ rt, free ' ' t = true) :
    parseLine (printObs rt o) = .obs { o with res := parseRes rt } :=
  IceProofs.TcpMuxView.parseLine_printObs rt o h (fun t ht => (IceProofs.LineProto.free_iff ' ' t).mp (hrt t ht))

open IceSpec.C15 in
-- non-vacuity: a well-formed observation with a reply, and one that is not (empty census)
example : (Obs.mk .ok [0, 2] [(1, "7")] [1, 0] false true).wf = true := by decide
open IceSpec.C15 in
example : (Obs.mk .ok [] [] [] false true).wf = false := by decide

open IceSpec.C15 IceSpec.C15.View in
/-- every observation of the model is well-formed, and every line the model prints (`new`, every
operation, `end`) is read back by the monitor's parser as exactly the typed line of the view -/
theorem C15_view_roundtrip_model (s : State) (op : Op) :
    (∀ old r, (obsOf old s r).wf = true) ∧ parseLine (printedLine s op) = lineOf s op ∧
    parseLine (printedStart s.cfg) = .obs (obsOf [] (init s.cfg) .ok) ∧ parseLine (printedEnd s) = endLine s :=
  ⟨fun old r => IceProofs.TcpMuxView.obsOf_wf old s r, IceProofs.TcpMuxView.parseLine_printedLine s op,
   IceProofs.TcpMuxView.parseLine_printedStart s.cfg, IceProofs.TcpMuxView.parseLine_printedEnd s⟩

open IceSpec.C15 IceSpec.C15.View in
/-- **Every run of the model, printed by the driver's printer, is accepted by the STRING monitor**: the
monitor the driver applies to the implementation's output lines (`observe m toks impl = observeL m
(parseToks toks) impl`, `observeL m op impl = observeT m op (parseLine impl)`) returns no violation on
any printed line of any session. -/
theorem C15_model_passes_string_monitor (cfg : Config) (ops : List Op) (withEnd : Bool) :
    ∀ v, v ∈ verdictsL {} (printedTrace cfg ops withEnd) → v = none := by
  rw [IceProofs.TcpMuxView.verdictsL_printedTrace]
  exact IceProofs.TcpMux.trace_ok cfg ops withEnd

open IceSpec.C15 in
/-- `observe` is `observeL` after reading the operation tokens -/
theorem C15_observe_eq (m : Mon) (toks : List String) (impl : String) :
    observe m toks impl = View.observeL m (parseToks toks) impl := rfl

open IceSpec.C15 IceSpec.C15.View in
/-- **Operation side of the view.** The monitor's reader of the operation tokens (`parseToks`) and the
reader the driver uses to run the model (`parseOp`) agree on EVERY token list the driver accepts — no
hypothesis: `parseOp` refuses a `write` whose payload id is not a canonical decimal (`007`; the driver
answers `bad-op`), all other numbers are read by both with `String.toNat?`; and the `new` line is read as
the configured timeouts. -/
theorem C15_view_ops (s : State) (toks : List String) (op : Op) (h : parseOp s toks = some op) :
    parseToks toks = mopOf op :=
  IceProofs.TcpMuxView.parseToks_of_parseOp s toks op h

open IceSpec.C15 IceSpec.C15.View in
theorem C15_view_ops_new (cap wbuf t1 t2 : String) (a b : Nat) (h1 : t1.toNat? = some a) (h2 : t2.toNat? = some b) :
    parseToks ["new", cap, wbuf, t1, t2] = .start a b :=
  IceProofs.TcpMuxView.parseToks_new cap wbuf t1 t2 a b h1 h2

open IceSpec.C15 IceSpec.C15.View in
/-- every operation the line protocol can carry (`opWF`: fake addresses 0…3) has canonical tokens
`opToks` that the driver reads back as that operation and the monitor as its typed view -/
theorem C15_view_ops_canonical (s : State) (op : Op) (h : opWF op = true) :
    parseOp s (opToks s op) = some op ∧ parseToks (opToks s op) = mopOf op :=
  ⟨IceProofs.TcpMuxView.parseOp_opToks s op h, IceProofs.TcpMuxView.parseToks_opToks s op h⟩

open IceSpec.C15 IceSpec.C15.View in
/-- a `write` line is accepted only with a canonical payload id: the text is the printed number -/
theorem C15_view_ops_pid_canonical (s : State) (h ip port pid len : String) (op : Op)
    (hp : parseOp s ["write", h, ip, port, pid, len] = some op) :
    ∃ h' dst p l, op = .write h' dst p l ∧ toString p = pid := by
  simp only [parseOp] at hp
  split at hp
  · split at hp
    · injection hp with hp
      exact ⟨_, _, _, _, hp.symm, IceProofs.TcpMuxView.canonNat_eq _ _ ‹_›⟩
    · cases hp
  · cases hp

open IceSpec.C15 IceSpec.C15.View in
-- non-vacuity: canonical lines are accepted (the hypotheses of the theorems above are satisfiable), `opWF` says no
example : parseOp (init ⟨0, false, 0, 0⟩) (opToks (init ⟨0, false, 0, 0⟩) (.accept ⟨1, 1000⟩ 2)) = some (.accept ⟨1, 1000⟩ 2) :=
  (C15_view_ops_canonical _ _ (by decide)).1
open IceSpec.C15 IceSpec.C15.View in
example : parseOp (init ⟨0, false, 0, 0⟩) (opToks (init ⟨0, false, 0, 0⟩) (.write 0 ⟨0, 1000⟩ 7 5)) = some (.write 0 ⟨0, 1000⟩ 7 5) :=
  (C15_view_ops_canonical _ _ (by decide)).1
open IceSpec.C15 IceSpec.C15.View in
example : opToks (init ⟨0, false, 0, 0⟩) (.write 0 ⟨0, 1000⟩ 7 5) = ["write", "h0", "0", "1000", "7", "5"] := by decide
open IceSpec.C15 IceSpec.C15.View in
example : opWF (.accept ⟨4, 1⟩ 0) = false ∧ opWF (.read 3) = true := by decide

open IceSpec.C15 IceSpec.C15.View in
/-- **Text on both sides.** Every session of the model, written as the canonical operation tokens and the
printed output lines, is accepted by the string monitor `observe` exactly as the driver runs it on the
implementation (operation tokens + output line). -/
theorem C15_model_passes_string_monitor_tokens (cfg : Config) (ops : List Op) (withEnd : Bool)
    (hw : ∀ op ∈ ops, opWF op = true) :
    ∀ v, v ∈ verdictsS {} (tokenTrace cfg ops withEnd) → v = none := by
  rw [IceProofs.TcpMuxView.verdictsS_tokenTrace cfg ops withEnd hw]
  exact C15_model_passes_string_monitor cfg ops withEnd

open IceSpec.C15 IceSpec.C15.View in
/-- **The driver's model side is accepted on EVERY input.** For any sequence of input lines whatsoever
(well-formed or not: repeated `new`, `multi`, operations without a session, malformed tokens, operations
after `end`), the string monitor `observe`, fed with the operation tokens and the output line that the
model side of the driver (`modelStep`) prints, never reports a violation.  `Driver.TcpMux.step` is
`modelStep` + `observe`, so its `MODEL-REJECTED-BY-MONITOR` marker is unreachable; no hypothesis. -/
theorem C15_driver_model_accepted (input : List (List String)) :
    ∀ v ∈ driverRun none {} input, v = none :=
  IceProofs.TcpMuxView.driverRun_ok none {} rfl input

open IceSpec.C15 IceSpec.C15.View in
-- non-vacuity: one verdict per input line
example : (driverRun none {} [["new", "0", "0", "30", "50"], ["accept", "0", "0", "1000", "0"], ["bogus"], ["end"]]).length = 4 := rfl

/-- a session with a known and an unknown ufrag, a later frame, reads, a reply, a slow-loris client and an expiry -/
def exSession : List Op :=
  [.getConn exKeyA, .accept ⟨0, 1000⟩ 0, .frame 0 (exUser 1 "a"), .frame 0 ⟨2, .notStun, 10⟩, .read 0, .write 0 ⟨0, 1000⟩ 7 5,
   .accept ⟨2, 1001⟩ 1, .frame 1 (exUser 3 "b"), .accept ⟨1, 1002⟩ 0, .partialFrame 2, .advance 30, .read 0, .read 0, .advance 50]

/-- two connections from one address, one after the other, sending the SAME payload (frame id 1): the
second frame read belongs to the first connection -/
def exSamePayload : List Op :=
  [.getConn exKeyA, .accept ⟨0, 1000⟩ 0, .frame 0 (exUser 1 "a"), .frame 0 ⟨2, .notStun, 10⟩, .clientClose 0 false,
   .accept ⟨0, 1000⟩ 0, .frame 1 (exUser 1 "a"), .read 0, .read 0, .read 0, .read 0]

open IceSpec.C15 IceSpec.C15.View in
-- non-vacuity: the traces are not empty, the monitor really runs over them (one verdict per line) …
example : (verdicts {} (traceOf exCfg exSession true)).length = 16 := by decide
open IceSpec.C15 IceSpec.C15.View in
example : firstViolation (traceOf exCfg exSession true) = none := by decide
open IceSpec.C15 IceSpec.C15.View in
example : firstViolation (traceOf exCfg exSamePayload true) = none := by decide

open IceSpec.C15 IceSpec.C15.View in
-- non-vacuity of the string-level theorems: the printed trace has one text line per typed line, the
-- string monitor produces one verdict per line, and a printed line is the protocol text
example : (printedTrace exCfg exSession true).length = 16 := by decide
open IceSpec.C15 IceSpec.C15.View in
example : (verdictsL {} (printedTrace exCfg exSession true)).length = 16 := by
  rw [IceProofs.TcpMuxView.verdictsL_printedTrace]; decide
open IceSpec.C15 IceSpec.C15.View in
example : printedStart exCfg = "ok ; c= ; o= ; g=1/0/0/0/0/0 ; L=0 ; ret=0" := by decide
open IceSpec.C15 IceSpec.C15.View in
example : (exSession.all opWF) = true ∧ (tokenTrace exCfg exSession true).length = 16 := by decide

open IceSpec.C15 IceSpec.C15.View in
/-- the lines of `exSamePayload` with the first two reads swapped -/
def exSwapped : List (MOp × Line) :=
  let tr := traceOf exCfg exSamePayload false
  tr.take 8 ++ (tr.drop 9).take 1 ++ (tr.drop 8).take 1 ++ tr.drop 10

open IceSpec.C15 IceSpec.C15.View in
-- … and the monitor is able to say no: the same lines with two reads swapped violate "order and source",
example : (firstViolation exSwapped).isSome = true := by decide

open IceSpec.C15 IceSpec.C15.View in
/-- an oversized first frame after which the connection is reported open -/
def exKeptOpen : List (MOp × Line) :=
  [(.start 30 50, .obs ⟨.ok, [], [], [1, 0, 0, 0, 0, 0], false, false⟩),
   (.accept 0 1000 0, .obs ⟨.ok, [], [], [1, 1, 0, 0, 0, 0], false, false⟩),
   (.frame 0 1 (some "a") 516, .obs ⟨.other, [], [], [1, 1, 0, 0, 0, 0], false, false⟩)]

open IceSpec.C15 IceSpec.C15.View in
-- an oversized first frame that leaves the connection open violates "first frame"
example : (firstViolation exKeptOpen).isSome = true := by decide

open IceSpec.C15 IceSpec.C15.View in
/-- **The monitor tracks the model.** After every session the state of the monitor is the abstraction of
the state of the model (`IceProofs.TcpMux.Sim`): its packet-connection records and handles are the model's
(keys, alive deadlines, reference counts, open/closed), and per TCP connection its record has the model's
address, routing target, frames sent, number of frames read and "closed" flag. -/
theorem C15_monitor_tracks_model (cfg : Config) (ops : List Op) :
    IceProofs.TcpMux.Sim (run (init cfg) ops)
      (IceProofs.TcpMux.monAfter {} ((.start cfg.t1 cfg.t2, .obs (obsOf [] (init cfg) .ok)) :: linesFrom (init cfg) ops)) :=
  IceProofs.TcpMux.trace_sim cfg ops

open IceSpec.C15 IceSpec.C15.View in
-- non-vacuity: in `exSession` the monitor has counted the two frames of client 0 as read and knows client 2 is closed
example : let m := IceProofs.TcpMux.monAfter {} (traceOf exCfg exSession false)
    (m.clients.map (fun c => (c.target, c.nread, c.closed))) = [(some 0, 2, false), (some 1, 0, true), (none, 0, true)] ∧
    (m.pcs.map (·.isOpen)) = [true, false] := by decide

/-! ## Tie to the code (T, round 3): the first-frame decision `TCPMuxDefault.handleConn` (tcp_mux.go), REGENERATED on every run
(`IceGen.T_Mux`, effect mode) -/

open IceTie.MuxTcp in
/-- a new connection is attached (`AddConn` with its first frame, after the unlock) iff the first frame was read, decodes, is a
Binding message with a USERNAME, the remote host parses, the local address is TCP and the packet conn for (ufrag before the first
':', family, local IP) exists or could be created; in every other case the connection is closed exactly once and not attached.
The model's `classify` accepts exactly the `user` frames that fit the first-frame buffer -/
theorem C15_code_handleConn :
    (∀ hasTimeout armErr readErr shortBuf disarmErr decodeErr mNil method noUsername hostErr localIsTCP known createErr,
      IceGen.tcpMux_handleConn hasTimeout armErr readErr shortBuf disarmErr decodeErr mNil method noUsername hostErr localIsTCP known createErr
        = if readErr then [tcpClose]
          else c "msg := copy of the first frame" ::
            (if decodeErr || mNil || method != 1 || noUsername then [tcpClose]
             else if hostErr then [c "ufrag := USERNAME up to the first ':'", tcpClose]
             else if !localIsTCP then [c "ufrag := USERNAME up to the first ':'", c "isIPv6 := remote host is not IPv4", tcpClose]
             else tcpRoute known ++ (if !known && createErr then [tcpClose] else [tcpAdd]))) ∧
    (∀ hasTimeout armErr readErr shortBuf disarmErr decodeErr mNil method noUsername hostErr localIsTCP known createErr,
      ((IceGen.tcpMux_handleConn hasTimeout armErr readErr shortBuf disarmErr decodeErr mNil method noUsername hostErr localIsTCP known createErr).count tcpAdd
        = if tcpAccepted readErr decodeErr mNil method noUsername hostErr localIsTCP known createErr then 1 else 0) ∧
      ((IceGen.tcpMux_handleConn hasTimeout armErr readErr shortBuf disarmErr decodeErr mNil method noUsername hostErr localIsTCP known createErr).count tcpClose
        = if tcpAccepted readErr decodeErr mNil method noUsername hostErr localIsTCP known createErr then 0 else 1)) ∧
    (∀ (f : Frame) (u : String), classify f = some u ↔ f.len ≤ firstFrameMax ∧ f.kind = .user u) :=
  ⟨handleConn_tie, handleConn_attach_iff, IceTie.MuxTcp.classify_iff⟩

/-- non-vacuity: an accepted first frame for an unknown ufrag creates the packet conn and attaches; a non-Binding method closes -/
example : IceGen.tcpMux_handleConn true false false false false false false 1 false false true false false
      = IceTie.MuxTcp.c "msg := copy of the first frame" :: IceTie.MuxTcp.tcpRoute false ++ [IceTie.MuxTcp.tcpAdd] ∧
    IceGen.tcpMux_handleConn true false false false false false false 3 false false true true false
      = [IceTie.MuxTcp.c "msg := copy of the first frame", IceTie.MuxTcp.tcpClose] := by decide

end IceProps.C15
