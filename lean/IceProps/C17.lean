import IceTie.Options
import IceTie.AgentDefaults
import IceTie.Prio
import IceSpec.C17
import IceModel.Crc32
/-!
# C17 — candidate and pair priorities follow the RFC formulas for every configuration

Property theorems only.  `*_code` theorems are stated about the definitions REGENERATED from the Go
source on every run (`IceGen.T_Prio`); they are what the kernel re-checks when the code changes.
-/
namespace IceProps.C17
open IceModel.Prio IceSpec.C17 IceTie.Prio

/-- The model's observable output for one candidate configuration. -/
def modelOut (i : CandIn) : CandOut :=
  let tp := typePreference i.ty i.isTCP i.offset
  let lp := localPreference i.ty i.isTCP i.tt (relayPref i.relayProto)
  { tp := tp, lp := lp, prio := priority tp lp i.component }

/-- Type preferences are 126/110/100/0, reduced by the TCP offset for TCP candidates, within 0..126. -/
theorem C17_type_pref (ty : CandType) (isTCP : Bool) (off : Nat) :
    typePreference ty isTCP off = (if isTCP then expectedBase ty - off else expectedBase ty)
    ∧ typePreference ty isTCP off ≤ 126 := by
  cases ty <;> cases isTCP <;> simp [typePreference, basePref, expectedBase] <;> (try split) <;> omega

theorem directionPref_eq (ty : CandType) (tt : TcpType) :
    directionPref ty tt = expectedDirection ty tt ∧ directionPref ty tt ≤ 6 := by
  cases ty <;> cases tt <;> simp [directionPref, expectedDirection]

/-- Local preference: relay protocol preference for relays, RFC 6544 direction table for TCP, 65535 otherwise. -/
theorem C17_local_pref (i : CandIn) :
    localPreference i.ty i.isTCP i.tt (relayPref i.relayProto) = expectedLP i
    ∧ localPreference i.ty i.isTCP i.tt (relayPref i.relayProto) ≤ 65535 := by
  obtain ⟨ty, isTCP, tt, rp, off, comp⟩ := i
  have hr : relayPref rp ≤ 3 := by unfold relayPref; (repeat' split) <;> omega
  have hr' : expectedRelayPref rp = relayPref rp := rfl
  have hd := directionPref_eq ty tt
  simp only [localPreference, expectedLP, hr']
  generalize relayPref rp = k at *
  cases ty <;> cases isTCP <;> simp <;> omega

/-- priority = 2^24·tp + 2^8·lp + (256 − component), without wrap-around, for tp ≤ 126, lp ≤ 65535,
component ≤ 256. -/
theorem C17_formula (tp lp comp : Nat) (ht : tp ≤ 126) (hl : lp ≤ 65535) (hc : comp ≤ 256) :
    priority tp lp comp = 2 ^ 24 * tp + 2 ^ 8 * lp + (256 - comp) := by
  unfold priority; omega

/-- … and the value is in 0..2^31−1 for EVERY component (also the ids above 256 that the uint16 subtraction
wraps), at least 1 for components 1..255. -/
theorem C17_range (tp lp comp : Nat) (ht : tp ≤ 126) (hl : lp ≤ 65535) :
    priority tp lp comp < 2 ^ 31 ∧ (1 ≤ comp → comp ≤ 255 → 1 ≤ priority tp lp comp) := by
  unfold priority; omega

/-- The monitor accepts exactly when every clause of the property holds (used below). -/
theorem candViolation_none (i : CandIn) (o : CandOut) (h1 : o.tp ≤ 126) (h2 : o.tp = expectedTP i)
    (h3 : o.lp = expectedLP i)
    (h4 : i.component ≤ 256 → o.prio = 16777216 * o.tp + 256 * o.lp + (256 - i.component))
    (h5 : o.prio < 2147483648)
    (h6 : 1 ≤ i.component → i.component ≤ 255 → 1 ≤ o.prio) : candViolation i o = none := by
  unfold candViolation
  rw [if_neg (by omega), if_neg (by simp [h2]), if_neg (by simp [h3]),
    if_neg (fun h => h.2 (h4 h.1)), if_neg (by omega),
    if_neg (fun h => absurd (h6 h.1 h.2.1) (by omega))]

/-- Every output of the model passes the spec monitor of C17 (all clauses at once). -/
theorem C17_model_passes_monitor (i : CandIn) :
    candViolation i (modelOut i) = none := by
  have h1 := C17_type_pref i.ty i.isTCP i.offset
  have h2 := C17_local_pref i
  have h3 := fun h => C17_formula (typePreference i.ty i.isTCP i.offset)
    (localPreference i.ty i.isTCP i.tt (relayPref i.relayProto)) i.component h1.2 h2.2 h
  have h4 := C17_range (typePreference i.ty i.isTCP i.offset)
    (localPreference i.ty i.isTCP i.tt (relayPref i.relayProto)) i.component h1.2 h2.2
  apply candViolation_none
  · exact h1.2
  · exact h1.1
  · exact h2.1
  · intro h; have := h3 h; simp only [modelOut]; omega
  · have := h4.1; simp only [modelOut]; omega
  · intro ha hb; exact h4.2 ha hb

/-- The same for the code: the functions regenerated from candidate_base.go / candidatetype.go /
candidate_relay.go, composed as `Priority()` composes them, pass the monitor for ALL receiver states. -/
theorem C17_code_passes_monitor (ty : UInt8) (isTCP hasAgent : Bool) (off : UInt16) (tt : Int64)
    (proto : String) (comp : UInt16) :
    let tp := IceGen.candidateBase_TypePreference ty isTCP hasAgent off
    let lp := IceGen.candidateBase_LocalPreference ty isTCP tt (IceGen.relayProtocolPreference proto)
    let pr := IceGen.candidateBase_Priority 0 tp lp comp
    candViolation
      { ty := CandType.ofCode ty.toNat, isTCP := isTCP, tt := tcpOf tt, relayProto := proto,
        offset := if hasAgent then off.toNat else defaultTCPPriorityOffset, component := comp.toNat }
      { tp := tp.toNat, lp := lp.toNat, prio := pr.toNat } = none := by
  intro tp lp pr
  have := C17_model_passes_monitor
    { ty := CandType.ofCode ty.toNat, isTCP := isTCP, tt := tcpOf tt, relayProto := proto,
      offset := if hasAgent then off.toNat else defaultTCPPriorityOffset, component := comp.toNat }
  simp only [modelOut] at this
  simp only [tp, lp, pr, priority_tie, typePref_tie, localPref_tie, relayPref_tie]
  exact this

/-- Pair priority: the 64-bit result equals min·(2^32−1) + 2·max + (g>d) as natural numbers (no overflow). -/
theorem C17_pair_no_overflow (g d : Nat) (hg : g < 2 ^ 32) (hd : d < 2 ^ 32) :
    pairPriorityGD g d = (2 ^ 32 - 1) * min g d + 2 * max g d + (if g > d then 1 else 0)
    ∧ pairPriorityGD g d < 2 ^ 64 := by
  unfold pairPriorityGD
  simp only [Nat.min_def, Nat.max_def]
  (repeat' split) <;> omega

/-- Monotone in each argument. -/
theorem C17_pair_monotone (g g' d d' : Nat) (hg : g' < 2 ^ 32) (hd : d' < 2 ^ 32) (h1 : g ≤ g') (h2 : d ≤ d') :
    pairPriorityGD g d ≤ pairPriorityGD g' d' := by
  have a := (C17_pair_no_overflow g d (by omega) (by omega)).1
  have b := (C17_pair_no_overflow g' d' hg hd).1
  rw [a, b]
  simp only [Nat.min_def, Nat.max_def]
  (repeat' split) <;> omega

/-- Strictly monotone in the controlling side's priority, so pair order refines candidate order. -/
theorem C17_pair_strict_g (g g' d : Nat) (hg : g' < 2 ^ 32) (hd : d < 2 ^ 32) (h1 : g < g') :
    pairPriorityGD g d < pairPriorityGD g' d := by
  have a := (C17_pair_no_overflow g d (by omega) hd).1
  have b := (C17_pair_no_overflow g' d hg hd).1
  rw [a, b]
  simp only [Nat.min_def, Nat.max_def]
  (repeat' split) <;> omega

/-- Mirrored pairs get the same number on both agents (model). -/
theorem C17_pair_symmetric (l r : Nat) : pairPriority true l r = pairPriority false r l := rfl

theorem pairViolation_none (g d v : Nat)
    (h1 : v = 4294967295 * min g d + 2 * max g d + (if g > d then 1 else 0))
    (h2 : v < 18446744073709551616) : pairViolation g d v = none := by
  unfold pairViolation
  rw [if_neg (by simp [h1]), if_neg (by omega)]

/-- Code: the regenerated `CandidatePair.priority` passes the pair monitor for all inputs … -/
theorem C17_pair_code_passes_monitor (ov : UInt64) (c : Bool) (l r : UInt32) :
    pairViolation (if c then l.toNat else r.toNat) (if c then r.toNat else l.toNat)
      (IceGen.candidatePair_priority false ov c l r).toNat = none := by
  rw [pairPriority_tie]
  have h1 := l.toNat_lt
  have h2 := r.toNat_lt
  cases c <;> simp only [pairPriority]
  · have := C17_pair_no_overflow r.toNat l.toNat h2 h1
    exact pairViolation_none _ _ _ (by simpa using this.1) (by simpa using this.2)
  · have := C17_pair_no_overflow l.toNat r.toNat h1 h2
    exact pairViolation_none _ _ _ (by simpa using this.1) (by simpa using this.2)

/-- … and both agents compute the same number for mirrored pairs. -/
theorem C17_pair_code_symmetric (ov : UInt64) (l r : UInt32) :
    IceGen.candidatePair_priority false ov true l r = IceGen.candidatePair_priority false ov false r l := by
  apply UInt64.toNat_inj.mp
  rw [pairPriority_tie, pairPriority_tie]; rfl

section Foundation
open IceModel.Crc32
theorem netStr_len (n : Nat) (h : 1 ≤ n ∧ n ≤ 4) : (netStr n).toList.length = 4 := by
  obtain ⟨h1, h2⟩ := h
  have : n = 1 ∨ n = 2 ∨ n = 3 ∨ n = 4 := by omega
  rcases this with rfl | rfl | rfl | rfl <;> decide

theorem netStr_inj (n m : Nat) (hn : 1 ≤ n ∧ n ≤ 4) (hm : 1 ≤ m ∧ m ≤ 4) (h : (netStr n).toList = (netStr m).toList) : n = m := by
  have a : n = 1 ∨ n = 2 ∨ n = 3 ∨ n = 4 := by omega
  have b : m = 1 ∨ m = 2 ∨ m = 3 ∨ m = 4 := by omega
  rcases a with rfl | rfl | rfl | rfl <;> rcases b with rfl | rfl | rfl | rfl <;> first | rfl | (exfalso; revert h; decide)

/-- Foundations: the foundation is the CRC-32 of `type ++ address ++ network type`; this key string is
INJECTIVE in (type, address, network type), so foundations coincide for equal triples (function
congruence) and differ for different triples exactly up to CRC-32 collisions. -/
theorem C17_foundation_key_injective (t1 t2 n1 n2 : Nat) (a1 a2 : String)
    (ht1 : 1 ≤ t1 ∧ t1 ≤ 4) (ht2 : 1 ≤ t2 ∧ t2 ≤ 4) (hn1 : 1 ≤ n1 ∧ n1 ≤ 4) (hn2 : 1 ≤ n2 ∧ n2 ≤ 4)
    (h : foundationKey t1 a1 n1 = foundationKey t2 a2 n2) : t1 = t2 ∧ a1 = a2 ∧ n1 = n2 := by
  have hl := congrArg String.toList h
  simp only [foundationKey, String.toList_append] at hl
  have a : t1 = 1 ∨ t1 = 2 ∨ t1 = 3 ∨ t1 = 4 := by omega
  have b : t2 = 1 ∨ t2 = 2 ∨ t2 = 3 ∨ t2 = 4 := by omega
  have tEq : t1 = t2 := by
    rcases a with rfl | rfl | rfl | rfl <;> rcases b with rfl | rfl | rfl | rfl <;>
      first | rfl | (exfalso; simp [typeStr] at hl)
  subst tEq
  have hl2 : a1.toList ++ (netStr n1).toList = a2.toList ++ (netStr n2).toList := by
    rw [List.append_assoc, List.append_assoc] at hl
    exact List.append_cancel_left hl
  have := List.append_inj' hl2 (by rw [netStr_len n1 hn1, netStr_len n2 hn2])
  exact ⟨rfl, String.toList_inj.mp this.1, netStr_inj n1 n2 hn1 hn2 this.2⟩

theorem C17_foundation_equal (t n : Nat) (a : String) : foundation t a n = foundation t a n := rfl

example : crcBit 1 = 0xEDB88320 := by decide
end Foundation

/-! Non-vacuity: concrete configurations meeting the hypotheses. -/
example : candViolation { ty := .srflx, isTCP := true, tt := .passive, relayProto := "udp", offset := 101, component := 1 }
    (modelOut { ty := .srflx, isTCP := true, tt := .passive, relayProto := "udp", offset := 101, component := 1 }) = none := by
  decide
example : pairPriorityGD 2130706431 1694498815 < pairPriorityGD 2130706431 1694498816 := by decide

/-! ## Tie to the code (T, round 3): the default TCP priority offset of agent_config.go -/

/-- `initWithDefaults`: `tcpPriorityOffset` is the configured value, else `defaultTCPPriorityOffset` = 27 — the model's constant -/
theorem C17_code_tcp_offset_default :
    (∀ n1 v1 n2 v2 noTypes, IceGen.agentConfig_initWithDefaults_misc n1 v1 n2 v2 noTypes
      = [IceTie.AgentDefaults.setI "agent.stunGatherTimeout" n1 5000000000 v1, IceTie.AgentDefaults.setN "agent.tcpPriorityOffset" n2 27 v2,
         IceModel.Eff.set "agent.candidateTypes" (IceModel.Val.s (if noTypes then "defaultCandidateTypes()" else "config.CandidateTypes"))]) ∧
    (∀ v w noTypes, (IceGen.agentConfig_initWithDefaults_misc true v true w noTypes)[1]?
      = some (IceModel.Eff.set "agent.tcpPriorityOffset" (IceModel.Val.n defaultTCPPriorityOffset))) :=
  ⟨IceTie.AgentDefaults.initWithDefaults_misc_tie, fun v w noTypes => by
    rw [IceTie.AgentDefaults.initWithDefaults_misc_tie]; rfl⟩

example : (IceGen.agentConfig_initWithDefaults_misc true 0 false 5 true)[1]?
    = some (IceModel.Eff.set "agent.tcpPriorityOffset" (IceModel.Val.n 5)) := by decide

/-! ## Tie to the code (T, round 4): `WithTCPPriorityOffset` (`IceGen.T_Options`) -/

/-- the option writes `tcpPriorityOffset` (any uint16, no validation) unless the agent is constructed -/
theorem C17_code_tcp_offset_option :
    ∀ constructed offset, IceGen.opt_WithTCPPriorityOffset constructed offset
      = IceTie.Options.guard constructed ([IceTie.Options.setN "a.tcpPriorityOffset" offset], "nil") :=
  IceTie.Options.WithTCPPriorityOffset_tie

example : IceGen.opt_WithTCPPriorityOffset false 65535 = ([IceModel.Eff.set "a.tcpPriorityOffset" (IceModel.Val.n 65535)], "nil") := by decide

end IceProps.C17
