import IceTie.AgentDispatch
import IceTie.AgentRole
import IceProofs.AgentC05
import IceProofs.Sys2C05
/-!
# C05 — role conflicts resolve by tie-breaker (single-agent clauses)

Property theorems only.  `C05_decision` is stated about `IceGen.agent_handleRoleConflict`, the definition
REGENERATED from agent.go on every run.  The behaviour theorems are about the executable model
`IceModel.AgentCore` (tied to the code by the differential correspondence of component `agent`).
The two-agent consequence ("two agents started in the same role end in opposite roles") is proved on
`IceModel.Sys2` in another module.
-/
namespace IceProps.C05
open IceModel IceModel.AgentCore IceProofs.Agent IceTie.AgentRole

/-! ## The decision -/

/-- `rfcKeeps` is the text of RFC 8445 §7.3.1.1: keep the role and answer 487 iff
(controlling ∧ own ≥ theirs) ∨ (controlled ∧ own < theirs). -/
theorem C05_rfc_text (controlling : Bool) (own theirs : Nat) :
    rfcKeeps controlling own theirs = true ↔
      (controlling = true ∧ own ≥ theirs) ∨ (controlling = false ∧ own < theirs) := by
  cases controlling <;> simp [rfcKeeps]

/-- For ALL 2^64 × 2^64 tie-breaker pairs and both roles the code's `handleRoleConflict` performs exactly:
one 487 when RFC 8445 §7.3.1.1 says keep; otherwise flip the role, install a fresh selector and send nothing.
And the model's decision function is the same RFC predicate on all naturals. -/
theorem C05_decision (own theirs : UInt64) (controlling : Bool) :
    IceGen.agent_handleRoleConflict false own theirs controlling
        = (if rfcKeeps controlling own.toNat theirs.toNat then [Eff.call "send487" []]
           else [Eff.call "setControlling" [Val.b (!controlling)], Eff.call "setSelector" []])
    ∧ ∀ o t : Nat, roleConflictKeeps controlling o t = rfcKeeps controlling o t :=
  ⟨handleRoleConflict_gen_eq_rfc own theirs controlling, roleConflictKeeps_eq_rfc controlling⟩

/-- code = model on the decision, directly -/
theorem C05_decision_code_eq_model (own theirs : UInt64) (controlling : Bool) :
    IceGen.agent_handleRoleConflict false own theirs controlling
      = if roleConflictKeeps controlling own.toNat theirs.toNat then [Eff.call "send487" []]
        else [Eff.call "setControlling" [Val.b (!controlling)], Eff.call "setSelector" []] :=
  handleRoleConflict_gen_eq_model own theirs controlling

-- boundaries: equal, adjacent, 0, 2^64−1, both roles (evaluated on the regenerated code)
example : IceGen.agent_handleRoleConflict false 7 7 true = [Eff.call "send487" []] := by decide
example : IceGen.agent_handleRoleConflict false 7 7 false
    = [Eff.call "setControlling" [Val.b true], Eff.call "setSelector" []] := by decide
example : IceGen.agent_handleRoleConflict false 7 8 true
    = [Eff.call "setControlling" [Val.b false], Eff.call "setSelector" []] := by decide
example : IceGen.agent_handleRoleConflict false 8 7 true = [Eff.call "send487" []] := by decide
example : IceGen.agent_handleRoleConflict false 7 8 false = [Eff.call "send487" []] := by decide
example : IceGen.agent_handleRoleConflict false 8 7 false
    = [Eff.call "setControlling" [Val.b true], Eff.call "setSelector" []] := by decide
example : IceGen.agent_handleRoleConflict false 0 0 true = [Eff.call "send487" []] := by decide
example : IceGen.agent_handleRoleConflict false 0 18446744073709551615 true
    = [Eff.call "setControlling" [Val.b false], Eff.call "setSelector" []] := by decide
example : IceGen.agent_handleRoleConflict false 18446744073709551615 0 true = [Eff.call "send487" []] := by decide
example : IceGen.agent_handleRoleConflict false 18446744073709551615 18446744073709551615 true
    = [Eff.call "send487" []] := by decide
example : IceGen.agent_handleRoleConflict false 18446744073709551615 18446744073709551615 false
    = [Eff.call "setControlling" [Val.b true], Eff.call "setSelector" []] := by decide
example : IceGen.agent_handleRoleConflict false 0 18446744073709551615 false = [Eff.call "send487" []] := by decide
example : IceGen.agent_handleRoleConflict false 18446744073709551614 18446744073709551615 true
    = [Eff.call "setControlling" [Val.b false], Eff.call "setSelector" []] := by decide
example : rfcKeeps true 5 5 = true ∧ rfcKeeps false 5 5 = false ∧ rfcKeeps true 4 5 = false ∧ rfcKeeps false 4 5 = true := by
  decide

/-! ## A conflicting request is never a connectivity check -/

/-- the 487 Role Conflict error response to request `m`, MESSAGE-INTEGRITY keyed with `pwd` -/
def roleConflictResponse (m : Msg) (pwd : String) : Msg :=
  { cls := 3, tid := m.tid, key := some pwd, errCode := some 487 }

/-- what a lost conflict does to the agent: flip the role, fresh selector (`setSelector()`), nothing else -/
def switched (a1 : Agent) (now : Nat) : Agent :=
  { a1 with controlling := !a1.controlling, selStart := now, nominatedPair := none, lastNomination := none,
            answeredNomination := none }

/-- For EVERY agent state, local candidate, source and authenticated Binding request that carries the
receiver's own role (`m.role = some (a.controlling, tb)`) from a source that resolves to `r`
(`resolveSource`: the known remote candidate, or a peer-reflexive candidate accepted by the remote filter):
* the state `a1` in which the conflict is detected is `a` itself or `a` plus the discovered peer-reflexive
  candidate and its fresh Waiting pairs (`Discovered`, the one side effect the property does not forbid),
  and discovery produced no output;
* the outputs are exactly one 487 keyed with the local password when RFC 8445 §7.3.1.1 says keep, and
  nothing at all otherwise;
* the resulting state is `a1` with only the local candidate's last-sent time updated (keep), or `a1` with
  the role flipped and the selector reset (switch).
Hence no success response, no request, no pair / selection / connection-state / liveness change. -/
theorem C05_not_a_check (a : Agent) (now : Nat) (l : Cand) (src : Nat) (m : Msg) (tb : Nat)
    (hauth : AuthRequest a m) (hrole : m.role = some (a.controlling, tb))
    {a1 : Agent} {o0 : List Out} {r : Cand} (hres : resolveSource a l src m = (a1, o0, some r)) :
    Discovered a a1 ∧ o0 = [] ∧
    (a.handleInbound now l src m).2
      = (if roleConflictKeeps a.controlling a.tieBreaker tb
         then [Out.dgram l.addr r.addr (roleConflictResponse m a.localPwd)] else []) ∧
    (a.handleInbound now l src m).1
      = (if roleConflictKeeps a.controlling a.tieBreaker tb then a1.seenLocalSent l.uid now else switched a1 now) := by
  have hd := resolveSource_discovered a l src m
  rw [hres] at hd
  have hctl : a1.controlling = a.controlling := congrArg IceProofs.Agent.Core.controlling hd.1.core
  refine ⟨hd.1, hd.2, ?_, ?_⟩
  · rw [handleInbound_conflict a now l src m tb hauth hrole hres]
    split <;> rfl
  · rw [handleInbound_conflict a now l src m tb hauth hrole hres]
    split
    · rfl
    · simp only [switched, hctl]

/-- is this output a Binding success response / a Binding request? -/
def isSuccessResponse : Out → Bool
  | .dgram _ _ m => m.cls == 2
  | _ => false
def isRequest : Out → Bool
  | .dgram _ _ m => m.cls == 0
  | _ => false

/-- The clauses of `C05_not_a_check` spelled out field by field. -/
theorem C05_not_a_check_explicit (a : Agent) (now : Nat) (l : Cand) (src : Nat) (m : Msg) (tb : Nat)
    (hauth : AuthRequest a m) (hrole : m.role = some (a.controlling, tb))
    {a1 : Agent} {o0 : List Out} {r : Cand} (hres : resolveSource a l src m = (a1, o0, some r)) :
    let res := a.handleInbound now l src m
    -- no success response, no request (so no triggered check and no nomination request), at most one message
    (∀ o ∈ res.2, isSuccessResponse o = false ∧ isRequest o = false) ∧ res.2.length ≤ 1 ∧
    -- no pair is touched: state, nominated, nomOnSuccess, deferredNom, all counters (the checklist is that of `a1`,
    -- which extends `a`'s by fresh pairs only); no transaction is recorded
    res.1.checklist = a1.checklist ∧ (∃ extra, res.1.checklist = a.checklist ++ extra ∧ ∀ p ∈ extra, FreshPair p) ∧
    res.1.pending = a.pending ∧
    -- no selection, no connection-state change, no liveness refresh of any remote candidate
    res.1.selected = a.selected ∧ res.1.connState = a.connState ∧ res.1.remotes = a1.remotes ∧
    (∃ new, res.1.remotes = a.remotes ++ new) ∧
    -- kept: role and selector untouched; switched: role flipped, selector state reset
    (roleConflictKeeps a.controlling a.tieBreaker tb = true →
      res.1.controlling = a.controlling ∧ res.1.lastNomination = a.lastNomination ∧
      res.1.nominatedPair = a.nominatedPair ∧ res.1.selStart = a.selStart) ∧
    (roleConflictKeeps a.controlling a.tieBreaker tb = false →
      res.2 = [] ∧ res.1.controlling = (!a.controlling) ∧ res.1.lastNomination = none ∧
      res.1.nominatedPair = none ∧ res.1.selStart = now) := by
  obtain ⟨hd, _, hout, hst⟩ := C05_not_a_check a now l src m tb hauth hrole hres
  have hctl : a1.controlling = a.controlling := congrArg IceProofs.Agent.Core.controlling hd.core
  have hln : a1.lastNomination = a.lastNomination := congrArg IceProofs.Agent.Core.lastNomination hd.core
  have hss : a1.selStart = a.selStart := (congrArg Agent.selStart hd.rest : (stripPairs a1).selStart = (stripPairs a).selStart)
  simp only []
  rw [hout, hst]
  cases hk : roleConflictKeeps a.controlling a.tieBreaker tb
  · simp [switched, hd.selected, hd.connState, hd.pending, hd.pairs, hd.remotes, hctl]
  · simp [Agent.seenLocalSent, isSuccessResponse, isRequest, roleConflictResponse, hd.selected, hd.connState,
      hd.pending, hd.pairs, hd.remotes, hd.nominatedPair, hctl, hln, hss]

/-- A conflicting (indeed any) authenticated request whose source does not resolve — the remote filter
rejects the peer-reflexive candidate — changes nothing and sends nothing. -/
theorem C05_unresolved_source (a : Agent) (now : Nat) (l : Cand) (src : Nat) (m : Msg)
    (hauth : AuthRequest a m) (hres : (resolveSource a l src m).2.2 = none) :
    a.handleInbound now l src m = (a, []) :=
  handleInbound_unresolved a now l src m hauth hres

/-! ## The role changes only through this branch (or `.start`) -/

/-- `conflictSwitchEv` (the decidable event predicate used below) unfolded: the event is an inbound
authenticated Binding request, on an existing local candidate of a started open agent, from a source that
resolves, carrying the agent's own role with a tie-breaker for which RFC 8445 §7.3.1.1 says switch. -/
theorem C05_conflictSwitchEv_iff (a : Agent) (ev : Ev) :
    conflictSwitchEv a ev = true ↔
      ∃ now la src m l tb, ev = .inbound now la src m ∧ a.closed = false ∧ a.started = true ∧
        a.localByAddr la = some l ∧ AuthRequest a m ∧ (resolveSource a l src m).2.2.isSome = true ∧
        m.role = some (a.controlling, tb) ∧ rfcKeeps a.controlling a.tieBreaker tb = false := by
  constructor
  · intro h
    unfold conflictSwitchEv at h
    cases ev with
    | inbound now la src m =>
      simp only [inboundOn] at h
      by_cases h1 : (a.closed || !a.started) = true
      · simp [h1] at h
      · simp only [h1] at h
        cases hl : a.localByAddr la with
        | none => simp [hl] at h
        | some l =>
          simp only [hl, Option.map_some] at h
          obtain ⟨hauth, hres, tb, hrole, hk⟩ := (conflictSwitch_iff a l src m).1 h
          refine ⟨now, la, src, m, l, tb, rfl, ?_, ?_, hl, hauth, hres, hrole, ?_⟩
          · cases hx : a.closed <;> simp_all
          · cases hx : a.started <;> simp_all
          · rw [← roleConflictKeeps_eq_rfc]; exact hk
    | _ => simp [inboundOn] at h
  · rintro ⟨now, la, src, m, l, tb, rfl, hc, hs, hl, hauth, hres, hrole, hk⟩
    rw [← roleConflictKeeps_eq_rfc] at hk
    simp only [conflictSwitchEv, inboundOn, hc, hs, hl, Bool.not_true, Bool.or_false, Bool.false_eq_true, if_false,
      Option.map_some]
    exact (conflictSwitch_iff a l src m).2 ⟨hauth, hres, tb, hrole, hk⟩

/-- For every state and every event: the role differs after the step only if the event is a `.start` that
takes effect or a lost role conflict; a lost role conflict does flip it; the tie-breaker never changes. -/
theorem C05_switch_only_by_conflict (a : Agent) (ev : Ev) :
    ((step a ev).1.controlling ≠ a.controlling → startTakesEffect a ev = true ∨ conflictSwitchEv a ev = true) ∧
    (conflictSwitchEv a ev = true → (step a ev).1.controlling = !a.controlling) ∧
    (step a ev).1.tieBreaker = a.tieBreaker := by
  refine ⟨?_, ?_, (step_constants a ev).1⟩
  · intro h
    rw [step_controlling] at h
    cases ev with
    | start now c ru rp =>
      left
      simp only [] at h
      by_cases hs : startTakesEffect a (.start now c ru rp) = true
      · exact hs
      · simp [hs] at h
    | inbound now la src m =>
      right
      simp only [] at h
      by_cases hs : conflictSwitchEv a (.inbound now la src m) = true
      · exact hs
      · simp [hs] at h
    | _ =>
      right
      simp only [] at h
      first
        | (simp [conflictSwitchEv, inboundOn] at h)
  · intro h
    rw [step_controlling]
    cases ev with
    | start now c ru rp => simp [conflictSwitchEv, inboundOn] at h
    | _ => simp [h]

/-- no event of the list is a `.start` that takes effect or a lost role conflict (decidable, along the run) -/
def quiet (a : Agent) : List Ev → Bool
  | [] => true
  | e :: es => !startTakesEffect a e && !conflictSwitchEv a e && quiet (step a e).1 es

/-- Roles are stable: along ANY event sequence without an effective `.start` and without a lost conflict the
role is the initial one; the tie-breaker is constant along every sequence. -/
theorem C05_roles_stable (a : Agent) (evs : List Ev) :
    (quiet a evs = true → (run a evs).controlling = a.controlling) ∧ (run a evs).tieBreaker = a.tieBreaker := by
  induction evs generalizing a with
  | nil => exact ⟨fun _ => rfl, rfl⟩
  | cons e es ih =>
    obtain ⟨h1, _, h3⟩ := C05_switch_only_by_conflict a e
    refine ⟨?_, ?_⟩
    · intro hq
      simp only [quiet, Bool.and_eq_true, Bool.not_eq_true'] at hq
      obtain ⟨⟨hq1, hq2⟩, hq3⟩ := hq
      have : (step a e).1.controlling = a.controlling := by
        apply Classical.byContradiction
        intro hne
        rcases h1 hne with h | h
        · rw [hq1] at h; exact absurd h (by decide)
        · rw [hq2] at h; exact absurd h (by decide)
      show (run (step a e).1 es).controlling = _
      rw [(ih _).1 hq3, this]
    · show (run (step a e).1 es).tieBreaker = _
      rw [(ih _).2, h3]

/-! ## Non-vacuity: concrete scenarios evaluated by `decide` -/

/-- datagrams of an output list -/
def dgrams (o : List Out) : List (Nat × Nat × Msg) :=
  o.filterMap fun | .dgram f t m => some (f, t, m) | _ => none

def exLocal : Cand := { uid := 0, ty := 1, net := 0, addr := 16, prio := 2130706431 }
def exRemote : Cand := { uid := 0, ty := 1, net := 0, addr := 176, prio := 2130706431 }
/-- a controlled agent (tie-breaker 3) with one local and one remote candidate, started -/
def exAgent : Agent :=
  run { localUfrag := "uA", localPwd := "pA", tieBreaker := 3 }
    [.addLocal 0 exLocal, .addRemote 0 exRemote, .start 0 false "uB" "pB"]
/-- authenticated request carrying ICE-CONTROLLED (the receiver's own role) with tie-breaker `tb` -/
def exConflict (tb : Nat) : Msg :=
  { cls := 0, tid := 77, user := some "uA:uB", key := some "pA", prio := some 100, useCand := true,
    role := some (false, tb), nom := some 5 }
def exL : Cand := (exAgent.localByAddr 16).getD default

-- the hypotheses of `C05_not_a_check` are satisfiable: known source (176) and unknown source (208, prflx discovery)
example : AuthRequest exAgent (exConflict 9) ∧ (exConflict 9).role = some (exAgent.controlling, 9)
    ∧ (resolveSource exAgent exL 176 (exConflict 9)).2.2.isSome = true
    ∧ (resolveSource exAgent exL 208 (exConflict 9)).2.2.isSome = true
    ∧ exAgent.findRemote 0 208 = none := by decide

-- controlled, own 3 < theirs 9: keeps the role, answers exactly one 487 keyed with the local password;
-- although the request carried USE-CANDIDATE and a nomination value, nothing is selected or nominated
example :
    let r := step exAgent (.inbound 5 16 176 (exConflict 9))
    dgrams r.2 = [(16, 176, roleConflictResponse (exConflict 9) "pA")]
    ∧ r.1.controlling = false ∧ r.1.selected = none ∧ r.1.lastNomination = none
    ∧ r.1.checklist = exAgent.checklist ∧ r.1.remotes = exAgent.remotes := by decide

-- controlled, own 3 ≥ theirs 3 (equal) and theirs 2: switches to controlling, sends nothing
example :
    let r := step exAgent (.inbound 5 16 176 (exConflict 3))
    dgrams r.2 = [] ∧ r.1.controlling = true ∧ r.1.selected = none ∧ r.1.checklist = exAgent.checklist
    ∧ conflictSwitchEv exAgent (.inbound 5 16 176 (exConflict 3)) = true := by decide
example : (step exAgent (.inbound 5 16 176 (exConflict 2))).1.controlling = true
    ∧ (step exAgent (.inbound 5 16 176 (exConflict 4))).1.controlling = false := by decide

-- unknown source: the prflx candidate and its pair are added (the allowed side effect), still no check
example :
    let r := exAgent.handleInbound 5 exL 208 (exConflict 9)
    dgrams r.2 = [(16, 208, roleConflictResponse (exConflict 9) "pA")]
    ∧ r.1.remotes.length = 2 ∧ r.1.checklist.length = 2 ∧ r.1.selected = none ∧ r.1.pending = exAgent.pending := by
  decide

-- a source rejected by the remote filter: `C05_unresolved_source` applies
example : (resolveSource { exAgent with cfg := { blockedIPs := [13] } } exL 208 (exConflict 9)).2.2 = none := by decide

-- `quiet` is satisfiable by a non-trivial run, and a conflict makes it false
example : quiet exAgent [.inbound 5 16 176 (exConflict 9), .advance 300000000, .inbound 6 16 176 (exConflict 9)] = true := by
  decide
example : quiet exAgent [.inbound 5 16 176 (exConflict 3)] = false := by decide

/-! ## Tie to the code (T, round 3): where the role-conflict test sits in `handleInboundRequest` -/

open IceTie.AgentDispatch in
/-- an authenticated request whose ICE-CONTROLLING/CONTROLLED attribute parses and names OUR role goes to `handleRoleConflict`
and nowhere else: the selector is not called and the request is not counted as received traffic (`ok = false`) -/
theorem C05_code_conflict_dispatch :
    ∀ remoteNil prioErr, IceGen.agent_handleInboundRequest false false remoteNil false prioErr false true false true
      = ((if remoteNil then prflxEffs prioErr false else []) ++ [c "handleRoleConflict"], ("nil", false)) :=
  handleInboundRequest_conflict

example : IceGen.agent_handleInboundRequest false false false false false false true false true
    = ([IceTie.AgentDispatch.c "handleRoleConflict"], ("nil", false)) := by decide

end IceProps.C05

/-! # The two-agent consequence: same-role starts end in opposite roles (closed system `Sys2`)

Restatements of the theorems proved in `IceProofs.Sys2C05` (invariant over what is in flight, closure under every
system event).  System: `IceProofs.Sys2Run` — two `AgentCore` agents and the datagram hub of `IceModel.Sys2`; an agent
receives `inbound` / `inboundData` / `advance` only through the hub; the application may call any API event of either
agent at any time.  Every theorem quantifies over ALL initial states with `Sys.Init` (fresh agents, nothing in flight;
configurations, credentials, tie-breakers, NAT mapping, reachability matrix arbitrary) with DISTINCT tie-breakers, and
over ALL schedules = arbitrary `List SysEv` (API calls of both agents incl. `restart`, `close`, late `start`;
deliveries in any order, duplications, drops, clock advances).

"Started in role r" is the API event `.start now r ru rp`; it takes effect at most once per agent (`started` is never
reset — `step_started`), `.restart` keeps the role (`resetSelector` does not touch `controlling`), so after its start an
agent's role changes only by a lost role conflict (`C05_switch_only_by_conflict`).

`W s0` = the agent with the larger tie-breaker, `L s0` the other (`false` = agent A, `true` = agent B).

Schedule hypothesis `NoLoopbackCreds s0 evs X` (decidable; needed for `X = L s0` only): agent `X` is never handed one of
its own local passwords as the remote password.  Without it the statement about `L` is FALSE in the model
(`C05_orientation_stable_needs_NoLoopbackCreds_witness`): a controlled agent whose own ICE-CONTROLLED request is delivered
back to it and authenticates compares `own < own`, which is false, and switches to controlling.  The USERNAME test alone
does not exclude this (`"a:a"` / `"a"`: `ru ++ ":" ++ lu = lu ++ ":" ++ ru` with `lu ≠ ru`), the MESSAGE-INTEGRITY key does.

Not proved (needs fair delivery, checked by the spec monitor at `mark fairend`): that the agent in the wrong role
EVENTUALLY processes such a request.
-/
namespace IceProps.C05
open IceModel IceModel.AgentCore IceModel.Sys2 IceProofs.Agent IceProofs.Sys2Run IceProofs.Sys2C05

/-- the agent holding the larger tie-breaker (`false` = A, `true` = B) … -/
abbrev W (s0 : Sys) : Bool := winner s0
/-- … and the other one -/
abbrev L (s0 : Sys) : Bool := !winner s0

/-- started, and in the given role -/
def StartedAs (a : Agent) (controlling : Bool) : Prop := a.started = true ∧ a.controlling = controlling

instance (a : Agent) (c : Bool) : Decidable (StartedAs a c) := by unfold StartedAs; infer_instance

theorem right_W (s0 s : Sys) : Right (W s0) (W s0) s ↔ StartedAs (s.agent (W s0)) true := Right_winner _ _
theorem right_L (s0 s : Sys) : Right (W s0) (L s0) s ↔ StartedAs (s.agent (L s0)) false := Right_loser _ _

/-- `W` really holds the larger tie-breaker, and tie-breakers never change along any schedule. -/
theorem C05_winner_tiebreaker (s0 : Sys) (hinit : Sys.Init s0) (hne : s0.a.tieBreaker ≠ s0.b.tieBreaker)
    (evs : List SysEv) :
    ((Sys.runs s0 evs).agent (L s0)).tieBreaker < ((Sys.runs s0 evs).agent (W s0)).tieBreaker ∧
    ∀ X, ((Sys.runs s0 evs).agent X).tieBreaker = (s0.agent X).tieBreaker := by
  refine ⟨?_, reach_tieBreaker hinit evs⟩
  rw [reach_tieBreaker hinit evs, reach_tieBreaker hinit evs]
  exact winner_lt s0 hne

/-- What is on the wire: in every reachable state, every in-flight STUN message that carries a role attribute carries
the tie-breaker of one of the two agents — its sender — and is keyed with a remote password of that agent. -/
theorem C05_inflight_roles_name_sender (s0 : Sys) (hinit : Sys.Init s0) (evs : List SysEv) :
    ∀ d ∈ (Sys.runs s0 evs).inflight, ∀ m, d.p = .stun m → ∀ c t, m.role = some (c, t) →
      ∃ X : Bool, t = (s0.agent X).tieBreaker ∧ ∃ p, p ∈ remotePwds s0 evs X ∧ m.key = some p :=
  reach_inflight hinit evs

/-- **Orientation is stable.**  Along every schedule: once `W` is started and controlling it stays started and
controlling for ever (no hypothesis on credentials, hairpinned own requests included); once `L` is started and
controlled it stays so for ever, provided `L` is never handed its own password as remote password. -/
theorem C05_orientation_stable (s0 : Sys) (hinit : Sys.Init s0) (hne : s0.a.tieBreaker ≠ s0.b.tieBreaker)
    (evs1 evs2 : List SysEv) :
    (StartedAs ((Sys.runs s0 evs1).agent (W s0)) true →
      StartedAs ((Sys.runs (Sys.runs s0 evs1) evs2).agent (W s0)) true) ∧
    (NoLoopbackCreds s0 (evs1 ++ evs2) (L s0) →
      StartedAs ((Sys.runs s0 evs1).agent (L s0)) false →
      StartedAs ((Sys.runs (Sys.runs s0 evs1) evs2).agent (L s0)) false) := by
  have h := orientation_stable s0 hinit hne evs1 evs2
  simp only [right_W, right_L] at h
  exact h

/-- `conflictDelivery s k Y` (the decidable predicate used below) unfolded: datagram `k` is in flight, the network
does not drop it, agent `Y` listens at its (un-NATed) destination, and the event it becomes at `Y` is an authenticated
Binding request on an existing local candidate of the started, open agent, from a source that resolves, carrying `Y`'s
OWN current role. -/
theorem C05_conflictDelivery_iff (s : Sys) (k : Nat) (Y : Bool) :
    conflictDelivery s k Y = true ↔
      ∃ d now la src m l tb, s.inflight[k]? = some d ∧ s.blocked.contains (d.src, d.dst) = false ∧
        s.owner (s.unmapped d.dst) = some Y ∧ evOf s d = .inbound now la src m ∧
        (s.agent Y).closed = false ∧ (s.agent Y).started = true ∧ (s.agent Y).localByAddr la = some l ∧
        AuthRequest (s.agent Y) m ∧ (resolveSource (s.agent Y) l src m).2.2.isSome = true ∧
        m.role = some ((s.agent Y).controlling, tb) := by
  unfold conflictDelivery
  cases hk : s.inflight[k]? with
  | none => simp
  | some d =>
    simp only [Bool.and_eq_true, Bool.not_eq_true', beq_iff_eq, conflictEv_iff, Option.some.injEq]
    constructor
    · rintro ⟨⟨hb, ho⟩, now, la, src, m, l, tb, hev, hrest⟩
      exact ⟨d, now, la, src, m, l, tb, rfl, hb, ho, hev, hrest⟩
    · rintro ⟨d', now, la, src, m, l, tb, rfl, hb, ho, hev, hrest⟩
      exact ⟨⟨hb, ho⟩, now, la, src, m, l, tb, hev, hrest⟩

/-- **A processed role conflict puts the receiver in its assigned role.**  In every reachable state, when agent `Y`
processes an authenticated request carrying `Y`'s own role (delivery, `keep = false`, or duplication, `keep = true`, of
datagram `k`), `Y` is afterwards controlling iff it holds the larger tie-breaker — whatever its role was before — and
the other agent is untouched.  So: both controlling — the smaller tie-breaker switches when it receives, the larger
keeps; both controlled — the larger switches when it receives, the smaller keeps (the keeper answers 487:
`C05_not_a_check`). -/
theorem C05_conflict_resolves (s0 : Sys) (hinit : Sys.Init s0) (hne : s0.a.tieBreaker ≠ s0.b.tieBreaker)
    (evs : List SysEv) (k : Nat) (keep : Bool) (Y : Bool)
    (hd : Y = W s0 ∨ NoLoopbackCreds s0 evs Y)
    (hc : conflictDelivery (Sys.runs s0 evs) k Y = true) :
    StartedAs ((Sys.run (Sys.runs s0 evs) (delivery k keep)).agent Y) (Y == W s0) ∧
    (Sys.run (Sys.runs s0 evs) (delivery k keep)).agent (!Y) = (Sys.runs s0 evs).agent (!Y) := by
  rw [run_delivery]
  exact conflict_resolves s0 hinit hne evs k keep Y hd hc

/-- **… and keeps it there for ever**: any schedule `evs1`, then agent `Y` processes an authenticated request carrying
its own role, then ANY schedule `evs2`: in the final state `Y` is started and controlling iff it holds the larger
tie-breaker.  Hence after each agent has processed one such request (from a same-role state: after the agent in the
wrong role has), the roles are opposite for ever. -/
theorem C05_conflict_resolves_forever (s0 : Sys) (hinit : Sys.Init s0) (hne : s0.a.tieBreaker ≠ s0.b.tieBreaker)
    (evs1 : List SysEv) (k : Nat) (keep : Bool) (evs2 : List SysEv) (Y : Bool)
    (hd : Y = W s0 ∨ NoLoopbackCreds s0 (evs1 ++ delivery k keep :: evs2) Y)
    (hc : conflictDelivery (Sys.runs s0 evs1) k Y = true) :
    StartedAs ((Sys.runs s0 (evs1 ++ delivery k keep :: evs2)).agent Y) (Y == W s0) :=
  conflict_resolves_forever s0 hinit hne evs1 k keep evs2 Y hd hc

/-- the agent that is in the wrong role when both are in role `r`: both controlling — `L`; both controlled — `W` -/
def mustSwitch (s0 : Sys) (r : Bool) : Bool := if r then L s0 else W s0

/-- **Same-role states resolve.**  Reachable state, both agents started and in the same role.  After the agent in the
wrong role has processed ONE authenticated same-role request of the other, `W` is controlling and `L` controlled. -/
theorem C05_same_role_start_resolves (s0 : Sys) (hinit : Sys.Init s0) (hne : s0.a.tieBreaker ≠ s0.b.tieBreaker)
    (evs : List SysEv) (k : Nat) (keep : Bool)
    (hsa : (Sys.runs s0 evs).a.started = true) (hsb : (Sys.runs s0 evs).b.started = true)
    (hsame : (Sys.runs s0 evs).a.controlling = (Sys.runs s0 evs).b.controlling)
    (hcred : (Sys.runs s0 evs).a.controlling = true → NoLoopbackCreds s0 evs (L s0))
    (hc : conflictDelivery (Sys.runs s0 evs) k (mustSwitch s0 (Sys.runs s0 evs).a.controlling) = true) :
    StartedAs ((Sys.run (Sys.runs s0 evs) (delivery k keep)).agent (W s0)) true ∧
    StartedAs ((Sys.run (Sys.runs s0 evs) (delivery k keep)).agent (L s0)) false := by
  rw [run_delivery, ← right_W, ← right_L]
  exact same_role_resolves s0 hinit hne evs k keep hsa hsb hsame hcred hc

/-- **Opposite roles (larger tie-breaker controlling) are absorbing** under every schedule. -/
theorem C05_opposite_is_absorbing (s0 : Sys) (hinit : Sys.Init s0) (hne : s0.a.tieBreaker ≠ s0.b.tieBreaker)
    (evs1 evs2 : List SysEv) (hno : NoLoopbackCreds s0 (evs1 ++ evs2) (L s0))
    (h1 : StartedAs ((Sys.runs s0 evs1).agent (W s0)) true) (h2 : StartedAs ((Sys.runs s0 evs1).agent (L s0)) false) :
    StartedAs ((Sys.runs (Sys.runs s0 evs1) evs2).agent (W s0)) true ∧
    StartedAs ((Sys.runs (Sys.runs s0 evs1) evs2).agent (L s0)) false := by
  rw [← right_W, ← right_L] at *
  exact opposite_absorbing s0 hinit hne evs1 evs2 hno h1 h2

/-- **Two agents started in the same role with distinct tie-breakers end in opposite roles under every message
ordering.**  ANY schedule `evs1` reaching a state with both agents started and in the same role; the agent in the wrong
role processes one authenticated same-role request; then ANY schedule `evs2` (further conflicting requests, stale
requests from before a switch, duplicates, restarts, closes …).  In the final state `W` is controlling, `L` controlled. -/
theorem C05_same_role_ends_opposite (s0 : Sys) (hinit : Sys.Init s0) (hne : s0.a.tieBreaker ≠ s0.b.tieBreaker)
    (evs1 : List SysEv) (k : Nat) (keep : Bool) (evs2 : List SysEv)
    (hno : NoLoopbackCreds s0 (evs1 ++ delivery k keep :: evs2) (L s0))
    (hsa : (Sys.runs s0 evs1).a.started = true) (hsb : (Sys.runs s0 evs1).b.started = true)
    (hsame : (Sys.runs s0 evs1).a.controlling = (Sys.runs s0 evs1).b.controlling)
    (hc : conflictDelivery (Sys.runs s0 evs1) k (mustSwitch s0 (Sys.runs s0 evs1).a.controlling) = true) :
    StartedAs ((Sys.runs s0 (evs1 ++ delivery k keep :: evs2)).agent (W s0)) true ∧
    StartedAs ((Sys.runs s0 (evs1 ++ delivery k keep :: evs2)).agent (L s0)) false := by
  rw [← right_W, ← right_L]
  exact same_role_ends_opposite s0 hinit hne evs1 k keep evs2 hno hsa hsb hsame hc

/-- **From a same-role state the roles are never wrongly oriented**, under every schedule and whether or not any
conflicting request is ever delivered: later the agents are either still both in that role, or `W` is controlling and
`L` controlled.  (`L` controlling with `W` controlled is unreachable.) -/
theorem C05_same_role_never_misoriented (s0 : Sys) (hinit : Sys.Init s0) (hne : s0.a.tieBreaker ≠ s0.b.tieBreaker)
    (evs1 evs2 : List SysEv)
    (hsa : (Sys.runs s0 evs1).a.started = true) (hsb : (Sys.runs s0 evs1).b.started = true)
    (hsame : (Sys.runs s0 evs1).a.controlling = (Sys.runs s0 evs1).b.controlling)
    (hcred : (Sys.runs s0 evs1).a.controlling = false → NoLoopbackCreds s0 (evs1 ++ evs2) (L s0)) :
    (((Sys.runs (Sys.runs s0 evs1) evs2).agent (W s0)).controlling = (Sys.runs s0 evs1).a.controlling ∧
     ((Sys.runs (Sys.runs s0 evs1) evs2).agent (L s0)).controlling = (Sys.runs s0 evs1).a.controlling) ∨
    (StartedAs ((Sys.runs (Sys.runs s0 evs1) evs2).agent (W s0)) true ∧
     StartedAs ((Sys.runs (Sys.runs s0 evs1) evs2).agent (L s0)) false) := by
  rw [← right_W, ← right_L]
  exact same_role_never_misoriented s0 hinit hne evs1 evs2 hsa hsb hsame hcred

/-! ## Non-vacuity and the witness for the hypothesis -/

namespace SysExample
/-- A holds the larger tie-breaker: `W = false` (A), `L = true` (B) -/
def s0 : Sys := { a := { localUfrag := "ua", localPwd := "pa", tieBreaker := 5 },
                  b := { tag := 1, localUfrag := "ub", localPwd := "pb", tieBreaker := 3 }, hasB := true }
def hostA : Cand := { uid := 0, ty := 1, net := 0, addr := 16, prio := 100 }
def hostB : Cand := { uid := 0, ty := 1, net := 0, addr := 32, prio := 100 }
/-- signalling and both starts in roles `ca` / `cb`; each start sends the first check (16 → 32, then 32 → 16) -/
def setup (ca cb : Bool) : List SysEv :=
  [.api false (.addLocal 0 hostA), .api true (.addLocal 0 hostB),
   .api false (.addRemote 0 hostB), .api true (.addRemote 0 hostA),
   .api false (.start 0 ca "ub" "pb"), .api true (.start 0 cb "ua" "pa")]
/-- what follows the resolving delivery: the remaining deliveries, a tick, more deliveries, a one-sided restart -/
def rest : List SysEv :=
  [.deliver 0, .advance 200000000, .deliver 0, .deliver 0, .dup 0, .deliver 0, .deliver 0,
   .api true (.restart 300000000 "ub2" "pb2"), .advance 400000000, .deliver 0, .deliver 0]
/-- B is told that its peer is itself: its own address as remote candidate, its own credentials as remote credentials -/
def selfSched : List SysEv :=
  [.api true (.addLocal 0 hostB), .api true (.addRemote 0 hostB), .api true (.start 0 false "ub" "pb")]
end SysExample

open SysExample in
/-- both CONTROLLING: hypotheses of `C05_same_role_start_resolves` / `C05_same_role_ends_opposite` hold (the agent that
must switch is B = `L`, datagram 0 is A's check), and the model run indeed ends with A controlling, B controlled —
directly after the delivery and after the rest of the schedule. -/
example : Sys.Init s0 ∧ s0.a.tieBreaker ≠ s0.b.tieBreaker ∧ W s0 = false ∧ L s0 = true
    ∧ NoLoopbackCreds s0 (setup true true ++ delivery 0 false :: rest) (L s0)
    ∧ (Sys.runs s0 (setup true true)).a.started = true ∧ (Sys.runs s0 (setup true true)).b.started = true
    ∧ (Sys.runs s0 (setup true true)).a.controlling = true ∧ (Sys.runs s0 (setup true true)).b.controlling = true
    ∧ mustSwitch s0 true = true ∧ conflictDelivery (Sys.runs s0 (setup true true)) 0 true = true
    ∧ (Sys.run (Sys.runs s0 (setup true true)) (delivery 0 false)).a.controlling = true
    ∧ (Sys.run (Sys.runs s0 (setup true true)) (delivery 0 false)).b.controlling = false
    ∧ (Sys.runs s0 (setup true true ++ delivery 0 false :: rest)).a.controlling = true
    ∧ (Sys.runs s0 (setup true true ++ delivery 0 false :: rest)).b.controlling = false := by
  refine ⟨⟨rfl, rfl, rfl, rfl, rfl, rfl, rfl, rfl, rfl, rfl, rfl, rfl, rfl, rfl, rfl⟩, ?_⟩
  decide

open SysExample in
/-- both CONTROLLED: the agent that must switch is A = `W`; datagram 1 is B's check.  Delivering datagram 0 first (A's
check to B: B keeps and answers 487, nothing resolves yet — `C05_same_role_never_misoriented` applies) and B's check
afterwards also ends with A controlling, B controlled. -/
example : mustSwitch s0 false = false ∧ NoLoopbackCreds s0 (setup false false ++ delivery 1 false :: rest) (L s0)
    ∧ (Sys.runs s0 (setup false false)).a.started = true ∧ (Sys.runs s0 (setup false false)).b.started = true
    ∧ (Sys.runs s0 (setup false false)).a.controlling = false ∧ (Sys.runs s0 (setup false false)).b.controlling = false
    ∧ conflictDelivery (Sys.runs s0 (setup false false)) 1 false = true
    ∧ (Sys.run (Sys.runs s0 (setup false false)) (delivery 1 false)).a.controlling = true
    ∧ (Sys.run (Sys.runs s0 (setup false false)) (delivery 1 false)).b.controlling = false
    ∧ (Sys.runs s0 (setup false false ++ delivery 1 false :: rest)).a.controlling = true
    ∧ (Sys.runs s0 (setup false false ++ delivery 1 false :: rest)).b.controlling = false
    -- the keeper first: still both controlled, a 487 in flight; then the switcher
    ∧ conflictDelivery (Sys.runs s0 (setup false false)) 0 true = true
    ∧ (Sys.runs s0 (setup false false ++ [.deliver 0])).a.controlling = false
    ∧ (Sys.runs s0 (setup false false ++ [.deliver 0])).b.controlling = false
    ∧ conflictDelivery (Sys.runs s0 (setup false false ++ [.deliver 0])) 0 false = true
    ∧ (Sys.runs s0 (setup false false ++ [.deliver 0, .deliver 0])).a.controlling = true
    ∧ (Sys.runs s0 (setup false false ++ [.deliver 0, .deliver 0])).b.controlling = false := by
  decide

open SysExample in
/-- `C05_inflight_roles_name_sender` is about something: after the both-controlling start two checks are in flight, the
first carries ICE-CONTROLLING with A's tie-breaker 5 and is keyed with A's remote password, the second B's 3 / `"pa"`. -/
example : (Sys.runs s0 (setup true true)).inflight.map (fun d => match d.p with
      | .stun m => (m.role, m.key) | .data _ => (none, none))
    = [(some (true, 5), some "pb"), (some (true, 3), some "pa")]
    ∧ remotePwds s0 (setup true true) false = ["", "pb"] ∧ localPwds s0 (setup true true) false = ["pa"] := by
  decide

open SysExample in
/-- the hypotheses of `C05_orientation_stable` / `C05_opposite_is_absorbing` are satisfiable -/
example : StartedAs ((Sys.runs s0 (setup true false)).agent (W s0)) true
    ∧ StartedAs ((Sys.runs s0 (setup true false)).agent (L s0)) false
    ∧ NoLoopbackCreds s0 (setup true false ++ rest) (L s0)
    ∧ StartedAs ((Sys.runs (Sys.runs s0 (setup true false)) rest).agent (L s0)) false := by
  decide

open SysExample in
/-- **The hypothesis `NoLoopbackCreds` cannot be dropped** (the full statement of `C05_orientation_stable` for `L` without
it is false in the model): B (tie-breaker 3 < 5) is started CONTROLLED with its own address as remote candidate and its
own credentials as remote credentials; its first check 32 → 32 is delivered back to it, authenticates, carries
ICE-CONTROLLED with tie-breaker 3; `3 < 3` is false, B switches to controlling. -/
theorem C05_orientation_stable_needs_NoLoopbackCreds_witness :
    ¬ (∀ (s0 : Sys) (evs1 evs2 : List SysEv), Sys.Init s0 → s0.a.tieBreaker ≠ s0.b.tieBreaker →
        StartedAs ((Sys.runs s0 evs1).agent (L s0)) false →
        StartedAs ((Sys.runs (Sys.runs s0 evs1) evs2).agent (L s0)) false) := by
  intro h
  have := h s0 selfSched [.deliver 0] ⟨rfl, rfl, rfl, rfl, rfl, rfl, rfl, rfl, rfl, rfl, rfl, rfl, rfl, rfl, rfl⟩
    (by decide) (by decide)
  revert this
  decide

open SysExample in
/-- … and on that witness the hypothesis is indeed violated, while the delivery is a role conflict in the sense of
`conflictDelivery`; `W`'s half of the theorem needs no hypothesis. -/
example : ¬ NoLoopbackCreds s0 (selfSched ++ [.deliver 0]) (L s0)
    ∧ conflictDelivery (Sys.runs s0 selfSched) 0 true = true := by
  decide

end IceProps.C05
