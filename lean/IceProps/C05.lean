import IceTie.AgentRole
import IceProofs.AgentC05
/-!
# C05 — role conflicts resolve by tie-breaker (single-agent clauses)

Property theorems only.  `C05_decision` is stated about `IceGen.agent_handleRoleConflict`, the definition
REGENERATED from agent.go on every run.  The behaviour theorems are about the executable model
`IceModel.AgentCore` (tied to the code by the differential correspondence of component `agent`).
The two-agent consequence ("two agents started in the same role end in opposite roles") is proved on
`IceModel.Sys2` in another module.
-/
namespace IceProps.C05
open IceModel IceModel.AgentCore IceProofs.Agent IceTie.AgentRole

/-! ## The decision -/

/-- `rfcKeeps` is the text of RFC 8445 §7.3.1.1: keep the role and answer 487 iff
(controlling ∧ own ≥ theirs) ∨ (controlled ∧ own < theirs). -/
theorem C05_rfc_text (controlling : Bool) (own theirs : Nat) :
    rfcKeeps controlling own theirs = true ↔
      (controlling = true ∧ own ≥ theirs) ∨ (controlling = false ∧ own < theirs) := by
  cases controlling <;> simp [rfcKeeps]

/-- For ALL 2^64 × 2^64 tie-breaker pairs and both roles the code's `handleRoleConflict` performs exactly:
one 487 when RFC 8445 §7.3.1.1 says keep; otherwise flip the role, install a fresh selector and send nothing.
And the model's decision function is the same RFC predicate on all naturals. -/
theorem C05_decision (own theirs : UInt64) (controlling : Bool) :
    IceGen.agent_handleRoleConflict false own theirs controlling
        = (if rfcKeeps controlling own.toNat theirs.toNat then [Eff.call "send487" []]
           else [Eff.call "setControlling" [Val.b (!controlling)], Eff.call "setSelector" []])
    ∧ ∀ o t : Nat, roleConflictKeeps controlling o t = rfcKeeps controlling o t :=
  ⟨handleRoleConflict_gen_eq_rfc own theirs controlling, roleConflictKeeps_eq_rfc controlling⟩

/-- code = model on the decision, directly -/
theorem C05_decision_code_eq_model (own theirs : UInt64) (controlling : Bool) :
    IceGen.agent_handleRoleConflict false own theirs controlling
      = if roleConflictKeeps controlling own.toNat theirs.toNat then [Eff.call "send487" []]
        else [Eff.call "setControlling" [Val.b (!controlling)], Eff.call "setSelector" []] :=
  handleRoleConflict_gen_eq_model own theirs controlling

-- boundaries: equal, adjacent, 0, 2^64−1, both roles (evaluated on the regenerated code)
example : IceGen.agent_handleRoleConflict false 7 7 true = [Eff.call "send487" []] := by decide
example : IceGen.agent_handleRoleConflict false 7 7 false
    = [Eff.call "setControlling" [Val.b true], Eff.call "setSelector" []] := by decide
example : IceGen.agent_handleRoleConflict false 7 8 true
    = [Eff.call "setControlling" [Val.b false], Eff.call "setSelector" []] := by decide
example : IceGen.agent_handleRoleConflict false 8 7 true = [Eff.call "send487" []] := by decide
example : IceGen.agent_handleRoleConflict false 7 8 false = [Eff.call "send487" []] := by decide
example : IceGen.agent_handleRoleConflict false 8 7 false
    = [Eff.call "setControlling" [Val.b true], Eff.call "setSelector" []] := by decide
example : IceGen.agent_handleRoleConflict false 0 0 true = [Eff.call "send487" []] := by decide
example : IceGen.agent_handleRoleConflict false 0 18446744073709551615 true
    = [Eff.call "setControlling" [Val.b false], Eff.call "setSelector" []] := by decide
example : IceGen.agent_handleRoleConflict false 18446744073709551615 0 true = [Eff.call "send487" []] := by decide
example : IceGen.agent_handleRoleConflict false 18446744073709551615 18446744073709551615 true
    = [Eff.call "send487" []] := by decide
example : IceGen.agent_handleRoleConflict false 18446744073709551615 18446744073709551615 false
    = [Eff.call "setControlling" [Val.b true], Eff.call "setSelector" []] := by decide
example : IceGen.agent_handleRoleConflict false 0 18446744073709551615 false = [Eff.call "send487" []] := by decide
example : IceGen.agent_handleRoleConflict false 18446744073709551614 18446744073709551615 true
    = [Eff.call "setControlling" [Val.b false], Eff.call "setSelector" []] := by decide
example : rfcKeeps true 5 5 = true ∧ rfcKeeps false 5 5 = false ∧ rfcKeeps true 4 5 = false ∧ rfcKeeps false 4 5 = true := by
  decide

/-! ## A conflicting request is never a connectivity check -/

/-- the 487 Role Conflict error response to request `m`, MESSAGE-INTEGRITY keyed with `pwd` -/
def roleConflictResponse (m : Msg) (pwd : String) : Msg :=
  { cls := 3, tid := m.tid, key := some pwd, errCode := some 487 }

/-- what a lost conflict does to the agent: flip the role, fresh selector (`setSelector()`), nothing else -/
def switched (a1 : Agent) (now : Nat) : Agent :=
  { a1 with controlling := !a1.controlling, selStart := now, nominatedPair := none, lastNomination := none }

/-- For EVERY agent state, local candidate, source and authenticated Binding request that carries the
receiver's own role (`m.role = some (a.controlling, tb)`) from a source that resolves to `r`
(`resolveSource`: the known remote candidate, or a peer-reflexive candidate accepted by the remote filter):
* the state `a1` in which the conflict is detected is `a` itself or `a` plus the discovered peer-reflexive
  candidate and its fresh Waiting pairs (`Discovered`, the one side effect the property does not forbid),
  and discovery produced no output;
* the outputs are exactly one 487 keyed with the local password when RFC 8445 §7.3.1.1 says keep, and
  nothing at all otherwise;
* the resulting state is `a1` with only the local candidate's last-sent time updated (keep), or `a1` with
  the role flipped and the selector reset (switch).
Hence no success response, no request, no pair / selection / connection-state / liveness change. -/
theorem C05_not_a_check (a : Agent) (now : Nat) (l : Cand) (src : Nat) (m : Msg) (tb : Nat)
    (hauth : AuthRequest a m) (hrole : m.role = some (a.controlling, tb))
    {a1 : Agent} {o0 : List Out} {r : Cand} (hres : resolveSource a l src m = (a1, o0, some r)) :
    Discovered a a1 ∧ o0 = [] ∧
    (a.handleInbound now l src m).2
      = (if roleConflictKeeps a.controlling a.tieBreaker tb
         then [Out.dgram l.addr r.addr (roleConflictResponse m a.localPwd)] else []) ∧
    (a.handleInbound now l src m).1
      = (if roleConflictKeeps a.controlling a.tieBreaker tb then a1.seenLocalSent l.uid now else switched a1 now) := by
  have hd := resolveSource_discovered a l src m
  rw [hres] at hd
  have hctl : a1.controlling = a.controlling := congrArg IceProofs.Agent.Core.controlling hd.1.core
  refine ⟨hd.1, hd.2, ?_, ?_⟩
  · rw [handleInbound_conflict a now l src m tb hauth hrole hres]
    split <;> rfl
  · rw [handleInbound_conflict a now l src m tb hauth hrole hres]
    split
    · rfl
    · simp only [switched, hctl]

/-- is this output a Binding success response / a Binding request? -/
def isSuccessResponse : Out → Bool
  | .dgram _ _ m => m.cls == 2
  | _ => false
def isRequest : Out → Bool
  | .dgram _ _ m => m.cls == 0
  | _ => false

/-- The clauses of `C05_not_a_check` spelled out field by field. -/
theorem C05_not_a_check_explicit (a : Agent) (now : Nat) (l : Cand) (src : Nat) (m : Msg) (tb : Nat)
    (hauth : AuthRequest a m) (hrole : m.role = some (a.controlling, tb))
    {a1 : Agent} {o0 : List Out} {r : Cand} (hres : resolveSource a l src m = (a1, o0, some r)) :
    let res := a.handleInbound now l src m
    -- no success response, no request (so no triggered check and no nomination request), at most one message
    (∀ o ∈ res.2, isSuccessResponse o = false ∧ isRequest o = false) ∧ res.2.length ≤ 1 ∧
    -- no pair is touched: state, nominated, nomOnSuccess, deferredNom, all counters (the checklist is that of `a1`,
    -- which extends `a`'s by fresh pairs only); no transaction is recorded
    res.1.checklist = a1.checklist ∧ (∃ extra, res.1.checklist = a.checklist ++ extra ∧ ∀ p ∈ extra, FreshPair p) ∧
    res.1.pending = a.pending ∧
    -- no selection, no connection-state change, no liveness refresh of any remote candidate
    res.1.selected = a.selected ∧ res.1.connState = a.connState ∧ res.1.remotes = a1.remotes ∧
    (∃ new, res.1.remotes = a.remotes ++ new) ∧
    -- kept: role and selector untouched; switched: role flipped, selector state reset
    (roleConflictKeeps a.controlling a.tieBreaker tb = true →
      res.1.controlling = a.controlling ∧ res.1.lastNomination = a.lastNomination ∧
      res.1.nominatedPair = a.nominatedPair ∧ res.1.selStart = a.selStart) ∧
    (roleConflictKeeps a.controlling a.tieBreaker tb = false →
      res.2 = [] ∧ res.1.controlling = (!a.controlling) ∧ res.1.lastNomination = none ∧
      res.1.nominatedPair = none ∧ res.1.selStart = now) := by
  obtain ⟨hd, _, hout, hst⟩ := C05_not_a_check a now l src m tb hauth hrole hres
  have hctl : a1.controlling = a.controlling := congrArg IceProofs.Agent.Core.controlling hd.core
  have hln : a1.lastNomination = a.lastNomination := congrArg IceProofs.Agent.Core.lastNomination hd.core
  have hss : a1.selStart = a.selStart := (congrArg Agent.selStart hd.rest : (stripPairs a1).selStart = (stripPairs a).selStart)
  simp only []
  rw [hout, hst]
  cases hk : roleConflictKeeps a.controlling a.tieBreaker tb
  · simp [switched, hd.selected, hd.connState, hd.pending, hd.pairs, hd.remotes, hctl]
  · simp [Agent.seenLocalSent, isSuccessResponse, isRequest, roleConflictResponse, hd.selected, hd.connState,
      hd.pending, hd.pairs, hd.remotes, hd.nominatedPair, hctl, hln, hss]

/-- A conflicting (indeed any) authenticated request whose source does not resolve — the remote filter
rejects the peer-reflexive candidate — changes nothing and sends nothing. -/
theorem C05_unresolved_source (a : Agent) (now : Nat) (l : Cand) (src : Nat) (m : Msg)
    (hauth : AuthRequest a m) (hres : (resolveSource a l src m).2.2 = none) :
    a.handleInbound now l src m = (a, []) :=
  handleInbound_unresolved a now l src m hauth hres

/-! ## The role changes only through this branch (or `.start`) -/

/-- `conflictSwitchEv` (the decidable event predicate used below) unfolded: the event is an inbound
authenticated Binding request, on an existing local candidate of a started open agent, from a source that
resolves, carrying the agent's own role with a tie-breaker for which RFC 8445 §7.3.1.1 says switch. -/
theorem C05_conflictSwitchEv_iff (a : Agent) (ev : Ev) :
    conflictSwitchEv a ev = true ↔
      ∃ now la src m l tb, ev = .inbound now la src m ∧ a.closed = false ∧ a.started = true ∧
        a.localByAddr la = some l ∧ AuthRequest a m ∧ (resolveSource a l src m).2.2.isSome = true ∧
        m.role = some (a.controlling, tb) ∧ rfcKeeps a.controlling a.tieBreaker tb = false := by
  constructor
  · intro h
    unfold conflictSwitchEv at h
    cases ev with
    | inbound now la src m =>
      simp only [inboundOn] at h
      by_cases h1 : (a.closed || !a.started) = true
      · simp [h1] at h
      · simp only [h1] at h
        cases hl : a.localByAddr la with
        | none => simp [hl] at h
        | some l =>
          simp only [hl, Option.map_some] at h
          obtain ⟨hauth, hres, tb, hrole, hk⟩ := (conflictSwitch_iff a l src m).1 h
          refine ⟨now, la, src, m, l, tb, rfl, ?_, ?_, hl, hauth, hres, hrole, ?_⟩
          · cases hx : a.closed <;> simp_all
          · cases hx : a.started <;> simp_all
          · rw [← roleConflictKeeps_eq_rfc]; exact hk
    | _ => simp [inboundOn] at h
  · rintro ⟨now, la, src, m, l, tb, rfl, hc, hs, hl, hauth, hres, hrole, hk⟩
    rw [← roleConflictKeeps_eq_rfc] at hk
    simp only [conflictSwitchEv, inboundOn, hc, hs, hl, Bool.not_true, Bool.or_false, Bool.false_eq_true, if_false,
      Option.map_some]
    exact (conflictSwitch_iff a l src m).2 ⟨hauth, hres, tb, hrole, hk⟩

/-- For every state and every event: the role differs after the step only if the event is a `.start` that
takes effect or a lost role conflict; a lost role conflict does flip it; the tie-breaker never changes. -/
theorem C05_switch_only_by_conflict (a : Agent) (ev : Ev) :
    ((step a ev).1.controlling ≠ a.controlling → startTakesEffect a ev = true ∨ conflictSwitchEv a ev = true) ∧
    (conflictSwitchEv a ev = true → (step a ev).1.controlling = !a.controlling) ∧
    (step a ev).1.tieBreaker = a.tieBreaker := by
  refine ⟨?_, ?_, (step_constants a ev).1⟩
  · intro h
    rw [step_controlling] at h
    cases ev with
    | start now c ru rp =>
      left
      simp only [] at h
      by_cases hs : startTakesEffect a (.start now c ru rp) = true
      · exact hs
      · simp [hs] at h
    | inbound now la src m =>
      right
      simp only [] at h
      by_cases hs : conflictSwitchEv a (.inbound now la src m) = true
      · exact hs
      · simp [hs] at h
    | _ =>
      right
      simp only [] at h
      first
        | (simp [conflictSwitchEv, inboundOn] at h)
  · intro h
    rw [step_controlling]
    cases ev with
    | start now c ru rp => simp [conflictSwitchEv, inboundOn] at h
    | _ => simp [h]

/-- no event of the list is a `.start` that takes effect or a lost role conflict (decidable, along the run) -/
def quiet (a : Agent) : List Ev → Bool
  | [] => true
  | e :: es => !startTakesEffect a e && !conflictSwitchEv a e && quiet (step a e).1 es

/-- Roles are stable: along ANY event sequence without an effective `.start` and without a lost conflict the
role is the initial one; the tie-breaker is constant along every sequence. -/
theorem C05_roles_stable (a : Agent) (evs : List Ev) :
    (quiet a evs = true → (run a evs).controlling = a.controlling) ∧ (run a evs).tieBreaker = a.tieBreaker := by
  induction evs generalizing a with
  | nil => exact ⟨fun _ => rfl, rfl⟩
  | cons e es ih =>
    obtain ⟨h1, _, h3⟩ := C05_switch_only_by_conflict a e
    refine ⟨?_, ?_⟩
    · intro hq
      simp only [quiet, Bool.and_eq_true, Bool.not_eq_true'] at hq
      obtain ⟨⟨hq1, hq2⟩, hq3⟩ := hq
      have : (step a e).1.controlling = a.controlling := by
        apply Classical.byContradiction
        intro hne
        rcases h1 hne with h | h
        · rw [hq1] at h; exact absurd h (by decide)
        · rw [hq2] at h; exact absurd h (by decide)
      show (run (step a e).1 es).controlling = _
      rw [(ih _).1 hq3, this]
    · show (run (step a e).1 es).tieBreaker = _
      rw [(ih _).2, h3]

/-! ## Non-vacuity: concrete scenarios evaluated by `decide` -/

/-- datagrams of an output list -/
def dgrams (o : List Out) : List (Nat × Nat × Msg) :=
  o.filterMap fun | .dgram f t m => some (f, t, m) | _ => none

def exLocal : Cand := { uid := 0, ty := 1, net := 0, addr := 16, prio := 2130706431 }
def exRemote : Cand := { uid := 0, ty := 1, net := 0, addr := 176, prio := 2130706431 }
/-- a controlled agent (tie-breaker 3) with one local and one remote candidate, started -/
def exAgent : Agent :=
  run { localUfrag := "uA", localPwd := "pA", tieBreaker := 3 }
    [.addLocal 0 exLocal, .addRemote 0 exRemote, .start 0 false "uB" "pB"]
/-- authenticated request carrying ICE-CONTROLLED (the receiver's own role) with tie-breaker `tb` -/
def exConflict (tb : Nat) : Msg :=
  { cls := 0, tid := 77, user := some "uA:uB", key := some "pA", prio := some 100, useCand := true,
    role := some (false, tb), nom := some 5 }
def exL : Cand := (exAgent.localByAddr 16).getD default

-- the hypotheses of `C05_not_a_check` are satisfiable: known source (176) and unknown source (208, prflx discovery)
example : AuthRequest exAgent (exConflict 9) ∧ (exConflict 9).role = some (exAgent.controlling, 9)
    ∧ (resolveSource exAgent exL 176 (exConflict 9)).2.2.isSome = true
    ∧ (resolveSource exAgent exL 208 (exConflict 9)).2.2.isSome = true
    ∧ exAgent.findRemote 0 208 = none := by decide

-- controlled, own 3 < theirs 9: keeps the role, answers exactly one 487 keyed with the local password;
-- although the request carried USE-CANDIDATE and a nomination value, nothing is selected or nominated
example :
    let r := step exAgent (.inbound 5 16 176 (exConflict 9))
    dgrams r.2 = [(16, 176, roleConflictResponse (exConflict 9) "pA")]
    ∧ r.1.controlling = false ∧ r.1.selected = none ∧ r.1.lastNomination = none
    ∧ r.1.checklist = exAgent.checklist ∧ r.1.remotes = exAgent.remotes := by decide

-- controlled, own 3 ≥ theirs 3 (equal) and theirs 2: switches to controlling, sends nothing
example :
    let r := step exAgent (.inbound 5 16 176 (exConflict 3))
    dgrams r.2 = [] ∧ r.1.controlling = true ∧ r.1.selected = none ∧ r.1.checklist = exAgent.checklist
    ∧ conflictSwitchEv exAgent (.inbound 5 16 176 (exConflict 3)) = true := by decide
example : (step exAgent (.inbound 5 16 176 (exConflict 2))).1.controlling = true
    ∧ (step exAgent (.inbound 5 16 176 (exConflict 4))).1.controlling = false := by decide

-- unknown source: the prflx candidate and its pair are added (the allowed side effect), still no check
example :
    let r := exAgent.handleInbound 5 exL 208 (exConflict 9)
    dgrams r.2 = [(16, 208, roleConflictResponse (exConflict 9) "pA")]
    ∧ r.1.remotes.length = 2 ∧ r.1.checklist.length = 2 ∧ r.1.selected = none ∧ r.1.pending = exAgent.pending := by
  decide

-- a source rejected by the remote filter: `C05_unresolved_source` applies
example : (resolveSource { exAgent with cfg := { blockedIPs := [13] } } exL 208 (exConflict 9)).2.2 = none := by decide

-- `quiet` is satisfiable by a non-trivial run, and a conflict makes it false
example : quiet exAgent [.inbound 5 16 176 (exConflict 9), .advance 300000000, .inbound 6 16 176 (exConflict 9)] = true := by
  decide
example : quiet exAgent [.inbound 5 16 176 (exConflict 3)] = false := by decide

end IceProps.C05
