import IceTie.AgentTick
import IceProofs.AgentC06Forms
import IceTie.AgentRemote
import IceTie.Order
/-!
# C06 — candidate and pair bookkeeping stays consistent; Restart leaves no residue

Property theorems only, about the executable model `IceModel.AgentCore` (one ICE agent,
`step : Agent → Ev → Agent × List Out`), for EVERY state reachable from a fresh agent by ANY list of events
(local-candidate arrival, remote trickle incl. duplicates, inbound checks from unknown sources, timers, data,
renomination, Restart, Close …).  The model is tied to the Go code by the differential correspondence of component
`agent`.  TCP candidates (tcp4/tcp6, any tcptype) are in the model: the "never include TCP-active candidates" clause is
part of `C06_remotes_dedup_filtered`.

Two clauses of the property text are NOT invariants (of the model, and — replayed — of the code); they are proved in
the strongest true form and refuted in full form on a concrete history:
* "no (local, remote) pair is listed twice"      → `C06_no_dup_pair_partial`, `C06_dup_pair_witness`
* (not in the property text, asked by the design) "the nominated pair is listed" → `C06_nominated_listed_partial`,
  `C06_nominated_dangling_witness`

Address literals (`Cand.form`, see `IceModel.AgentCore.Cand`).  A remote candidate may be signalled through a
non-canonical literal of its address (`::ffff:10.0.0.3` for `10.0.0.3`).  Every comparison of the code canonicalises
(`findRemoteCandidate`, the cache keys and — since the fix of FORMS-1/2, /repo 2a786b2 — `transportAddressEqual` →
`Equal`, dedup, `findPair`, `removeRedundantPrflxFromSet`), so the clauses hold at full strength whatever literals are
signalled: an inbound check from the address of a listed remote candidate never creates a peer-reflexive duplicate
(`C06_known_source_no_new_remote`), remote candidates are deduplicated as canonical candidates
(`C06_remotes_dedup_canonical`), a new signalled candidate supersedes every peer-reflexive candidate with its
transport address (`C06_prflx_superseded_partial`: network type, canonical address and tcptype — a peer-reflexive
candidate discovered from a TCP source carries no tcptype and is therefore never superseded by a signalled TCP
candidate that has one: `C06_prflx_superseded_witness`, observation TCP-1).  The former counterexamples (notes/C06-forms.md) are kept as regression
examples.
-/
namespace IceProps.C06
open IceModel.AgentCore IceProofs.AgentC06

/-- reachable: produced from a fresh agent (`Init`: empty checklist / candidate lists / caches, nothing selected or
nominated; configuration, credentials, role, counters arbitrary) by a list of events -/
def Reachable (a : Agent) : Prop := ∃ a0 evs, Init a0 ∧ a = run a0 evs

/-- **C06_inv** — the bookkeeping invariant `Inv` (all clauses below) holds in every reachable state. -/
theorem C06_inv (a : Agent) (h : Reachable a) : IceProofs.AgentC06.Inv a := by
  obtain ⟨a0, evs, h0, rfl⟩ := h
  exact (Inv.init h0).run evs

/-- … it holds initially and every single event preserves it (the inductive form). -/
theorem C06_inv_inductive :
    (∀ a, Init a → IceProofs.AgentC06.Inv a) ∧
      (∀ a e, IceProofs.AgentC06.Inv a → IceProofs.AgentC06.Inv (step a e).1) :=
  ⟨fun _ h => Inv.init h, fun _ e h => h.step e⟩

theorem reachable_step {a : Agent} (h : Reachable a) (e : Ev) : Reachable (step a e).1 := by
  obtain ⟨a0, evs, h0, rfl⟩ := h
  exact ⟨a0, evs ++ [e], h0, (run_append a0 evs e).symm⟩

/-! ### (a) pair ids -/

/-- pair ids are pairwise distinct and have all been handed out already (`addPair` uses `nextPairID + 1`). -/
theorem C06_pair_ids_unique (a : Agent) (h : Reachable a) :
    (a.checklist.map (·.id)).Nodup ∧ ∀ p ∈ a.checklist, p.id ≤ a.nextPairID :=
  (C06_inv a h).read_ids

/-- ids are never reused: after any event every listed pair either carries an id that was listed before the event
or an id greater than every id handed out before (`nextPairID` never decreases, Restart and Failed included). -/
theorem C06_ids_never_reused (a : Agent) (h : Reachable a) (e : Ev) :
    a.nextPairID ≤ (step a e).1.nextPairID ∧
    ∀ p' ∈ (step a e).1.checklist, (∃ p ∈ a.checklist, p.id = p'.id) ∨ a.nextPairID < p'.id := by
  have hf := fresh_step (C06_inv a h) e
  refine ⟨hf.np, fun p' hp' => ?_⟩
  rcases hf.fresh (key p') (List.mem_map_of_mem hp') with ⟨k, hk, hk1⟩ | h1
  · obtain ⟨p, hp, rfl⟩ := List.mem_map.1 hk
    exact Or.inl ⟨p, hp, hk1⟩
  · exact Or.inr h1

/-! ### (b) candidate identities -/

/-- candidate identities (the model's stand-in for the Go pointers) are pairwise distinct among locals, among
remotes, never shared between a local and a remote candidate, and all already handed out. -/
theorem C06_candidate_ids_unique (a : Agent) (h : Reachable a) :
    (a.locals.map (·.uid)).Nodup ∧ (a.remotes.map (·.uid)).Nodup ∧
    (∀ l ∈ a.locals, ∀ r ∈ a.remotes, l.uid ≠ r.uid) ∧
    (∀ c ∈ a.locals, c.uid < a.nextUid) ∧ (∀ c ∈ a.remotes, c.uid < a.nextUid) :=
  (C06_inv a h).read_uids

/-! ### (c) pair ends -/

/-- every listed pair is formed from a current local and a current remote candidate of the same network type
(until Close, which empties the candidate lists and leaves the — from then on unobservable — checklist alone). -/
theorem C06_pair_ends_current (a : Agent) (h : Reachable a) (hc : a.closed = false) :
    ∀ p ∈ a.checklist, ∃ l r, a.localOf p.l = some l ∧ a.remoteOf p.r = some r ∧ l.net = r.net :=
  (C06_inv a h).read_ends hc

/-- after Close: no candidates, no caches. -/
theorem C06_closed_empty (a : Agent) (h : Reachable a) (hc : a.closed = true) :
    a.locals = [] ∧ a.remotes = [] ∧ a.caches = [] :=
  (C06_inv a h).read_closed hc

/-! ### (d) no pair listed twice — partial, with counterexample -/

/-- FULL statement (false): in every reachable state no two listed pairs join the same two candidates. -/
def NoDupEverywhere : Prop := ∀ a, Reachable a → NoDupPairs a

def wL : Cand := { uid := 0, ty := 1, net := 0, addr := 16, prio := 2130706431 }
def wP1 : Cand := { uid := 0, ty := 3, net := 0, addr := 32, prio := 100, rel := some 1 }
def wP2 : Cand := { uid := 0, ty := 3, net := 0, addr := 32, prio := 100, rel := some 2 }
def wH : Cand := { uid := 0, ty := 1, net := 0, addr := 32, prio := 2130706431 }
/-- one local host candidate; two SIGNALLED peer-reflexive remote candidates with the same transport address and
different related addresses (not `Equal`, so both are kept, one pair each); a signalled host candidate with that
transport address supersedes both and both pairs are retargeted to it. -/
def dupEvs : List Ev := [.addLocal 0 wL, .addRemote 0 wP1, .addRemote 0 wP2, .addRemote 0 wH]

/-- **C06_dup_pair_witness** — after `dupEvs` the checklist lists the pair (local 1, remote 4) twice, as pair 1
and pair 2.  (The same four operations on the real agent give `P[1:16>32:1…, 2:16>32:1…]`, see notes/C06.md.) -/
theorem C06_dup_pair_witness :
    (run {} dupEvs).checklist.map (fun p => (p.id, p.l, p.r)) = [(1, 1, 4), (2, 1, 4)] := by decide

theorem C06_no_dup_pair_witness : ¬ NoDupEverywhere := by
  intro h
  have h1 : NoDupPairs (run {} dupEvs) := h _ ⟨{}, dupEvs, ⟨rfl, rfl, rfl, rfl, rfl, rfl⟩, rfl⟩
  have h2 : (keysOf (run {} dupEvs)).map (·.2) = [(1, 4), (1, 4)] := by decide
  unfold NoDupPairs at h1
  rw [h2] at h1
  simp at h1

/-- **C06_no_dup_pair_partial** — in every state reached by a history in which no peer-reflexive candidate with a
non-empty related address is *signalled* (`evOK`: no `addRemote` with type prflx and `rel ≠ some 0`; peer-reflexive
candidates DISCOVERED from inbound checks are allowed), no two listed pairs join the same two candidates, equivalently (`…_equal`) no two listed pairs have
`Equal` local ends and `Equal` remote ends. -/
theorem C06_no_dup_pair_partial (a0 : Agent) (evs : List Ev) (h0 : Init a0) (hok : ∀ e ∈ evs, evOK e = true) :
    (run a0 evs).checklist.Pairwise (fun p q => ¬ (p.l = q.l ∧ p.r = q.r)) :=
  (dup_run (Inv.init h0) h0.noDup.1 h0.noDup.2 evs hok).1.read

theorem C06_no_dup_pair_partial_equal (a0 : Agent) (evs : List Ev) (h0 : Init a0)
    (hok : ∀ e ∈ evs, evOK e = true) :
    (run a0 evs).checklist.Pairwise (fun p q => ∀ l1 r1 l2 r2,
      (run a0 evs).localOf p.l = some l1 → (run a0 evs).remoteOf p.r = some r1 →
      (run a0 evs).localOf q.l = some l2 → (run a0 evs).remoteOf q.r = some r2 →
      ¬ (l1.equal l2 = true ∧ r1.equal r2 = true)) :=
  (dup_run (Inv.init h0) h0.noDup.1 h0.noDup.2 evs hok).1.read_equal ((Inv.init h0).run evs)

/-- the local form: a duplicate can only appear in a step taken from a state that holds a peer-reflexive remote
candidate with a non-empty related address, or by an event that signals a peer-reflexive candidate. -/
theorem C06_no_dup_pair_step (a : Agent) (h : Reachable a) (hd : NoDupPairs a) (hp : PrflxRel0 a) (e : Ev)
    (hok : evOK e = true) : NoDupPairs (step a e).1 ∧ PrflxRel0 (step a e).1 :=
  dup_step (C06_inv a h) hd hp e hok

/-! ### (e) selection -/

/-- the selected pair is one of the listed pairs (and is marked nominated). -/
theorem C06_selected_listed (a : Agent) (h : Reachable a) (id : Nat) (hs : a.selected = some id) :
    ∃ p, a.pairById id = some p ∧ p ∈ a.checklist ∧ p.id = id ∧ p.nominated = true :=
  (C06_inv a h).read_selected id hs

/-- FULL statement (false): the controlling selector's nominated pair is always listed. -/
def NominatedListedEverywhere : Prop :=
  ∀ a, Reachable a → ∀ id, a.nominatedPair = some id → ∃ p ∈ a.checklist, p.id = id

def nCfg : Config := { disconnectedTimeout := 1000, failedTimeout := 1000, checkInterval := 1000 }
def nR : Cand := { uid := 0, ty := 1, net := 0, addr := 32, prio := 100 }
/-- a controlling agent nominates pair 1, no answer arrives, the checking deadline passes: Failed wipes the
checklist but not the selector's `nominatedPair`. -/
def nomEvs : List Ev := [.addLocal 0 wL, .addRemote 0 nR, .start 0 true "ru" "rp",
  .inbound 10 16 32 { cls := 2, tid := 2, key := some "rp" }, .advance 3000]

theorem C06_nominated_dangling_witness :
    (run { cfg := nCfg } nomEvs).nominatedPair = some 1 ∧ (run { cfg := nCfg } nomEvs).checklist = [] ∧
      (run { cfg := nCfg } nomEvs).connState = .failed := by decide

theorem C06_nominated_listed_witness : ¬ NominatedListedEverywhere := by
  intro h
  obtain ⟨p, hp, _⟩ := h _ ⟨{ cfg := nCfg }, nomEvs, ⟨rfl, rfl, rfl, rfl, rfl, rfl⟩, rfl⟩ 1 C06_nominated_dangling_witness.1
  rw [C06_nominated_dangling_witness.2.1] at hp
  cases hp

/-- **C06_nominated_listed_partial** — the nominated pair id has been handed out, and it is listed unless the agent
is Failed (until Restart installs a fresh selector), has a selected pair, or is closed — exactly the situations in
which the controlling selector never reads it (the branch marked unreachable in the model is unreachable). -/
theorem C06_nominated_listed_partial (a : Agent) (h : Reachable a) (id : Nat) (hn : a.nominatedPair = some id) :
    id ≤ a.nextPairID ∧
      ((∃ p ∈ a.checklist, p.id = id) ∨ a.connState = .failed ∨ a.selected.isSome ∨ a.closed = true) :=
  (C06_inv a h).read_nominated id hn

/-! ### (f) remote candidates: deduplicated and filtered; (g) caches -/

/-- remote (and local) candidates are pairwise non-`Equal`, no remote candidate — signalled or discovered
peer-reflexive — has an address the remote IP filter rejects, and no remote candidate has tcptype active (`tt = 1`):
the public `AddRemoteCandidate` ignores such a candidate whatever its network type, and a peer-reflexive candidate
discovered from an inbound check (also one arriving on a TCP local candidate) carries no tcptype. -/
theorem C06_remotes_dedup_filtered (a : Agent) (h : Reachable a) :
    a.remotes.Pairwise (fun x y => x.equal y = false) ∧ a.locals.Pairwise (fun x y => x.equal y = false) ∧
      (∀ r ∈ a.remotes, a.cfg.blockedIPs.contains (ipOf r.addr) = false) ∧
      ∀ r ∈ a.remotes, r.tt ≠ 1 := by
  obtain ⟨h1, h2, h3⟩ := (C06_inv a h).read_remotes
  refine ⟨h1, h2, h3, fun r hr => ?_⟩
  obtain ⟨a0, evs, h0, rfl⟩ := h
  simpa using noActive_run (Inv.init h0) h0.noActive evs (core r) (mem_rcsOf hr)

def tL : Cand := { uid := 0, ty := 1, net := 2, addr := tcpBase + 16, prio := 1671430143, tt := 2 }
def tRa : Cand := { uid := 0, ty := 1, net := 2, addr := tcpBase + 32, prio := 1675624447, tt := 1 }
def tRp : Cand := { uid := 0, ty := 1, net := 2, addr := tcpBase + 32, prio := 1671430143, tt := 2 }
def tRs : Cand := { uid := 0, ty := 1, net := 2, addr := tcpBase + 32, prio := 1667235839, tt := 3 }
def uRa : Cand := { uid := 0, ty := 1, net := 0, addr := 32, prio := 2130706431, tt := 1 }
/-- TCP candidates: a signalled tcptype-active candidate is ignored (also on a UDP candidate), a passive one is
stored but NOT paired with the local candidates present, a simultaneous-open one at the same address is another
candidate (tcptype is part of the transport address) and is paired; a local candidate added later pairs with all
remote candidates of its network type, the passive one included. -/
example :
    (run {} [.addLocal 0 tL, .addRemote 0 tRa, .addRemote 0 uRa]).remotes = [] ∧
    (run {} [.addLocal 0 tL, .addRemote 0 tRp]).remotes.map (fun c => (c.uid, c.net, c.addr, c.tt)) = [(2, 2, tcpBase + 32, 2)] ∧
    (run {} [.addLocal 0 tL, .addRemote 0 tRp]).checklist = [] ∧
    (run {} [.addLocal 0 tL, .addRemote 0 tRp, .addRemote 0 tRs, .addRemote 0 tRp]).remotes.map (fun c => (c.uid, c.tt)) = [(2, 2), (3, 3)] ∧
    (run {} [.addLocal 0 tL, .addRemote 0 tRp, .addRemote 0 tRs]).checklist.map (fun p => (p.id, p.l, p.r)) = [(1, 1, 3)] ∧
    (run {} [.addRemote 0 tRp, .addRemote 0 tRs, .addLocal 0 tL]).checklist.map (fun p => (p.id, p.l, p.r)) = [(1, 3, 1), (2, 3, 2)] := by
  decide

/-- validated-source caches only reference current local and remote candidates. -/
theorem C06_caches_current (a : Agent) (h : Reachable a) :
    ∀ x ∈ a.caches, (∃ l ∈ a.locals, l.uid = x.1) ∧ (∃ r ∈ a.remotes, r.uid = x.2.2) :=
  (C06_inv a h).read_caches

/-! ### (h) address literal forms -/

/-- **C06_known_source_no_new_remote** — an inbound STUN message (request, response, indication; authenticated or
not) arriving on the local candidate `l` from the canonical address of a LISTED remote candidate `r` of `l`'s network
type never adds a remote candidate — in particular no duplicate peer-reflexive one — whatever address literal `r`
was signalled with (`r.form` is not constrained): the remote candidates are the same up to liveness timestamps, or
the forced tick of the event took the agent to Failed and wiped them all. -/
theorem C06_known_source_no_new_remote (a : Agent) (h : Reachable a) (now la src : Nat) (m : Msg) (l r : Cand)
    (hl : a.localByAddr la = some l) (hr : r ∈ a.remotes) (hn : r.net = l.net) (ha : r.addr = src) :
    (step a (.inbound now la src m)).1.remotes.map core = a.remotes.map core ∨
      (step a (.inbound now la src m)).1.remotes = [] :=
  step_inbound_known_rcs (C06_inv a h) now la src m l hl r hr hn ha

def wM : Cand := { uid := 0, ty := 1, net := 0, addr := 32, prio := 2130706431, form := 1 }
/-- the remote host candidate is signalled as the IPv4-mapped literal; then an authenticated check arrives from its
address -/
def mappedEvs : List Ev := [.addLocal 0 wL, .addRemote 0 wM, .start 0 false "ru" "rp"]
def mappedCheck : Ev := .inbound 10 16 32 { cls := 0, tid := 77, user := some ":ru", key := some "", prio := some 555, role := some (true, 5) }

example : (run {} mappedEvs).remotes.map (fun c => (c.uid, c.ty, c.addr, c.form)) = [(2, 1, 32, 1)] ∧
    (step (run {} mappedEvs) mappedCheck).1.remotes.map (fun c => (c.uid, c.ty, c.addr, c.form)) = [(2, 1, 32, 1)] ∧
    (step (run {} mappedEvs) mappedCheck).1.checklist.map (fun p => (p.id, p.l, p.r, p.reqRecv)) = [(1, 1, 2, 1)] := by
  decide

/-- **C06_remotes_dedup_canonical** — in every reachable state no two remote candidates are the same candidate up
to the spelling of the address (`canonEqual`: network type, canonical address, type, related address; the literal
form is ignored) — whatever literals the history signalled. -/
theorem C06_remotes_dedup_canonical (a : Agent) (h : Reachable a) :
    a.remotes.Pairwise (fun x y => canonEqual x y = false) :=
  (C06_inv a h).canon

/-- regression (FORMS-1, fixed by /repo 2a786b2): the same host candidate signalled twice, as `10.0.0.3`-style
literal and as its IPv4-mapped literal — the second is a duplicate and is dropped, the listed candidate keeps the
literal it arrived with, one pair.  Both orders.  Replayed on the real agent in corpus/C06/agent.ops. -/
def formDupEvs : List Ev := [.addLocal 0 wL, .addRemote 0 wH, .addRemote 0 wM]
def formDupEvs' : List Ev := [.addLocal 0 wL, .addRemote 0 wM, .addRemote 0 wH, .addRemote 0 wM]

example :
    (run {} formDupEvs).remotes.map (fun c => (c.uid, c.ty, c.net, c.addr, c.form)) = [(2, 1, 0, 32, 0)] ∧
    (run {} formDupEvs).checklist.map (fun p => (p.id, p.l, p.r)) = [(1, 1, 2)] ∧
    (run {} formDupEvs').remotes.map (fun c => (c.uid, c.ty, c.net, c.addr, c.form)) = [(2, 1, 0, 32, 1)] ∧
    (run {} formDupEvs').checklist.map (fun p => (p.id, p.l, p.r)) = [(1, 1, 2)] := by decide

/-- FULL statement (false since TCP candidates are in the model): after a NEW signalled (not peer-reflexive) candidate
`c` was accepted, no peer-reflexive candidate with its network type and canonical address is listed any more. -/
def PrflxSupersededEverywhere : Prop :=
  ∀ a, Reachable a → ∀ now c, a.closed = false → c.ty ≠ 3 →
    a.cfg.blockedIPs.contains (ipOf c.addr) = false →
    (a.remotes.filter (·.net == c.net)).find? (·.equal c) = none →
    ∀ e ∈ (step a (.addRemote now c)).1.remotes, ¬ (e.ty = 3 ∧ e.net = c.net ∧ e.addr = c.addr)

/-- **C06_prflx_superseded_partial** — after a NEW signalled (not peer-reflexive) candidate `c` was accepted, no
peer-reflexive candidate with its TRANSPORT ADDRESS AS THE CODE DEFINES IT (`transportAddressEqual` = `Cand.taEqual`:
network type, canonical address — whatever the literals —, tcptype, and on tcp4/tcp6 the kind of the resolved address:
`*net.UDPAddr` for srflx/relay, `*net.TCPAddr` for host/prflx) is listed any more.  For UDP candidates this is the full
statement (second part: no peer-reflexive candidate without a tcptype is left at the canonical address of a UDP
candidate without one — a discovered peer-reflexive candidate never has one). -/
theorem C06_prflx_superseded_partial (a : Agent) (h : Reachable a) (now : Nat) (c : Cand) (hc : a.closed = false)
    (hty : c.ty ≠ 3) (hb : a.cfg.blockedIPs.contains (ipOf c.addr) = false)
    (hf : (a.remotes.filter (·.net == c.net)).find? (·.equal c) = none) :
    (∀ e ∈ (step a (.addRemote now c)).1.remotes, ¬ (e.ty = 3 ∧ e.taEqual c = true)) ∧
    (isTCP c.net = false →
      ∀ e ∈ (step a (.addRemote now c)).1.remotes, ¬ (e.ty = 3 ∧ e.net = c.net ∧ e.addr = c.addr ∧ e.tt = c.tt)) := by
  have hact : ∀ x ∈ rcsOf a, x.tt ≠ 1 := by
    obtain ⟨a0, evs, h0, rfl⟩ := h
    exact noActive_run (Inv.init h0) h0.noActive evs
  have h1 : ∀ e ∈ (step a (.addRemote now c)).1.remotes, ¬ (e.ty = 3 ∧ e.taEqual c = true) := by
    intro e he
    have := step_addRemote_prflx_gone (C06_inv a h) hact now c hc hb hf hty (core e) (mem_rcsOf he)
    simpa [Cand.taEqual, Cand.udpResolved] using this
  refine ⟨h1, fun hu e he ⟨e1, e2, e3, e4⟩ => h1 e he ⟨e1, ?_⟩⟩
  simp [Cand.taEqual, e2, e3, e4, hu]

/-- the excluded case (observation TCP-1, notes/C06-tcp.md; replayed on the real agent in corpus/C06/agent.ops): a
check arrives on a TCP local candidate from an unknown source — the peer-reflexive candidate built for it is tcp4
WITHOUT a tcptype; the signalled TCP candidate for that address carries one (here passive), so it is a different
transport address for `removeRedundantPrflxFromSet`: the peer-reflexive candidate is never superseded, both stay
listed (and `findRemoteCandidate` keeps resolving the address to the peer-reflexive one).  The same happens with a
signalled srflx / relay TCP candidate WITHOUT tcptype: its resolved address is a `*net.UDPAddr`, the peer-reflexive
candidate's a `*net.TCPAddr`, and `addrEqual` tells them apart. -/
def tcpPrflxEvs : List Ev := [.addLocal 0 tL, .start 0 false "ru" "rp",
  .inbound 10 (tcpBase + 16) (tcpBase + 32) { cls := 0, tid := 77, user := some ":ru", key := some "", role := some (true, 5) }]

theorem C06_prflx_superseded_witness :
    (run {} tcpPrflxEvs).remotes.map (fun c => (c.uid, c.ty, c.net, c.addr, c.tt, c.prio)) = [(2, 3, 2, tcpBase + 32, 0, 1394606079)] ∧
    (step (run {} tcpPrflxEvs) (.addRemote 20 tRp)).1.remotes.map (fun c => (c.uid, c.ty, c.net, c.addr, c.tt))
      = [(2, 3, 2, tcpBase + 32, 0), (3, 1, 2, tcpBase + 32, 2)] ∧
    (step (run {} tcpPrflxEvs) (.addRemote 20 { tRp with ty := 2, tt := 0, rel := some 0 })).1.remotes.map
      (fun c => (c.uid, c.ty, c.net, c.addr, c.tt)) = [(2, 3, 2, tcpBase + 32, 0), (3, 2, 2, tcpBase + 32, 0)] ∧
    (step (run {} tcpPrflxEvs) (.addRemote 20 { tRp with tt := 0 })).1.remotes.map
      (fun c => (c.uid, c.ty, c.net, c.addr, c.tt)) = [(3, 1, 2, tcpBase + 32, 0)] ∧
    ¬ PrflxSupersededEverywhere := by
  refine ⟨by decide, by decide, by decide, by decide, fun h => ?_⟩
  have h1 := h _ ⟨{}, tcpPrflxEvs, ⟨rfl, rfl, rfl, rfl, rfl, rfl⟩, rfl⟩ 20 tRp (by decide) (by decide) (by decide) (by decide)
  revert h1
  decide

/-- regression (FORMS-2, fixed by /repo 2a786b2): a peer-reflexive candidate is discovered at address 32, then the
host candidate with that address is signalled as the IPv4-mapped literal (or canonically): the peer-reflexive
candidate is superseded, pair 1 is retargeted, the new candidate keeps its literal. -/
def formPrflxEvs : List Ev := [.addLocal 0 wL, .start 0 false "ru" "rp", mappedCheck]

example :
    (run {} formPrflxEvs).remotes.map (fun c => (c.uid, c.ty, c.addr, c.form)) = [(2, 3, 32, 0)] ∧
    (step (run {} formPrflxEvs) (.addRemote 20 wM)).1.remotes.map (fun c => (c.uid, c.ty, c.addr, c.form)) = [(3, 1, 32, 1)] ∧
    (step (run {} formPrflxEvs) (.addRemote 20 wM)).1.checklist.map (fun p => (p.id, p.l, p.r)) = [(1, 1, 3)] ∧
    (step (run {} formPrflxEvs) (.addRemote 20 wH)).1.remotes.map (fun c => (c.uid, c.ty, c.addr, c.form)) = [(3, 1, 32, 0)] := by
  decide

/-! ### id stability -/

/-- **C06_ids_stable** — while a pair id stays listed across an event (and the agent is not closed by it), the pair
keeps its local candidate (same identity, type, address, priority …) and its remote candidate keeps network type
and address — also when the remote is a peer-reflexive candidate superseded by a signalled one during the event. -/
theorem C06_ids_stable (a : Agent) (h : Reachable a) (e : Ev) (p p' : Pair) (hp : p ∈ a.checklist)
    (hp' : p' ∈ (step a e).1.checklist) (hid : p'.id = p.id) (hc : (step a e).1.closed = false) :
    p'.l = p.l ∧ ∃ l r l' r', a.localOf p.l = some l ∧ a.remoteOf p.r = some r ∧
      (step a e).1.localOf p'.l = some l' ∧ (step a e).1.remoteOf p'.r = some r' ∧
      core l' = core l ∧ r'.net = r.net ∧ r'.addr = r.addr :=
  (stable_step (C06_inv a h) e).pairs (C06_inv a h) ((C06_inv a h).step e) hp hp' hid hc

/-! ### supersession -/

/-- **C06_supersession_preserves** — `addRemoteCandidate` (whether or not it supersedes peer-reflexive candidates):
selection and nomination keep pointing at the same ids, and every pair that was listed is still listed with the same
id, local candidate, state, nominated / deferred-nomination flags, request count and all counters — only the remote
identity and the frozen-priority field may differ — and with the same priority VALUE `pairPrio`.  A changed remote
is one of the superseded candidates (`arcS`), replaced by the new candidate. -/
theorem C06_supersession_preserves (a : Agent) (h : Reachable a) (c : Cand) (hc : a.closed = false) :
    (a.addRemoteCandidate c).1.selected = a.selected ∧
    (a.addRemoteCandidate c).1.nominatedPair = a.nominatedPair ∧
    ∀ p ∈ a.checklist, ∃ p' ∈ (a.addRemoteCandidate c).1.checklist,
      { p' with r := p.r, prioOverride := p.prioOverride } = p ∧
      (a.addRemoteCandidate c).1.pairPrio p' = a.pairPrio p ∧
      (p'.r = p.r ∨ (p.r ∈ arcS a c ∧ p'.r = a.nextUid)) :=
  supersession (C06_inv a h) c hc

/-! ### wipes -/

/-- **C06_restart_wipes** — after Restart (on an agent that is not closed): no pairs, no candidates, no selection,
no outstanding transactions, no caches (and a fresh selector: nothing nominated). -/
theorem C06_restart_wipes (a : Agent) (now : Nat) (u p : String) (hc : a.closed = false) :
    let a' := (step a (.restart now u p)).1
    a'.checklist = [] ∧ a'.locals = [] ∧ a'.remotes = [] ∧ a'.selected = none ∧ a'.pending = [] ∧ a'.caches = [] :=
  restart_wiped a now u p hc

/-- **C06_failed_wipes** — any event that takes the agent into Failed from a different state leaves no pairs,
candidates, selection, outstanding transactions or caches behind. -/
theorem C06_failed_wipes (a : Agent) (h : Reachable a) (e : Ev) (ha : a.connState ≠ .failed)
    (hf : (step a e).1.connState = .failed) :
    let a' := (step a e).1
    a'.checklist = [] ∧ a'.locals = [] ∧ a'.remotes = [] ∧ a'.selected = none ∧ a'.pending = [] ∧ a'.caches = [] :=
  failed_wiped (C06_inv a h) e ha hf

/-! ## non-vacuity -/

/-- the default agent is a fresh agent -/
theorem initDefault : Init ({} : Agent) := ⟨rfl, rfl, rfl, rfl, rfl, rfl⟩

def xR2 : Cand := { uid := 0, ty := 1, net := 0, addr := 48, prio := 90 }
/-- a controlling agent with one local and two remote candidates checks, nominates and selects pair 1 -/
def selEvs : List Ev := [.addLocal 0 wL, .addRemote 0 nR, .addRemote 0 xR2, .start 0 true "ru" "rp",
  .inbound 10 16 32 { cls := 2, tid := 2, key := some "rp" }, .advance 200000000,
  .inbound 200000010 16 32 { cls := 2, tid := 6, key := some "rp" }]

/-- a reachable state with two pairs, a selected pair, Connected — `Inv` and all clauses above apply to it -/
example : Reachable (run {} selEvs) ∧ (run {} selEvs).checklist.map (fun p => (p.id, p.l, p.r)) = [(1, 1, 2), (2, 1, 3)] ∧
    (run {} selEvs).selected = some 1 ∧ (run {} selEvs).connState = .connected ∧ (run {} selEvs).closed = false :=
  ⟨⟨{}, selEvs, initDefault, rfl⟩, by decide⟩

example : IceProofs.AgentC06.Inv (run {} selEvs) := C06_inv _ ⟨{}, selEvs, initDefault, rfl⟩

def xH : Cand := { uid := 0, ty := 1, net := 0, addr := 64, prio := 2130706431 }
/-- a controlled agent discovers a peer-reflexive candidate from an inbound check (USE-CANDIDATE), validates and
selects the pair; then the signalled host candidate with that address arrives -/
def supEvs : List Ev := [.addLocal 0 wL, .start 0 false "ru" "rp",
  .inbound 10 16 64 { cls := 0, tid := 77, user := some ":ru", key := some "", prio := some 555, useCand := true, role := some (true, 5) },
  .inbound 20 16 64 { cls := 2, tid := 2, key := some "rp" }]

/-- (id, local uid, remote uid, nominated, frozen priority or 0, priority value) -/
def pairRow (a : Agent) (p : Pair) : Nat × Nat × Nat × Bool × Nat × Nat :=
  (p.id, p.l, p.r, p.nominated, p.prioOverride.getD 0, a.pairPrio p)

/-- supersession really happens and keeps id 1, state, nomination, selection and the priority value while the
remote identity changes from 2 (prflx) to 3 (host) — the situation `C06_supersession_preserves` and
`C06_ids_stable` talk about; the history satisfies the hypothesis of `C06_no_dup_pair_partial` -/
example :
    (run {} supEvs).checklist.map (pairRow (run {} supEvs)) = [(1, 1, 2, true, 0, 2387968261587)] ∧
    (run {} supEvs).remotes.map (fun c => (c.uid, c.ty, c.addr)) = [(2, 3, 64)] ∧ (run {} supEvs).selected = some 1 ∧
    (run {} (supEvs ++ [.addRemote 30 xH])).checklist.map (pairRow (run {} (supEvs ++ [.addRemote 30 xH])))
      = [(1, 1, 3, true, 2387968261587, 2387968261587)] ∧
    (run {} (supEvs ++ [.addRemote 30 xH])).remotes.map (fun c => (c.uid, c.ty, c.addr)) = [(3, 1, 64)] ∧
    (run {} (supEvs ++ [.addRemote 30 xH])).selected = some 1 ∧
    (supEvs ++ [Ev.addRemote 30 xH]).all evOK = true := by
  refine ⟨by decide, by decide, by decide, by decide, by decide, by decide, by decide⟩

/-- Failed is reached from Checking by a timer event and wipes (`C06_failed_wipes` is not vacuous) -/
example : (run { cfg := nCfg } (nomEvs.take 4)).connState = .checking ∧
    (run { cfg := nCfg } (nomEvs.take 4)).checklist.length = 1 ∧
    (step (run { cfg := nCfg } (nomEvs.take 4)) (.advance 3000)).1.connState = .failed := by decide

/-- Restart on a connected agent (`C06_restart_wipes` is not vacuous) -/
example : (run {} selEvs).closed = false ∧ (run {} selEvs).checklist.length = 2 ∧
    (step (run {} selEvs) (.restart 5 "u" "p")).1.checklist = [] := by decide

/-! ## Tie to the code (T): `AddRemoteCandidate`, `addRemoteCandidate` (agent.go, effect mode) and
`transportAddressEqual` / `Equal` (candidate_base.go) are REGENERATED on every run -/

open IceModel IceProofs.Agent in
/-- the public `AddRemoteCandidate`, for ALL arguments: nil and tcptype-active candidates are dropped, an mDNS name is
dropped / an error / resolved, anything else is handed to the task loop — and for a signalled candidate `c` of the model
that is the gate of `step (.addRemote now c)`: tcptype active ⇒ state unchanged, nothing emitted; otherwise
`Agent.addRemoteCandidate` runs -/
theorem C06_code_AddRemoteCandidate_gate :
    (∀ (isNil : Bool) (tcpType : Int64) (ty : UInt8) (dotLocal : Bool) (mdnsMode : UInt8) (isHostObject : Bool),
      IceGen.agent_AddRemoteCandidate isNil tcpType ty dotLocal mdnsMode isHostObject
        = if isNil || tcpType == 1 then ([], "nil")
          else if ty == 1 && dotLocal then
            (if mdnsMode == 1 then ([], "nil")
             else if !isHostObject then ([], "ErrAddressParseFailed") else ([IceTie.AgentRemote.eGoResolve], "nil"))
          else ([IceTie.AgentRemote.eGoAdd], "nil")) ∧
    (∀ (c : Cand) (ty mdnsMode : UInt8) (isHostObject : Bool), c.tt < 2 ^ 63 →
      (IceGen.agent_AddRemoteCandidate false (Int64.ofNat c.tt) ty false mdnsMode isHostObject).1
        = if c.tt == 1 then [] else [IceTie.AgentRemote.eGoAdd]) ∧
    (∀ (a : Agent) (now : Nat) (c : Cand), a.closed = false → c.tt = 1 → step a (.addRemote now c) = (a, [])) ∧
    (∀ (a : Agent) (now : Nat) (c : Cand), a.closed = false → c.tt ≠ 1 →
      step a (.addRemote now c) =
        (((a.addRemoteCandidate c).1.runForced now).1,
         (a.addRemoteCandidate c).2.1 ++ ((a.addRemoteCandidate c).1.runForced now).2)) :=
  ⟨IceTie.AgentRemote.AddRemoteCandidate_tie, IceTie.AgentRemote.AddRemoteCandidate_gate,
   addRemote_active_ignored, addRemote_other_handed⟩

/-- the task `addRemoteCandidate`, for ALL arguments: filtered ⇒ false and nothing touched; an `Equal` candidate listed
⇒ true and nothing touched; otherwise supersede peer-reflexive candidates, dial a passive candidate (active TCP on, host
candidate type and network type enabled), append + store, pair with the local candidates of the network type that have no pair yet UNLESS the
candidate is tcptype passive, request a check -/
theorem C06_code_addRemoteCandidate (accepted : Bool) (equalListed : List Bool) (disableActiveTCP : Bool) (tcpType : Int64)
    (hostEnabled netEnabled hasLocals noPair : Bool) :
    IceGen.agent_addRemoteCandidate accepted equalListed disableActiveTCP tcpType hostEnabled netEnabled hasLocals noPair
      = if !accepted then ([], false)
        else if equalListed.any id then ([], true)
        else ([IceTie.AgentRemote.eReplace]
              ++ (if !disableActiveTCP && tcpType == 2 && hostEnabled && netEnabled then [IceTie.AgentRemote.ePassive] else [])
              ++ [IceTie.AgentRemote.eAppend, IceTie.AgentRemote.eStore]
              ++ (if tcpType != 2 && hasLocals then
                    [IceTie.AgentRemote.eFor] ++ (if noPair then [IceTie.AgentRemote.eAddPair] else []) ++ [IceTie.AgentRemote.eEnd]
                  else [])
              ++ [IceTie.AgentRemote.eCheck], true) :=
  IceTie.AgentRemote.addRemoteCandidate_tie accepted equalListed disableActiveTCP tcpType hostEnabled netEnabled hasLocals noPair

/-- … and the model takes the same exits and applies the same pairing rule: blocked IP ⇒ `(a, [], none)`, an `Equal`
listed candidate ⇒ `(a, [], some e)`; the pairing loop runs iff the candidate is not tcptype passive -/
theorem C06_code_addRemoteCandidate_model (a : Agent) (c : Cand) (dis : Bool) (tt : Int64) (he ne hl np : Bool) :
    (a.cfg.blockedIPs.contains (ipOf c.addr) = true →
      IceGen.agent_addRemoteCandidate false ((a.remotes.filter (·.net == c.net)).map (·.equal c)) dis tt he ne hl np = ([], false)
      ∧ a.addRemoteCandidate c = (a, [], none)) ∧
    (∀ e, a.cfg.blockedIPs.contains (ipOf c.addr) = false →
      (a.remotes.filter (·.net == c.net)).find? (·.equal c) = some e →
      IceGen.agent_addRemoteCandidate true ((a.remotes.filter (·.net == c.net)).map (·.equal c)) dis tt he ne hl np = ([], true)
      ∧ a.addRemoteCandidate c = (a, [], some e)) ∧
    (c.tt < 2 ^ 63 → ∀ eq : List Bool, eq.any id = false →
      (IceGen.agent_addRemoteCandidate true eq dis (Int64.ofNat c.tt) he ne true np).1.contains IceTie.AgentRemote.eFor = (c.tt != 2) ∧
      (a.locals.filter fun (x : Cand) => x.net == c.net && c.tt != 2)
        = (if c.tt != 2 then a.locals.filter (fun x => x.net == c.net) else [])) :=
  ⟨(IceTie.AgentRemote.addRemoteCandidate_exits a c dis tt he ne hl np).1,
   (IceTie.AgentRemote.addRemoteCandidate_exits a c dis tt he ne hl np).2,
   fun h eq hq => IceTie.AgentRemote.addRemoteCandidate_pairing a c h eq dis he ne np hq⟩

/-- `candidateBase.transportAddressEqual` and `Equal` (regenerated, `IceGen.T_Cand`), with their parameters instantiated for
two distinct resolved candidates of the model whose address ids are tagged by the network, are `Cand.taEqual` / `Cand.equal` -/
theorem C06_code_taEqual (a b : Cand) (ha : IceTie.AgentRemote.AddrWF a) (hb : IceTie.AgentRemote.AddrWF b)
    (hna : a.net < 2 ^ 62) (hnb : b.net < 2 ^ 62) (hta : a.tt < 2 ^ 63) (htb : b.tt < 2 ^ 63)
    (hya : a.ty < 256) (hyb : b.ty < 256) :
    IceGen.candidateBase_transportAddressEqual true false false
        (IceTie.AgentRemote.tcpAddrKind a == IceTie.AgentRemote.tcpAddrKind b && ipOf a.addr == ipOf b.addr
          && a.addr % 16 == b.addr % 16)
        (Int64.ofNat (a.net + 1)) (Int64.ofNat (b.net + 1)) (ipOf a.addr == ipOf b.addr)
        (Int64.ofNat (a.addr % 16)) (Int64.ofNat (b.addr % 16)) (Int64.ofNat a.tt) (Int64.ofNat b.tt)
      = a.taEqual b ∧
    IceGen.candidateBase_Equal
        (IceGen.candidateBase_transportAddressEqual true false false
          (IceTie.AgentRemote.tcpAddrKind a == IceTie.AgentRemote.tcpAddrKind b && ipOf a.addr == ipOf b.addr
            && a.addr % 16 == b.addr % 16)
          (Int64.ofNat (a.net + 1)) (Int64.ofNat (b.net + 1)) (ipOf a.addr == ipOf b.addr)
          (Int64.ofNat (a.addr % 16)) (Int64.ofNat (b.addr % 16)) (Int64.ofNat a.tt) (Int64.ofNat b.tt))
        (UInt8.ofNat a.ty) (UInt8.ofNat b.ty) (a.rel == b.rel)
      = a.equal b :=
  ⟨IceTie.AgentRemote.taEqual_tie a b ha hb hna hnb hta htb,
   IceTie.AgentRemote.equal_tie a b ha hb hna hnb hta htb hya hyb⟩

/-- non-vacuity: the regenerated functions on concrete arguments; the hypotheses of `C06_code_taEqual` hold for the TCP
example candidates -/
example : IceGen.agent_AddRemoteCandidate false 1 1 false 2 true = ([], "nil") ∧
    IceGen.agent_AddRemoteCandidate false 2 1 false 2 true = ([IceModel.Eff.call "go:addRemoteCandidate" []], "nil") ∧
    IceGen.agent_AddRemoteCandidate false 0 1 true 1 true = ([], "nil") ∧
    IceGen.agent_AddRemoteCandidate false 0 1 true 2 true = ([IceModel.Eff.call "go:resolveAndAddMulticastCandidate" []], "nil") ∧
    IceGen.agent_AddRemoteCandidate false 0 1 true 2 false = ([], "ErrAddressParseFailed") := by decide
example : (IceGen.agent_addRemoteCandidate true [false, false] true 2 true true true true).1
      = [IceModel.Eff.call "replaceRedundantPrflx" [], IceModel.Eff.call "appendRemote" [], IceModel.Eff.call "storeRemotes" [],
         IceModel.Eff.call "requestConnectivityCheck" []] ∧
    (IceGen.agent_addRemoteCandidate true [false] true 0 true true true true).1
      = [IceModel.Eff.call "replaceRedundantPrflx" [], IceModel.Eff.call "appendRemote" [], IceModel.Eff.call "storeRemotes" [],
         IceModel.Eff.call "for:locals" [], IceModel.Eff.call "addPair" [], IceModel.Eff.call "end:locals" [],
         IceModel.Eff.call "requestConnectivityCheck" []] ∧
    IceGen.agent_addRemoteCandidate true [false, true] true 0 true true true true = ([], true) := by decide
example : IceTie.AgentRemote.AddrWF tL ∧ IceTie.AgentRemote.AddrWF tRp ∧ tL.taEqual tRp = false ∧ tRp.taEqual tRp = true := by
  refine ⟨⟨fun _ => by decide, fun h => by simp [tL, isTCP] at h⟩, ⟨fun _ => by decide, fun h => by simp [tRp, isTCP] at h⟩, by decide, by decide⟩

/-- the task of `Agent.Restart` (agent.go, regenerated in effect mode): cancel gathering, release the mux ufrag, set the new
local credentials, clear the remote credentials, gathering state New, empty checklist / pair index / pending transactions, clear the
selection, delete all candidates, a fresh selector — and only then, unless the agent is still New, the state goes to Checking
(Restart leaves no residue); the model's `doRestart` is the same sequence -/
theorem C06_code_restart_task (ufrag pwd : String) (connState : Int64) :
    IceGen.agent_Restart_task ufrag pwd connState
      = [IceTie.Order.c "gatherCandidateCancel", IceTie.Order.c "removeUfragFromMux",
         IceModel.Eff.set "a.localUfrag" (IceModel.Val.s ufrag), IceModel.Eff.set "a.localPwd" (IceModel.Val.s pwd),
         IceModel.Eff.set "a.remoteUfrag" (IceModel.Val.s ""), IceModel.Eff.set "a.remotePwd" (IceModel.Val.s ""),
         IceModel.Eff.set "a.gatheringState" (IceModel.Val.i 1),
         IceModel.Eff.set "a.checklist" (IceModel.Val.s "empty"), IceModel.Eff.set "a.pairsByID" (IceModel.Val.s "empty"),
         IceModel.Eff.set "a.pendingBindingRequests" (IceModel.Val.s "empty"),
         IceTie.Order.c1 "setSelectedPair" (IceModel.Val.s "nil"), IceTie.Order.c "deleteAllCandidates", IceTie.Order.c "setSelector"]
        ++ (if connState == 1 then [] else [IceTie.Order.c1 "updateConnectionState" (IceModel.Val.i 2)]) ∧
    (∀ (a : Agent) (now : Nat), a.doRestart now ufrag pwd =
      let a1 : Agent := { (({ a with localUfrag := ufrag, localPwd := pwd, remoteUfrag := "", remotePwd := "" } : Agent).wipe).resetSelector now
                          with generation := a.generation + 1 }
      if a1.connState != .new then a1.setConnState .checking else (a1, [])) :=
  ⟨IceTie.Order.restartTask_tie ufrag pwd connState, fun a now => IceTie.Order.doRestart_order a now ufrag pwd⟩

example : (IceGen.agent_Restart_task "u" "p" 3).getLast? = some (IceModel.Eff.call "updateConnectionState" [IceModel.Val.i 2]) ∧
    (IceGen.agent_Restart_task "u" "p" 1).getLast? = some (IceModel.Eff.call "setSelector" []) := by decide

/-! ## Tie to the code (T, round 3): pair bookkeeping of agent.go — `addPair`, one iteration of `pingAllCandidates`,
`keepAliveCandidatesForRenomination`, `getBestAvailableCandidatePair` (`IceGen.T_Round3`, regenerated on every run) -/

open IceTie.AgentTick in
/-- `Agent.addPair`: counter first, creation with the agent's current role, id, append to the checklist, index by id; the model's
`addPair` does the same -/
theorem C06_code_addPair :
    (∀ nextPairID, IceGen.agent_addPair nextPairID
      = ([c "nextPairID++", c "p := newCandidatePair(local, remote, isControlling)",
          IceModel.Eff.set "p.id" (IceModel.Val.n nextPairID.toNat),
          IceModel.Eff.set "a.checklist" (IceModel.Val.s "checklist ++ [p]"),
          IceModel.Eff.set "a.pairsByID[p.id]" (IceModel.Val.s "p")], "p")) ∧
    (∀ (a : Agent) (l r : Cand),
      (a.addPair l r).2 = { id := a.nextPairID + 1, l := l.uid, r := r.uid, controlling := a.controlling } ∧
      (a.addPair l r).1.nextPairID = a.nextPairID + 1 ∧
      (a.addPair l r).1.checklist = a.checklist ++ [(a.addPair l r).2]) :=
  ⟨addPair_tie, addPair_model⟩

example : (IceGen.agent_addPair 7).1.length = 5 ∧ (IceGen.agent_addPair 7).2 = "p" := by decide

open IceTie.AgentTick in
/-- one iteration of the checklist loops: `pingAllCandidates` (Waiting → InProgress; not InProgress → skipped; over the limit →
Failed, not pinged; else pinged, then counted), `keepAliveCandidatesForRenomination` (Failed skipped, Waiting → InProgress, every
other pair pinged, no limit), `getBestAvailableCandidatePair` (not Failed, strictly higher priority replaces); the model folds
the same bodies (`pingStep`, `keepAliveStep`) -/
theorem C06_code_checklist_iterations :
    (∀ empty state count maxReq, IceGen.agent_pingAllCandidates_iter empty state count maxReq
      = pingEffs (state == 1) (pingDecision (stOf state) count.toNat maxReq.toNat)) ∧
    (∀ (a : Agent) (now : Nat), a.pingAll now = (a.checklist.map (·.id)).foldl (pingStep now) (a, [])) ∧
    (∀ (now : Nat) (a : Agent) (o : List Out) (id : Nat) (p : Pair), a.pairById id = some p →
      pingDecision p.state p.reqCount a.cfg.maxBindingRequests = .skip → pingStep now (a, o) id = (a, o)) ∧
    (∀ (now : Nat) (a : Agent) (o : List Out) (id : Nat) (p : Pair), a.pairById id = some p →
      pingDecision p.state p.reqCount a.cfg.maxBindingRequests = .fail → (pingStep now (a, o) id).2 = o) ∧
    (∀ empty state, IceGen.agent_keepAliveCandidatesForRenomination_iter empty state
      = if empty then []
        else [c "for:checklist"] ++
          (if state == 3 then []
           else (if state == 1 then [IceModel.Eff.set "pair.state" (IceModel.Val.i 2)] else []) ++ [c "PingCandidate"]) ++ [c "end:checklist"]) ∧
    (∀ (a : Agent) (now : Nat), a.keepAliveAll now = (a.checklist.map (·.id)).foldl (keepAliveStep now) (a, [])) ∧
    (∀ state bestNil bestPrio pPrio, IceGen.agent_getBestAvailableCandidatePair_iter state bestNil bestPrio pPrio
      = bestEffs (!(state == 3) && (bestNil || decide (bestPrio.toNat < pPrio.toNat)))) :=
  ⟨pingAllCandidates_iter_tie, pingAll_fold, pingStep_skip, pingStep_fail, keepAliveCandidatesForRenomination_iter_tie,
   keepAliveAll_fold, getBestAvailableCandidatePair_iter_tie⟩

example : IceGen.agent_pingAllCandidates_iter false 1 8 7
      = IceTie.AgentTick.pingEffs true IceTie.AgentTick.PingDecision.fail ∧
    IceGen.agent_pingAllCandidates_iter false 2 7 7 = IceTie.AgentTick.pingEffs false IceTie.AgentTick.PingDecision.ping ∧
    IceGen.agent_pingAllCandidates_iter false 4 0 7 = IceTie.AgentTick.pingEffs false IceTie.AgentTick.PingDecision.skip ∧
    IceGen.agent_keepAliveCandidatesForRenomination_iter false 4
      = [IceTie.AgentTick.c "for:checklist", IceTie.AgentTick.c "PingCandidate", IceTie.AgentTick.c "end:checklist"] := by decide

end IceProps.C06
