import IceProofs.CandTextParseWF
import IceProofs.AttrCodec
import IceSpec.C16
/-!
# C16 — candidate and attribute wire formats round-trip; equality is lawful

Property theorems only (+ tiny glue: the observation a model candidate presents to the spec monitor).
All candidate theorems hold for EVERY `Env` (the uninterpreted `netip.ParseAddr` classifier and
CRC-32).  The model mirrors the tree with the F1 (`extensionsEqual` on `Extensions()`) and F7
(`raddr` printed whenever the related address is non-empty) repairs.
-/
namespace IceProps.C16
open IceModel.CandText IceModel.AttrCodec IceProofs.CandText IceProofs.AttrCodec
open IceModel.Prio (TcpType)

/-! ## round trip -/

/-- **Round trip.** For every well-formed candidate `c` (`WF`: explicit, decidable), parsing its text
succeeds and yields a candidate with the same foundation, component, transport, priority, address,
port, type, related address, TCP type and extensions, that is Equal and DeepEqual to `c` (both ways). -/
theorem C16_roundtrip (env : Env) (c : Cand) (h : WF env c) :
    ∃ c', parse env (marshal env c) = .ok c' ∧
      foundation env c' = foundation env c ∧ c'.component = c.component ∧ c'.net = c.net ∧
      priority c' = priority c ∧ c'.address = c.address ∧ c'.port = c.port ∧ c'.typ = c.typ ∧
      c'.related = c.related ∧ c'.tcpType = c.tcpType ∧ extensions c' = extensions c ∧
      equal c' c = true ∧ deepEqual c' c = true ∧ equal c c' = true ∧ deepEqual c c' = true := by
  refine ⟨reparsed env c, parse_marshal env c h, reparsed_foundation env c h.1.1, rfl, rfl,
    reparsed_priority c env h.1.2.2.2.1, rfl, rfl, rfl, rfl, rfl, rfl, reparsed_equal env c,
    reparsed_deepEqual env c, ?_, ?_⟩
  · rw [equal_symm]; exact reparsed_equal env c
  · rw [deepEqual_symm]; exact reparsed_deepEqual env c

/-- Candidates made by the public constructors from arguments in range are well-formed, so the round
trip applies to them: component 16 bit, priority 32 bit, port 0..65535, foundation empty (computed)
or 1*32 ice-char / " ", address a token without zone, related address a token with port 0..65535
("none" = empty address with port 0), and the priority is not a computed 0 of a relay whose relay
protocol preference differs from the default. -/
theorem C16_constructed_wf (env : Env) (ty : CType) (network address : Str) (port comp prio : Nat)
    (fnd : Str) (tt : TcpType) (ra : Str) (rp rlp : Nat) (c : Cand)
    (h : mkCand env ty network address port comp prio fnd tt ra rp rlp = .ok c)
    (hf : fnd = [] ∨ foundationOK fnd) (hcomp : comp < 65536) (hprio : prio < 4294967296)
    (hp0 : priority c ≠ 0 ∨ ty ≠ .relay ∨ rlp = defaultRelayLP)
    (ha : 32 ∉ address ∧ 37 ∉ address) (hport : port ≤ 65535)
    (hra : 32 ∉ ra ∧ rp ≤ 65535 ∧ (ra = [] → rp = 0)) : WF env c :=
  mkCand_wf env ty network address port comp prio fnd tt ra rp rlp c h hf hcomp hprio hp0 ha hport hra

/-- Whatever `parse` accepts satisfies every clause of `WF` except representability (`Repr`). -/
theorem C16_parse_wfcore (env : Env) (s : Str) (c : Cand) (h : parse env s = .ok c) : WFcore env c :=
  parse_wfCore env s c h

/-
FULL STATEMENT (false for the code as it is, see the witnesses below and notes/C16.md N3):
  ∀ env s c, parse env s = .ok c → ∃ c', parse env (marshal env c) = .ok c' ∧ equal c c' = true
-/
/-- **Re-marshal (partial).** Whatever `parse` accepts and is representable (`Repr`: an empty related
address has port 0; the first extension printed is not empty and not the word `raddr` unless a related
address is printed) re-marshals to text that parses to an Equal and DeepEqual candidate. -/
theorem C16_parse_idempotent_partial (env : Env) (s : Str) (c : Cand) (h : parse env s = .ok c)
    (hr : Repr c) :
    ∃ c', parse env (marshal env c) = .ok c' ∧ equal c c' = true ∧ equal c' c = true ∧
      deepEqual c c' = true ∧ deepEqual c' c = true := by
  obtain ⟨c', h1, _, _, _, _, _, _, _, _, _, _, e1, d1, e2, d2⟩ :=
    C16_roundtrip env c ⟨parse_wfCore env s c h, hr⟩
  exact ⟨c', h1, e2, e1, d2, d1⟩

/-- an `Env` for the concrete witnesses: every address is IPv4, CRC 0 -/
def envW : Env := { cls := fun _ => .v4, crc := fun _ => 0 }

/-- "a 1 tcp 1 1.2.3.4 5 typ host tcptype   v" -/
def textW1 : Str := [97, 32, 49, 32, 116, 99, 112, 32, 49, 32, 49, 46, 50, 46, 51, 46, 52, 32, 53, 32,
  116, 121, 112, 32, 104, 111, 115, 116, 32, 116, 99, 112, 116, 121, 112, 101, 32, 32, 32, 118]

/-- "a 1 udp 1 1.2.3.4 5 typ srflx raddr  rport 5" -/
def textW2 : Str := [97, 32, 49, 32, 117, 100, 112, 32, 49, 32, 49, 46, 50, 46, 51, 46, 52, 32, 53, 32,
  116, 121, 112, 32, 115, 114, 102, 108, 120, 32, 114, 97, 100, 100, 114, 32, 32, 114, 112, 111, 114, 116, 32, 53]

def isOk {ε α : Type} : Except ε α → Bool
  | .ok _ => true
  | .error _ => false

def reparse (env : Env) (s : Str) : Except ErrKind (Except ErrKind (Cand × Cand)) :=
  match parse env s with
  | .error e => .error e
  | .ok c =>
    match parse env (marshal env c) with
    | .error e => .ok (.error e)
    | .ok c' => .ok (.ok (c, c'))

/-- The full statement fails: an accepted text whose re-marshalled form is REJECTED (an empty
extension name after a `tcptype` with an empty value). -/
theorem C16_parse_idempotent_witness :
    ¬ (∀ (env : Env) (s : Str) (c : Cand), parse env s = .ok c →
        ∃ c', parse env (marshal env c) = .ok c' ∧ equal c c' = true) := by
  intro hall
  have h1 : ∃ c e, parse envW textW1 = .ok c ∧ parse envW (marshal envW c) = .error e := by
    have : (match reparse envW textW1 with
        | .ok (.error _) => true
        | _ => false) = true := by decide
    unfold reparse at this
    split at this
    · rename_i e heq
      split at heq
      · cases heq
      · rename_i c hc
        split at heq
        · rename_i e' he'
          exact ⟨c, e', hc, he'⟩
        · cases heq
    · cases this
  obtain ⟨c, e, hc, he⟩ := h1
  obtain ⟨c', hc', _⟩ := hall envW textW1 c hc
  rw [he] at hc'
  cases hc'

/-- … and one whose re-marshalled form parses to a candidate that is NOT Equal (an empty related
address with a non-zero port is dropped by `Marshal`). -/
theorem C16_parse_idempotent_witness2 :
    ∃ c c', parse envW textW2 = .ok c ∧ parse envW (marshal envW c) = .ok c' ∧ equal c c' = false := by
  have : (match reparse envW textW2 with
      | .ok (.ok (c, c')) => equal c c'
      | _ => true) = false := by decide
  unfold reparse at this
  split at this
  · rename_i c c' heq
    split at heq
    · cases heq
    · rename_i c0 hc0
      split at heq
      · cases heq
      · rename_i c1 hc1
        simp only [Except.ok.injEq, Prod.mk.injEq] at heq
        obtain ⟨rfl, rfl⟩ := heq
        exact ⟨c0, c1, hc0, hc1, this⟩
  · cases this

/-! ## equality laws (all candidates, no hypothesis) -/

theorem C16_equal_refl (c : Cand) : equal c c = true := equal_refl c
theorem C16_equal_symm (a b : Cand) : equal a b = equal b a := equal_symm a b
theorem C16_deep_implies_equal (a b : Cand) (h : deepEqual a b = true) : equal a b = true := deepEqual_equal a b h
theorem C16_deep_refl (c : Cand) : deepEqual c c = true := deepEqual_refl c
theorem C16_deep_symm (a b : Cand) : deepEqual a b = deepEqual b a := deepEqual_symm a b

/-- `extensionsEqual` is "same multiset" (the count loop only runs over the receiver's keys; with equal
lengths that is enough). -/
theorem C16_extensionsEqual_perm (a b : List (Str × Str)) : extensionsEqual a b = true ↔ a.Perm b :=
  extensionsEqual_iff_perm a b

/-! ## the model passes the spec monitors -/

def netCode : NetType → Nat | .udp4 => 1 | .udp6 => 2 | .tcp4 => 3 | .tcp6 => 4
def typCode : CType → Nat | .host => 1 | .srflx => 2 | .prflx => 3 | .relay => 4

/-- the public getters of a model candidate, as the monitor sees them -/
def obsOf (env : Env) (c : Cand) : IceSpec.C16.CandObs where
  foundation := foundation env c
  component := c.component
  net := netCode c.net
  priority := priority c
  address := c.address
  port := c.port
  typ := typCode c.typ
  related := c.related
  tcpType := c.tcpType.code
  exts := extensions c

/-- the round-trip observation the model produces for `c` -/
def rtObsOf (env : Env) (c : Cand) : IceSpec.C16.RtObs :=
  match parse env (marshal env c) with
  | .ok c' => { orig := obsOf env c, parsed := some (obsOf env c'), equal := equal c' c, deep := deepEqual c' c,
                equalRev := equal c c', deepRev := deepEqual c c' }
  | .error _ => { orig := obsOf env c, parsed := none, equal := false, deep := false, equalRev := false, deepRev := false }

/-- Every round-trip observation of a well-formed model candidate passes the round-trip monitor. -/
theorem C16_model_passes_rt_monitor (env : Env) (c : Cand) (h : WF env c) :
    IceSpec.C16.rtViolation (rtObsOf env c) = none := by
  obtain ⟨c', hp, g1, g2, g3, g4, g5, g6, g7, g8, g9, g10, e1, d1, e2, d2⟩ := C16_roundtrip env c h
  unfold rtObsOf
  rw [hp]
  have hobs : obsOf env c' = obsOf env c := by
    simp only [obsOf, g1, g2, g3, g4, g5, g6, g7, g8, g9, g10]
  simp only [IceSpec.C16.rtViolation, hobs, e1, d1, e2, d2]
  split
  · rfl
  · have : IceSpec.C16.sameGetters (obsOf env c) (obsOf env c) = none := by
      simp [IceSpec.C16.sameGetters]
    rw [this]; rfl

def eqObsOf (a b : Cand) : IceSpec.C16.EqObs :=
  { aEa := equal a a, aDa := deepEqual a a, bEb := equal b b, bDb := deepEqual b b,
    aEb := equal a b, bEa := equal b a, aDb := deepEqual a b, bDa := deepEqual b a }

/-- Every pair of model candidates passes the equality-law monitor. -/
theorem C16_model_passes_eq_monitor (a b : Cand) : IceSpec.C16.eqViolation (eqObsOf a b) = none := by
  have h1 := equal_symm a b
  have h2 := deepEqual_symm a b
  simp only [IceSpec.C16.eqViolation, eqObsOf, equal_refl, deepEqual_refl, ← h1, ← h2]
  have := deepEqual_equal a b
  cases hd : deepEqual a b <;> cases he : equal a b <;> simp_all

/-! ## attribute codecs -/

/-- PRIORITY: decode ∘ encode = id on 32-bit values; exactly 4 bytes. -/
theorem C16_attr_roundtrip_priority (v : Nat) (h : v < 4294967296) :
    decPriority (encPriority v) = some v ∧ (encPriority v).length = 4 := by
  rw [decPriority_enc, Nat.mod_eq_of_lt h]; exact ⟨rfl, rfl⟩

theorem C16_attr_size_priority (bs : List UInt8) (h : bs.length ≠ 4) : decPriority bs = none :=
  decPriority_size bs h

/-- … and encode ∘ decode = id on accepted values (the codec is a bijection on 4-byte strings). -/
theorem C16_attr_decode_priority (bs : List UInt8) (v : Nat) (h : decPriority bs = some v) :
    encPriority v = bs ∧ v < 4294967296 := ⟨(decPriority_some h).2.1, (decPriority_some h).2.2⟩

/-- ICE-CONTROLLING / ICE-CONTROLLED: 64-bit tie-breaker, exactly 8 bytes. -/
theorem C16_attr_roundtrip_tiebreaker (v : Nat) (h : v < 18446744073709551616) :
    decTiebreaker (encTiebreaker v) = some v ∧ (encTiebreaker v).length = 8 := by
  rw [decTiebreaker_enc, Nat.mod_eq_of_lt h]; exact ⟨rfl, rfl⟩

theorem C16_attr_size_tiebreaker (bs : List UInt8) (h : bs.length ≠ 8) : decTiebreaker bs = none :=
  decTiebreaker_size bs h

theorem C16_attr_decode_tiebreaker (bs : List UInt8) (v : Nat) (h : decTiebreaker bs = some v) :
    encTiebreaker v = bs ∧ v < 18446744073709551616 := ⟨(decTiebreaker_some h).2.1, (decTiebreaker_some h).2.2⟩

/-- USE-CANDIDATE: empty value; set iff present. -/
theorem C16_attr_roundtrip_useCandidate :
    decUseCandidate (some encUseCandidate) = true ∧ encUseCandidate.length = 0 ∧ decUseCandidate none = false :=
  ⟨rfl, rfl, rfl⟩

/-- nomination: values below 2^24 round-trip in 4 bytes … -/
theorem C16_attr_roundtrip_nomination (v : Nat) (h : v < 16777216) :
    decNomination (encNomination v) = some v ∧ (encNomination v).length = 4 := by
  rw [decNomination_enc, Nat.mod_eq_of_lt h]; exact ⟨rfl, rfl⟩

/-- … larger `uint32` values lose their top byte (why the property says "< 2^24") … -/
theorem C16_attr_nomination_truncates (v : Nat) : decNomination (encNomination v) = some (v % 16777216) :=
  decNomination_enc v

/-- … and a value shorter than 4 bytes is rejected; EXACTLY the values of at least 4 bytes are accepted
(S3: longer ones too — the property text does not decide whether that is a "wrong size"). -/
theorem C16_attr_size_nomination (bs : List UInt8) :
    (bs.length < 4 → decNomination bs = none) ∧ (decNomination bs).isSome = decide (4 ≤ bs.length) :=
  ⟨decNomination_size bs, decNomination_some_iff bs⟩

/-- DTLS-in-STUN: the bytes themselves, any length. -/
theorem C16_attr_roundtrip_dtls (d : List UInt8) : decDtls (encDtls d) = some d := rfl

/-- DTLS-in-STUN ACK: up to four 32-bit numbers round-trip in 4 bytes each; longer lists are refused. -/
theorem C16_attr_roundtrip_ack (l : List Nat) (hl : l.length ≤ 4) (hv : ∀ x ∈ l, x < 4294967296) :
    ∃ bs, encAck l = some bs ∧ decAck bs = some l ∧ bs.length = 4 * l.length := by
  have he : encAck l = some (encWords l) := by
    unfold encAck ackSizeValues; rw [if_neg (by omega)]
  refine ⟨encWords l, he, ?_, encWords_length l⟩
  rw [decAck_enc l _ he]
  congr 1
  clear he hl
  induction l with
  | nil => rfl
  | cons a l ih =>
    simp only [List.map_cons]
    rw [Nat.mod_eq_of_lt (hv a List.mem_cons_self), ih (fun x hx => hv x (List.mem_cons_of_mem a hx))]

theorem C16_attr_size_ack (l : List Nat) (bs : List UInt8) :
    (encAck l).isSome = decide (l.length ≤ 4) ∧
    (decAck bs).isSome = decide (bs.length ≤ 16 ∧ bs.length % 4 = 0) :=
  ⟨encAck_size l, decAck_size bs⟩

/-! ## non-vacuity -/

/-- host / tcp / passive with two extensions -/
def exHost : Cand :=
  { typ := .host, net := .tcp4, address := [49, 48, 46, 48, 46, 48, 46, 49], port := 9, component := 1,
    prioOverride := 0, foundationOverride := [], tcpType := .passive, related := none,
    exts := [([103], [48]), ([117], [])], relayLP := 0 }

/-- srflx / udp with related address 0.0.0.0:0 (named by the property; F7) -/
def exSrflx : Cand :=
  { typ := .srflx, net := .udp4, address := [49, 46, 50, 46, 51, 46, 52], port := 65535, component := 65535,
    prioOverride := 4294967295, foundationOverride := [32], tcpType := .unspecified,
    related := some ([48, 46, 48, 46, 48, 46, 48], 0), exts := [], relayLP := 0 }

example : WF envW exHost := by decide
example : WF envW exSrflx := by decide
example : isOk (parse envW (marshal envW exHost)) = true := by decide
example : ∃ c, parse envW textW1 = .ok c := by
  have : isOk (parse envW textW1) = true := by decide
  cases h : parse envW textW1 with
  | ok c => exact ⟨c, rfl⟩
  | error e => rw [h] at this; cases this
example : Repr exHost ∧ ¬ Repr { exHost with tcpType := .unspecified, exts := [(sRaddr, [120])] } := by decide
example : deepEqual exHost exHost = true ∧ equal exHost exSrflx = false := by decide
example : extensionsEqual [([1], [2]), ([3], [])] [([3], []), ([1], [2])] = true := by decide
example : decNomination [0, 0, 0, 1, 9] = some 1 := by decide  -- S3: a 5-byte value is accepted
example : decPriority (encPriority 4294967295) = some 4294967295 := by decide
example : encAck [1, 2, 3, 4, 5] = none := by decide

end IceProps.C16
