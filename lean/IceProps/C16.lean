import IceProofs.CandTextParseWF
import IceProofs.AttrCodec
import IceSpec.C16
import IceTie.CandEqual
import IceTie.Addr
/-!
# C16 — candidate and attribute wire formats round-trip; equality is lawful

Property theorems only (+ tiny glue: the observation a model candidate presents to the spec monitor).
All candidate theorems hold for EVERY `Env` (the uninterpreted `netip.ParseAddr` classifier `cls`, the
canonical-address key `canon` = `canonicalAddr ∘ netip.ParseAddr`, and CRC-32) — in particular every
equality law (reflexive, symmetric, TRANSITIVE) needs no hypothesis at all.  One theorem,
`C16_equal_iff` (with its corollary `C16_equal_literal_forms`), assumes the explicit law `EnvLaw env`
("the address class is the class of the canonical address"); the driver checks that law on the values
the real functions return (`cand canon` lines).  The model mirrors the tree with the F1
(`extensionsEqual` on `Extensions()`), F7 (`raddr` printed whenever the related address is non-empty)
and 2a786b2 (`sameAddressLiteral`: different literals of one IP are Equal) repairs.
-/
namespace IceProps.C16
open IceModel.CandText IceModel.AttrCodec IceProofs.CandText IceProofs.AttrCodec
open IceModel.Prio (TcpType)

/-! ## round trip -/

/-- **Round trip.** For every well-formed candidate `c` (`WF`: explicit, decidable), parsing its text
succeeds and yields a candidate with the same foundation, component, transport, priority, address,
port, type, related address, TCP type and extensions, that is Equal and DeepEqual to `c` (both ways). -/
theorem C16_roundtrip (env : Env) (c : Cand) (h : WF env c) :
    ∃ c', parse env (marshal env c) = .ok c' ∧
      foundation env c' = foundation env c ∧ c'.component = c.component ∧ c'.net = c.net ∧
      priority c' = priority c ∧ c'.address = c.address ∧ c'.port = c.port ∧ c'.typ = c.typ ∧
      c'.related = c.related ∧ c'.tcpType = c.tcpType ∧ extensions c' = extensions c ∧
      equal env c' c = true ∧ deepEqual env c' c = true ∧ equal env c c' = true ∧ deepEqual env c c' = true := by
  refine ⟨reparsed env c, parse_marshal env c h, reparsed_foundation env c h.1.1, rfl, rfl,
    reparsed_priority c env h.1.2.2.2.1, rfl, rfl, rfl, rfl, rfl, rfl, reparsed_equal env c,
    reparsed_deepEqual env c, ?_, ?_⟩
  · rw [equal_symm]; exact reparsed_equal env c
  · rw [deepEqual_symm]; exact reparsed_deepEqual env c

/-- Candidates made by the public constructors from arguments in range are well-formed, so the round
trip applies to them: component 16 bit, priority 32 bit, port 0..65535, foundation empty (computed)
or 1*32 ice-char / " ", address a token without zone, related address a token with port 0..65535
("none" = empty address with port 0), and the priority is not a computed 0 of a relay whose relay
protocol preference differs from the default. -/
theorem C16_constructed_wf (env : Env) (ty : CType) (network address : Str) (port comp prio : Nat)
    (fnd : Str) (tt : TcpType) (ra : Str) (rp rlp : Nat) (c : Cand)
    (h : mkCand env ty network address port comp prio fnd tt ra rp rlp = .ok c)
    (hf : fnd = [] ∨ foundationOK fnd) (hcomp : comp < 65536) (hprio : prio < 4294967296)
    (hp0 : priority c ≠ 0 ∨ ty ≠ .relay ∨ rlp = defaultRelayLP)
    (ha : 32 ∉ address ∧ 37 ∉ address) (hport : port ≤ 65535)
    (hra : 32 ∉ ra ∧ rp ≤ 65535 ∧ (ra = [] → rp = 0)) : WF env c :=
  mkCand_wf env ty network address port comp prio fnd tt ra rp rlp c h hf hcomp hprio hp0 ha hport hra

/-- Whatever `parse` accepts satisfies every clause of `WF` except representability (`Repr`). -/
theorem C16_parse_wfcore (env : Env) (s : Str) (c : Cand) (h : parse env s = .ok c) : WFcore env c :=
  parse_wfCore env s c h

/-
FULL STATEMENT (false for the code as it is, see the witnesses below and notes/C16.md N3):
  ∀ env s c, parse env s = .ok c → ∃ c', parse env (marshal env c) = .ok c' ∧ equal env c c' = true
-/
/-- **Re-marshal (partial).** Whatever `parse` accepts and is representable (`Repr`: an empty related
address has port 0; the first extension printed is not empty and not the word `raddr` unless a related
address is printed) re-marshals to text that parses to an Equal and DeepEqual candidate. -/
theorem C16_parse_idempotent_partial (env : Env) (s : Str) (c : Cand) (h : parse env s = .ok c)
    (hr : Repr c) :
    ∃ c', parse env (marshal env c) = .ok c' ∧ equal env c c' = true ∧ equal env c' c = true ∧
      deepEqual env c c' = true ∧ deepEqual env c' c = true := by
  obtain ⟨c', h1, _, _, _, _, _, _, _, _, _, _, e1, d1, e2, d2⟩ :=
    C16_roundtrip env c ⟨parse_wfCore env s c h, hr⟩
  exact ⟨c', h1, e2, e1, d2, d1⟩

/-- an `Env` for the concrete witnesses: every string is an IPv4 literal of ONE address (canonical key
`[0,0,0,0]`), CRC 0 -/
def envW : Env := { cls := fun _ => .v4, canon := fun _ => some [0, 0, 0, 0], crc := fun _ => 0 }

/-- "a 1 tcp 1 1.2.3.4 5 typ host tcptype   v" -/
def textW1 : Str := [97, 32, 49, 32, 116, 99, 112, 32, 49, 32, 49, 46, 50, 46, 51, 46, 52, 32, 53, 32,
  116, 121, 112, 32, 104, 111, 115, 116, 32, 116, 99, 112, 116, 121, 112, 101, 32, 32, 32, 118]

/-- "a 1 udp 1 1.2.3.4 5 typ srflx raddr  rport 5" -/
def textW2 : Str := [97, 32, 49, 32, 117, 100, 112, 32, 49, 32, 49, 46, 50, 46, 51, 46, 52, 32, 53, 32,
  116, 121, 112, 32, 115, 114, 102, 108, 120, 32, 114, 97, 100, 100, 114, 32, 32, 114, 112, 111, 114, 116, 32, 53]

def isOk {ε α : Type} : Except ε α → Bool
  | .ok _ => true
  | .error _ => false

def reparse (env : Env) (s : Str) : Except ErrKind (Except ErrKind (Cand × Cand)) :=
  match parse env s with
  | .error e => .error e
  | .ok c =>
    match parse env (marshal env c) with
    | .error e => .ok (.error e)
    | .ok c' => .ok (.ok (c, c'))

/-- The full statement fails: an accepted text whose re-marshalled form is REJECTED (an empty
extension name after a `tcptype` with an empty value). -/
theorem C16_parse_idempotent_witness :
    ¬ (∀ (env : Env) (s : Str) (c : Cand), parse env s = .ok c →
        ∃ c', parse env (marshal env c) = .ok c' ∧ equal env c c' = true) := by
  intro hall
  have h1 : ∃ c e, parse envW textW1 = .ok c ∧ parse envW (marshal envW c) = .error e := by
    have : (match reparse envW textW1 with
        | .ok (.error _) => true
        | _ => false) = true := by decide
    unfold reparse at this
    split at this
    · rename_i e heq
      split at heq
      · cases heq
      · rename_i c hc
        split at heq
        · rename_i e' he'
          exact ⟨c, e', hc, he'⟩
        · cases heq
    · cases this
  obtain ⟨c, e, hc, he⟩ := h1
  obtain ⟨c', hc', _⟩ := hall envW textW1 c hc
  rw [he] at hc'
  cases hc'

/-- … and one whose re-marshalled form parses to a candidate that is NOT Equal (an empty related
address with a non-zero port is dropped by `Marshal`). -/
theorem C16_parse_idempotent_witness2 :
    ∃ c c', parse envW textW2 = .ok c ∧ parse envW (marshal envW c) = .ok c' ∧ equal envW c c' = false := by
  have : (match reparse envW textW2 with
      | .ok (.ok (c, c')) => equal envW c c'
      | _ => true) = false := by decide
  unfold reparse at this
  split at this
  · rename_i c c' heq
    split at heq
    · cases heq
    · rename_i c0 hc0
      split at heq
      · cases heq
      · rename_i c1 hc1
        simp only [Except.ok.injEq, Prod.mk.injEq] at heq
        obtain ⟨rfl, rfl⟩ := heq
        exact ⟨c0, c1, hc0, hc1, this⟩
  · cases this

/-! ## equality laws (all candidates, every `Env`, no hypothesis) -/

theorem C16_equal_refl (env : Env) (c : Cand) : equal env c c = true := equal_refl env c
theorem C16_equal_symm (env : Env) (a b : Cand) : equal env a b = equal env b a := equal_symm env a b
theorem C16_equal_trans (env : Env) (a b c : Cand) (h1 : equal env a b = true) (h2 : equal env b c = true) :
    equal env a c = true := equal_trans env a b c h1 h2
theorem C16_deep_implies_equal (env : Env) (a b : Cand) (h : deepEqual env a b = true) : equal env a b = true :=
  deepEqual_equal env a b h
theorem C16_deep_refl (env : Env) (c : Cand) : deepEqual env c c = true := deepEqual_refl env c
theorem C16_deep_symm (env : Env) (a b : Cand) : deepEqual env a b = deepEqual env b a := deepEqual_symm env a b
theorem C16_deep_trans (env : Env) (a b c : Cand) (h1 : deepEqual env a b = true) (h2 : deepEqual env b c = true) :
    deepEqual env a c = true := deepEqual_trans env a b c h1 h2

/-- `sameAddressLiteral` ("the strings are identical, OR both parse and their canonical addresses are
equal") is an equivalence relation although it is written asymmetrically: a string that does not
parse (an mDNS name, garbage) is related to itself only. -/
theorem C16_sameAddressLiteral_equivalence (env : Env) :
    (∀ a, sameAddressLiteral env a a = true) ∧
    (∀ a b, sameAddressLiteral env a b = sameAddressLiteral env b a) ∧
    (∀ a b c, sameAddressLiteral env a b = true → sameAddressLiteral env b c = true →
      sameAddressLiteral env a c = true) :=
  ⟨sameAddressLiteral_refl env, sameAddressLiteral_symm env, sameAddressLiteral_trans env⟩

/-- **What `Equal` is**, under `EnvLaw`: same type, network type, port, TCP type and related address;
addresses that are one string or two literals of one canonical IP; and, for host candidates, both or
neither an unresolved mDNS name.  (The `addrEqual` test on the resolved addresses decides nothing
beyond the last clause.) -/
theorem C16_equal_iff (env : Env) (hl : EnvLaw env) (c o : Cand) :
    equal env c o = true ↔ c.typ = o.typ ∧ c.net = o.net ∧ c.port = o.port ∧ c.tcpType = o.tcpType ∧
      c.related = o.related ∧ sameAddressLiteral env c.address o.address = true ∧
      (c.typ = .host → isMDNS c.address = isMDNS o.address) :=
  equal_iff env hl c o

/-- **The purpose of 2a786b2**: the same constructor arguments with two literals `a₁`, `a₂` of one
canonical IP (neither an mDNS name) give `Equal` — and `DeepEqual` — candidates, under `EnvLaw`. -/
theorem C16_equal_literal_forms (env : Env) (hl : EnvLaw env) (ty : CType) (network a₁ a₂ : Str)
    (port comp prio : Nat) (fnd : Str) (tt : TcpType) (ra : Str) (rp rlp : Nat) (c₁ c₂ : Cand) (k : Str)
    (h1 : mkCand env ty network a₁ port comp prio fnd tt ra rp rlp = .ok c₁)
    (h2 : mkCand env ty network a₂ port comp prio fnd tt ra rp rlp = .ok c₂)
    (hk1 : env.canon a₁ = some k) (hk2 : env.canon a₂ = some k)
    (hm1 : isMDNS a₁ = false) (hm2 : isMDNS a₂ = false) :
    equal env c₁ c₂ = true ∧ deepEqual env c₁ c₂ = true :=
  mkCand_literal_forms env hl ty network a₁ a₂ port comp prio fnd tt ra rp rlp c₁ c₂ k h1 h2 hk1 hk2 hm1 hm2

/-- `extensionsEqual` is "same multiset" (the count loop only runs over the receiver's keys; with equal
lengths that is enough). -/
theorem C16_extensionsEqual_perm (a b : List (Str × Str)) : extensionsEqual a b = true ↔ a.Perm b :=
  extensionsEqual_iff_perm a b

/-! ## the model passes the spec monitors -/

def netCode : NetType → Nat | .udp4 => 1 | .udp6 => 2 | .tcp4 => 3 | .tcp6 => 4
def typCode : CType → Nat | .host => 1 | .srflx => 2 | .prflx => 3 | .relay => 4

/-- the public getters of a model candidate, as the monitor sees them -/
def obsOf (env : Env) (c : Cand) : IceSpec.C16.CandObs where
  foundation := foundation env c
  component := c.component
  net := netCode c.net
  priority := priority c
  address := c.address
  port := c.port
  typ := typCode c.typ
  related := c.related
  tcpType := c.tcpType.code
  exts := extensions c

/-- the round-trip observation the model produces for `c` -/
def rtObsOf (env : Env) (c : Cand) : IceSpec.C16.RtObs :=
  match parse env (marshal env c) with
  | .ok c' => { orig := obsOf env c, parsed := some (obsOf env c'), equal := equal env c' c, deep := deepEqual env c' c,
                equalRev := equal env c c', deepRev := deepEqual env c c' }
  | .error _ => { orig := obsOf env c, parsed := none, equal := false, deep := false, equalRev := false, deepRev := false }

/-- Every round-trip observation of a well-formed model candidate passes the round-trip monitor. -/
theorem C16_model_passes_rt_monitor (env : Env) (c : Cand) (h : WF env c) :
    IceSpec.C16.rtViolation (rtObsOf env c) = none := by
  obtain ⟨c', hp, g1, g2, g3, g4, g5, g6, g7, g8, g9, g10, e1, d1, e2, d2⟩ := C16_roundtrip env c h
  unfold rtObsOf
  rw [hp]
  have hobs : obsOf env c' = obsOf env c := by
    simp only [obsOf, g1, g2, g3, g4, g5, g6, g7, g8, g9, g10]
  simp only [IceSpec.C16.rtViolation, hobs, e1, d1, e2, d2]
  split
  · rfl
  · have : IceSpec.C16.sameGetters (obsOf env c) (obsOf env c) = none := by
      simp [IceSpec.C16.sameGetters]
    rw [this]; rfl

def eqObsOf (env : Env) (a b : Cand) : IceSpec.C16.EqObs :=
  { aEa := equal env a a, aDa := deepEqual env a a, bEb := equal env b b, bDb := deepEqual env b b,
    aEb := equal env a b, bEa := equal env b a, aDb := deepEqual env a b, bDa := deepEqual env b a }

/-- Every pair of model candidates passes the equality-law monitor. -/
theorem C16_model_passes_eq_monitor (env : Env) (a b : Cand) :
    IceSpec.C16.eqViolation (eqObsOf env a b) = none := by
  have h1 := equal_symm env a b
  have h2 := deepEqual_symm env a b
  simp only [IceSpec.C16.eqViolation, eqObsOf, equal_refl, deepEqual_refl, ← h1, ← h2]
  have := deepEqual_equal env a b
  cases hd : deepEqual env a b <;> cases he : equal env a b <;> simp_all

def eq3ObsOf (env : Env) (a b c : Cand) : IceSpec.C16.Eq3Obs :=
  { eab := equal env a b, ebc := equal env b c, eac := equal env a c,
    eba := equal env b a, ecb := equal env c b, eca := equal env c a,
    dab := deepEqual env a b, dbc := deepEqual env b c, dac := deepEqual env a c,
    dba := deepEqual env b a, dcb := deepEqual env c b, dca := deepEqual env c a }

/-- a symmetric, transitive Boolean relation on three points has no broken chain -/
theorem chainBroken_false (ab bc ac : Bool) (t1 : ab = true → bc = true → ac = true)
    (t2 : ab = true → ac = true → bc = true) (t3 : ac = true → bc = true → ab = true) :
    IceSpec.C16.chainBroken ab bc ac ab bc ac = false := by
  unfold IceSpec.C16.chainBroken
  cases ab <;> cases bc <;> cases ac <;> simp_all

/-- Every triple of model candidates passes the transitivity monitor. -/
theorem C16_model_passes_eq3_monitor (env : Env) (a b c : Cand) :
    IceSpec.C16.eq3Violation (eq3ObsOf env a b c) = none := by
  have e1 := equal_symm env b a
  have e2 := equal_symm env c b
  have e3 := equal_symm env c a
  have d1 := deepEqual_symm env b a
  have d2 := deepEqual_symm env c b
  have d3 := deepEqual_symm env c a
  have ce := chainBroken_false (equal env a b) (equal env b c) (equal env a c)
    (equal_trans env a b c)
    (fun h1 h2 => equal_trans env b a c (by rw [e1]; exact h1) h2)
    (fun h1 h2 => equal_trans env a c b h1 (by rw [e2]; exact h2))
  have cd := chainBroken_false (deepEqual env a b) (deepEqual env b c) (deepEqual env a c)
    (deepEqual_trans env a b c)
    (fun h1 h2 => deepEqual_trans env b a c (by rw [d1]; exact h1) h2)
    (fun h1 h2 => deepEqual_trans env a c b h1 (by rw [d2]; exact h2))
  have i1 := deepEqual_equal env a b
  have i2 := deepEqual_equal env b c
  have i3 := deepEqual_equal env a c
  simp only [IceSpec.C16.eq3Violation, eq3ObsOf, e1, e2, e3, d1, d2, d3, ce, cd, bne_self_eq_false,
    Bool.or_self, Bool.false_eq_true, if_false]
  cases hd1 : deepEqual env a b <;> cases hd2 : deepEqual env b c <;> cases hd3 : deepEqual env a c <;>
    cases he1 : equal env a b <;> cases he2 : equal env b c <;> cases he3 : equal env a c <;> simp_all

/-- the assumption monitor accepts exactly the `Env`s that satisfy `EnvLaw` (with the driver's key
convention "4 bytes = IPv4" and the model's identification of the resolved IP with the canonical one) -/
def addrObsOf (env : Env) (a : Str) : IceSpec.C16.AddrObs :=
  { cls := match env.cls a with | .invalid => 0 | .v4 => 4 | .v6 => 6,
    canon := env.canon a, viaResolved := [env.canon a, env.canon a] }

theorem C16_envLaw_iff_monitor (env : Env) :
    EnvLaw env ↔ ∀ a, IceSpec.C16.envLawViolation (addrObsOf env a) = none := by
  unfold EnvLaw
  refine forall_congr' fun a => ?_
  unfold IceSpec.C16.envLawViolation addrObsOf clsOfCanon
  cases hc : env.cls a <;> cases hk : env.canon a <;> simp <;> split <;> simp_all

/-! ## attribute codecs -/

/-- PRIORITY: decode ∘ encode = id on 32-bit values; exactly 4 bytes. -/
theorem C16_attr_roundtrip_priority (v : Nat) (h : v < 4294967296) :
    decPriority (encPriority v) = some v ∧ (encPriority v).length = 4 := by
  rw [decPriority_enc, Nat.mod_eq_of_lt h]; exact ⟨rfl, rfl⟩

theorem C16_attr_size_priority (bs : List UInt8) (h : bs.length ≠ 4) : decPriority bs = none :=
  decPriority_size bs h

/-- … and encode ∘ decode = id on accepted values (the codec is a bijection on 4-byte strings). -/
theorem C16_attr_decode_priority (bs : List UInt8) (v : Nat) (h : decPriority bs = some v) :
    encPriority v = bs ∧ v < 4294967296 := ⟨(decPriority_some h).2.1, (decPriority_some h).2.2⟩

/-- ICE-CONTROLLING / ICE-CONTROLLED: 64-bit tie-breaker, exactly 8 bytes. -/
theorem C16_attr_roundtrip_tiebreaker (v : Nat) (h : v < 18446744073709551616) :
    decTiebreaker (encTiebreaker v) = some v ∧ (encTiebreaker v).length = 8 := by
  rw [decTiebreaker_enc, Nat.mod_eq_of_lt h]; exact ⟨rfl, rfl⟩

theorem C16_attr_size_tiebreaker (bs : List UInt8) (h : bs.length ≠ 8) : decTiebreaker bs = none :=
  decTiebreaker_size bs h

theorem C16_attr_decode_tiebreaker (bs : List UInt8) (v : Nat) (h : decTiebreaker bs = some v) :
    encTiebreaker v = bs ∧ v < 18446744073709551616 := ⟨(decTiebreaker_some h).2.1, (decTiebreaker_some h).2.2⟩

/-- USE-CANDIDATE: empty value; set iff present. -/
theorem C16_attr_roundtrip_useCandidate :
    decUseCandidate (some encUseCandidate) = true ∧ encUseCandidate.length = 0 ∧ decUseCandidate none = false :=
  ⟨rfl, rfl, rfl⟩

/-- nomination: values below 2^24 round-trip in 4 bytes … -/
theorem C16_attr_roundtrip_nomination (v : Nat) (h : v < 16777216) :
    decNomination (encNomination v) = some v ∧ (encNomination v).length = 4 := by
  rw [decNomination_enc, Nat.mod_eq_of_lt h]; exact ⟨rfl, rfl⟩

/-- … larger `uint32` values lose their top byte (why the property says "< 2^24") … -/
theorem C16_attr_nomination_truncates (v : Nat) : decNomination (encNomination v) = some (v % 16777216) :=
  decNomination_enc v

/-- … and a value shorter than 4 bytes is rejected; EXACTLY the values of at least 4 bytes are accepted
(S3: longer ones too — the property text does not decide whether that is a "wrong size"). -/
theorem C16_attr_size_nomination (bs : List UInt8) :
    (bs.length < 4 → decNomination bs = none) ∧ (decNomination bs).isSome = decide (4 ≤ bs.length) :=
  ⟨decNomination_size bs, decNomination_some_iff bs⟩

/-- DTLS-in-STUN: the bytes themselves, any length. -/
theorem C16_attr_roundtrip_dtls (d : List UInt8) : decDtls (encDtls d) = some d := rfl

/-- DTLS-in-STUN ACK: up to four 32-bit numbers round-trip in 4 bytes each; longer lists are refused. -/
theorem C16_attr_roundtrip_ack (l : List Nat) (hl : l.length ≤ 4) (hv : ∀ x ∈ l, x < 4294967296) :
    ∃ bs, encAck l = some bs ∧ decAck bs = some l ∧ bs.length = 4 * l.length := by
  have he : encAck l = some (encWords l) := by
    unfold encAck ackSizeValues; rw [if_neg (by omega)]
  refine ⟨encWords l, he, ?_, encWords_length l⟩
  rw [decAck_enc l _ he]
  congr 1
  clear he hl
  induction l with
  | nil => rfl
  | cons a l ih =>
    simp only [List.map_cons]
    rw [Nat.mod_eq_of_lt (hv a List.mem_cons_self), ih (fun x hx => hv x (List.mem_cons_of_mem a hx))]

theorem C16_attr_size_ack (l : List Nat) (bs : List UInt8) :
    (encAck l).isSome = decide (l.length ≤ 4) ∧
    (decAck bs).isSome = decide (bs.length ≤ 16 ∧ bs.length % 4 = 0) :=
  ⟨encAck_size l, decAck_size bs⟩

/-! ## non-vacuity -/

/-- host / tcp / passive with two extensions -/
def exHost : Cand :=
  { typ := .host, net := .tcp4, address := [49, 48, 46, 48, 46, 48, 46, 49], port := 9, component := 1,
    prioOverride := 0, foundationOverride := [], tcpType := .passive, related := none,
    exts := [([103], [48]), ([117], [])], relayLP := 0 }

/-- srflx / udp with related address 0.0.0.0:0 (named by the property; F7) -/
def exSrflx : Cand :=
  { typ := .srflx, net := .udp4, address := [49, 46, 50, 46, 51, 46, 52], port := 65535, component := 65535,
    prioOverride := 4294967295, foundationOverride := [32], tcpType := .unspecified,
    related := some ([48, 46, 48, 46, 48, 46, 48], 0), exts := [], relayLP := 0 }

example : WF envW exHost := by decide
example : WF envW exSrflx := by decide
example : isOk (parse envW (marshal envW exHost)) = true := by decide
example : ∃ c, parse envW textW1 = .ok c := by
  have : isOk (parse envW textW1) = true := by decide
  cases h : parse envW textW1 with
  | ok c => exact ⟨c, rfl⟩
  | error e => rw [h] at this; cases this
example : Repr exHost ∧ ¬ Repr { exHost with tcpType := .unspecified, exts := [(sRaddr, [120])] } := by decide
example : deepEqual envW exHost exHost = true ∧ equal envW exHost exSrflx = false := by decide
/-- an `Env` with two literals of one address ("1" ~ "2", both IPv4), a third address and a name -/
def envL : Env :=
  { cls := fun s => if s = [1] ∨ s = [2] ∨ s = [3] then .v4 else .invalid,
    canon := fun s => if s = [1] ∨ s = [2] then some [9, 9, 9, 9] else if s = [3] then some [8, 8, 8, 8] else none,
    crc := fun _ => 0 }
example : EnvLaw envW := fun _ => rfl
example : EnvLaw envL := by
  intro a; unfold envL clsOfCanon; dsimp only
  by_cases h1 : a = [1] <;> by_cases h2 : a = [2] <;> by_cases h3 : a = [3] <;> simp [h1, h2, h3]
example : sameAddressLiteral envL [1] [2] = true ∧ sameAddressLiteral envL [1] [3] = false ∧
    sameAddressLiteral envL [7] [7] = true ∧ sameAddressLiteral envL [7] [6] = false := by decide
example : equal envL { exSrflx with address := [1] } { exSrflx with address := [2] } = true ∧
    equal envL { exSrflx with address := [1] } { exSrflx with address := [3] } = false := by decide
example : extensionsEqual [([1], [2]), ([3], [])] [([3], []), ([1], [2])] = true := by decide
example : decNomination [0, 0, 0, 1, 9] = some 1 := by decide  -- S3: a 5-byte value is accepted
example : decPriority (encPriority 4294967295) = some 4294967295 := by decide
example : encAck [1, 2, 3, 4, 5] = none := by decide

/-! ### code ties (T): the equality functions are REGENERATED from candidate_base.go / candidaterelatedaddress.go /
addr.go on every run (`IceGen.T_Cand`) and proved equal to the model's (`IceTie/CandEqual.lean`) -/

/-- `sameAddressLiteral` (candidate_base.go) with `netip.ParseAddr` failing iff `env.canon` is `none` and the
comparison of the two `canonicalAddr`s being the comparison of the keys is the model's `sameAddressLiteral` -/
theorem C16_code_sameAddressLiteral (env : Env) (a b : Str) :
    IceGen.sameAddressLiteral (a == b) (env.canon a).isNone (env.canon b).isNone (env.canon a == env.canon b)
      = sameAddressLiteral env a b :=
  IceTie.CandEqual.sameAddressLiteral_tie env a b

/-- `candidateBase.Equal` ∘ `transportAddressEqual` ∘ `sameAddressLiteral` ∘ `CandidateRelatedAddress.Equal`,
composed as the code composes them, on two DISTINCT candidate objects (the interface values `c.addr()` and
`other.addr()` are equal only when both are nil) is the model's `equal` — every environment, every two candidates
whose ports are Go `int`s -/
theorem C16_code_equal (env : Env) (c o : Cand) (hpc : c.port < 2 ^ 63) (hpo : o.port < 2 ^ 63)
    (hrc : ∀ v, c.related = some v → v.2 < 2 ^ 63) (hro : ∀ v, o.related = some v → v.2 < 2 ^ 63) :
    IceGen.candidateBase_Equal
        (IceGen.candidateBase_transportAddressEqual (!((resolved env c).isNone && (resolved env o).isNone))
          (resolved env c).isNone (resolved env o).isNone
          (resolved env c == resolved env o) (IceTie.CandEqual.netCode c.net) (IceTie.CandEqual.netCode o.net)
          (IceGen.sameAddressLiteral (c.address == o.address) (env.canon c.address).isNone (env.canon o.address).isNone
            (env.canon c.address == env.canon o.address))
          (Int64.ofNat c.port) (Int64.ofNat o.port) (IceTie.CandEqual.ttCode c.tcpType) (IceTie.CandEqual.ttCode o.tcpType))
        (IceTie.CandEqual.tyCode c.typ) (IceTie.CandEqual.tyCode o.typ)
        (IceGen.candidateRelatedAddress_Equal c.related.isNone o.related.isNone
          ((c.related.getD ([], 0)).1 == (o.related.getD ([], 0)).1)
          (Int64.ofNat (c.related.getD ([], 0)).2) (Int64.ofNat (o.related.getD ([], 0)).2))
      = equal env c o := by
  apply IceTie.CandEqual.equal_tie env c o _ _ _ hpc hpo hrc hro
  · intro h1 h2; simp [h1, h2]
  · intro h
    cases h1 : resolved env c <;> cases h2 : resolved env o <;> simp [h1, h2] at h ⊢

/-- the same for a candidate compared with ITSELF (one object: `c.addr() != other.addr()` is false) -/
theorem C16_code_equal_self (env : Env) (c : Cand) (hpc : c.port < 2 ^ 63)
    (hrc : ∀ v, c.related = some v → v.2 < 2 ^ 63) :
    IceGen.candidateBase_Equal
        (IceGen.candidateBase_transportAddressEqual false
          (resolved env c).isNone (resolved env c).isNone
          (resolved env c == resolved env c) (IceTie.CandEqual.netCode c.net) (IceTie.CandEqual.netCode c.net)
          (IceGen.sameAddressLiteral (c.address == c.address) (env.canon c.address).isNone (env.canon c.address).isNone
            (env.canon c.address == env.canon c.address))
          (Int64.ofNat c.port) (Int64.ofNat c.port) (IceTie.CandEqual.ttCode c.tcpType) (IceTie.CandEqual.ttCode c.tcpType))
        (IceTie.CandEqual.tyCode c.typ) (IceTie.CandEqual.tyCode c.typ)
        (IceGen.candidateRelatedAddress_Equal c.related.isNone c.related.isNone
          ((c.related.getD ([], 0)).1 == (c.related.getD ([], 0)).1)
          (Int64.ofNat (c.related.getD ([], 0)).2) (Int64.ofNat (c.related.getD ([], 0)).2))
      = true := by
  rw [IceTie.CandEqual.equal_tie env c c false (fun _ _ => rfl) (fun _ => rfl) hpc hpc hrc hrc]
  exact equal_refl env c

/-- `canonicalAddr` (addr.go), the function `Env.canon` stands for after `ParseAddr`: unmap, then keep the zone
exactly on an IPv6 link-local address; `addrPortEqual` needs both sides valid -/
theorem C16_code_canonicalAddr {α : Type} (unmap : α → α) (isLL : α → Bool) (noZone : α → α) (addr : α) :
    IceGen.canonicalAddr α unmap isLL noZone addr = (if isLL (unmap addr) then unmap addr else noZone (unmap addr)) ∧
    (∀ av bv same, IceGen.addrPortEqual av bv same = (av && bv && same)) :=
  ⟨IceTie.CandEqual.canonicalAddr_tie unmap isLL noZone addr, IceTie.CandEqual.addrPortEqual_tie⟩

/-- non-vacuity: the hypotheses of `C16_code_equal` hold for the example candidates; the regenerated functions on
concrete atoms; a toy `netip.Addr` (4-in-6 flag, link-local flag, zone) under `canonicalAddr` -/
example : exHost.port < 2 ^ 63 ∧ ∀ v, exSrflx.related = some v → v.2 < 2 ^ 63 := by decide
example : IceGen.sameAddressLiteral false false false true = true ∧ IceGen.sameAddressLiteral false true false true = false ∧
    IceGen.sameAddressLiteral true true true false = true := by decide
example : IceGen.candidateBase_transportAddressEqual true false false true 1 1 true 5 5 0 0 = true ∧
    IceGen.candidateBase_transportAddressEqual true false false false 1 1 true 5 5 0 0 = false ∧
    IceGen.candidateBase_transportAddressEqual true true false true 1 1 true 5 5 0 0 = false ∧
    IceGen.candidateBase_transportAddressEqual false true true false 1 1 true 5 6 0 0 = false := by decide
example : IceGen.candidateRelatedAddress_Equal true true false 1 2 = true ∧
    IceGen.candidateRelatedAddress_Equal true false true 1 1 = false := by decide
example : IceGen.canonicalAddr (Bool × Bool × Nat) (fun a => (false, a.2)) (fun a => a.2.1) (fun a => (a.1, a.2.1, 0))
      (true, false, 7) = (false, false, 0) ∧
    IceGen.canonicalAddr (Bool × Bool × Nat) (fun a => (false, a.2)) (fun a => a.2.1) (fun a => (a.1, a.2.1, 0))
      (false, true, 7) = (false, true, 7) := by decide

/-- `addrEqual` and `createAddr` (addr.go, regenerated): `addrEqual` is false when either address does not parse, else it
compares network type, IP (`Compare`) and port — on two resolved addresses of the text model that is the equality of the
`resolved` tuples the model's `transportAddressEqual` uses; `createAddr` builds a `*net.TCPAddr` for the TCP network types and a
`*net.UDPAddr` otherwise, both with IP, port and zone -/
theorem C16_code_addrEqual :
    (∀ (aErr bErr : Bool) (aType bType ipCompare aPort bPort : Int64),
      IceGen.addrEqual aErr bErr aType bType ipCompare aPort bPort
        = (!aErr && !bErr && aType == bType && ipCompare == 0 && aPort == bPort)) ∧
    (∀ (a b : Bool × AddrClass × Option Str × Nat) (cmp : Int64),
      (cmp == 0) = (a.2.1 == b.2.1 && a.2.2.1 == b.2.2.1) → a.2.2.2 < 2 ^ 63 → b.2.2.2 < 2 ^ 63 →
      IceGen.addrEqual false false (IceTie.Addr.typeCode a.1 a.2.1) (IceTie.Addr.typeCode b.1 b.2.1) cmp
          (Int64.ofNat a.2.2.2) (Int64.ofNat b.2.2.2) = (a == b)) ∧
    (∀ isTCP, IceGen.createAddr isTCP = if isTCP then "TCPAddr{ip, port, zone}" else "UDPAddr{ip, port, zone}") :=
  ⟨IceTie.Addr.addrEqual_tie, IceTie.Addr.addrEqual_resolved, IceTie.Addr.createAddr_tie⟩

example : IceGen.addrEqual false false 1 1 0 5 5 = true ∧ IceGen.addrEqual false false 1 3 0 5 5 = false ∧
    IceGen.addrEqual true false 1 1 0 5 5 = false := by decide

end IceProps.C16
