import IceProofs.SharedConn
import IceProofs.SharedMonitor
import IceProofs.WriteAbort
import IceSpec.C13
import IceTie.WriteAbort
/-!
# C13 — users of a shared mux cannot disturb each other

Property theorems only.  Part 1: reference-counted handles (`IceModel.SharedConn`, model of
`shared_packet_conn.go`) — any number of handles, any operation sequence.  Part 2: the write-abort
protocol (`IceModel.WriteAbort`, model of the `writeState` CAS protocol of `udp_mux.go`) — any number
of writer and aborter threads, all interleavings of the atomic steps, all environment choices.

Part 2 holds on the unchanged tree only when `SetWriteDeadline(time.Now())` does not fail
(`ReachableNF`): finding F11.  The full statements are kept in comments, the provable parts are named
`…_partial`, and the negations of the full statements are proved on the F11 schedule
(`IceModel.WriteAbort.f11Schedule`, replayed on the real mux by the harness).
-/
namespace IceProps.C13
open IceSpec.C13

/-! ## Part 1 — reference-counted handles -/
section Shared
open IceModel.SharedConn IceProofs.SharedConn

/-- Refcount: in every reachable state (any number of handles, any order of operations, repeated
closes of one handle included) the shared counter is the number of open handles; the underlying
connection has been closed at most once, and exactly once iff at least one handle was handed out and
all of them are closed; and a `Close` call closes the underlying connection precisely when its
handle is open and is the last open one. -/
theorem C13_refcount {s : State} (hr : Reachable s) :
    s.refs = (nOpen s.handles : Int)
    ∧ s.uCloses ≤ 1
    ∧ (s.uCloses = 1 ↔ (0 < s.handles.length ∧ nOpen s.handles = 0))
    ∧ ∀ h, (step s (.close h)).1.uCloses
        = s.uCloses + (if (∃ hd, s.handles[h]? = some hd ∧ hd.closed = false) ∧ nOpen s.handles = 1 then 1 else 0) := by
  have hi := sinv_of_reachable hr
  refine ⟨hi.refs, ?_, ?_, fun h => close_effect hr h⟩
  · rw [hi.closes]; split <;> omega
  · rw [hi.closes]; split <;> simp_all

-- non-vacuity: two handles, closed in either order and twice, reach `uCloses = 1`
example : Reachable (runOps State.init [.open, .open, .close 1, .close 1, .close 0]) ∧
    (runOps State.init [.open, .open, .close 1, .close 1, .close 0]).uCloses = 1 ∧
    (runOps State.init [.open, .open, .close 1, .close 1]).uCloses = 0 := by
  refine ⟨?_, by decide, by decide⟩
  exact Reachable.step _ (Reachable.step _ (Reachable.step _ (Reachable.step _ (Reachable.step _ (Reachable.init false 0)
    (by decide)) (by decide)) (by decide)) (by decide)) (by decide)

/-- The hypothesis of `Reachable` (no handle is requested for a connection that is already closed)
is needed: at the excluded point the real `sharedPacketConn` closes the underlying connection a
second time (`refs` goes 0 → 1 → 0). The muxes never do this: they create a new connection. -/
theorem C13_refcount_resurrect_witness :
    (runOps State.init [.open, .close 0, .open, .close 1]).uCloses = 2 := by decide

/-- A repeated `Close` of one handle changes nothing and returns nil. -/
theorem C13_close_idempotent (s : State) (h : Nat) (hd : Handle) (hg : s.handles[h]? = some hd)
    (hc : hd.closed = true) : step s (.close h) = (s, Out.closed s.uCloses 0) := by
  simp [step, hg, hc]

example : ∃ (s : State) (h : Nat) (hd : Handle), s.handles[h]? = some hd ∧ hd.closed = true :=
  ⟨runOps State.init [.open, .close 0], 0, _, rfl, rfl⟩

/-- Sibling independence: closing handle `h` (a) makes every later read/write/deadline call on `h`
fail and leaves no read of `h` parked (they all returned), and (b) makes NO I/O operation on any other handle `g`
fail — in every reachable state (either kind of underlying connection, whatever deadlines are set), for every such
operation: reads, writes, `SetReadDeadline`, `SetWriteDeadline`, `SetDeadline` (`Op.isIOOn`): the result is the same
as without the close, or (fix F33: a wrapper that armed the shared write deadline clears it when it goes) a write
that timed out under that deadline succeeds now (`SameOrCleared`); and it IS the same whenever no write deadline was
armed on any connection of the ufrag (`State.reg`).  Any number of TCP connections per ufrag, whichever of them
refuse `SetWriteDeadline`. -/
theorem C13_sibling_independent {s : State} (hr : Reachable s) {h : Nat} (hlt : h < s.handles.length) :
    (∀ op, Op.isIOOn h op = true → (step (step s (.close h)).1 op).2 = Out.errClosed)
    ∧ (∃ hd, (step s (.close h)).1.handles[h]? = some hd ∧ hd.closed = true ∧ hd.pending = 0)
    ∧ (∀ g op, g ≠ h → Op.isIOOn g op = true →
        SameOrCleared (step s op).2 (step (step s (.close h)).1 op).2
        ∧ ((∀ c, s.reg c = false) → (step (step s (.close h)).1 op).2 = (step s op).2)) := by
  refine ⟨fun op hop => (own_io_fails hr hlt hop).1, (own_io_fails hr hlt (op := .write h) (by simp [Op.isIOOn])).2,
    fun g op hne hop => sibling_independent hr hne hop⟩

-- non-vacuity: with a parked read on each of two handles, closing one releases exactly its own read
-- and the sibling still writes and reads
example :
    let s := runOps State.init [.open, .open, .read 0, .read 1]
    (step s (.close 0)).2 = Out.closed 0 1
    ∧ (step (step s (.close 0)).1 (.write 1)).2 = Out.ok
    ∧ (step (step s (.close 0)).1 (.read 0)).2 = Out.errClosed
    ∧ (step (step s (.close 0)).1 .feed).2 = Out.fed (some 1) := by decide

/-- The `abortIO` sequence on handle `h` (`SetDeadline(now)`, `abortWrite`, `Close` — what a candidate does with
its handle), in every reachable state and for EITHER kind of underlying connection (`udpMuxedConn` ignoring,
`tcpPacketConn` honouring a forwarded write deadline): (a) every later I/O call on `h` fails closed and no read of
`h` stays parked; (b) NO I/O operation on any other handle `g` fails because of it: the result is the same as without
the abort, or a write that had timed out succeeds now; the same whenever no write deadline was armed before.
(Full statement since fix F33; before it held only for the ignoring kind.) -/
theorem C13_abort_sibling_independent {s : State} (hr : Reachable s) {h : Nat} (hlt : h < s.handles.length) :
    (∀ op, Op.isIOOn h op = true → (step (step s (.abort h)).1 op).2 = Out.errClosed)
    ∧ (∃ hd, (step s (.abort h)).1.handles[h]? = some hd ∧ hd.closed = true ∧ hd.pending = 0)
    ∧ (∀ g op, g ≠ h → Op.isIOOn g op = true →
        SameOrCleared (step s op).2 (step (step s (.abort h)).1 op).2
        ∧ ((∀ c, s.reg c = false) → (step (step s (.abort h)).1 op).2 = (step s op).2)) := by
  refine ⟨fun op hop => (abort_own_io_fails hr hlt hop).1,
    (abort_own_io_fails hr hlt (op := .write h) (by simp [Op.isIOOn])).2,
    fun g op hne hop => abort_sibling_independent hr hne hop⟩

-- regression example (the witness of finding F33 on the honouring kind, now the other way round): two handles,
-- `abortIO` on handle 0 — the sibling's write still succeeds, so does a handle requested afterwards, and the
-- register is not left armed; `SameOrCleared` is not vacuous: a deadline armed by handle 0 itself is cleared by its close
example :
    let s := runOps (State.initK true) [.open, .open]
    Reachable s ∧ (step s (.write 1)).2 = Out.ok
    ∧ (step (step s (.abort 0)).1 (.write 1)).2 = Out.ok
    ∧ (runOps s [.abort 0, .write 1, .read 1, .open]).wdlPast = false
    ∧ (step (runOps s [.abort 0, .open]) (.write 2)).2 = Out.ok
    ∧ (step (runOps s [.setwd 0 true]) (.write 1)).2 = Out.errTimeout
    ∧ (step (runOps s [.setwd 0 true, .close 0]) (.write 1)).2 = Out.ok := by
  refine ⟨Reachable.step _ (Reachable.step _ (Reachable.init true 0) (by decide)) (by decide), ?_, ?_, ?_, ?_, ?_, ?_⟩ <;> decide

/-- The write-deadline register of the underlying connection is armed only while an OPEN handle holds the deadline
(its `writeDeadlineArmed` is set), or after the last handle has gone: a deadline does not outlive the handle that
armed it — every reachable state, any number of handles, any operation order, either kind. -/
theorem C13_deadline_not_outlive {s : State} (hr : Reachable s) (hw : s.wdlPast = true) :
    s.fwd = true ∧ ((0 < s.handles.length ∧ nOpen s.handles = 0) ∨ 0 < nHeld s.handles) := by
  have hi := winv_of_reachable hr
  refine ⟨?_, hi.held hw⟩
  cases hf : s.fwd with
  | true => rfl
  | false => have := hi.nofwd hf; rw [hw] at this; cases this

example : ∃ s, Reachable s ∧ s.wdlPast = true ∧ nHeld s.handles = 1 :=
  ⟨runOps (State.initK true) [.open, .open, .setwd 1 true],
   Reachable.step _ (Reachable.step _ (Reachable.step _ (Reachable.init true 0) (by decide)) (by decide)) (by decide),
   by decide, by decide⟩

/-- Every behaviour of the handle model passes the spec monitor that the driver runs on the
implementation's outputs: for any legal operation sequence (any length, any number of handles, either kind of
underlying connection, all operations incl. the three deadline setters and `abortIO`) the
observations produced by the model are accepted clause by clause by `sharedViolation` (underlying
closed exactly at the last distinct close, repeated closes inert, own I/O fails after close / abort and its
parked reads are released, sibling I/O never fails as closed, a read times out only under the handle's own read
deadline, a write only under a write deadline that an OPEN handle holds — on every connection of the ufrag that has
never refused a deadline call, with `k` scripted TCP connections any of which may start / stop refusing
`SetWriteDeadline` at any time; results of deadline setters, `abortIO` and `Close` may be the refusing connection's
error only while one refuses).  Full statement again since fix F33. -/
theorem C13_shared_monitor (fwd : Bool) (k : Nat) (ops : List Op) (hl : legalRun (State.initK fwd k) ops = true) :
    sharedHistViolation (SMon.initK k) (traceOf (State.initK fwd k) ops) = none :=
  monitor_run ops (Reachable.init fwd k) (rel_init fwd k) hl

-- regression example: the trace that was rejected before the fix
example :
    legalRun (State.initK true) [.open, .open, .write 1, .abort 0, .write 1] = true
    ∧ sharedHistViolation {} (traceOf (State.initK true) [.open, .open, .write 1, .abort 0, .write 1]) = none := by
  constructor <;> decide

-- non-vacuity: a legal run with observations of every kind; and the monitor does reject a wrong trace
example : legalRun State.init [.open, .open, .read 0, .feed, .read 1, .close 1, .write 0, .close 0, .close 0] = true
    ∧ (traceOf State.init [.open, .open, .read 0, .feed, .read 1, .close 1, .write 0, .close 0, .close 0]).length = 9 := by
  decide
-- … also with the new operations, on both kinds
example : legalRun (State.initK false) [.open, .open, .setwd 0 true, .write 1, .abort 0, .write 1, .setd 1 true, .read 1, .abort 1] = true
    ∧ legalRun (State.initK true) [.open, .open, .setwd 0 true, .write 1, .setd 1 false, .setrd 0 true, .read 0, .write 1, .abort 0, .write 1] = true := by
  decide
-- the monitor does reject a deadline that outlived its handle
example : (sharedHistViolation {} [.opened 0, .opened 1, .aborted 0 .ok 0 0, .io 1 .write 0 .errTimeout]).isSome = true
    ∧ sharedHistViolation {} [.opened 0, .opened 1, .dl 0 false true true .ok, .io 1 .write 0 .errTimeout] = none := by decide
-- several connections, one refusing `SetWriteDeadline` while handle 0 arms and goes (seeded mutant
-- `C13-tcp-setwd-first-error-return`): in the model every healthy connection is clear afterwards, only the refusing one
-- may keep a deadline; the monitor accepts the model's trace, and rejects a timeout on a healthy connection
example :
    let ops : List Op := [.open, .open, .setd 0 true, .refuse 7 true, .close 0, .write 1 0, .write 1 3, .write 1 6, .write 1 7]
    legalRun (State.initK true 8) ops = true
    ∧ (List.range 7).all (fun c => (runOps (State.initK true 8) (ops.take 5)).reg c == false) = true
    ∧ (runOps (State.initK true 8) (ops.take 5)).reg 7 = true
    ∧ (step (runOps (State.initK true 8) (ops.take 4)) (.close 0)).2 = Out.closedErr 0 0
    ∧ sharedHistViolation (SMon.initK 8) (traceOf (State.initK true 8) ops) = none := by decide
example : (sharedHistViolation (SMon.initK 8) [.opened 0, .opened 1, .dl 0 true true true .ok, .fault 7 true, .closedErr 0 0 0,
    .io 1 .write 3 .errTimeout]).isSome = true := by decide
example : sharedHistViolation {} [.opened 0, .opened 1, .closed 0 1 0]
    = some "underlying connection closed while sibling handles are open" := by decide

end Shared

/-! ## Part 2 — the write-abort protocol -/
section WriteAbort
open IceModel.WriteAbort IceProofs.WriteAbort

/-
Full statement (does NOT hold on the unchanged tree, see `C13_count_inv_witness`):
  theorem C13_count_inv {s} (hr : Reachable s) : s.cnt = s.nFlight
-/
/-- Count invariant, for executions in which `SetWriteDeadline(now)` does not fail: the count field of
`writeState` equals the number of writers between their increment (`startWriteContext`) and their
decrement (`finishWrite`) — any number of threads, all interleavings. -/
theorem C13_count_inv_partial {s : State} (hr : ReachableNF s) : s.cnt = s.nFlight := by
  have hi := inv_of_reachableNF hr
  simp only [IceProofs.WriteAbort.Inv, InvN] at hi
  exact hi.1

/-- With a failed arming the count is lost: after the first 28 steps of the F11 schedule writer Z is
inside the socket write while the count field is 0. -/
theorem C13_count_inv_witness : ¬ (∀ s, Reachable s → s.cnt = s.nFlight) := by
  intro h
  have hs : run State.init (f11Schedule.take 28) = some
      { cnt := 0, dbit := false, bbit := false, rpast := true, epoch := 3,
        wr := [.done, .done, .w1], ab := [.done true, .done false, .done false] } := by decide
  have := h _ (reachable_of_run Reachable.init hs)
  revert this
  decide

-- non-vacuity of the hypothesis: a non-failing execution with two writers counted
example : ∃ s, ReachableNF s ∧ s.cnt = 2 :=
  ⟨_, reachableNF_of_run (l := [.spawnW, .spawnW, .start 0, .start 1]) ReachableNF.init (by decide) rfl, rfl⟩

-- a socket write that FAILS (an error that is not the deadline's; either write path) is an ordinary `ReachableNF`
-- step and still goes through `finishWrite`: afterwards nothing is counted, and the abort of another user is idle
-- (the pattern of seeded mutant `C13-addrport-write-skips-finish`, which the harness runs on the real mux)
example : ∃ s, ReachableNF s ∧ s.allDone = true ∧ s.word = 0 ∧ s.rpast = false :=
  ⟨_, reachableNF_of_run (l := [.spawnW, .start 0, .writeRet 0 .err, .finish 0, .spawnA, .abortCas 0])
    ReachableNF.init (by decide) rfl, by decide, by decide, by decide⟩

/-
Full statement (does NOT hold on the unchanged tree, see `C13_deadline_cleared_witness`):
  theorem C13_deadline_cleared {s} (hr : Reachable s) (hq : s.quiescent = true) :
      s.word = 0 ∧ s.rpast = false ∧ quiescentViolation { word := s.word, armed := s.rpast } = none
      ∧ ∃ s', probe s = some (WRes.ok, s')
-/
/-- Deadline cleared, for executions in which `SetWriteDeadline(now)` does not fail: in every
reachable state in which no writer is in flight (counted or inside `clearWriteDeadlineAfterAbort`) and
no abort is between its CAS and its last step, `writeState` is 0 (count, blocked and deadline bits),
the last value written to the socket's write-deadline register is zero, the spec monitor accepts the
observation, and a write issued then succeeds and leaves the same situation behind. -/
theorem C13_deadline_cleared_partial {s : State} (hr : ReachableNF s) (hq : s.quiescent = true) :
    s.word = 0 ∧ s.rpast = false
    ∧ quiescentViolation { word := s.word, armed := s.rpast } = none
    ∧ ∃ s', probe s = some (WRes.ok, s') ∧ s'.word = 0 ∧ s'.rpast = false ∧ s'.quiescent = true := by
  have hi := inv_of_reachableNF hr
  obtain ⟨h1, h2, h3, h4⟩ := quiescent_clear hi hq
  have hw : s.word = 0 := (word_zero_iff s).mpr ⟨h1, h2, h3⟩
  obtain ⟨s', hp, p1, p2, p3, p4, p5, p6⟩ := probe_ok hi hq
  refine ⟨hw, h4, by simp [quiescentViolation, hw, h4], s', hp, (word_zero_iff s').mpr ⟨p1, p2, p3⟩, p4, ?_⟩
  simp only [State.quiescent, State.nFlight, State.nClearing, State.nActive, p5, p6, List.countP_append,
    List.countP_singleton] at hq ⊢
  simpa [WLoc.inFlight, WLoc.clearing] using hq

/-- Finding F11 on the model: the schedule `f11Schedule` is executable step by step, every thread
has returned, `writeState` is 0 — and the socket's write deadline is still armed; the monitor rejects
the observation and a probe write times out. -/
theorem C13_deadline_cleared_witness :
    ∃ s, run State.init f11Schedule = some s ∧ s.allDone = true ∧ s.quiescent = true ∧ s.word = 0
      ∧ s.rpast = true
      ∧ quiescentViolation { word := s.word, armed := s.rpast, failedArm := true }
          = some "write deadline left armed at quiescence after failed SetWriteDeadline(now)"
      ∧ (probe s).map (·.1) = some WRes.timeout :=
  ⟨{ cnt := 0, dbit := false, bbit := false, rpast := true, epoch := 3,
     wr := [.done, .done, .done], ab := [.done true, .done false, .done false] },
   by decide, by decide, by decide, by decide, by decide, by decide, by decide⟩

/-- … hence the full statement is false for the model of the unchanged code. -/
theorem C13_deadline_cleared_full_witness :
    ¬ (∀ s, Reachable s → s.quiescent = true → s.word = 0 ∧ s.rpast = false) := by
  intro h
  obtain ⟨s, hrun, _, hq, _, hr, _⟩ := C13_deadline_cleared_witness
  have := (h s (reachable_of_run Reachable.init hrun) hq).2
  rw [hr] at this
  exact Bool.noConfusion this

-- non-vacuity: a complete abort cycle without failure ends quiescent, with the deadline cleared
example : ∃ s, ReachableNF s ∧ s.quiescent = true ∧ s.allDone = true ∧ s.epoch = 1 :=
  ⟨_, reachableNF_of_run (l := [.spawnW, .start 0, .spawnA, .abortCas 0, .abortSet 0 true, .abortArm 0,
      .writeRet 0 .timeout, .finish 0, .clearLoad 0, .clearSet 0, .clearStore 0])
      ReachableNF.init (by decide) rfl, by decide, by decide, by decide⟩

/-
Full statement (does NOT hold on the unchanged tree, see `C13_waiter_epoch_witness`):
  theorem C13_waiter_epoch {s} (hr : Reachable s) : ∀ w ∈ s.wr, WLoc.staleAt s.epoch w = false
-/
/-- Without a failed arming no writer waiting in `clearWriteDeadlineAfterAbort` outlives the epoch in
which it decremented (the clause "of the current epoch" of invariant I3), and at most one writer is
there at all. -/
theorem C13_waiter_epoch_partial {s : State} (hr : ReachableNF s) :
    (∀ w ∈ s.wr, WLoc.staleAt s.epoch w = false) ∧ s.nClearing ≤ 1 := by
  refine ⟨noStale_of_reachableNF hr, ?_⟩
  have hi := inv_of_reachableNF hr
  simp only [IceProofs.WriteAbort.Inv, InvN] at hi
  exact hi.2.2.2.2.2.1

/-- The mechanism of F11: after 16 steps of the schedule (failed arming in epoch 1, abort 2 has begun
epoch 2) writer X still waits on behalf of epoch 1, together with epoch 2's own last writer. -/
theorem C13_waiter_epoch_witness :
    ∃ s, run State.init (f11Schedule.take 16) = some s ∧ s.epoch = 2 ∧ s.wr = [.w3 1, .w3 2] ∧ s.nClearing = 2 :=
  ⟨{ cnt := 0, dbit := true, bbit := true, rpast := true, epoch := 2, wr := [.w3 1, .w3 2],
     ab := [.done true, .done false] }, by decide, rfl, rfl, by decide⟩

/-- The failure branch in isolation, from ANY state (reachable or not) in which aborter `j` is about
to call `SetWriteDeadline(now)`: if the call fails, the socket's deadline register, the count and
all writers are untouched, both flag bits are cleared, the aborter returns the error — and a writer
spinning in `startWriteContext` then enters. -/
theorem C13_setdeadline_error {s : State} {j : Nat} (hj : s.ab[j]? = some ALoc.a1) :
    ∃ s1 s2, step s (.abortSet j false) = some s1 ∧ step s1 (.abortClear j) = some s2
      ∧ s1.rpast = s.rpast ∧ s1.cnt = s.cnt ∧ s1.bbit = s.bbit ∧ s1.dbit = s.dbit ∧ s1.wr = s.wr
      ∧ s2.bbit = false ∧ s2.dbit = false ∧ s2.rpast = s.rpast ∧ s2.cnt = s.cnt ∧ s2.wr = s.wr
      ∧ s2.ab[j]? = some (ALoc.done true)
      ∧ ∀ i, s.wr[i]? = some WLoc.w0 → ∃ s3, step s2 (.start i) = some s3 ∧ s3.wr[i]? = some WLoc.w1 := by
  obtain ⟨s1, s2, h1, h2, a1, a2, a3, a4, a5, b1, b2, b3, b4, b5, b6⟩ := setdeadline_error hj
  refine ⟨s1, s2, h1, h2, a1, a2, a3, a4, a5, b1, b2, b3, b4, b5, b6, ?_⟩
  intro i hi
  obtain ⟨s3, h3, h4, _⟩ := writer_enters_when_unblocked (s := s2) b1 (by rw [b5]; exact hi)
  exact ⟨s3, h3, h4⟩

example : ∃ (s : State) (j : Nat), Reachable s ∧ s.ab[j]? = some ALoc.a1 :=
  ⟨_, 0, reachable_of_run (l := [.spawnW, .start 0, .spawnA, .abortCas 0]) Reachable.init rfl, rfl⟩

/-- No stuck state (progress, I6), for executions in which `SetWriteDeadline(now)` does not fail: in
every reachable state in which some thread has not returned, EITHER a step of the program itself (or a
write forced to return by an expired deadline) is enabled and changes the state — so not every enabled
transition is a spin/yield — OR the blocked bit is clear, the socket deadline is zero and every live
thread is a writer inside the socket write, which returns as soon as the socket lets it. New calls,
context cancellation and the socket's good will are NOT counted as progress in the first case. -/
theorem C13_no_stuck {s : State} (hr : ReachableNF s) (hlive : s.live = true) :
    (∃ a s', a.forced = true ∧ step s a = some s' ∧ s' ≠ s)
    ∨ (s.bbit = false ∧ s.rpast = false ∧ (∀ a ∈ s.ab, a.isDone = true)
        ∧ (∀ w ∈ s.wr, w = WLoc.w1 ∨ w = WLoc.done)
        ∧ ∃ i s', s.wr[i]? = some WLoc.w1 ∧ step s (.writeRet i .ok) = some s' ∧ s' ≠ s) := by
  rcases progress (inv_of_reachableNF hr) with hp | ⟨hb, hrz, hab, hw⟩
  · exact Or.inl hp
  · right
    refine ⟨hb, hrz, hab, hw, ?_⟩
    -- some thread is live, all aborters are done, so a writer is in W1
    have hex : ∃ w ∈ s.wr, w = WLoc.w1 := by
      apply Classical.byContradiction
      intro hcon
      have hall : s.wr.all WLoc.isDone = true := by
        rw [List.all_eq_true]
        intro w hwm
        rcases hw w hwm with h | h
        · exact absurd ⟨w, hwm, h⟩ hcon
        · subst h; rfl
      have hall2 : s.ab.all ALoc.isDone = true := by
        rw [List.all_eq_true]; exact hab
      simp [State.live, State.allDone, hall, hall2] at hlive
    obtain ⟨w, hwm, hw1⟩ := hex
    subst hw1
    obtain ⟨i, hi⟩ := List.mem_iff_getElem?.mp hwm
    obtain ⟨s', h1, h2⟩ := socketBlocked_can_complete hi
    exact ⟨i, s', hi, h1, h2⟩

-- non-vacuity: a reachable state with blocked set, deadline bit not yet set, the last writer waiting
-- (spinning) in clearWriteDeadlineAfterAbort — the aborter is the one who can move
example : ∃ s, ReachableNF s ∧ s.live = true ∧ s.bbit = true ∧ s.dbit = false
    ∧ step s (.clearLoad 0) = some s :=
  ⟨_, reachableNF_of_run (l := [.spawnW, .start 0, .spawnA, .abortCas 0, .writeRet 0 .ok, .finish 0])
      ReachableNF.init (by decide) rfl, by decide, rfl, rfl, by decide⟩

end WriteAbort
/-! ## Part 3 — tie to the code (T): the six load / test / CAS loops of `udp_mux.go` are REGENERATED on every run (one
iteration each, `IceGen.T_WriteAbort`) and perform exactly the transitions of `IceModel.WriteAbort.step` -/
section CodeTie
open IceModel IceModel.WriteAbort IceTie.WriteAbort

/-- the bit tests and updates of the code on the 64-bit word are the model's on (`cnt`, `dbit`, `bbit`), for every count
below 2^62 and both bits: blocked test, deadline test, count field, setting either bit, clearing both, count ± 1 -/
theorem C13_code_state_word (c : Nat) (d b : Bool) (h : c + 1 < 2 ^ 62) :
    ((enc c d b &&& 9223372036854775808) != 0) = b ∧
    ((enc c d b &&& 4611686018427387904) != 0) = d ∧
    enc c d b &&& 4611686018427387903 = UInt64.ofNat c ∧
    enc c d b ||| 9223372036854775808 = enc c d true ∧
    enc c d b ||| 4611686018427387904 = enc c true b ∧
    enc c d b &&& (~~~(13835058055282163712 : UInt64)) = enc c false false ∧
    enc c d b + 1 = enc (c + 1) d b ∧
    enc (c + 1) d b - 1 = enc c d b :=
  ⟨blocked_test c d b (by omega), deadline_test c d b (by omega), count_field c d b (by omega),
   set_blocked c d b (by omega), set_deadline c d b (by omega), clear_bits c d b (by omega), inc_word c d b h,
   dec_word c d b h⟩

/-- ONE iteration of each loop, for every word and BOTH outcomes of its CAS: the test it takes, the value it CASes in,
what it calls and what it returns (`none` = it goes round again: a failed CAS or a yield) -/
theorem C13_code_iterations (c : Nat) (d b casOk x : Bool) (h : c + 1 < 2 ^ 62) :
    IceGen.udpMux_startWriteContext_iter true (enc c d b) casOk = ([], some "ctxErr") ∧
    IceGen.udpMux_startWriteContext_iter false (enc c d b) casOk
      = (if b then ([eYield], none)
         else ([eCas (word c d b) (word (c + 1) d b)], if casOk then some "nil" else none)) ∧
    IceGen.udpMux_finishWrite_iter (enc c d b) casOk
      = (if c = 0 then ([], some "writeErr")
         else if b ∧ c = 1 then
           ([eCas (word c d b) (word (c - 1) d b)], if casOk then some "clearWriteDeadlineAfterAbort(writeErr)" else none)
         else ([eCas (word c d b) (word (c - 1) d b)], if casOk then some "writeErr" else none)) ∧
    IceGen.udpMux_abortWrite_iter (enc c d b) casOk x
      = (if b ∨ c = 0 then ([], some "nil")
         else if !casOk then ([eCas (word c d b) (word c d true)], none)
         else if x then
           ([eCas (word c d b) (word c d true), Eff.call "setWriteDeadlineNow" [], Eff.call "clearWriteAbortState" []], some "err")
         else
           ([eCas (word c d b) (word c d true), Eff.call "setWriteDeadlineNow" [], Eff.call "setWriteDeadlineArmed" []], some "nil")) ∧
    IceGen.udpMux_setWriteDeadlineArmed_iter (enc c d b) casOk
      = (if b = false ∨ d then ([], some ())
         else ([eCas (word c d b) (word c true b)], if casOk then some () else none)) ∧
    IceGen.udpMux_clearWriteDeadlineAfterAbort_iter (enc c d b) x
      = (if b = false then ([], some "writeErr")
         else if d = false then ([eYield], none)
         else ([Eff.call "setWriteDeadlineZero" [], Eff.call "store" [Val.n (word 0 false false)]],
               some (if x then "clearErr" else "writeErr"))) ∧
    IceGen.udpMux_clearWriteAbortState_iter (enc c d b) casOk
      = (if d = false ∧ b = false then ([], some ())
         else ([eCas (word c d b) (word c false false)], if casOk then some () else none)) :=
  ⟨(startWriteContext_tie c d b casOk h).1, (startWriteContext_tie c d b casOk h).2, finishWrite_tie c d b casOk (by omega),
   abortWrite_tie c d b casOk x (by omega), setWriteDeadlineArmed_tie c d b casOk (by omega),
   clearWriteDeadlineAfterAbort_tie c d b x (by omega), clearWriteAbortState_tie c d b casOk (by omega)⟩

/-- the iteration whose CAS succeeds IS the model's transition — writers: from every state with a thread at W0 / W2 / W3
the regenerated iteration on the state's word takes the model's branch, and the value it CASes (stores) is the word of the
model's successor state -/
theorem C13_code_writer_steps (s : State) (i : Nat) (h : s.cnt + 1 < 2 ^ 62) :
    (s.wr[i]? = some .w0 → ∃ s', step s (.start i) = some s' ∧
      IceGen.udpMux_startWriteContext_iter false (encOf s) true
        = if s.bbit then ([eYield], none) else ([eCas (wordOf s) (wordOf s')], some "nil")) ∧
    (s.wr[i]? = some .w2 → ∃ s', step s (.finish i) = some s' ∧
      IceGen.udpMux_finishWrite_iter (encOf s) true
        = if s.cnt = 0 then ([], some "writeErr")
          else ([eCas (wordOf s) (wordOf s')],
                some (if s.bbit ∧ s.cnt = 1 then "clearWriteDeadlineAfterAbort(writeErr)" else "writeErr"))) ∧
    (∀ ep writeOk, s.wr[i]? = some (.w3 ep) → ∃ s', step s (.clearLoad i) = some s' ∧
      IceGen.udpMux_clearWriteDeadlineAfterAbort_iter (encOf s) writeOk
        = (if s.bbit = false then ([], some "writeErr")
          else if s.dbit = false then ([eYield], none)
          else ([Eff.call "setWriteDeadlineZero" [],
                 Eff.call "store" [Val.n (wordOf { s with cnt := 0, dbit := false, bbit := false })]],
                some (if writeOk then "clearErr" else "writeErr"))) ∧
      (s.bbit = true → s.dbit = false → s' = s)) :=
  ⟨fun hw => start_refines s i hw h, fun hw => finish_refines s i hw (by omega),
   fun ep writeOk hw => clear_refines s i ep writeOk hw (by omega)⟩

/-- … aborters: A0 (`abortWrite`), A2 (`setWriteDeadlineArmed`), A3 (`clearWriteAbortState`) -/
theorem C13_code_aborter_steps (s : State) (j : Nat) (h : s.cnt < 2 ^ 62) :
    (∀ setFails, s.ab[j]? = some .a0 → ∃ s', step s (.abortCas j) = some s' ∧
      IceGen.udpMux_abortWrite_iter (encOf s) true setFails
        = if s.bbit ∨ s.cnt = 0 then ([], some "nil")
          else ([eCas (wordOf s) (wordOf s'), Eff.call "setWriteDeadlineNow" [],
                 Eff.call (if setFails then "clearWriteAbortState" else "setWriteDeadlineArmed") []],
                some (if setFails then "err" else "nil"))) ∧
    (s.ab[j]? = some .a2 → ∃ s', step s (.abortArm j) = some s' ∧
      IceGen.udpMux_setWriteDeadlineArmed_iter (encOf s) true
        = if s.bbit = false ∨ s.dbit then ([], some ()) else ([eCas (wordOf s) (wordOf s')], some ())) ∧
    (s.ab[j]? = some .a3 → ∃ s', step s (.abortClear j) = some s' ∧
      IceGen.udpMux_clearWriteAbortState_iter (encOf s) true
        = if s.dbit = false ∧ s.bbit = false then ([], some ()) else ([eCas (wordOf s) (wordOf s')], some ())) :=
  ⟨fun sf hw => abortCas_refines s j sf hw h, fun hw => abortArm_refines s j hw h, fun hw => abortClear_refines s j hw h⟩

/-- non-vacuity: two writers in flight, the abort CAS sets bit 63; the last writer of a blocked word goes on to clear; the
constants are the model's -/
example : IceGen.udpMux_abortWrite_iter 2 true false
      = ([Eff.call "cas" [Val.n 2, Val.n 9223372036854775810], Eff.call "setWriteDeadlineNow" [],
          Eff.call "setWriteDeadlineArmed" []], some "nil") ∧
    IceGen.udpMux_finishWrite_iter 9223372036854775809 true
      = ([Eff.call "cas" [Val.n 9223372036854775809, Val.n 9223372036854775808]], some "clearWriteDeadlineAfterAbort(writeErr)") ∧
    IceGen.udpMux_startWriteContext_iter false 9223372036854775809 true = ([Eff.call "gosched" []], none) ∧
    IceGen.udpMux_startWriteContext_iter false 1 false = ([Eff.call "cas" [Val.n 1, Val.n 2]], none) ∧
    IceGen.udpMux_clearWriteAbortState_iter 13835058055282163713 true
      = ([Eff.call "cas" [Val.n 13835058055282163713, Val.n 1]], some ()) := by decide
example : word 0 false true = 2 ^ blockedBitPos ∧ word 0 true false = 2 ^ deadlineBitPos ∧
    word countMask false false = countMask := by decide
example : ∃ s, (run State.init [.spawnW, .start 0, .spawnA]) = some s ∧ s.ab[0]? = some ALoc.a0 ∧ s.cnt < 2 ^ 62 :=
  ⟨_, rfl, by decide, by decide⟩

end CodeTie
end IceProps.C13
