import IceTie.Options
import IceTie.AgentNomination
import IceTie.AgentSuccess
import IceTie.AgentSelector
import IceProofs.AgentC20Trace
import IceProofs.Sys2C20Rest
import IceProofs.Sys2C20Vocab
import IceProofs.Sys2C20Auto
/-!
# C20 — renomination: the latest nomination wins (single-agent clauses)

Property theorems only.  `C20_accept_code` is stated about the definitions REGENERATED from selection.go on
every run; the behaviour theorems are about the executable model `IceModel.AgentCore` (tied to the code by the
differential correspondence of component `agent`, whose corpus `corpus/C20/agent.ops` holds the F8 scenarios).
The model follows the code after the F8 fix (a deferred nomination remembers its value).
The model follows the code after the fixes of F28–F31 (found by the two-agent proof below: the controlling selector
ignores a response whose value does not exceed the highest answered value; a value-less nomination does not move the
controlled selection once a value has been accepted, nor overwrite a deferred value; a deferred mark is cleared once
acted upon).
Two agents (`IceModel.Sys2`, last section): `C20_accepted_le_issued`, `C20_controlled_selects_max_accepted`,
`C20_controlling_selects_max_answered`, `C20_answered_le_accepted`, `C20_quiescent_agreement` for ALL schedules of an
exchange; the one hypothesis that remains beyond scope conditions is "the exchange of the highest nomination completed"
(a lost nomination is not retransmitted — witness, replayed on the real agents; see notes/C20sys.md).  The former
counterexamples are regression examples.
AUTOMATIC renomination (`WithAutomaticRenomination`, last section): the controlling selector's own nominations are part of
the log `issued` the two-agent theorems speak about (`C20_issues_vocabulary`); `C20_auto_only_controlling_enabled`,
`C20_auto_values_increase`.
Not here: `C20_codec` (24-bit attribute codec, proved with C16's codec model).
-/
namespace IceProps.C20
open IceModel IceModel.AgentCore IceProofs.Agent IceTie.AgentNomination

/-! ## Tie: the acceptance filter of the code is the model's -/

/-- For ALL arguments the regenerated `controlledSelector.shouldAcceptNomination` (result and the effect on
`s.lastNomination`) and `shouldSwitchSelectedPair` equal the model functions, and the model's
`cldHandleRequest` is "find-or-add the pair, count the request, `shouldAcceptNomination`, then either only a
success response (rejected) or `cldProceed`" with exactly these functions inline. -/
theorem C20_accept_code (hasValue : Bool) (value : UInt32) (hasLast : Bool) (last : UInt32)
    (hasSelected samePair hasLast' needsPrio : Bool) (selectedPrio pairPrio : UInt64) :
    (let g := IceGen.controlledSelector_shouldAcceptNomination hasValue value hasLast last
     (applyEffs g.1 (optOf hasLast last), g.2) = shouldAcceptNomination (optOf hasValue value) (optOf hasLast last))
    ∧ IceGen.controlledSelector_shouldSwitchSelectedPair hasSelected samePair hasValue hasLast' needsPrio selectedPrio pairPrio
        = shouldSwitch hasSelected samePair hasValue hasLast' needsPrio selectedPrio.toNat pairPrio.toNat :=
  ⟨shouldAcceptNomination_gen_eq_model hasValue value hasLast last,
   shouldSwitchSelectedPair_gen_eq_model hasSelected samePair hasValue hasLast' needsPrio selectedPrio pairPrio⟩

/-- the model's handler written with the stand-alone functions (no hypothesis, every state) -/
theorem C20_accept_inline (a : Agent) (now : Nat) (m : Msg) (l r : Cand) :
    a.cldHandleRequest now m l r =
      let ap := ensurePair a l r
      let a1 := ap.1.modPair ap.2.id (countReq m)
      let acc := shouldAcceptNomination m.nom a1.lastNomination
      if (m.useCand || m.nom.isSome) && !acc.2 then a1.sendSuccess now m l r
      else cldProceed { a1 with lastNomination := acc.1 } now m l r ap.2.id :=
  cldHandleRequest_nf a now m l r

/-- the filter itself: no value → accept, nothing recorded; a value → accept iff nothing accepted yet or
strictly greater than the highest accepted value, which it then replaces -/
theorem C20_accept_rule (v : Nat) (last : Option Nat) :
    shouldAcceptNomination none last = (last, true) ∧
    ((shouldAcceptNomination (some v) last).2 = true ↔ ∀ l, last = some l → l < v) ∧
    (shouldAcceptNomination (some v) last).1 = (if (shouldAcceptNomination (some v) last).2 then some v else last) :=
  ⟨accept_none last, accept_some_iff v last, accept_some_fst v last⟩

example : shouldAcceptNomination (some 5) none = (some 5, true) ∧ shouldAcceptNomination (some 5) (some 5) = (some 5, false)
    ∧ shouldAcceptNomination (some 6) (some 5) = (some 6, true) ∧ shouldAcceptNomination (some 4) (some 5) = (some 5, false)
    ∧ shouldAcceptNomination none (some 5) = (some 5, true) := by decide
example : IceGen.controlledSelector_shouldAcceptNomination true 6 true 5 = ([Eff.set "s.lastNomination" (Val.n 6)], true)
    ∧ IceGen.controlledSelector_shouldAcceptNomination true 5 true 5 = ([], false)
    ∧ IceGen.controlledSelector_shouldAcceptNomination true 0 false 0 = ([Eff.set "s.lastNomination" (Val.n 0)], true)
    ∧ IceGen.controlledSelector_shouldAcceptNomination true 4294967295 true 4294967294
        = ([Eff.set "s.lastNomination" (Val.n 4294967295)], true) := by decide

/-! ## Accept only greater — along any event sequence -/

/-- `offer a ev = some v` unfolded: the event is an inbound authenticated Binding request carrying nomination
value `v`, on an existing local candidate of a started, open, CONTROLLED agent, from a source that resolves,
and not a role conflict — i.e. exactly the requests that reach `controlledSelector.HandleBindingRequest`. -/
theorem C20_offer_iff (a : Agent) (ev : Ev) (v : Nat) :
    offer a ev = some v ↔
      ∃ now la src m l, ev = .inbound now la src m ∧ a.closed = false ∧ a.started = true ∧
        a.localByAddr la = some l ∧ AuthRequest a m ∧ (resolveSource a l src m).2.2.isSome = true ∧
        a.controlling = false ∧ (∀ tb, m.role ≠ some (a.controlling, tb)) ∧ m.nom = some v := by
  unfold offer cldDeliversEv
  cases ev with
  | inbound now la src m =>
    simp only [inboundOn]
    by_cases h1 : (a.closed || !a.started) = true
    · simp only [h1, if_true]
      constructor
      · intro h; cases h
      · rintro ⟨_, _, _, _, _, he, hc, hs, _⟩
        simp [hc, hs] at h1
    · have hc : a.closed = false := by cases hx : a.closed <;> simp_all
      have hs : a.started = true := by cases hx : a.started <;> simp_all
      simp only [h1]
      cases hl : a.localByAddr la with
      | none =>
        constructor
        · intro h; cases h
        · rintro ⟨_, _, _, _, _, he, _, _, hl', _⟩
          cases he
          rw [hl] at hl'; cases hl'
      | some l =>
        simp only [Option.map_some]
        by_cases hd : cldDelivers a l src m = true
        · obtain ⟨ha, hr, hct, hrole⟩ := (cldDelivers_iff a l src m).1 hd
          simp only [Bool.false_eq_true, if_false, hd, if_true, Option.bind_some]
          constructor
          · intro hn
            exact ⟨now, la, src, m, l, rfl, hc, hs, hl, ha, hr, hct, hrole, hn⟩
          · rintro ⟨_, _, _, _, _, he, _, _, _, _, _, _, _, hn⟩
            cases he; exact hn
        · simp only [Bool.false_eq_true, if_false, hd, Option.bind_none]
          constructor
          · intro h; cases h
          · rintro ⟨_, _, _, _, l', he, _, _, hl', ha, hr, hct, hrole, _⟩
            cases he
            rw [hl] at hl'; cases hl'
            exact absurd ((cldDelivers_iff a l src m).2 ⟨ha, hr, hct, hrole⟩) hd
  | _ =>
    simp only [inboundOn]
    constructor
    · intro h; cases h
    · rintro ⟨_, _, _, _, _, he, _⟩; cases he

/-- the selector-resetting events unfolded: an effective `.start`, an effective `.restart`, a lost role conflict
(`IceProps.C05.C05_conflictSwitchEv_iff`) — and each of them does clear `lastNomination` -/
theorem C20_reset_clears (a : Agent) (ev : Ev) (h : resetsSelector a ev = true) :
    (step a ev).1.lastNomination = none := by
  rw [step_lastNomination, h]; rfl

/-- One step without reset, any event: `lastNomination` is untouched unless the event offers a value `v` to the
controlled selector; then the value is accepted iff it is greater than `lastNomination` (or nothing was accepted
yet), and `lastNomination` becomes `v` exactly in that case.  "Accepted" is also visible in the state:
`lastNomination` changed. -/
theorem C20_accept_step (a : Agent) (ev : Ev) (hr : resetsSelector a ev = false) :
    (offer a ev = none → (step a ev).1.lastNomination = a.lastNomination) ∧
    (∀ v, offer a ev = some v →
      (accepted a ev = some v ↔ ∀ last, a.lastNomination = some last → last < v) ∧
      (accepted a ev = some v → (step a ev).1.lastNomination = some v) ∧
      (accepted a ev = none → (step a ev).1.lastNomination = a.lastNomination) ∧
      (accepted a ev = some v ↔ (step a ev).1.lastNomination ≠ a.lastNomination)) := by
  have hstep := step_lastNomination_offer a ev hr
  refine ⟨fun ho => by rw [hstep, ho], ?_⟩
  intro v ho
  rw [ho] at hstep
  simp only at hstep
  have hiff := accept_some_iff v a.lastNomination
  have hfst := accept_some_fst v a.lastNomination
  have hdef : accepted a ev = if (shouldAcceptNomination (some v) a.lastNomination).2 then some v else none := by
    unfold accepted; rw [ho]
  cases hacc : (shouldAcceptNomination (some v) a.lastNomination).2 with
  | true =>
    rw [hacc] at hfst hiff hdef
    have ha : accepted a ev = some v := hdef
    have hnew : (step a ev).1.lastNomination = some v := by rw [hstep, hfst]; rfl
    have hgt := hiff.1 rfl
    rw [ha, hnew]
    refine ⟨⟨fun _ => hgt, fun _ => rfl⟩, fun _ => rfl, ?_, ⟨fun _ heq => ?_, fun _ => rfl⟩⟩
    · intro h; cases h
    · have := hgt v heq.symm
      omega
  | false =>
    rw [hacc] at hfst hiff hdef
    have ha : accepted a ev = none := hdef
    have hnew : (step a ev).1.lastNomination = a.lastNomination := by rw [hstep, hfst]; rfl
    rw [ha, hnew]
    refine ⟨⟨?_, fun h => ?_⟩, ?_, fun _ => rfl, ⟨?_, fun h => absurd rfl h⟩⟩
    · intro h; cases h
    · have := hiff.2 h
      cases this
    · intro h; cases h
    · intro h; cases h

/-- ALONG ANY EVENT SEQUENCE (all event kinds, any interleaving, any initial state `a0`) in which the selector
is not re-installed (`stable`: no effective start / restart / lost role conflict — these clear
`lastNomination`, `C20_reset_clears`): a valued nomination offered after `pre` is accepted iff its value is
greater than EVERY value accepted during `pre` (and than what `a0` had accepted before); `lastNomination` is the
maximum of the accepted values and never decreases. -/
theorem C20_accept_only_greater (a0 : Agent) (pre : List Ev) (ev : Ev) (v : Nat)
    (hst : stable a0 pre = true) (hoff : offer (run a0 pre) ev = some v) :
    (accepted (run a0 pre) ev = some v ↔
      (∀ w ∈ acceptedLog a0 pre, w < v) ∧ (∀ l0, a0.lastNomination = some l0 → l0 < v)) ∧
    (run a0 pre).lastNomination = optMax a0.lastNomination (acceptedLog a0 pre) ∧
    optLe a0.lastNomination (run a0 pre).lastNomination :=
  ⟨accepted_iff_greater a0 pre ev v hst hoff, run_lastNomination a0 pre hst, run_lastNomination_mono a0 pre hst⟩

/-- the same without mentioning a next event: for every stable run `lastNomination` = max of the log, bounds every
logged value, is attained, and is monotone along every prefix -/
theorem C20_lastNomination_max (a0 : Agent) (evs : List Ev) (hst : stable a0 evs = true) :
    (run a0 evs).lastNomination = optMax a0.lastNomination (acceptedLog a0 evs) ∧
    (∀ w ∈ acceptedLog a0 evs, optLe (some w) (run a0 evs).lastNomination) ∧
    (∀ x, (run a0 evs).lastNomination = some x → a0.lastNomination = some x ∨ x ∈ acceptedLog a0 evs) ∧
    optLe a0.lastNomination (run a0 evs).lastNomination := by
  have h := run_lastNomination a0 evs hst
  obtain ⟨h1, h2⟩ := optMax_spec a0.lastNomination (acceptedLog a0 evs)
  rw [← h] at h1 h2
  exact ⟨h, h1, h2, run_lastNomination_mono a0 evs hst⟩

/-! ## An accepted valued nomination switches the selection once the pair is valid -/

/-- the Binding success response to request `m`, keyed with `pwd` -/
def successResponse (m : Msg) (pwd : String) : Msg := { cls := 2, tid := m.tid, key := some pwd }

/-- IMMEDIATE PATH.  For every state of a controlled agent and every authenticated, non-conflicting request from a
source that resolves, carrying nomination value `v` greater than every value accepted so far: if the pair of
(local, remote) — found, or freshly added — is valid (`Succeeded`), or the agent is lite (which then marks it valid),
it IS the selected pair afterwards and `lastNomination = some v`.  No hypothesis on what is currently selected
nor on any priority.  (`q` is the pair the id resolves to; in every state with unique pair ids it is the pair
`ensurePair` returned.) -/
theorem C20_switch_when_valid (a : Agent) (now : Nat) (l : Cand) (src : Nat) (m : Msg) (v : Nat)
    (hauth : AuthRequest a m) (hctl : a.controlling = false) (hnc : ∀ tb, m.role ≠ some (a.controlling, tb))
    (hnom : m.nom = some v) (hgt : ∀ last, a.lastNomination = some last → last < v)
    {a1 : Agent} {o0 : List Out} {r : Cand} (hres : resolveSource a l src m = (a1, o0, some r))
    {q : Pair} (hq : (ensurePair a1 l r).1.pairById (ensurePair a1 l r).2.id = some q)
    (hvalid : q.state = .succeeded ∨ a.cfg.lite = true) :
    (a.handleInbound now l src m).1.selected = some (ensurePair a1 l r).2.id ∧
    (a.handleInbound now l src m).1.lastNomination = some v := by
  have hcr := core_resolveSource a l src m
  rw [hres] at hcr
  simp only at hcr
  have hln : a1.lastNomination = a.lastNomination := congrArg IceProofs.Agent.Core.lastNomination hcr
  have hcfg : a1.cfg = a.cfg := congrArg IceProofs.Agent.Core.cfg hcr
  rw [handleInbound_cld a now l src m hauth hctl ((roleConflict_eq_none a m).2 hnc) hres]
  rw [cld_accepted a1 now m l r v hnom (by rw [hln]; exact hgt)]
  constructor
  · have h1 : ((cldProceed { counted a1 m l r with lastNomination := some v } now m l r
        (ensurePair a1 l r).2.id).1.seenRemoteRecv r.uid now).selected
        = (cldNominate { counted a1 m l r with lastNomination := some v } m (ensurePair a1 l r).2.id).1.selected :=
      congrArg Prod.fst (cldProceed_nomView _ now m l r _)
    rw [h1]
    apply cldNominate_immediate _ m _ v (countReq m q) hnom
    · exact counted_pairById a1 m l r q hq
    · rcases hvalid with h | h
      · left; exact h
      · right
        show (counted a1 m l r).cfg.lite = true
        have : (counted a1 m l r).cfg = a1.cfg :=
          congrArg IceProofs.Agent.Core.cfg (by unfold counted; simp : (counted a1 m l r).core = a1.core)
        rw [this, hcfg]; exact h
  · have : ((cldProceed { counted a1 m l r with lastNomination := some v } now m l r
        (ensurePair a1 l r).2.id).1.seenRemoteRecv r.uid now).core
        = ({ counted a1 m l r with lastNomination := some v } : Agent).core := by simp
    exact congrArg IceProofs.Agent.Core.lastNomination this

/-- the pair a request is handled on always resolves by id (so `hq` below is never vacuous) -/
theorem C20_target_exists (a1 : Agent) (l r : Cand) :
    ∃ q, (ensurePair a1 l r).1.pairById (ensurePair a1 l r).2.id = some q :=
  ensurePair_pairById a1 l r

/-- DEFERRED PATH, arrival.  Same request on a full (non-lite) agent when the pair is NOT yet valid: the selection
does not move, the value is recorded (`lastNomination = some v`), and the pair is marked
`nomOnSuccess = true`, `deferredNom = some v` (state unchanged). -/
theorem C20_switch_when_valid_deferred (a : Agent) (now : Nat) (l : Cand) (src : Nat) (m : Msg) (v : Nat)
    (hauth : AuthRequest a m) (hctl : a.controlling = false) (hnc : ∀ tb, m.role ≠ some (a.controlling, tb))
    (hnom : m.nom = some v) (hgt : ∀ last, a.lastNomination = some last → last < v)
    {a1 : Agent} {o0 : List Out} {r : Cand} (hres : resolveSource a l src m = (a1, o0, some r))
    {q : Pair} (hq : (ensurePair a1 l r).1.pairById (ensurePair a1 l r).2.id = some q)
    (hstate : q.state ≠ .succeeded) (hfull : a.cfg.lite = false) :
    (a.handleInbound now l src m).1.selected = a.selected ∧
    (a.handleInbound now l src m).1.lastNomination = some v ∧
    ∃ q', (a.handleInbound now l src m).1.pairById (ensurePair a1 l r).2.id = some q' ∧
      q'.nomOnSuccess = true ∧ q'.deferredNom = some v ∧ q'.state = q.state := by
  have hd := (resolveSource_discovered a l src m).1
  have hcr := core_resolveSource a l src m
  rw [hres] at hcr hd
  simp only at hcr hd
  have hln : a1.lastNomination = a.lastNomination := congrArg IceProofs.Agent.Core.lastNomination hcr
  have hcfg : a1.cfg = a.cfg := congrArg IceProofs.Agent.Core.cfg hcr
  rw [handleInbound_cld a now l src m hauth hctl ((roleConflict_eq_none a m).2 hnc) hres]
  rw [cld_accepted a1 now m l r v hnom (by rw [hln]; exact hgt)]
  have hlite : ({ counted a1 m l r with lastNomination := some v } : Agent).cfg.lite = false := by
    show (counted a1 m l r).cfg.lite = false
    have : (counted a1 m l r).cfg = a1.cfg :=
      congrArg IceProofs.Agent.Core.cfg (by unfold counted; simp : (counted a1 m l r).core = a1.core)
    rw [this, hcfg]; exact hfull
  have hpb : ({ counted a1 m l r with lastNomination := some v } : Agent).pairById (ensurePair a1 l r).2.id
      = some (countReq m q) := counted_pairById a1 m l r q hq
  have hnomi := cldNominate_deferred _ m _ v (countReq m q) hnom hpb hstate hlite
  have hview : nomView ((cldProceed { counted a1 m l r with lastNomination := some v } now m l r
        (ensurePair a1 l r).2.id).1.seenRemoteRecv r.uid now)
      = nomView (({ counted a1 m l r with lastNomination := some v } : Agent).modPair (ensurePair a1 l r).2.id
          fun p => { p with nomOnSuccess := true, deferredNom := some v }) := by
    rw [nomView_seenRemoteRecv, cldProceed_nomView, hnomi]
  refine ⟨?_, ?_, ?_⟩
  · have := congrArg Prod.fst hview
    simp only [nomView] at this
    rw [this]
    show (counted a1 m l r).selected = a.selected
    rw [(counted_spec a1 m l r).1, hd.selected]
  · have : ((cldProceed { counted a1 m l r with lastNomination := some v } now m l r
        (ensurePair a1 l r).2.id).1.seenRemoteRecv r.uid now).core
        = ({ counted a1 m l r with lastNomination := some v } : Agent).core := by simp
    exact congrArg IceProofs.Agent.Core.lastNomination this
  · have h1 := pairById_nv_congr hview (ensurePair a1 l r).2.id
    have h2 := pairById_modPair_same ({ counted a1 m l r with lastNomination := some v } : Agent)
      (ensurePair a1 l r).2.id (fun p => { p with nomOnSuccess := true, deferredNom := some v }) (fun _ => rfl) _ hpb
    rw [h2] at h1
    obtain ⟨q', hq', hnv⟩ := map_nv_eq_some h1
    refine ⟨q', hq', ?_, ?_, ?_⟩
    · exact congrArg (fun x => x.2.2.2.1) hnv
    · exact congrArg (fun x => x.2.2.2.2) hnv
    · exact congrArg (fun x => x.2.1) hnv

/-- DEFERRED PATH, completion.  When the pair's own check later succeeds — an authenticated success response from
the pair's remote whose transaction is pending, unexpired and symmetric (`hnet`, `hdest`, `hsrc`: the request went
over this network type, to the response's source, FROM the local address the response arrived on) — on a pair carrying a deferred valued
nomination `v`: the pair becomes THE selected pair iff no greater value has been accepted since
(`lastNomination = some last` with `last ≤ v`, i.e. still `some v` by `C20_lastNomination_max`); otherwise (a
greater value accepted meanwhile, or the selector re-installed) the selection does not move.  Priorities and the
currently selected pair play no part. -/
theorem C20_switch_when_valid_completes (a : Agent) (now : Nat) (l : Cand) (src : Nat) (m : Msg) (r : Cand)
    (hm : m.method = 1) (hc : m.cls = 2) (hk : m.key = some a.remotePwd) (hr : a.findRemote l.net src = some r)
    (hctl : a.controlling = false) {a' : Agent} {pd : Pending} {p : Pair} {v : Nat}
    (htp : a.takePending now m.tid = (a', some pd)) (hnet : pd.net = l.net) (hdest : pd.dest = src)
    (hsrc : pd.src = l.addr)
    (hfp : a.findPair l r = some p) (hnos : p.nomOnSuccess = true) (hdn : p.deferredNom = some v) :
    (a.handleInbound now l src m).1.selected =
      match a.lastNomination with
      | some last => if v < last then a.selected else some p.id
      | none => a.selected := by
  rw [handleInbound_success a now l src m r hm hc hk hr]
  exact handleSuccess_deferred a now m l r src hctl htp hnet hdest hsrc hfp hnos hdn

/-! ## Smaller or equal values never change the selection -/

/-- NOW.  For every state of a controlled agent: an authenticated, non-conflicting request from a source that
resolves whose nomination value is `≤ lastNomination` is answered with one success response and otherwise only
counted: the resulting state is exactly "pair found-or-added, request counted, response counted, liveness
refreshed".  In particular the selection, `lastNomination`, and every pair's state / nominated /
nomOnSuccess / deferredNom are unchanged (the checklist grows at most by fresh pairs: peer-reflexive discovery
and the pair of an unseen (local, remote) combination). -/
theorem C20_smaller_never_changes (a : Agent) (now : Nat) (l : Cand) (src : Nat) (m : Msg) (v last : Nat)
    (hauth : AuthRequest a m) (hctl : a.controlling = false) (hnc : ∀ tb, m.role ≠ some (a.controlling, tb))
    (hnom : m.nom = some v) (hlast : a.lastNomination = some last) (hle : v ≤ last)
    {a1 : Agent} {o0 : List Out} {r : Cand} (hres : resolveSource a l src m = (a1, o0, some r)) :
    a.handleInbound now l src m
      = (((counted a1 m l r).sendSuccess now m l r).1.seenRemoteRecv r.uid now,
         [Out.dgram l.addr r.addr (successResponse m a.localPwd)]) ∧
    (a.handleInbound now l src m).1.selected = a.selected ∧
    (a.handleInbound now l src m).1.lastNomination = a.lastNomination ∧
    ∃ extra : List Pair,
      (a.handleInbound now l src m).1.checklist.map nv = a.checklist.map nv ++ extra.map nv ∧
      ∀ p ∈ extra, FreshPair p := by
  have hd := (resolveSource_discovered a l src m).1
  have hcr := core_resolveSource a l src m
  rw [hres] at hcr hd
  simp only at hcr hd
  have hln : a1.lastNomination = a.lastNomination := congrArg IceProofs.Agent.Core.lastNomination hcr
  have hpw : a1.localPwd = a.localPwd := congrArg IceProofs.Agent.Core.localPwd hcr
  have heq : a.handleInbound now l src m
      = (((counted a1 m l r).sendSuccess now m l r).1.seenRemoteRecv r.uid now,
         [Out.dgram l.addr r.addr (successResponse m a.localPwd)]) := by
    rw [handleInbound_cld a now l src m hauth hctl ((roleConflict_eq_none a m).2 hnc) hres]
    rw [cld_rejected a1 now m l r v last hnom (by rw [hln]; exact hlast) hle, sendSuccess_out]
    have : (counted a1 m l r).localPwd = a.localPwd :=
      (congrArg IceProofs.Agent.Core.localPwd (by unfold counted; simp : (counted a1 m l r).core = a1.core)).trans hpw
    rw [this]; rfl
  have hview : nomView (a.handleInbound now l src m).1 = nomView (counted a1 m l r) := by
    rw [heq]; simp
  obtain ⟨hsel, extra1, hx1, hf1⟩ := counted_spec a1 m l r
  obtain ⟨extra0, hx0, hf0⟩ := hd.pairs
  refine ⟨heq, ?_, ?_, extra0 ++ extra1, ?_, ?_⟩
  · have := congrArg Prod.fst hview
    simp only [nomView] at this
    rw [this, hsel, hd.selected]
  · rw [heq]
    have : (((counted a1 m l r).sendSuccess now m l r).1.seenRemoteRecv r.uid now).core = a1.core := by
      unfold counted; simp
    exact (congrArg IceProofs.Agent.Core.lastNomination this).trans hln
  · have := congrArg Prod.snd hview
    simp only [nomView] at this
    rw [this, hx1, hx0]
    simp [List.map_append, List.append_assoc]
  · intro p hp
    simp only [List.mem_append] at hp
    rcases hp with hp | hp
    · exact hf0 p hp
    · exact hf1 p hp

/-- LATER.  A deferred nomination whose value is smaller than the current `lastNomination` never changes the
selection when its pair validates (nor does one that outlived its selector, `lastNomination = none`). -/
theorem C20_smaller_never_changes_deferred (a : Agent) (now : Nat) (l : Cand) (src : Nat) (m : Msg) (r : Cand)
    (hm : m.method = 1) (hc : m.cls = 2) (hk : m.key = some a.remotePwd) (hr : a.findRemote l.net src = some r)
    (hctl : a.controlling = false) {a' : Agent} {pd : Pending} {p : Pair} {v : Nat}
    (htp : a.takePending now m.tid = (a', some pd)) (hnet : pd.net = l.net) (hdest : pd.dest = src)
    (hsrc : pd.src = l.addr)
    (hfp : a.findPair l r = some p) (hnos : p.nomOnSuccess = true) (hdn : p.deferredNom = some v)
    (hsmaller : ∀ last, a.lastNomination = some last → v < last) :
    (a.handleInbound now l src m).1.selected = a.selected := by
  rw [C20_switch_when_valid_completes a now l src m r hm hc hk hr hctl htp hnet hdest hsrc hfp hnos hdn]
  cases hl : a.lastNomination with
  | none => rfl
  | some last => simp [hsmaller last hl]

/-! ## Only a controlling agent with the feature enabled can renominate -/

/-- `RenominateCandidate` (`.renominate`) in every state: unless the agent is controlling AND renomination is
enabled AND the pair exists, the state is unchanged and the only output is the error; when it sends, it sends
exactly one Binding request on that pair carrying USE-CANDIDATE, ICE-CONTROLLING with the agent's tie-breaker,
and the nomination value iff it is positive. -/
theorem C20_only_controlling_enabled (a : Agent) (now la ri value : Nat) :
    (a.controlling = false → step a (.renominate now la ri value) = (a, [.res "err:notcontrolling"])) ∧
    (a.controlling = true → a.cfg.enableRenomination = false →
      step a (.renominate now la ri value) = (a, [.res "err:notenabled"])) ∧
    (a.controlling = true → a.cfg.enableRenomination = true →
      (∀ l r, a.localByAddr la = some l → a.remotes[ri]? = some r → a.findPair l r = none) →
      step a (.renominate now la ri value) = (a, [.res "err:notfound"])) ∧
    (∀ l r p, a.controlling = true → a.cfg.enableRenomination = true →
      a.localByAddr la = some l → a.remotes[ri]? = some r → a.findPair l r = some p →
      ∃ msg, (step a (.renominate now la ri value)).2 = [.dgram l.addr r.addr msg, .res "ok"] ∧
        msg.cls = 0 ∧ msg.method = 1 ∧ msg.useCand = true ∧ msg.role = some (true, a.tieBreaker) ∧
        msg.nom = (if value > 0 then some value else none) ∧
        msg.key = some a.remotePwd ∧ msg.user = some (a.remoteUfrag ++ ":" ++ a.localUfrag)) := by
  refine ⟨?_, ?_, ?_, ?_⟩
  · intro h; simp [step, h]
  · intro h1 h2; simp [step, h1, h2]
  · intro h1 h2 h3
    simp only [step, h1, h2, Bool.not_true, Bool.false_eq_true, if_false]
    cases hl : a.localByAddr la with
    | none => rfl
    | some l =>
      cases hr : a.remotes[ri]? with
      | none => rfl
      | some r => simp [h3 l r hl hr]
  · intro l r p h1 h2 hl hr hp
    have hstep : (step a (.renominate now la ri value)).2
        = (a.sendRequest now l r true (if value > 0 then some value else none)).2 ++ [.res "ok"] := by
      simp only [step, h1, h2, Bool.not_true, Bool.false_eq_true, if_false, hl, hr, hp]
    rw [hstep, sendRequest_out]
    exact ⟨_, rfl, rfl, rfl, rfl, by rw [h1], rfl, rfl, rfl⟩

/-! ## Non-vacuity: the F8 scenarios of `corpus/C20/agent.ops` and the hypotheses of every theorem, by `decide` -/

def exLocal : Cand := { uid := 0, ty := 1, net := 0, addr := 16, prio := 2130706431 }
def exHi : Cand := { uid := 0, ty := 1, net := 0, addr := 176, prio := 2130706431 }
def exLo : Cand := { uid := 0, ty := 1, net := 0, addr := 192, prio := 100 }
/-- a started controlled full agent with one local candidate and two remotes: pair 1 (high priority, to 176) and
pair 2 (low priority, to 192); its first tick sent checks with transaction ids 2 and 4 -/
def exAgent : Agent :=
  run { localUfrag := "uA", localPwd := "pA", tieBreaker := 3 }
    [.addLocal 0 exLocal, .addRemote 0 exHi, .addRemote 0 exLo, .start 0 false "uB" "pB"]
/-- authenticated request from the controlling peer with USE-CANDIDATE and nomination value `v` -/
def nomReq (tid v : Nat) : Msg :=
  { cls := 0, tid := tid, user := some "uA:uB", key := some "pA", prio := some 100, useCand := true,
    role := some (true, 9), nom := some v }
/-- authenticated success response to the agent's transaction `tid` -/
def okResp (tid : Nat) : Msg := { cls := 2, tid := tid, key := some "pB" }
def exL : Cand := (exAgent.localByAddr 16).getD default

/-- F8 (a): nomination 1 on the valid high-priority pair, nomination 2 on the not-yet-valid low-priority pair, that
pair validates, then a stale nomination 1 arrives again -/
def scenA : List Ev :=
  [.inbound 1 16 176 (okResp 2), .inbound 2 16 176 (nomReq 101 1), .inbound 3 16 192 (nomReq 102 2),
   .inbound 4 16 192 (okResp 4), .inbound 5 16 176 (nomReq 103 1)]
/-- F8 (b): deferred nomination 5 on pair 2, accepted nomination 7 on pair 1, then pair 2 validates -/
def scenB : List Ev :=
  [.inbound 1 16 192 (nomReq 101 5), .inbound 2 16 176 (okResp 2), .inbound 3 16 176 (nomReq 102 7),
   .inbound 4 16 192 (okResp 4)]

-- (a): immediate switch to pair 1; value 2 deferred on pair 2; on validation pair 2 (LOWER priority) is selected;
-- the stale value 1 changes nothing
example : (run exAgent (scenA.take 2)).selected = some 1 ∧ (run exAgent (scenA.take 3)).selected = some 1
    ∧ (run exAgent (scenA.take 4)).selected = some 2 ∧ (run exAgent scenA).selected = some 2
    ∧ (run exAgent scenA).lastNomination = some 2 := by decide
example : ((run exAgent (scenA.take 3)).pairById 2).map nv = some (2, PairState.inProgress, false, true, some 2) := by
  decide
example : (run exAgent (scenA.take 4)).checklist.map nv = (run exAgent scenA).checklist.map nv := by decide
example : (run exAgent scenA).pairPrio (((run exAgent scenA).pairById 2).getD default)
    < (run exAgent scenA).pairPrio (((run exAgent scenA).pairById 1).getD default) := by decide
-- (b): the deferred value 5 is superseded by 7: when pair 2 validates the selection stays on pair 1
example : (run exAgent (scenB.take 3)).selected = some 1 ∧ (run exAgent scenB).selected = some 1
    ∧ (run exAgent scenB).lastNomination = some 7 := by decide
-- … and the mark is cleared once the pair's success response has been acted upon
example : ((run exAgent scenB).pairById 2).map nv = some (2, PairState.succeeded, false, false, none) := by decide

-- `C20_accept_only_greater` / `C20_lastNomination_max`: the runs are stable, offers and logs are as expected
example : stable exAgent scenA = true ∧ acceptedLog exAgent scenA = [1, 2]
    ∧ offer (run exAgent (scenA.take 4)) (.inbound 5 16 176 (nomReq 103 1)) = some 1
    ∧ accepted (run exAgent (scenA.take 4)) (.inbound 5 16 176 (nomReq 103 1)) = none
    ∧ offer (run exAgent (scenA.take 2)) (.inbound 3 16 192 (nomReq 102 2)) = some 2
    ∧ accepted (run exAgent (scenA.take 2)) (.inbound 3 16 192 (nomReq 102 2)) = some 2 := by decide
example : stable exAgent scenB = true ∧ acceptedLog exAgent scenB = [5, 7]
    ∧ optMax none [5, 7] = some 7 ∧ optLe (some 5) (some 7) := by decide
-- equal values are rejected, arrival order does not matter (7 then 5: 5 rejected)
example : acceptedLog exAgent [.inbound 1 16 176 (nomReq 101 7), .inbound 2 16 192 (nomReq 102 5),
    .inbound 3 16 192 (nomReq 103 7), .inbound 4 16 192 (nomReq 104 8)] = [7, 8] := by decide
-- a reset (lost role conflict: controlled, own 3 ≥ theirs 2) makes the run unstable and clears `lastNomination`
example : stable exAgent [.inbound 1 16 176 (nomReq 101 7),
      .inbound 2 16 176 { nomReq 102 1 with role := some (false, 2) }] = false
    ∧ (run exAgent [.inbound 1 16 176 (nomReq 101 7),
      .inbound 2 16 176 { nomReq 102 1 with role := some (false, 2) }]).lastNomination = none := by decide

/-- decidable rendering of the hypotheses shared by `C20_switch_when_valid`, `C20_switch_when_valid_deferred`,
`C20_smaller_never_changes` (for the examples only): authenticated, controlled, no conflict, source resolves -/
def reqHyps (a : Agent) (l : Cand) (src : Nat) (m : Msg) : Bool :=
  decide (AuthRequest a m) && !a.controlling && (roleConflict a m).isNone && (resolveSource a l src m).2.2.isSome
/-- state of the pair the request is handled on -/
def targetState (a : Agent) (l : Cand) (src : Nat) (m : Msg) : Option PairState :=
  match resolveSource a l src m with
  | (a1, _, some r) => ((ensurePair a1 l r).1.pairById (ensurePair a1 l r).2.id).map (·.state)
  | _ => none

-- hypotheses of `C20_switch_when_valid` (valid target, greater value) hold before step 2 of (a) …
example : reqHyps (run exAgent (scenA.take 1)) exL 176 (nomReq 101 1) = true
    ∧ targetState (run exAgent (scenA.take 1)) exL 176 (nomReq 101 1) = some .succeeded
    ∧ (run exAgent (scenA.take 1)).lastNomination = none := by decide
-- … those of `C20_switch_when_valid_deferred` (target not valid, full agent, 2 > 1) before step 3 …
example : reqHyps (run exAgent (scenA.take 2)) exL 192 (nomReq 102 2) = true
    ∧ targetState (run exAgent (scenA.take 2)) exL 192 (nomReq 102 2) = some .inProgress
    ∧ (run exAgent (scenA.take 2)).cfg.lite = false ∧ (run exAgent (scenA.take 2)).lastNomination = some 1 := by decide
-- … those of `C20_smaller_never_changes` (1 ≤ 2) before step 5, also from an unknown source (prflx discovery)
example : reqHyps (run exAgent (scenA.take 4)) exL 176 (nomReq 103 1) = true
    ∧ reqHyps (run exAgent (scenA.take 4)) exL 208 (nomReq 103 2) = true
    ∧ (run exAgent (scenA.take 4)).lastNomination = some 2 := by decide
example :
    let r := (run exAgent (scenA.take 4)).handleInbound 5 exL 208 (nomReq 103 2)
    r.1.selected = some 2 ∧ r.1.checklist.length = 3 ∧ r.1.lastNomination = some 2 := by decide

/-- decidable rendering of the hypotheses of `C20_switch_when_valid_completes` (examples only) -/
def completesHyps (a : Agent) (now : Nat) (l : Cand) (src : Nat) (m : Msg) : Option (Nat × Option Nat) :=
  match a.findRemote l.net src, (a.takePending now m.tid).2 with
  | some r, some pd =>
    if m.method == 1 && m.cls == 2 && m.key == some a.remotePwd && !a.controlling && pd.net == l.net && pd.dest == src && pd.src == l.addr then
      (a.findPair l r).bind fun p => if p.nomOnSuccess then some (p.id, p.deferredNom) else none
    else none
  | _, _ => none
-- (a) step 4: deferred 2 on pair 2 with lastNomination = 2 → selected; (b) step 4: deferred 5 with lastNomination = 7 → not
example : completesHyps (run exAgent (scenA.take 3)) 4 exL 192 (okResp 4) = some (2, some 2)
    ∧ completesHyps (run exAgent (scenB.take 3)) 4 exL 192 (okResp 4) = some (2, some 5) := by decide

/-- a controlling agent with renomination enabled, pair 1 valid -/
def exCtl : Agent :=
  run { localUfrag := "uA", localPwd := "pA", tieBreaker := 3, cfg := { enableRenomination := true } }
    [.addLocal 0 exLocal, .addRemote 0 exHi, .start 0 true "uB" "pB"]
def dgramsOf (o : List Out) : List (Nat × Nat × Msg) := o.filterMap fun | .dgram f t m => some (f, t, m) | _ => none
-- sends exactly one request with USE-CANDIDATE, ICE-CONTROLLING and the value; value 0 → no value attribute
example : (dgramsOf (step exCtl (.renominate 1 16 0 5)).2).map (fun x => (x.1, x.2.1, x.2.2.useCand, x.2.2.nom))
    = [(16, 176, true, some 5)]
    ∧ (dgramsOf (step exCtl (.renominate 1 16 0 5)).2).map (fun x => x.2.2.role) = [some (true, 3)]
    ∧ (dgramsOf (step exCtl (.renominate 1 16 0 0)).2).map (fun x => x.2.2.nom) = [none] := by decide
-- refused: controlled agent; feature disabled; unknown pair
example : dgramsOf (step exAgent (.renominate 1 16 0 5)).2 = []
    ∧ dgramsOf (step { exCtl with cfg := {} } (.renominate 1 16 0 5)).2 = []
    ∧ dgramsOf (step exCtl (.renominate 1 16 3 5)).2 = [] ∧ dgramsOf (step exCtl (.renominate 1 17 0 5)).2 = [] := by
  decide

/-! ## Two agents: the exchange on `Sys2` (sentence 2 of the property)

System: `IceModel.Sys2` (two `AgentCore` agents A = `false`, B = `true`, a hub that holds every datagram until the
schedule delivers, duplicates or drops it, a NAT map, one-way blocks) as the transition system
`IceProofs.Sys2Run` (`SysEv`: API call of either agent, `deliver k`, `dup k`, `drop k`, `advance now`).

Vocabulary (`IceProofs.C20S`; every item is a decidable, executable definition):
* `Fresh s0` — two freshly created agents (no candidates, pairs, selection, transactions, caches), nothing in flight;
  configuration, credentials, tie-breakers, topology arbitrary.
* `Established s1` — the session is up and renomination has not begun: `Session s1` (both started and open, A
  controlling, B controlled and a full agent, nobody Failed); no nomination VALUE in flight; A has no valued transaction
  outstanding and has processed no response to one; B has accepted no value; no pair of B carries a deferred value.
  Ordinary nominations (USE-CANDIDATE without value) may be in flight, outstanding or deferred, and neither agent need
  have selected a pair yet.
* `Exchange s1 ex` — the course of the exchange: no Restart, no Close, and every state along `ex` is a `Session`
  (so: no role conflict lost, nobody enters Failed).  Everything else is allowed: any API call (signalling of further
  candidates, data, ticks …), any delivery order, duplication, loss.
* `hist s1 ex : Hist` — the monotone history of the exchange, accumulated over the agent events the schedule makes the
  agents execute (`microEvs`), each judged in the state the agent executes it in:
  `issued` = the log of nominations A issued (`issueOf`: `RenominateCandidate` answered `ok`; entry = value, local
  address, remote address); `answered` = the log of nominations whose success response A processed (`answerOf`: an
  authenticated response that matches an outstanding, unexpired, symmetric transaction of a listed pair);
  `accepted` = the value B accepted last (`accepted` of the single-agent theorems) with the local address the request
  arrived on and its source address.
* `Quiesced s` — "the exchange has quiesced": (1) no STUN message carrying a nomination value is in flight, (2) A has
  no valued nomination transaction outstanding, (3) the highest value B has accepted is not still waiting, as a
  deferred nomination, for the validation of its pair.
  Conjunct by conjunct against the text: (1) a request still in flight can be accepted and move B, its response can
  move A; (2) an outstanding transaction means a response may still come (or came and is among (1)); without (1)+(2)
  the selections can still change, with them no event other than a NEW `RenominateCandidate` moves an existing
  selection (`C20_quiesced_rests`); (3) a deferred nomination with B's highest value waiting for its pair's check is a
  nomination B has accepted but not yet acted upon — B's selection still lags behind its own `lastNomination`
  (deferred nominations with smaller values, and deferred ordinary nominations, may wait for ever: they no longer
  move the selection).  Only (3) is used by the proof of the agreement theorem (the premise `hA` below already pins
  the traffic that matters); (1) and (2) make the state final; satisfiable: see the examples.
* `mirror nat la ra = (unmapped ra, mapped la)` — the mirror image modulo NAT of A's address pair `(la, ra)`, as in
  `C01_mirror_partial`: B's local address is the real address behind `ra`, B's remote address is `la` seen through the
  NAT.  `selAddrs x` = (local address, remote address) of the selected pair of agent `x`.
-/
section TwoAgents
open IceModel.Sys2 (Sys Dgram)
open IceProofs.Sys2Run IceProofs.C20S

/-- **C20_history_vocabulary** — the three kinds of step the history records, unfolded (any state, any event):
* `issueOf a e = some (v, la, ra)` iff `e` is `RenominateCandidate la ri v` on a controlling agent with the feature
  enabled, `la` is the address of a local candidate, `ra` the address of remote candidate number `ri`, and their pair
  exists — which is exactly when `step` answers `ok` (otherwise it answers an error and sends nothing,
  `C20_only_controlling_enabled`);
* `answerOf a e = some (pd, id)` iff `e` delivers, to an open started agent on an existing local candidate, a Binding
  success response with MESSAGE-INTEGRITY under the remote password from a known source, `pd` is the outstanding,
  unexpired transaction with its id (`takePending`), the response is symmetric to it (`responseSymmetric`: network
  type, destination, source) and `id` is the pair of the two candidates;
* `acceptAt a e = some (v, la, src)` iff `e = .inbound _ la src _` and `accepted a e = some v` (`C20_offer_iff`,
  `C20_accept_step`: the controlled selector is handed the value and `shouldAcceptNomination` accepts it). -/
theorem C20_history_vocabulary (a : Agent) (e : Ev) :
    (∀ v la ra, issueOf a e = some (v, la, ra) ↔
      ∃ now ri l r, e = .renominate now la ri v ∧ a.controlling = true ∧ a.cfg.enableRenomination = true ∧
        a.localByAddr la = some l ∧ a.remotes[ri]? = some r ∧ (a.findPair l r).isSome = true ∧ ra = r.addr) ∧
    (∀ now la ri v, (issueOf a (.renominate now la ri v)).isSome = true ↔
      Out.res "ok" ∈ (step a (.renominate now la ri v)).2) ∧
    (∀ pd id, answerOf a e = some (pd, id) ↔
      ∃ now la src m l r p, e = .inbound now la src m ∧ a.closed = false ∧ a.started = true ∧
        a.localByAddr la = some l ∧ m.method = 1 ∧ m.cls = 2 ∧ m.key = some a.remotePwd ∧
        a.findRemote l.net src = some r ∧ (a.takePending now m.tid).2 = some pd ∧
        pd.net = l.net ∧ pd.dest = src ∧ pd.src = l.addr ∧ a.findPair l r = some p ∧ p.id = id) ∧
    (∀ v la src, acceptAt a e = some (v, la, src) ↔ ∃ now m, e = .inbound now la src m ∧ accepted a e = some v) := by
  refine ⟨fun v la ra => issueOf_iff a e v la ra, fun now la ri v => issueOf_iff_ok a now la ri v,
    fun pd id => answerOf_iff a e pd id, fun v la src => ?_⟩
  cases e with
  | inbound now la' src' m =>
    simp only [acceptAt, Option.map_eq_some_iff, Prod.mk.injEq, Ev.inbound.injEq]
    constructor
    · rintro ⟨v', h1, rfl, rfl, rfl⟩
      exact ⟨now, m, ⟨rfl, rfl, rfl, rfl⟩, h1⟩
    · rintro ⟨now', m', ⟨_, rfl, rfl, _⟩, h1⟩
      exact ⟨v, h1, rfl, rfl, rfl⟩
  | _ =>
    constructor
    · intro h; cases h
    · rintro ⟨_, _, h, _⟩; cases h

/-- **C20_accepted_le_issued** — in every state of every exchange, the highest value B has accepted was issued by A
(`RenominateCandidate` answered `ok` with that value, or A's automatic check nominated with it: the log `issued`
accumulates `IceProofs.C20S.issuesOf`, see `C20_issues_vocabulary`).  No credential hypothesis: the system is closed, a
nomination value enters the wire only as a nomination the emitting agent issues in that very step
(`IceProofs.C20S.step_out_nom`, any state, any event). -/
theorem C20_accepted_le_issued (s0 : Sys) (pre ex : List SysEv) (s1 s : Sys) (hs1 : s1 = Sys.runs s0 pre)
    (hs : s = Sys.runs s1 ex) (hf : Fresh s0) (he : Established s1) (hex : Exchange s1 ex)
    (hz : PositiveValues (hist s1 ex).issued) (v : Nat) (hv : s.b.lastNomination = some v) :
    ∃ la ra, (v, la, ra) ∈ (hist s1 ex).issued := by
  subst hs1 hs
  exact accepted_le_issued hf pre ex he hex hz v hv

/-- **C20_controlled_selects_max_accepted** — in every state of every exchange: B's highest accepted value `v` was
issued by A on an address pair `(la, ra)`, B accepted it on the mirror image of that pair (modulo NAT), and that pair
is B's selected pair — or still carries `v` as a deferred nomination (`nomOnSuccess`, `deferredNom = some v`, not yet
valid).  So after every nomination-driven switch B's selection carries B's largest accepted value, whatever the arrival
order, duplication or loss of requests and responses, and whatever the priorities. -/
theorem C20_controlled_selects_max_accepted (s0 : Sys) (pre ex : List SysEv) (s1 s : Sys)
    (hs1 : s1 = Sys.runs s0 pre) (hs : s = Sys.runs s1 ex) (hf : Fresh s0) (he : Established s1)
    (hex : Exchange s1 ex) (hz : PositiveValues (hist s1 ex).issued) (v : Nat)
    (hv : s.b.lastNomination = some v) :
    ∃ la ra, (v, la, ra) ∈ (hist s1 ex).issued ∧
      (hist s1 ex).accepted = some (v, (mirror s0.nat la ra).1, (mirror s0.nat la ra).2) ∧
      (selAddrs s.b = some (mirror s0.nat la ra) ∨
       ∃ p ∈ s.b.checklist, pairAddrs s.b p.id = some (mirror s0.nat la ra) ∧
         p.nomOnSuccess = true ∧ p.deferredNom = some v ∧ p.state ≠ .succeeded) := by
  subst hs1 hs
  exact controlled_selects_max_accepted hf pre ex he hex hz v hv

/-- **C20_controlling_selects_max_answered** — in every state of every exchange, once A has processed the success
response to a nomination, A's selected pair is the pair of the answered nomination with the GREATEST value: responses
processed out of order, or to a nomination B rejected, do not move it (fix of F28). -/
theorem C20_controlling_selects_max_answered (s0 : Sys) (pre ex : List SysEv) (s1 s : Sys)
    (hs1 : s1 = Sys.runs s0 pre) (hs : s = Sys.runs s1 ex) (hf : Fresh s0) (he : Established s1)
    (hex : Exchange s1 ex) (hz : PositiveValues (hist s1 ex).issued) (x : Nomination)
    (hx : x ∈ (hist s1 ex).answered) :
    ∃ y ∈ (hist s1 ex).answered, y ∈ (hist s1 ex).issued ∧ (∀ z ∈ (hist s1 ex).answered, z.1 ≤ y.1) ∧
      selAddrs s.a = some (y.2.1, y.2.2) := by
  subst hs1 hs
  exact controlling_selects_max_answered hf pre ex he hex hz x hx

/-- **C20_answered_le_accepted** — in every state of every exchange: B has handed every nomination whose response A
has processed to its selector, so B's highest accepted value is at least that nomination's value.  (Transaction ids:
A hands out even ids below `2·nextTid`, B odd ids; a request in flight with the id of an outstanding valued transaction
of A is that nomination and carries ICE-CONTROLLING, so A itself never answers it; a success response with that id
was emitted by B's controlled selector after `shouldAcceptNomination`.) -/
theorem C20_answered_le_accepted (s0 : Sys) (pre ex : List SysEv) (s1 s : Sys)
    (hs1 : s1 = Sys.runs s0 pre) (hs : s = Sys.runs s1 ex) (hf : Fresh s0) (he : Established s1)
    (hex : Exchange s1 ex) (hz : PositiveValues (hist s1 ex).issued) (x : Nomination)
    (hx : x ∈ (hist s1 ex).answered) :
    ∃ last, s.b.lastNomination = some last ∧ x.1 ≤ last := by
  subst hs1 hs
  exact answered_le_accepted hf pre ex he hex hz x hx

/-- **C20_quiescent_agreement** — sentence 2 of the property, for ALL schedules `pre` (from two fresh agents to an
established session) and `ex` (the exchange: any API calls, any delivery order, duplication, loss): if the exchange has
quiesced, `x = (v, la, ra)` is the nomination with the highest value A issued and (`hA`) A has processed the success
response to `x`, THEN A's selected pair is `(la, ra)` and B's selected pair is its mirror image modulo NAT.  (That B
has accepted `v` follows: `C20_answered_le_accepted` and `C20_accepted_le_issued`.)

The hypotheses, and why each is there:
* `hA` — the exchange of the highest nomination COMPLETED (it was not lost).  This is the one behavioural hypothesis,
  and it is forced: a nomination is sent once and never retransmitted, so when its request or its response is dropped
  (or its transaction expires first) the state quiesces with A — and, if the request was lost, B too — still on the
  pair of an earlier nomination (`C20_quiescent_agreement_needs_completed_witness`; W4 in notes/C20sys.md, replayed
  on the real agents; not fixed in the code).  `hA` no longer says anything about ORDER: the response may have been
  processed before or after those of other nominations (fix of F28).
* `hmax` (`IsMax`) — `x` carries the highest value issued and is the only nomination with that value;
  `PositiveValues` — value 0 is sent without the attribute, i.e. as an ordinary nomination.
* `Established` / `Exchange` — scope: the values of this exchange are the first ones (no value in flight, answered or
  accepted before), and no Restart / Close / Failed / lost role conflict while the exchange runs (these re-install the
  selector or wipe the checklist; `C20_reset_clears`).  Ordinary nominations — in flight, outstanding, deferred — are
  allowed everywhere (fixes of F29, F30, F31: they no longer move B off the pair of an accepted value). -/
theorem C20_quiescent_agreement (s0 : Sys) (pre ex : List SysEv) (s1 s : Sys)
    (hs1 : s1 = Sys.runs s0 pre) (hs : s = Sys.runs s1 ex) (hf : Fresh s0) (he : Established s1)
    (hex : Exchange s1 ex) (hz : PositiveValues (hist s1 ex).issued) (x : Nomination)
    (hq : Quiesced s) (hmax : IsMax (hist s1 ex).issued x) (hA : x ∈ (hist s1 ex).answered) :
    selAddrs s.a = some (x.2.1, x.2.2) ∧ selAddrs s.b = some (mirror s0.nat x.2.1 x.2.2) := by
  subst hs1 hs
  exact quiescent_agreement hf pre ex he hex hz x hq hmax hA

/-- **C20_quiesced_rests** — `Quiesced` is final: from a quiesced state of an exchange, along EVERY continuation `ex2`
in which A issues no nomination again — it does not call `RenominateCandidate` (`ExchangeK rests`: no Restart / Close /
RenominateCandidate among the API events, every state a `Session`) and its automatic check does not fire (`hno`: the log
of issued nominations is the same at the end of `ex2`; with `WithAutomaticRenomination` off that is automatic) — any
deliveries, duplicates, drops, ticks, signalling, data — the state stays
quiesced; a pair A has selected stays selected (same id, same addresses); B's highest accepted value stays, and once B
has accepted a value a pair B has selected stays selected.  So with conjuncts (1) and (2) of `Quiesced` no datagram in
flight can still move an agreed selection.  (Where nothing is selected yet, or B has accepted no value, an ordinary
nomination may still select: that is the ordinary ICE nomination.) -/
theorem C20_quiesced_rests (s0 : Sys) (pre ex ex2 : List SysEv) (s1 s s2 : Sys) (hs1 : s1 = Sys.runs s0 pre)
    (hs : s = Sys.runs s1 ex) (hs2 : s2 = Sys.runs s ex2) (hf : Fresh s0) (he : Established s1)
    (hex : Exchange s1 ex) (hz : PositiveValues (hist s1 ex).issued) (hq : Quiesced s)
    (hex2 : ExchangeK rests s ex2) (hno : (histFrom (hist s1 ex) s ex2).issued = (hist s1 ex).issued) :
    Quiesced s2 ∧ (∀ id, s.a.selected = some id → s2.a.selected = some id) ∧
    (∀ x, selAddrs s.a = some x → selAddrs s2.a = some x) ∧
    s2.b.lastNomination = s.b.lastNomination ∧
    (s.b.lastNomination.isSome = true →
      (∀ id, s.b.selected = some id → s2.b.selected = some id) ∧
      (∀ x, selAddrs s.b = some x → selAddrs s2.b = some x)) := by
  subst hs1 hs hs2
  exact quiesced_rests hf pre ex ex2 he hex hz hq hex2 hno

end TwoAgents

/-! ### non-vacuity and witnesses (two real-agent replays of each are in corpus/C20/agent.ops) -/

namespace Sys2Example
open IceModel.Sys2 (Sys)
open IceProofs.Sys2Run
/-- A (tie-breaker 9, renomination enabled) with one host candidate at address 16; B (tie-breaker 5) with two host
candidates at 176 (high priority) and 192 (lower priority); no NAT -/
def s0 : Sys :=
  { a := { cfg := { enableRenomination := true }, tieBreaker := 9, localUfrag := "uA0", localPwd := "pA0" },
    b := { tag := 1, tieBreaker := 5, localUfrag := "uB0", localPwd := "pB0" }, hasB := true }
def hostA : Cand := { uid := 0, ty := 1, net := 0, addr := 16, prio := 2130706431 }
def hostB1 : Cand := { uid := 0, ty := 1, net := 0, addr := 176, prio := 2130706431 }
def hostB2 : Cand := { uid := 0, ty := 1, net := 0, addr := 192, prio := 2130706175 }
def dl (l : List Nat) : List SysEv := l.map .deliver
def drain (n : Nat) : List SysEv := List.replicate n (.deliver 0)
/-- candidates, signalling, A starts controlling, B controlled -/
def setup : List SysEv :=
  [.api false (.addLocal 0 hostA), .api true (.addLocal 0 hostB1), .api true (.addLocal 0 hostB2),
   .api false (.addRemote 0 hostB1), .api false (.addRemote 0 hostB2), .api true (.addRemote 0 hostA),
   .api false (.start 0 true "uB0" "pB0"), .api true (.start 0 false "uA0" "pA0")]
/-- … checks, the ordinary nomination of pair 16–176 and everything else delivered: both agents on 16–176 -/
def pre : List SysEv := setup ++ drain 12 ++ [.advance 200000000] ++ drain 12
/-- three renominations (1 on 16–192, 2 on 16–176, 3 on 16–192); B receives request 3 first (a duplicate), then 1,
then 3 again, then 2; A processes the responses of 1, 2, 3 in this order, the second response to 3 last -/
def exOk : List SysEv :=
  [.api false (.renominate 200000000 16 1 1), .api false (.renominate 200000000 16 0 2),
   .api false (.renominate 200000000 16 1 3), .dup 2] ++ dl [0, 1, 0, 1, 2, 0, 0]
/-- after `exOk`: two keepalive rounds with everything delivered, a duplicate and a drop -/
def exRest : List SysEv :=
  [.advance 2200000000] ++ drain 2 ++ [.dup 0] ++ drain 3 ++ [.advance 4400000000, .drop 0] ++ drain 4
/-- two renominations with increasing values (1 on 16–192, 2 on 16–176), requests delivered in order, the two
responses in reverse order -/
def exReordered : List SysEv :=
  [.api false (.renominate 200000000 16 1 1), .api false (.renominate 200000000 16 0 2)] ++ dl [0, 0, 1, 0]
/-- value 5 on 16–192 (completed), then value 3 on 16–176: B rejects it and answers with a success response -/
def exDecreasing : List SysEv :=
  [.api false (.renominate 200000000 16 1 5)] ++ dl [0, 0] ++ [.api false (.renominate 200000000 16 0 3)] ++ dl [0, 0]
/-- value 1 on 16–192 (completed), then value 2 on 16–176 whose request is dropped; 4.1 s later the transaction has
expired (two keepalive rounds delivered) -/
def exLost : List SysEv :=
  [.api false (.renominate 200000000 16 1 1)] ++ dl [0, 0] ++ [.api false (.renominate 200000000 16 0 2), .drop 0,
   .advance 4300000000] ++ drain 8
/-- as `pre`, but A's tick sends a second ordinary nomination of 16–176 and the first one is still in flight -/
def preStale : List SysEv := setup ++ drain 8 ++ [.advance 200000000] ++ dl [0, 1, 0, 3, 1, 1, 1, 1, 1, 1]
/-- one renomination (1 on 16–192), completed on both sides; then the stale ordinary nomination arrives -/
def exStale : List SysEv := [.api false (.renominate 200000000 16 1 1)] ++ dl [1, 1, 1, 1, 1, 1] ++ dl [0, 0, 0, 0, 0]
/-- A's ordinary nomination of 16–176 reaches B before B's own check of that pair has succeeded (deferred, mark set,
then completed); after 2 s B's keepalive on the pair is in flight -/
def preMarked : List SysEv :=
  setup ++ dl [0, 3] ++ [.advance 200000000] ++ dl [4, 1, 7] ++ drain 14 ++ [.advance 2200000000] ++ dl [1, 0, 1]
/-- one renomination (1 on 16–192), completed on both sides; then the keepalive is answered -/
def exMarked : List SysEv := [.api false (.renominate 2200000000 16 1 1)] ++ dl [1, 1] ++ dl [0, 0]
/-- A's checks have succeeded, B's check of 16–176 has not; A's tick sends the ordinary nomination of 16–176; nobody
has selected anything yet -/
def preEarly : List SysEv := setup ++ dl [0, 0, 2, 3, 1, 3] ++ [.advance 200000000]
/-- value 1 on 16–192 (completed), value 2 on 16–176: deferred at B (pair not yet valid) and answered; then the
ordinary nomination of 16–176 arrives at B (it must not overwrite the deferred value 2), then B's check of 16–176
succeeds; everything else delivered -/
def exEarly : List SysEv :=
  [.api false (.renominate 200000000 16 1 1)] ++ dl [5, 5] ++ [.api false (.renominate 200000000 16 0 2)] ++
    dl [5, 5, 3, 0, 6] ++ drain 8

/-- the same agents with A behind a NAT: A's address 16 is seen as 336 -/
def s0Nat : Sys := { s0 with nat := [(16, 336)] }
/-- A's server-reflexive candidate, as signalled to B -/
def srflxA : Cand := { uid := 0, ty := 2, net := 0, addr := 336, prio := 1694498815, rel := some 16 }
def setupNat : List SysEv :=
  [.api false (.addLocal 0 hostA), .api true (.addLocal 0 hostB1), .api true (.addLocal 0 hostB2),
   .api false (.addRemote 0 hostB1), .api false (.addRemote 0 hostB2), .api true (.addRemote 0 srflxA),
   .api false (.start 0 true "uB0" "pB0"), .api true (.start 0 false "uA0" "pA0")]
def preNat : List SysEv :=
  setupNat ++ drain 12 ++ [.advance 200000000] ++ drain 12 ++ [.advance 400000000] ++ drain 12 ++
    [.advance 600000000] ++ drain 12
def exNat : List SysEv :=
  [.api false (.renominate 600000000 16 1 1), .api false (.renominate 600000000 16 0 2),
   .api false (.renominate 600000000 16 1 3), .dup 2] ++ dl [0, 1, 0, 1, 2, 0, 0]
end Sys2Example

/-- glue: the initial state of the examples is `Fresh` -/
theorem C20_example_fresh : IceProofs.C20S.Fresh Sys2Example.s0 :=
  ⟨⟨rfl, rfl, rfl, rfl, rfl, rfl, rfl, rfl, rfl, rfl, rfl, rfl, rfl, rfl, rfl⟩,
   ⟨rfl, rfl, rfl, rfl, rfl, rfl⟩, ⟨rfl, rfl, rfl, rfl, rfl, rfl⟩⟩

section TwoAgentExamples
open IceModel.Sys2 (Sys Dgram)
open IceProofs.Sys2Run IceProofs.C20S Sys2Example

set_option maxRecDepth 100000 in
/-- **Non-vacuity.**  Every hypothesis of `C20_quiescent_agreement` holds on a run with three renominations whose
requests arrive out of order and duplicated: session established, exchange, positive values, quiesced,
`(3, 16, 192)` the highest nomination, answered, accepted by B — and indeed A ends on 16–192, B on 192–16. -/
example : Established (Sys.runs s0 pre) ∧ Exchange (Sys.runs s0 pre) exOk
    ∧ hist (Sys.runs s0 pre) exOk
        = { issued := [(1, 16, 192), (2, 16, 176), (3, 16, 192)],
            answered := [(1, 16, 192), (2, 16, 176), (3, 16, 192)], accepted := some (3, 192, 16) }
    ∧ PositiveValues (hist (Sys.runs s0 pre) exOk).issued ∧ IsMax (hist (Sys.runs s0 pre) exOk).issued (3, 16, 192)
    ∧ Quiesced (Sys.runs (Sys.runs s0 pre) exOk)
    ∧ (Sys.runs (Sys.runs s0 pre) exOk).b.lastNomination = some 3
    ∧ selAddrs (Sys.runs s0 pre).a = some (16, 176) ∧ selAddrs (Sys.runs s0 pre).b = some (176, 16)
    ∧ selAddrs (Sys.runs (Sys.runs s0 pre) exOk).a = some (16, 192)
    ∧ selAddrs (Sys.runs (Sys.runs s0 pre) exOk).b = some (192, 16) ∧ mirror s0.nat 16 192 = (192, 16) := by
  decide

set_option maxRecDepth 100000 in
/-- hypotheses of `C20_quiesced_rests` on the same run, continued by keepalive traffic (duplicated, dropped) -/
example : ExchangeK rests (Sys.runs (Sys.runs s0 pre) exOk) exRest
    ∧ Quiesced (Sys.runs (Sys.runs (Sys.runs s0 pre) exOk) exRest)
    ∧ selAddrs (Sys.runs (Sys.runs (Sys.runs s0 pre) exOk) exRest).a = some (16, 192)
    ∧ selAddrs (Sys.runs (Sys.runs (Sys.runs s0 pre) exOk) exRest).b = some (192, 16) := by
  decide

set_option maxRecDepth 100000 in
/-- … and modulo a NAT: A's address 16 is mapped to 336; B's pairs are 176–336 and 192–336; after the same three
renominations A is on 16–192 and B on its mirror image 192–336. -/
example : Established (Sys.runs s0Nat preNat) ∧ Exchange (Sys.runs s0Nat preNat) exNat
    ∧ hist (Sys.runs s0Nat preNat) exNat
        = { issued := [(1, 16, 192), (2, 16, 176), (3, 16, 192)],
            answered := [(1, 16, 192), (2, 16, 176), (3, 16, 192)], accepted := some (3, 192, 336) }
    ∧ Quiesced (Sys.runs (Sys.runs s0Nat preNat) exNat)
    ∧ selAddrs (Sys.runs s0Nat preNat).a = some (16, 176) ∧ selAddrs (Sys.runs s0Nat preNat).b = some (176, 336)
    ∧ selAddrs (Sys.runs (Sys.runs s0Nat preNat) exNat).a = some (16, 192)
    ∧ selAddrs (Sys.runs (Sys.runs s0Nat preNat) exNat).b = some (192, 336) ∧ mirror s0Nat.nat 16 192 = (192, 336) := by
  decide

set_option maxRecDepth 100000 in
/-- **`hA` is forced (loss — W4, not fixed in the code).**  Without the premise "A has processed the success response
to the highest nomination" the theorem is false: value 1 on 16–192 completes, the request of value 2 on 16–176 is
dropped, a nomination is never retransmitted, the transaction expires; the state is quiesced, all other hypotheses hold,
both agents stay on the pair of value 1 — nobody ever learns of value 2.  Replayed on the real agents. -/
theorem C20_quiescent_agreement_needs_completed_witness :
    ¬ (∀ (s0 : Sys) (pre ex : List SysEv) (s1 s : Sys), s1 = Sys.runs s0 pre → s = Sys.runs s1 ex → Fresh s0 →
        Established s1 → Exchange s1 ex → PositiveValues (hist s1 ex).issued → ∀ x : Nomination,
        Quiesced s → IsMax (hist s1 ex).issued x →
        selAddrs s.a = some (x.2.1, x.2.2) ∧ selAddrs s.b = some (mirror s0.nat x.2.1 x.2.2)) := by
  intro h
  have := h s0 pre exLost _ _ rfl rfl C20_example_fresh (by decide) (by decide) (by decide) (2, 16, 176) (by decide) (by decide)
  revert this
  decide

set_option maxRecDepth 100000 in
/-- the run of the witness: what the history records, and where the agents are -/
example : Established (Sys.runs s0 pre) ∧ Exchange (Sys.runs s0 pre) exLost
    ∧ hist (Sys.runs s0 pre) exLost
        = { issued := [(1, 16, 192), (2, 16, 176)], answered := [(1, 16, 192)], accepted := some (1, 192, 16) }
    ∧ IsMax (hist (Sys.runs s0 pre) exLost).issued (2, 16, 176)
    ∧ Quiesced (Sys.runs (Sys.runs s0 pre) exLost)
    ∧ selAddrs (Sys.runs (Sys.runs s0 pre) exLost).a = some (16, 192)
    ∧ selAddrs (Sys.runs (Sys.runs s0 pre) exLost).b = some (192, 16) := by
  decide

/-! ### regressions: the former counterexamples (F28–F31) now end in agreement

Each run satisfies every hypothesis of `C20_quiescent_agreement` — `Established` in its present, weaker form — and the
selections are as the theorem says.  Before the fixes each of them ended with the two agents on different pairs (in the
model and on the real agents; the sessions are in corpus/C20/agent.ops). -/

set_option maxRecDepth 100000 in
/-- F28 (responses out of order): values 1 and 2 issued in increasing order, requests delivered in order, A processes
the response to 2 BEFORE the response to 1 — and now stays on the pair of value 2. -/
example : Established (Sys.runs s0 pre) ∧ Exchange (Sys.runs s0 pre) exReordered
    ∧ hist (Sys.runs s0 pre) exReordered
        = { issued := [(1, 16, 192), (2, 16, 176)], answered := [(2, 16, 176), (1, 16, 192)], accepted := some (2, 176, 16) }
    ∧ PositiveValues (hist (Sys.runs s0 pre) exReordered).issued
    ∧ IsMax (hist (Sys.runs s0 pre) exReordered).issued (2, 16, 176)
    ∧ Quiesced (Sys.runs (Sys.runs s0 pre) exReordered)
    ∧ selAddrs (Sys.runs (Sys.runs s0 pre) exReordered).a = some (16, 176)
    ∧ selAddrs (Sys.runs (Sys.runs s0 pre) exReordered).b = some (mirror s0.nat 16 176) := by
  decide

set_option maxRecDepth 100000 in
/-- F28 (non-increasing values): 5 then 3 — B rejects 3 but answers it with a success response; A now ignores that
response and stays on the pair of value 5. -/
example : Established (Sys.runs s0 pre) ∧ Exchange (Sys.runs s0 pre) exDecreasing
    ∧ hist (Sys.runs s0 pre) exDecreasing
        = { issued := [(5, 16, 192), (3, 16, 176)], answered := [(5, 16, 192), (3, 16, 176)], accepted := some (5, 192, 16) }
    ∧ IsMax (hist (Sys.runs s0 pre) exDecreasing).issued (5, 16, 192)
    ∧ Quiesced (Sys.runs (Sys.runs s0 pre) exDecreasing)
    ∧ selAddrs (Sys.runs (Sys.runs s0 pre) exDecreasing).a = some (16, 192)
    ∧ selAddrs (Sys.runs (Sys.runs s0 pre) exDecreasing).b = some (mirror s0.nat 16 192) := by
  decide

set_option maxRecDepth 100000 in
/-- F29 (stale ordinary nomination): an ordinary nomination of the high-priority pair is still in flight when the
session is `Established` and arrives after the renomination to the lower-priority pair has completed — B now ignores
it (a value has been accepted). -/
example : Established (Sys.runs s0 preStale) ∧ Exchange (Sys.runs s0 preStale) exStale
    ∧ ((Sys.runs s0 preStale).inflight.any fun d =>
        match d.p with | .stun m => m.cls == 0 && m.useCand && m.nom.isNone | .data _ => false) = true
    ∧ hist (Sys.runs s0 preStale) exStale
        = { issued := [(1, 16, 192)], answered := [(1, 16, 192)], accepted := some (1, 192, 16) }
    ∧ IsMax (hist (Sys.runs s0 preStale) exStale).issued (1, 16, 192)
    ∧ Quiesced (Sys.runs (Sys.runs s0 preStale) exStale)
    ∧ selAddrs (Sys.runs (Sys.runs s0 preStale) exStale).a = some (16, 192)
    ∧ selAddrs (Sys.runs (Sys.runs s0 preStale) exStale).b = some (mirror s0.nat 16 192) := by
  decide

set_option maxRecDepth 100000 in
/-- F30 (deferred mark never cleared): B's selected pair was nominated through the deferred path; a keepalive of B on
that pair is outstanding when the renomination to the lower-priority pair completes; its success response no longer
re-runs the nomination (the mark was cleared when it was acted upon). -/
example : Established (Sys.runs s0 preMarked) ∧ Exchange (Sys.runs s0 preMarked) exMarked
    ∧ hist (Sys.runs s0 preMarked) exMarked
        = { issued := [(1, 16, 192)], answered := [(1, 16, 192)], accepted := some (1, 192, 16) }
    ∧ IsMax (hist (Sys.runs s0 preMarked) exMarked).issued (1, 16, 192)
    ∧ Quiesced (Sys.runs (Sys.runs s0 preMarked) exMarked)
    ∧ (∀ p ∈ (Sys.runs s0 preMarked).b.checklist, p.nomOnSuccess = false)
    ∧ selAddrs (Sys.runs (Sys.runs s0 preMarked) exMarked).a = some (16, 192)
    ∧ selAddrs (Sys.runs (Sys.runs s0 preMarked) exMarked).b = some (mirror s0.nat 16 192) := by
  decide

set_option maxRecDepth 100000 in
/-- F31 (ordinary nomination overwrote a deferred value): the exchange starts before anything is selected, with A's
ordinary nomination of 16–176 in flight; value 2 on 16–176 is deferred at B (its check of the pair has not succeeded);
the ordinary nomination arrives and no longer replaces the deferred value; when the pair validates B selects it. -/
example : Established (Sys.runs s0 preEarly) ∧ Exchange (Sys.runs s0 preEarly) exEarly
    ∧ selAddrs (Sys.runs s0 preEarly).a = none ∧ selAddrs (Sys.runs s0 preEarly).b = none
    ∧ hist (Sys.runs s0 preEarly) exEarly
        = { issued := [(1, 16, 192), (2, 16, 176)], answered := [(1, 16, 192), (2, 16, 176)], accepted := some (2, 176, 16) }
    ∧ IsMax (hist (Sys.runs s0 preEarly) exEarly).issued (2, 16, 176)
    ∧ Quiesced (Sys.runs (Sys.runs s0 preEarly) exEarly)
    ∧ selAddrs (Sys.runs (Sys.runs s0 preEarly) exEarly).a = some (16, 176)
    ∧ selAddrs (Sys.runs (Sys.runs s0 preEarly) exEarly).b = some (mirror s0.nat 16 176) := by
  decide

end TwoAgentExamples

/-! ## Tie: `HandleSuccessResponse` of both selectors (selection.go) is REGENERATED on every run (effect mode) and its
decision is the one `Agent.handleSuccess` is built from -/

/-- For ALL arguments the regenerated `controllingSelector.HandleSuccessResponse` is: `handleInboundBindingSuccess`;
then — only with a known transaction, a symmetric response and an existing pair — `pair.state := Succeeded`, the
`answeredNomination` rule (`ctlSuccessDecision`: a response to a valued nomination is followed iff its value is greater
than every value already answered, and then recorded; a value-less nomination selects only when nothing is selected),
`UpdateRoundTripTime` — in this order, nothing else -/
theorem C20_code_controlling_success_response (found symmetric hasPair useCand hasSelected hasValue : Bool)
    (value : UInt32) (hasAnswered : Bool) (answered : UInt32) :
    IceGen.controllingSelector_HandleSuccessResponse found symmetric hasPair useCand hasSelected hasValue value
        hasAnswered answered
      = IceTie.AgentSuccess.eTake :: (if found && symmetric && hasPair then
          IceTie.AgentSuccess.eSucceeded ::
            (IceTie.AgentSuccess.ctlEffs
              (ctlSuccessDecision useCand (IceTie.AgentSuccess.optOf hasValue value)
                (IceTie.AgentSuccess.optOf hasAnswered answered) hasSelected) hasValue value
             ++ [IceTie.AgentSuccess.eRTT])
        else []) :=
  IceTie.AgentSuccess.ctlHandleSuccess_tie found symmetric hasPair useCand hasSelected hasValue value hasAnswered answered

/-- For ALL arguments the regenerated `controlledSelector.HandleSuccessResponse` is: `handleInboundBindingSuccess`; then
— same gate — `pair.state := Succeeded`; on a pair with a deferred nomination the switch `cldSuccessDecision` (a deferred
VALUE is ignored when a greater one has been accepted since, otherwise it wins whatever the priorities; a deferred
nomination without a value never moves the selection once a value has been accepted, otherwise the priority rule) and
the clearing of the deferred nomination; `UpdateRoundTripTime` -/
theorem C20_code_controlled_success_response (found symmetric hasPair nomOnSuccess hasSelected samePair hasValue : Bool)
    (value : UInt32) (hasLast : Bool) (last : UInt32) (needsPrio : Bool) (selectedPrio pairPrio : UInt64) :
    IceGen.controlledSelector_HandleSuccessResponse found symmetric hasPair nomOnSuccess hasSelected samePair hasValue
        value hasLast last needsPrio selectedPrio pairPrio
      = IceTie.AgentSuccess.eTake :: (if found && symmetric && hasPair then
          IceTie.AgentSuccess.eSucceeded :: ((if nomOnSuccess then
              (if cldSuccessDecision (IceTie.AgentSuccess.optOf hasValue value) (IceTie.AgentSuccess.optOf hasLast last)
                    hasSelected samePair needsPrio selectedPrio.toNat pairPrio.toNat
                then [IceTie.AgentSuccess.eSelect] else []) ++ IceTie.AgentSuccess.eClear
            else []) ++ [IceTie.AgentSuccess.eRTT])
        else []) :=
  IceTie.AgentSuccess.cldHandleSuccess_tie found symmetric hasPair nomOnSuccess hasSelected samePair hasValue value
    hasLast last needsPrio selectedPrio pairPrio

/-- the model's handler written with the same stand-alone decisions (no hypothesis, every state): take the transaction,
the symmetry test, find the pair, mark it Succeeded, `successDecide` (= `ctlSuccessDecision` / `cldSuccessDecision` on the
agent's fields), count the response -/
theorem C20_success_inline (a : Agent) (now : Nat) (m : Msg) (l r : Cand) (src : Nat) :
    a.handleSuccess now m l r src =
      match (a.takePending now m.tid).2 with
      | none => ((a.takePending now m.tid).1, [])
      | some pd =>
        if !(pd.net == l.net && pd.dest == src && pd.src == l.addr) then ((a.takePending now m.tid).1, [])
        else
          match (a.takePending now m.tid).1.findPair l r with
          | none => ((a.takePending now m.tid).1, [])
          | some p =>
            let d := successDecide ((a.takePending now m.tid).1.modPair p.id fun p =>
                { p with state := .succeeded, gResp := true, gRespUC := p.gRespUC || pd.useCand }) pd p
            (d.1.modPair p.id (Pair.gotResponse now pd.ts), d.2) :=
  handleSuccess_nf a now m l r src

/-- non-vacuity: a response to renomination 6 after 5 was answered is followed and recorded, to 5 after 6 ignored; a
deferred value 4 is dropped once 5 has been accepted, a deferred 5 wins against a higher-priority selection -/
example : IceGen.controllingSelector_HandleSuccessResponse true true true true true true 6 true 5
      = [Eff.call "takePending" [], Eff.set "pair.state" (Val.i 4), Eff.set "s.answeredNomination" (Val.n 6),
         Eff.call "setSelectedPair" [], Eff.call "updateRTT" []]
    ∧ IceGen.controllingSelector_HandleSuccessResponse true true true true true true 5 true 6
      = [Eff.call "takePending" [], Eff.set "pair.state" (Val.i 4), Eff.call "updateRTT" []]
    ∧ IceGen.controllingSelector_HandleSuccessResponse true false true true true true 6 true 5
      = [Eff.call "takePending" []] := by decide
example : IceGen.controlledSelector_HandleSuccessResponse true true true true true false true 4 true 5 true 9 1
      = [Eff.call "takePending" [], Eff.set "pair.state" (Val.i 4),
         Eff.set "pair.nominateOnBindingSuccess" (Val.b false), Eff.set "pair.deferredNominationValue" (Val.s "nil"),
         Eff.call "updateRTT" []]
    ∧ IceGen.controlledSelector_HandleSuccessResponse true true true true true false true 5 true 5 true 9 1
      = [Eff.call "takePending" [], Eff.set "pair.state" (Val.i 4), Eff.call "setSelectedPair" [],
         Eff.set "pair.nominateOnBindingSuccess" (Val.b false), Eff.set "pair.deferredNominationValue" (Val.s "nil"),
         Eff.call "updateRTT" []] := by decide
example : ctlSuccessDecision true (some 6) (some 5) true = (some 6, true) ∧ ctlSuccessDecision true (some 5) (some 5) true = (some 5, false)
    ∧ ctlSuccessDecision true none (some 5) false = (some 5, true) ∧ cldSuccessDecision (some 4) (some 5) true false true 9 1 = false
    ∧ cldSuccessDecision none (some 5) true false false 1 9 = false ∧ cldSuccessDecision none none true false true 1 9 = true := by decide

/-- `controlledSelector.HandleBindingRequest` (regenerated in effect mode), for ALL arguments: find or add the pair, count the
request; a nominated request goes through `shouldAcceptNomination` and a REJECTED one is only answered; otherwise a lite agent
marks the pair Succeeded; on a succeeded pair `shouldSwitchSelectedPair` decides; on any other pair the nomination is deferred —
unless it carries no value while a deferred value is waiting (fix dff2973); then the success response, a triggered check iff the
agent is full and the pair has not succeeded or nothing is selected, the application's handler.  The model's `cldNominate` /
`cldProceed` defer and ping by the same tests. -/
theorem C20_code_controlled_binding_request (hasPair useCand hasNomAttr nomParseErr accepted lite : Bool) (pairState : Int64)
    (switchOk hasDeferred hasSelected : Bool) :
    IceGen.controlledSelector_HandleBindingRequest hasPair useCand hasNomAttr nomParseErr accepted lite pairState switchOk
        hasDeferred hasSelected
      = ((if hasPair then [] else [IceTie.AgentSelector.c "addPair"]) ++ IceTie.AgentSelector.c "updateRequestReceived" ::
        (if IceTie.AgentSelector.nominated useCand hasNomAttr nomParseErr then
          IceTie.AgentSelector.c "shouldAcceptNomination" ::
          (if !accepted then [IceTie.AgentSelector.c "sendBindingSuccess"]
           else
             (if lite then [Eff.set "pair.state" (Val.i 4)] else []) ++
             (if lite || pairState == 4 then (if switchOk then [IceTie.AgentSelector.c "setSelectedPair"] else [])
              else if (hasNomAttr && !nomParseErr) || !hasDeferred then
                [Eff.set "pair.nominateOnBindingSuccess" (Val.b true),
                 Eff.set "pair.deferredNominationValue" (Val.s "nominationValue")]
              else []) ++
             IceTie.AgentSelector.c "sendBindingSuccess" ::
             ((if !lite && (pairState != 4 || !hasSelected) then [IceTie.AgentSelector.c "pingCandidate"] else [])
               ++ [IceTie.AgentSelector.c "customHandler"]))
         else
           IceTie.AgentSelector.c "sendBindingSuccess" ::
           ((if !lite && (pairState != 4 || !hasSelected) then [IceTie.AgentSelector.c "pingCandidate"] else [])
             ++ [IceTie.AgentSelector.c "customHandler"]))) ∧
    (∀ (a : Agent) (m : Msg) (id : Nat) (p : Pair), (m.useCand || m.nom.isSome) = true → a.cfg.lite = false →
      a.pairById id = some p → (p.state == PairState.succeeded) = false →
      cldNominate a m id =
        if m.nom.isSome || p.deferredNom.isNone then
          (a.modPair id fun p => { p with nomOnSuccess := true, deferredNom := m.nom }, [])
        else (a, [])) :=
  ⟨IceTie.AgentSelector.cldHandleBindingRequest_tie hasPair useCand hasNomAttr nomParseErr accepted lite pairState switchOk
     hasDeferred hasSelected,
   fun a m id p hn hl hp hs => IceTie.AgentSelector.cldNominate_not_succeeded a m id p hn hl hp hs⟩

/-- non-vacuity: a value-less nomination on a not-yet-valid pair that holds a deferred value changes nothing (fix dff2973); with a value
it replaces the deferred one; a rejected renomination is only answered -/
example : IceGen.controlledSelector_HandleBindingRequest true true false false true false 2 false true false
      = [Eff.call "updateRequestReceived" [], Eff.call "shouldAcceptNomination" [], Eff.call "sendBindingSuccess" [],
         Eff.call "pingCandidate" [], Eff.call "customHandler" []] ∧
    IceGen.controlledSelector_HandleBindingRequest true false true false true false 2 false true false
      = [Eff.call "updateRequestReceived" [], Eff.call "shouldAcceptNomination" [],
         Eff.set "pair.nominateOnBindingSuccess" (Val.b true), Eff.set "pair.deferredNominationValue" (Val.s "nominationValue"),
         Eff.call "sendBindingSuccess" [], Eff.call "pingCandidate" [], Eff.call "customHandler" []] ∧
    IceGen.controlledSelector_HandleBindingRequest true false true false false false 4 true false true
      = [Eff.call "updateRequestReceived" [], Eff.call "shouldAcceptNomination" [], Eff.call "sendBindingSuccess" []] := by decide

/-! ## Automatic renomination (`WithAutomaticRenomination`): the nominations the agent issues BY ITSELF

`controllingSelector.checkForAutomaticRenomination` (model: `Agent.autoCheck`, inside every tick while a pair is selected)
compares the selected pair with the best succeeded pair (`findBestCandidatePair`, `shouldRenominate`: relay → direct, a
round-trip time better by more than 10 ms, a quality score better by more than 15 % — the float64 arithmetic is
`IceModel.SoftFloat`) and nominates the better one with the next value of the generator given to `WithRenomination` (a
counter here).  The two-agent theorems above are stated over the log `hist.issued`, which accumulates
`IceProofs.C20S.issuesOf`: the entries a step appends to the ghost log `Agent.nomIssued` — by `RenominateCandidate` AND by
the automatic check.  So `C20_quiescent_agreement` covers exchanges whose nominations are issued automatically (example
below). -/
section Automatic
open IceProofs.C20S

/-- **C20_issues_vocabulary** — what the log of issued nominations records (any state, any event): the step appends
`issuesOf a e` to the ghost log; for `RenominateCandidate` that is exactly what `issueOf` describes (`C20_history_vocabulary`);
every datagram of the step that carries a nomination value is a USE-CANDIDATE request from the local to the remote address of
an entry of `issuesOf a e` with that (positive) value; and for every other event the entries are the automatic check's: their
values are consecutive draws from the counter of the value generator, which moves by their number. -/
theorem C20_issues_vocabulary (a : Agent) (e : Ev) :
    (step a e).1.nomIssued = a.nomIssued ++ issuesOf a e ∧
    (∀ now la ri v, issuesOf a (.renominate now la ri v) = (issueOf a (.renominate now la ri v)).toList) ∧
    (∀ f t m v, Out.dgram f t m ∈ (step a e).2 → m.nom = some v →
      m.cls = 0 ∧ m.useCand = true ∧ 0 < v ∧ (v, f, t) ∈ issuesOf a e) ∧
    ((∀ now la ri v, e ≠ .renominate now la ri v) →
      (issuesOf a e).map (·.1) = drawn a.nomCounter (issuesOf a e).length ∧
      (step a e).1.nomCounter = a.nomCounter + (issuesOf a e).length) ∧
    (∀ now la ri v, (step a (.renominate now la ri v)).1.nomCounter = a.nomCounter) :=
  ⟨step_log_eq a e, fun now la ri v => issuesOf_renominate a now la ri v,
   fun f t m v hm hn => step_out_nom a e f t m v hm hn,
   fun hne => ⟨(step_counter_log a e hne).vals, (step_counter_log a e hne).cnt⟩,
   fun now la ri v => step_renominate_counter a now la ri v⟩

/-- **C20_auto_only_controlling_enabled** — "only a controlling agent with the feature enabled can renominate", for the
nominations the agent issues by itself.
(1) The automatic check emits nothing, or exactly ONE datagram: a Binding request with USE-CANDIDATE and ICE-CONTROLLING
to the best succeeded pair, carrying the next value of the counter (the attribute is absent iff that value is 0) — and
then the agent is controlling, `WithRenomination` and `WithAutomaticRenomination` are both on, a pair `cur` is selected,
the interval has elapsed since the selector started and since the last automatic renomination, and
`shouldRenominate cur best` holds.
(2) Whatever the cause (`RenominateCandidate` or the automatic check, any state, any event): an agent that is in the
controlled role after the step, or was built without `WithRenomination`, has issued nothing in it, and no datagram it
emitted carries a nomination value. -/
theorem C20_auto_only_controlling_enabled (a : Agent) (now : Nat) :
    ((a.autoCheck now).2 = [] ∨
     ∃ cur best l r, a.controlling = true ∧ a.cfg.enableRenomination = true ∧ a.cfg.autoRenom = true ∧
      a.cfg.renomInterval ≤ now - a.selStart ∧ (∀ t, a.lastRenomTime = some t → a.cfg.renomInterval ≤ now - t) ∧
      a.selected.bind a.pairById = some cur ∧ a.findBest now = some best ∧ a.shouldRenominate now cur best = true ∧
      a.localOf best.l = some l ∧ a.remoteOf best.r = some r ∧ (a.findPair l r).isSome = true ∧
      (a.autoCheck now).2 =
        [.dgram l.addr r.addr { cls := 0, tid := 2 * a.nextTid + a.tag, user := some (a.remoteUfrag ++ ":" ++ a.localUfrag),
                                 key := some a.remotePwd, prio := some l.prio, useCand := true,
                                 role := some (true, a.tieBreaker),
                                 nom := if a.nextNomValue > 0 then some a.nextNomValue else none }]) ∧
    (∀ e, ((step a e).1.controlling = false ∨ a.cfg.enableRenomination = false) →
      issuesOf a e = [] ∧ ∀ f t m, Out.dgram f t m ∈ (step a e).2 → m.nom = none) := by
  refine ⟨autoCheck_out a now, fun e hq => ?_⟩
  have h0 : issuesOf a e = [] := by
    rcases hq with hc | he
    · exact issuesOf_controlled a e hc
    · exact issuesOf_disabled a e he
  refine ⟨h0, fun f t m hm => ?_⟩
  cases hn : m.nom with
  | none => rfl
  | some v =>
    have := (step_out_nom a e f t m v hm hn).2.2.2
    rw [h0] at this
    cases this

/-- **Tie T for the automatic path.**  `controllingSelector.checkForAutomaticRenomination` (selection.go) and
`Agent.shouldRenominate` (agent.go) are REGENERATED from the Go source on every run; for all arguments:
(1) the check's only effects are `lastRenominationTime = time.Now()` then `renominateCandidate(best.Local, best.Remote)`, iff
both options are on ∧ the interval passed since the selector started ∧ (never renominated automatically ∨ the interval passed
since) ∧ a pair is selected ∧ a best pair exists ∧ `shouldRenominate`;
(2) the model's `autoCheck` is built from the same tests in the same order;
(3) `shouldRenominate` is: not the same pair, candidate succeeded, and relay → host/host, or both round trips measured and
improved by MORE than 10 ms, or the score test (the float64 sub-expressions are parameters);
(4) the model's `shouldRenominate` is the same Boolean function of `IceModel.SoftFloat` values. -/
theorem C20_code_automatic_check :
    (∀ (autoRenom enableRenom : Bool) (sinceStart interval : Int64) (lastZero : Bool) (sinceLast : Int64)
       (hasCurrent hasBest should : Bool),
      IceGen.controllingSelector_checkForAutomaticRenomination autoRenom enableRenom sinceStart interval lastZero sinceLast
          hasCurrent hasBest should
        = if autoRenom && enableRenom && !decide (sinceStart < interval) && (lastZero || !decide (sinceLast < interval))
              && hasCurrent && hasBest && should
          then [Eff.set "s.agent.lastRenominationTime" (Val.s "now"), Eff.call "renominateCandidate(best)" []] else []) ∧
    (∀ (a : Agent) (now : Nat),
      a.autoCheck now =
        if a.cfg.autoRenom && a.cfg.enableRenomination && !decide (now - a.selStart < a.cfg.renomInterval) &&
            (match a.lastRenomTime with | none => true | some t => !decide (now - t < a.cfg.renomInterval)) then
          match a.selected.bind a.pairById with
          | none => (a, [])
          | some cur =>
            match a.findBest now with
            | none => (a, [])
            | some best =>
              if a.shouldRenominate now cur best then
                match a.localOf best.l, a.remoteOf best.r with
                | some l, some r => ({ a with lastRenomTime := some now }).autoIssue now l r
                | _, _ => ({ a with lastRenomTime := some now }, [])
              else (a, [])
        else (a, [])) ∧
    (∀ (curNil candNil samePair : Bool) (candState : Int64) (curLocalTy curRemoteTy candLocalTy candRemoteTy : UInt8)
       (curRTTPos candRTTPos : Bool) (curRTT candRTT : Int64) (scoreBetter : Bool),
      IceGen.Agent_shouldRenominate curNil candNil samePair candState curLocalTy curRemoteTy candLocalTy candRemoteTy
          curRTTPos candRTTPos curRTT candRTT scoreBetter
        = (!(curNil || candNil || samePair || candState != 4) &&
            (((curLocalTy == 4 || curRemoteTy == 4) && (candLocalTy == 1 && candRemoteTy == 1)) ||
             (curRTTPos && candRTTPos && decide (curRTT - candRTT > 10000000)) || scoreBetter))) ∧
    (∀ (a : Agent) (now : Nat) (cur cand : Pair),
      a.shouldRenominate now cur cand =
        (!(a.pairEqual cur cand || cand.state != .succeeded) &&
          (((a.localTy cur == 4 || a.remoteTy cur == 4) && (a.localTy cand == 1 && a.remoteTy cand == 1)) ||
           ((IceModel.SoftFloat.seconds cur.rtt).gt IceModel.SoftFloat.F.zero &&
              (IceModel.SoftFloat.seconds cand.rtt).gt IceModel.SoftFloat.F.zero &&
              decide (IceModel.SoftFloat.durationOfSeconds (IceModel.SoftFloat.seconds cur.rtt)
                - IceModel.SoftFloat.durationOfSeconds (IceModel.SoftFloat.seconds cand.rtt) > 10000000)) ||
           (a.quality now cand).gt ((a.quality now cur).mul IceModel.SoftFloat.c115)))) :=
  ⟨IceTie.AgentSelector.ctlAutoCheck_tie, IceTie.AgentSelector.autoCheck_decisions,
   IceTie.AgentSelector.shouldRenominate_tie, IceTie.AgentSelector.shouldRenominate_decisions⟩

/-- non-vacuity of the tie: the check fires exactly at the interval (300 ms since the start, never renominated), not one
nanosecond earlier, not within the interval after the last one, not with one option off; the round-trip rule needs MORE
than 10 ms -/
example :
    IceGen.controllingSelector_checkForAutomaticRenomination true true 300000000 300000000 true 0 true true true
      = [Eff.set "s.agent.lastRenominationTime" (Val.s "now"), Eff.call "renominateCandidate(best)" []] ∧
    IceGen.controllingSelector_checkForAutomaticRenomination true true 299999999 300000000 true 0 true true true = [] ∧
    IceGen.controllingSelector_checkForAutomaticRenomination true true 900000000 300000000 false 299999999 true true true = [] ∧
    IceGen.controllingSelector_checkForAutomaticRenomination true false 900000000 300000000 true 0 true true true = [] ∧
    IceGen.controllingSelector_checkForAutomaticRenomination false true 900000000 300000000 true 0 true true true = [] ∧
    IceGen.Agent_shouldRenominate false false false 4 1 1 1 1 true true 100000000 90000000 false = false ∧
    IceGen.Agent_shouldRenominate false false false 4 1 1 1 1 true true 100000001 90000000 false = true ∧
    IceGen.Agent_shouldRenominate false false false 4 4 1 1 1 false false 0 0 false = true ∧
    IceGen.Agent_shouldRenominate false false true 4 4 1 1 1 true true 100000001 90000000 true = false := by
  decide

/-- the values of the nominations the automatic check issues while `e` is executed (`RenominateCandidate`: none — its value is
the caller's) -/
def autoValues (a : Agent) : Ev → List Nat
  | .renominate _ _ _ _ => []
  | e => (issuesOf a e).map (·.1)

/-- … along a run, in order -/
def autoValuesRun (a : Agent) : List Ev → List Nat
  | [] => []
  | e :: es => autoValues a e ++ autoValuesRun (step a e).1 es

/-- **C20_auto_values_increase** — the values one agent issues by itself strictly increase, given the counter generator:
along EVERY run (any events — also Restart and role changes: the generator belongs to the agent, not to the selector),
from ANY state, the values of the automatic nominations are, in order, `nomCounter + 1, nomCounter + 2, …` (mod 2^32, the
generator is a `uint32` counter); so as long as the counter does not wrap around they are strictly increasing — in
particular within one generation.  (`RenominateCandidate` does not draw from the counter.) -/
theorem C20_auto_values_increase (a : Agent) (evs : List Ev) :
    autoValuesRun a evs = drawn a.nomCounter (autoValuesRun a evs).length ∧
    (List.foldl (fun x e => (step x e).1) a evs).nomCounter = a.nomCounter + (autoValuesRun a evs).length ∧
    (a.nomCounter + (autoValuesRun a evs).length < 4294967296 → (autoValuesRun a evs).Pairwise (· < ·)) := by
  have key : ∀ (evs : List Ev) (a : Agent), autoValuesRun a evs = drawn a.nomCounter (autoValuesRun a evs).length ∧
      (List.foldl (fun x e => (step x e).1) a evs).nomCounter = a.nomCounter + (autoValuesRun a evs).length := by
    intro evs
    induction evs with
    | nil => intro a; exact ⟨rfl, rfl⟩
    | cons e es ih =>
      intro a
      obtain ⟨ih1, ih2⟩ := ih (step a e).1
      have hstep : autoValues a e = drawn a.nomCounter (autoValues a e).length ∧
          (step a e).1.nomCounter = a.nomCounter + (autoValues a e).length := by
        by_cases hr : ∃ now la ri v, e = .renominate now la ri v
        · obtain ⟨now, la, ri, v, rfl⟩ := hr
          exact ⟨rfl, step_renominate_counter a now la ri v⟩
        · have hne : ∀ now la ri v, e ≠ .renominate now la ri v := fun now la ri v h => hr ⟨now, la, ri, v, h⟩
          have hcl := step_counter_log a e hne
          have hav : autoValues a e = (issuesOf a e).map (·.1) := by
            cases e <;> first | rfl | exact absurd rfl (hne _ _ _ _)
          rw [hav, List.length_map]
          exact ⟨hcl.vals, hcl.cnt⟩
      simp only [autoValuesRun, List.foldl_cons, List.length_append]
      refine ⟨?_, ?_⟩
      · rw [drawn_append, ← hstep.1]
        congr 1
        rw [ih1, hstep.2]
        simp [drawn_length]
      · rw [ih2, hstep.2]; omega
  refine ⟨(key evs a).1, (key evs a).2, fun h => ?_⟩
  rw [(key evs a).1]
  exact drawn_increasing _ _ h

/-! ### non-vacuity: one agent -/

namespace AutoExample
/-- a controlling agent with both options (interval 300 ms), one local candidate (16) and two remote ones (176: high
priority, 192: lower).  Its first checks (transaction ids 2 and 4) are answered after 100 ms (176) resp. 10 ms (192); at
200 ms it nominates the pair of the better priority (16–176, id 6), whose answer takes another 100 ms; the tick at 400 ms
sees the selected pair 16–176 with a round trip of 100 ms and the pair 16–192 with 10 ms -/
def a0 : Agent :=
  { cfg := { enableRenomination := true, autoRenom := true, renomInterval := 300000000 }, localUfrag := "uA",
    localPwd := "pA", tieBreaker := 3 }
def evs : List Ev :=
  [.addLocal 0 exLocal, .addRemote 0 exHi, .addRemote 0 { exLo with prio := 2130706175 }, .start 0 true "uB" "pB",
   .inbound 10000000 16 192 { cls := 2, tid := 4, key := some "pB" },
   .inbound 100000000 16 176 { cls := 2, tid := 2, key := some "pB" },
   .advance 200000000,
   .inbound 300000000 16 176 { cls := 2, tid := 6, key := some "pB" },
   .advance 400000000]
/-- the USE-CANDIDATE requests of an output list: source, destination, role attribute, nomination value -/
def useCands (os : List Out) : List (Nat × Nat × Option (Bool × Nat) × Option Nat) :=
  os.filterMap fun
    | .dgram f t m => if m.useCand && m.cls == 0 then some (f, t, m.role, m.nom) else none
    | _ => none
/-- the same agent without `WithRenomination` -/
def a0Off : Agent := { a0 with cfg := { a0.cfg with enableRenomination := false } }
end AutoExample

set_option maxRecDepth 100000 in
/-- the tick at 400 ms issues ONE nomination by itself: value 1 (the first draw of the counter) on the pair 16–192 — because
its round trip is better by 90 ms (> 10 ms); the request carries USE-CANDIDATE, ICE-CONTROLLING and the value -/
example :
    (run AutoExample.a0 (AutoExample.evs.take 8)).selected = some 1 ∧
    ((run AutoExample.a0 (AutoExample.evs.take 8)).checklist.map fun p => (p.id, p.rtt, p.lastResp)) =
      [(1, 100000000, some 300000000), (2, 10000000, some 10000000)] ∧
    issuesOf (run AutoExample.a0 (AutoExample.evs.take 8)) (.advance 400000000) = [(1, 16, 192)] ∧
    autoValuesRun AutoExample.a0 AutoExample.evs = [1] ∧
    (run AutoExample.a0 AutoExample.evs).nomCounter = 1 ∧
    (run AutoExample.a0 AutoExample.evs).lastRenomTime = some 400000000 ∧
    AutoExample.useCands (step (run AutoExample.a0 (AutoExample.evs.take 8)) (.advance 400000000)).2 =
      [(16, 192, some (true, 3), some 1)] ∧
    -- without `WithRenomination` the same run issues nothing
    autoValuesRun AutoExample.a0Off AutoExample.evs = [] := by
  refine ⟨?_, ?_, ?_, ?_, ?_, ?_, ?_, ?_⟩ <;> decide

set_option maxRecDepth 100000 in
/-- the decision itself, around its thresholds (the float64 arithmetic of `shouldRenominate`, by the kernel): an improvement
of exactly 10 ms does not renominate, 11 ms does; beyond one second the round trip `Duration → seconds → Duration` loses a
nanosecond for 1049 ms but not for 1059 ms, so an improvement of "exactly 10 ms" there IS more than 10 ms (1011 and 1001 ms
both lose one: no) -/
example :
    let a := run AutoExample.a0 (AutoExample.evs.take 8)
    let cur (rtt : Nat) : Pair := { (a.checklist[0]!) with rtt := rtt }
    let cand (rtt : Nat) : Pair := { (a.checklist[1]!) with rtt := rtt }
    a.shouldRenominate 400000000 (cur 100000000) (cand 90000000) = false ∧
    a.shouldRenominate 400000000 (cur 100000000) (cand 89000000) = true ∧
    IceModel.SoftFloat.durationOfSeconds (IceModel.SoftFloat.seconds 1049000000) = 1048999999 ∧
    IceModel.SoftFloat.durationOfSeconds (IceModel.SoftFloat.seconds 1059000000) = 1059000000 ∧
    a.shouldRenominate 400000000 (cur 1059000000) (cand 1049000000) = true ∧
    a.shouldRenominate 400000000 (cur 1011000000) (cand 1001000000) = false := by
  decide

end Automatic

/-! ### two agents: an exchange whose only nomination is issued AUTOMATICALLY -/

namespace Sys2Example
open IceModel.Sys2 (Sys)
open IceProofs.Sys2Run
/-- as `s0`, but A renominates by itself (interval 300 ms) -/
def s0Auto : Sys :=
  { s0 with a := { s0.a with cfg := { enableRenomination := true, autoRenom := true, renomInterval := 300000000 } } }
/-- checks: the answer of 16–192 takes 10 ms, the one of 16–176 takes 100 ms; at 200 ms A nominates 16–176 (better
priority), everything is delivered at once: both agents on 16–176, nothing in flight -/
def preAuto : List SysEv :=
  setup ++ dl [0, 0, 0, 0] ++ [.advance 10000000] ++ dl [2, 1, 1, 1, 1] ++ [.advance 100000000] ++ dl [0] ++ dl [0, 0] ++
    [.advance 200000000] ++ dl [0, 0]
/-- the tick at 400 ms: keepalive, checks of both pairs, and the automatic nomination of 16–192 with value 1; everything is
delivered -/
def exAuto : List SysEv := [.advance 400000000] ++ drain 10
end Sys2Example

theorem C20_example_fresh_auto : IceProofs.C20S.Fresh Sys2Example.s0Auto :=
  ⟨⟨rfl, rfl, rfl, rfl, rfl, rfl, rfl, rfl, rfl, rfl, rfl, rfl, rfl, rfl, rfl⟩,
   ⟨rfl, rfl, rfl, rfl, rfl, rfl⟩, ⟨rfl, rfl, rfl, rfl, rfl, rfl⟩⟩

section TwoAgentAutoExample
open IceModel.Sys2 (Sys Dgram)
open IceProofs.Sys2Run IceProofs.C20S Sys2Example

set_option maxRecDepth 100000 in
/-- **Non-vacuity of the agreement theorem for AUTOMATIC nominations.**  Nobody calls `RenominateCandidate`; A's tick
nominates 16–192 by itself with value 1.  Every hypothesis of `C20_quiescent_agreement` holds — the nomination is in the
log `issued`, it is the highest one, its exchange completed, the state is quiesced — and A ends on 16–192, B on 192–16. -/
example : Established (Sys.runs s0Auto preAuto) ∧ Exchange (Sys.runs s0Auto preAuto) exAuto
    ∧ hist (Sys.runs s0Auto preAuto) exAuto
        = { issued := [(1, 16, 192)], answered := [(1, 16, 192)], accepted := some (1, 192, 16) }
    ∧ PositiveValues (hist (Sys.runs s0Auto preAuto) exAuto).issued
    ∧ IsMax (hist (Sys.runs s0Auto preAuto) exAuto).issued (1, 16, 192)
    ∧ Quiesced (Sys.runs (Sys.runs s0Auto preAuto) exAuto)
    ∧ selAddrs (Sys.runs s0Auto preAuto).a = some (16, 176) ∧ selAddrs (Sys.runs s0Auto preAuto).b = some (176, 16)
    ∧ selAddrs (Sys.runs (Sys.runs s0Auto preAuto) exAuto).a = some (16, 192)
    ∧ selAddrs (Sys.runs (Sys.runs s0Auto preAuto) exAuto).b = some (192, 16) := by
  decide

/-- … and the theorem applied to it -/
example : selAddrs (Sys.runs (Sys.runs s0Auto preAuto) exAuto).a = some (16, 192) ∧
    selAddrs (Sys.runs (Sys.runs s0Auto preAuto) exAuto).b = some (mirror s0Auto.nat 16 192) :=
  C20_quiescent_agreement s0Auto preAuto exAuto _ _ rfl rfl C20_example_fresh_auto
    (by set_option maxRecDepth 100000 in decide) (by set_option maxRecDepth 100000 in decide)
    (by set_option maxRecDepth 100000 in decide) (1, 16, 192) (by set_option maxRecDepth 100000 in decide)
    (by set_option maxRecDepth 100000 in decide) (by set_option maxRecDepth 100000 in decide)

end TwoAgentAutoExample

/-! ## Tie to the code (T, round 4): the renomination OPTIONS of agent_options.go (`IceGen.T_Options`) -/

/-- `WithRenomination` refuses a nil generator and otherwise enables renomination; `WithAutomaticRenomination` switches the automatic
renomination on, writes the interval only when it is positive, and does NOT enable renomination (the model's `autoRenom` block needs
both switches); `WithNominationAttribute` refuses the reserved type 0 -/
theorem C20_code_renomination_options :
    (∀ constructed genNil, IceGen.opt_WithRenomination constructed genNil
      = IceTie.Options.guard constructed (if genNil then ([], "ErrInvalidNominationValueGenerator")
          else ([IceTie.Options.setB "a.enableRenomination" true, IceModel.Eff.set "a.nominationValueGenerator" (IceModel.Val.s "generator")], "nil"))) ∧
    (∀ constructed (interval : Int64), IceGen.opt_WithAutomaticRenomination constructed interval
      = IceTie.Options.guard constructed (IceTie.Options.setB "a.automaticRenomination" true ::
          (if interval > 0 then [IceTie.Options.setI "a.renominationInterval" interval] else []), "nil")) ∧
    (∀ constructed (attrType : UInt16), IceGen.opt_WithNominationAttribute constructed attrType
      = IceTie.Options.guard constructed (if attrType == 0 then ([], "ErrInvalidNominationAttribute")
          else ([IceTie.Options.setN "a.nominationAttribute" attrType], "nil"))) ∧
    (∀ (cfg : IceModel.AgentCore.Config) (interval : Int64),
      (IceTie.Options.applyEffs cfg (IceGen.opt_WithAutomaticRenomination false interval).1).enableRenomination = cfg.enableRenomination ∧
      (IceTie.Options.applyEffs cfg (IceGen.opt_WithAutomaticRenomination false interval).1).autoRenom = true) :=
  ⟨IceTie.Options.WithRenomination_tie, IceTie.Options.WithAutomaticRenomination_tie, IceTie.Options.WithNominationAttribute_tie, IceTie.Options.auto_does_not_enable⟩

example : IceGen.opt_WithRenomination false true = ([], "ErrInvalidNominationValueGenerator") ∧
    (IceTie.Options.applyEffs {} (IceGen.opt_WithAutomaticRenomination false 1000000000).1).renomInterval = 1000000000 ∧
    (IceTie.Options.applyEffs {} (IceGen.opt_WithAutomaticRenomination false 0).1).renomInterval = 3000000000 ∧
    IceGen.opt_WithNominationAttribute false 0 = ([], "ErrInvalidNominationAttribute") := by decide

end IceProps.C20
