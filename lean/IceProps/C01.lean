import IceProofs.Sys2C01Main
/-!
# C01 — two agents converge on the same, working candidate pair (SAFETY part)

Property theorems only.  System: `IceProofs.Sys2Run` (two `AgentCore` agents + the hub of
`IceModel.Sys2`; closed: agents receive traffic only through the hub).  Every theorem quantifies over
ALL initial configurations (`Sys.Init`: any configuration, credentials, tie-breakers, counters, NAT
mapping, reachability matrix), ALL event lists (any interleaving of API calls of both agents —
including `restart`, `close`, late signalling —, deliveries, duplications, drops and clock advances),
unbounded numbers of candidates and steps.

Schedule hypothesis `LocalsSane`: every address at which a local candidate is added survives the NAT
round trip (`unmapped (mapped x) = x`); implied by the global `NatSane`.  Passwords play no role in
the argument: a success response validates a pair only through the transaction id of a logged
request, and transaction ids of the two agents are disjoint by the tag (modelling assumption for
"96-bit random ids never collide").

Not proved here (see notes/C01.md): liveness (`C01_converges`); the mirror theorem only in the partial
form `C01_mirror_partial` (one local address per agent).
-/
namespace IceProps.C01
open IceModel.AgentCore IceModel.Sys2 IceProofs.Sys2Run IceProofs.C01

/-- global topology sanity: `unmapped (mapped x) = x` for every address occurring in the mapping … -/
def NatSane (nat : List (Nat × Nat)) : Prop := ∀ x ∈ nat.map (·.1) ++ nat.map (·.2), SaneAddr nat x

instance (nat : List (Nat × Nat)) : Decidable (NatSane nat) := by unfold NatSane; infer_instance

/-- … which is the same as for every address at all. -/
theorem NatSane_all {nat : List (Nat × Nat)} (h : NatSane nat) (x : Nat) : unmappedL nat (mappedL nat x) = x := by
  by_cases hx : x ∈ nat.map (·.1) ++ nat.map (·.2)
  · exact h x hx
  · have h1 : nat.find? (·.1 == x) = none := by
      rw [List.find?_eq_none]
      intro e he hex
      exact hx (List.mem_append_left _ (List.mem_map.mpr ⟨e, he, by simpa using hex⟩))
    have h2 : nat.find? (·.2 == x) = none := by
      rw [List.find?_eq_none]
      intro e he hex
      exact hx (List.mem_append_right _ (List.mem_map.mpr ⟨e, he, by simpa using hex⟩))
    simp [unmappedL, mappedL, h1, h2]

theorem LocalsSane_of_NatSane {nat : List (Nat × Nat)} (h : NatSane nat) (evs : List SysEv) : LocalsSane nat evs :=
  fun x _ => NatSane_all h x

/-- `Reach` for the pair `p` of agent `x`: with `la` / `ra` the addresses of its local / remote
candidate, `(la, ra) ∉ blocked` (the check reaches the peer) and `(unmapped ra, mapped la) ∉ blocked`
(the peer's answer comes back); moreover `la` is an address agent `isB` added a local candidate at, `ra`
is a signalled address or a local address seen through the NAT, and `ra` is the NAT image of the real
address `unmapped ra`, at which some agent (the responder) added a local candidate. -/
def PairReach (nat blocked : List (Nat × Nat)) (evs : List SysEv) (isB : Bool) (x : Agent) (p : Pair) : Prop :=
  ∀ l r, x.localOf p.l = some l → x.remoteOf p.r = some r →
    Reach nat blocked l.addr r.addr ∧ l.addr ∈ localAddrsOf isB evs ∧ r.addr ∈ remoteAddrs nat evs
    ∧ mappedL nat (unmappedL nat r.addr) = r.addr ∧ unmappedL nat r.addr ∈ localAddrs evs

/-- no candidate address pair of the schedule is reachable in both directions. -/
def Unreachable (nat blocked : List (Nat × Nat)) (evs : List SysEv) : Prop :=
  ∀ la ∈ localAddrs evs, ∀ ra ∈ remoteAddrs nat evs, ¬ Reach nat blocked la ra

instance (nat blocked : List (Nat × Nat)) (evs : List SysEv) : Decidable (Unreachable nat blocked evs) := by
  unfold Unreachable; infer_instance

/-- **C01 safety.**  In every reachable state, for each FULL agent: every Succeeded pair — hence the
selected pair — lies on an address pair that is reachable in both directions; a selected pair is
listed and Succeeded; Connected / Disconnected imply a selected pair. -/
theorem C01_no_false_connect (s0 : Sys) (evs : List SysEv) (hi : Sys.Init s0) (hs : LocalsSane s0.nat evs) (isB : Bool)
    (hfull : ((Sys.runs s0 evs).agent isB).cfg.lite = false) :
    (∀ p ∈ ((Sys.runs s0 evs).agent isB).checklist, p.state = .succeeded →
        PairReach s0.nat s0.blocked evs isB ((Sys.runs s0 evs).agent isB) p)
    ∧ (∀ id, ((Sys.runs s0 evs).agent isB).selected = some id →
        ∃ p ∈ ((Sys.runs s0 evs).agent isB).checklist, p.id = id ∧ p.state = .succeeded)
    ∧ (((Sys.runs s0 evs).agent isB).connState = .connected ∨ ((Sys.runs s0 evs).agent isB).connState = .disconnected →
        ∃ id, ((Sys.runs s0 evs).agent isB).selected = some id) := by
  obtain ⟨LA, LB, h⟩ := reach_inv hi hs (pre := evs) (fun e he => he)
  have hfin := h.agent_final isB hfull
  refine ⟨?_, hfin.2.1, hfin.2.2.1⟩
  intro p hp hsucc l r hl hr
  obtain ⟨la, ra, hg, h1, h2⟩ := hfin.1 p hp hsucc
  rw [h1 l hl, h2 r hr]
  refine ⟨hg.1, ?_, hg.2.2.1, hg.2.2.2.1, (SLor_SLof hg.2.2.2.2).2⟩
  cases isB <;> exact hg.2.1.2

/-- the selected pair of a full agent is reachable in both directions. -/
theorem C01_selected_reach (s0 : Sys) (evs : List SysEv) (hi : Sys.Init s0) (hs : LocalsSane s0.nat evs) (isB : Bool)
    (hfull : ((Sys.runs s0 evs).agent isB).cfg.lite = false) (id : Nat)
    (hsel : ((Sys.runs s0 evs).agent isB).selected = some id) :
    ∃ p ∈ ((Sys.runs s0 evs).agent isB).checklist, p.id = id ∧ p.state = .succeeded
      ∧ PairReach s0.nat s0.blocked evs isB ((Sys.runs s0 evs).agent isB) p := by
  obtain ⟨h1, h2, _⟩ := C01_no_false_connect s0 evs hi hs isB hfull
  obtain ⟨p, hp, hid, hsucc⟩ := h2 id hsel
  exact ⟨p, hp, hid, hsucc, h1 p hp hsucc⟩

/-- the same under the global topology hypothesis `NatSane`. -/
theorem C01_no_false_connect_natSane (s0 : Sys) (evs : List SysEv) (hi : Sys.Init s0) (hn : NatSane s0.nat) (isB : Bool)
    (hfull : ((Sys.runs s0 evs).agent isB).cfg.lite = false) :
    (∀ p ∈ ((Sys.runs s0 evs).agent isB).checklist, p.state = .succeeded →
        PairReach s0.nat s0.blocked evs isB ((Sys.runs s0 evs).agent isB) p)
    ∧ (∀ id, ((Sys.runs s0 evs).agent isB).selected = some id →
        ∃ p ∈ ((Sys.runs s0 evs).agent isB).checklist, p.id = id ∧ p.state = .succeeded)
    ∧ (((Sys.runs s0 evs).agent isB).connState = .connected ∨ ((Sys.runs s0 evs).agent isB).connState = .disconnected →
        ∃ id, ((Sys.runs s0 evs).agent isB).selected = some id) :=
  C01_no_false_connect s0 evs hi (LocalsSane_of_NatSane hn evs) isB hfull

/-- a callback that reports a connection. -/
def isConnOut : Out → Bool
  | .cbState .connected => true
  | .cbPair _ _ => true
  | _ => false

/-- **C01, unreachable topologies.**  If no candidate address pair of the schedule `evs` is reachable
in both directions then, at every point `pre` of the schedule, a full agent has no Succeeded pair, no
selected pair, is neither Connected nor Disconnected, and the next step `ev` makes it emit neither
`cbState connected` nor `cbPair`. -/
theorem C01_unreachable_never_connects (s0 : Sys) (pre : List SysEv) (ev : SysEv) (post : List SysEv)
    (hi : Sys.Init s0) (hs : LocalsSane s0.nat (pre ++ ev :: post))
    (hu : Unreachable s0.nat s0.blocked (pre ++ ev :: post)) (isB : Bool)
    (hfull : (s0.agent isB).cfg.lite = false) :
    (∀ p ∈ ((Sys.runs s0 pre).agent isB).checklist, p.state ≠ .succeeded)
    ∧ ((Sys.runs s0 pre).agent isB).selected = none
    ∧ ((Sys.runs s0 pre).agent isB).connState ≠ .connected
    ∧ ((Sys.runs s0 pre).agent isB).connState ≠ .disconnected
    ∧ (∀ o ∈ (if isB then (Sys.runOut (Sys.runs s0 pre) ev).2.2 else (Sys.runOut (Sys.runs s0 pre) ev).2.1),
        isConnOut o = false) := by
  obtain ⟨LA, LB, h⟩ := reach_inv hi hs (pre := pre) (fun e he => List.mem_append_left _ he)
  have hnog : ∀ (b : Bool) la ra, ¬ GoodS s0.nat s0.blocked (SLof s0.nat (pre ++ ev :: post) b)
      (SLor (SLof s0.nat (pre ++ ev :: post) false) (SLof s0.nat (pre ++ ev :: post) true))
      (SRof s0.nat (pre ++ ev :: post)) la ra :=
    fun b la ra hg => hu la (localAddrsOf_sub hg.2.1.2) ra hg.2.2.1 hg.1
  have hev : evSane (SLof s0.nat (pre ++ ev :: post) false) (SLof s0.nat (pre ++ ev :: post) true)
      (SRof s0.nat (pre ++ ev :: post)) ev := evSane_of_mem hs (by simp)
  obtain ⟨_, hoa, hob⟩ := runOut_ok SLof_sane SLof_SRof h ev hev
  have hconn : ∀ (b : Bool) {lite : Bool} {o : Out}, lite = false →
      ConnOutOK (GoodS s0.nat s0.blocked (SLof s0.nat (pre ++ ev :: post) b)
        (SLor (SLof s0.nat (pre ++ ev :: post) false) (SLof s0.nat (pre ++ ev :: post) true))
        (SRof s0.nat (pre ++ ev :: post))) lite o →
      isConnOut o = false := by
    intro b lite o hl hc
    have hnog := hnog b
    cases o with
    | cbState s =>
      cases s <;> first | rfl | (obtain ⟨la, ra, hg⟩ := hc rfl hl; exact absurd hg (hnog la ra))
    | cbPair x y => obtain ⟨la, ra, hg⟩ := hc hl; exact absurd hg (hnog la ra)
    | dgram f t m => rfl
    | data f t n => rfl
    | cbCand x => rfl
    | res s => rfl
  have hlite : ((Sys.runs s0 pre).agent isB).cfg.lite = false := by
    rw [h.lite_eq isB]
    cases isB <;> exact hfull
  have hfin := h.agent_final isB hlite
  have h1 : ∀ p ∈ ((Sys.runs s0 pre).agent isB).checklist, p.state ≠ .succeeded := by
    intro p hp hsucc
    obtain ⟨la, ra, hg, _⟩ := hfin.1 p hp hsucc
    cases isB with
    | false => exact hnog false la ra hg
    | true => exact hnog true la ra hg
  have h2 : ((Sys.runs s0 pre).agent isB).selected = none := by
    cases hsel : ((Sys.runs s0 pre).agent isB).selected with
    | none => rfl
    | some id =>
      obtain ⟨p, hp, _, hsucc⟩ := hfin.2.1 id hsel
      exact absurd hsucc (h1 p hp)
  refine ⟨h1, h2, ?_, ?_, ?_⟩
  · intro hc
    obtain ⟨id, hid⟩ := hfin.2.2.1 (Or.inl hc)
    rw [h2] at hid; cases hid
  · intro hc
    obtain ⟨id, hid⟩ := hfin.2.2.1 (Or.inr hc)
    rw [h2] at hid; cases hid
  · cases isB with
    | false => exact fun o ho => hconn false (show s0.a.cfg.lite = false from hfull) (hoa o ho)
    | true => exact fun o ho => hconn true (show s0.b.cfg.lite = false from hfull) (hob o ho)

/-! ## Mirror images (partial) -/

/-- each agent adds its local candidates at one address only (`a` for A, `b` for B; any number of
candidates, any types, any number of remote candidates). -/
def SingleAddr (evs : List SysEv) (a b : Nat) : Prop :=
  (∀ x ∈ localAddrsOf false evs, x = a) ∧ (∀ x ∈ localAddrsOf true evs, x = b)

instance (evs : List SysEv) (a b : Nat) : Decidable (SingleAddr evs a b) := by unfold SingleAddr; infer_instance

/-- no hairpinning: an agent cannot reach the public image of its own address. -/
def NoHairpin (nat blocked : List (Nat × Nat)) (evs : List SysEv) : Prop :=
  ∀ x ∈ localAddrs evs, (x, mappedL nat x) ∈ blocked

instance (nat blocked : List (Nat × Nat)) (evs : List SysEv) : Decidable (NoHairpin nat blocked evs) := by
  unfold NoHairpin; infer_instance

/-- the pair the model resolves `selected` to. -/
def selectedPair (x : Agent) : Option Pair := x.selected.bind x.pairById

/-- **C01 mirror, partial.**  FULL statement (not proved, see notes/C01.md): in every reachable state of
a session without restart and with opposite roles, the selected pairs of two full agents are mirror
images modulo NAT.  PROVED here under the extra hypotheses `SingleAddr` (one local address per agent)
and `NoHairpin`, but for ALL schedules (restarts, role conflicts, renomination included): if both
agents have a selected pair then `mapped (A.local.addr) = B.remote.addr` and
`mapped (B.local.addr) = A.remote.addr`. -/
theorem C01_mirror_partial (s0 : Sys) (evs : List SysEv) (hi : Sys.Init s0) (hs : LocalsSane s0.nat evs)
    (a b : Nat) (h1 : SingleAddr evs a b) (hh : NoHairpin s0.nat s0.blocked evs)
    (hfa : (Sys.runs s0 evs).a.cfg.lite = false) (hfb : (Sys.runs s0 evs).b.cfg.lite = false)
    (pa pb : Pair) (hpa : selectedPair (Sys.runs s0 evs).a = some pa) (hpb : selectedPair (Sys.runs s0 evs).b = some pb)
    (la ra lb rb : Cand)
    (hla : (Sys.runs s0 evs).a.localOf pa.l = some la) (hra : (Sys.runs s0 evs).a.remoteOf pa.r = some ra)
    (hlb : (Sys.runs s0 evs).b.localOf pb.l = some lb) (hrb : (Sys.runs s0 evs).b.remoteOf pb.r = some rb) :
    mappedL s0.nat la.addr = rb.addr ∧ mappedL s0.nat lb.addr = ra.addr := by
  -- the selected pairs are Succeeded
  have sel_succ : ∀ (isB : Bool) (p : Pair), ((Sys.runs s0 evs).agent isB).cfg.lite = false →
      selectedPair ((Sys.runs s0 evs).agent isB) = some p →
      PairReach s0.nat s0.blocked evs isB ((Sys.runs s0 evs).agent isB) p := by
    intro isB p hf hp
    obtain ⟨c1, c2, _⟩ := C01_no_false_connect s0 evs hi hs isB hf
    have hsel := selected_pair hp
    obtain ⟨hpm, hpid⟩ := pairById_mem (a := (Sys.runs s0 evs).agent isB) (id := p.id) (p := p) (by
      unfold selectedPair at hp
      rw [hsel] at hp
      exact hp)
    obtain ⟨q, hq, hqid, hqs⟩ := c2 p.id hsel
    obtain ⟨LA, LB, hinv⟩ := reach_inv hi hs (pre := evs) (fun e he => he)
    have huniq := (hinv.agent_final isB hf).2.2.2
    have : q = p := pair_eq_of_id huniq hq hpm hqid
    subst this
    exact c1 q hq hqs
  obtain ⟨hrA, hlA, _, hmA, hxA⟩ := sel_succ false pa hfa hpa la ra hla hra
  obtain ⟨hrB, hlB, _, hmB, hxB⟩ := sel_succ true pb hfb hpb lb rb hlb hrb
  have ela : la.addr = a := h1.1 _ hlA
  have elb : lb.addr = b := h1.2 _ hlB
  -- the responder of A's pair is B, the responder of B's pair is A
  have exA : unmappedL s0.nat ra.addr = b := by
    rcases localAddrs_split hxA with hx | hx
    · have e := h1.1 _ hx
      have := hrA.2
      rw [e, ela] at this
      exact absurd (hh a (by rw [← ela]; exact localAddrsOf_sub hlA)) this
    · exact h1.2 _ hx
  have exB : unmappedL s0.nat rb.addr = a := by
    rcases localAddrs_split hxB with hx | hx
    · exact h1.1 _ hx
    · have e := h1.2 _ hx
      have := hrB.2
      rw [e, elb] at this
      exact absurd (hh b (by rw [← elb]; exact localAddrsOf_sub hlB)) this
  refine ⟨?_, ?_⟩
  · rw [ela, ← exB, hmB]
  · rw [elb, ← exA, hmA]

/-! ## Non-vacuity -/

namespace Example
def s0 : Sys := { a := { localUfrag := "ua", localPwd := "pa", tieBreaker := 5 },
                  b := { tag := 1, localUfrag := "ub", localPwd := "pb", tieBreaker := 3 }, hasB := true }
def hostA : Cand := { uid := 0, ty := 1, net := 0, addr := 16, prio := 100 }
def hostB : Cand := { uid := 0, ty := 1, net := 0, addr := 32, prio := 100 }
/-- signalling, start, checks, nomination: both agents end up Connected on the pair 16 ↔ 32. -/
def sched : List SysEv :=
  [.api false (.addLocal 0 hostA), .api true (.addLocal 0 hostB),
   .api false (.addRemote 0 hostB), .api true (.addRemote 0 hostA),
   .api false (.start 0 true "ub" "pb"), .api true (.start 0 false "ua" "pa"),
   .deliver 0, .deliver 0, .deliver 0, .deliver 0, .deliver 0, .deliver 0,
   .advance 200000000, .deliver 0, .deliver 0, .deliver 0, .deliver 0]
/-- the same agents and schedule, but nothing sent by B (32) reaches A (16) (and no address reaches itself). -/
def s0OneWay : Sys := { s0 with blocked := [(32, 16), (16, 16), (32, 32)] }
/-- a longer schedule (one more tick and the deliveries it causes). -/
def schedLong : List SysEv :=
  sched ++ [.advance 400000000, .deliver 0, .deliver 0, .deliver 0, .deliver 0, .deliver 0]
/-- no address reaches itself (no hairpinning). -/
def s0NoHairpin : Sys := { s0 with blocked := [(16, 16), (32, 32)] }
/-- a NAT in front of A's candidate: 16 is seen as 336. -/
def s0Nat : Sys := { s0 with nat := [(16, 336)] }
end Example

open Example in
/-- the hypotheses of `C01_no_false_connect` hold on a run that reaches a selected pair on both sides … -/
example : Sys.Init s0 ∧ LocalsSane s0.nat sched ∧ NatSane s0.nat
    ∧ (Sys.runs s0 sched).a.selected = some 1 ∧ (Sys.runs s0 sched).b.selected = some 1
    ∧ (Sys.runs s0 sched).a.connState = .connected ∧ (Sys.runs s0 sched).b.connState = .connected
    ∧ (Sys.runs s0 sched).a.cfg.lite = false ∧ Reach s0.nat s0.blocked 16 32 := by
  refine ⟨⟨rfl, rfl, rfl, rfl, rfl, rfl, rfl, rfl, rfl, rfl, rfl, rfl, rfl, rfl, rfl⟩, ?_⟩
  decide

open Example in
/-- … and with a one-way block nothing is ever selected (the hypotheses of
`C01_unreachable_never_connects` hold, and the model indeed selects nothing). -/
example : Sys.Init s0OneWay ∧ LocalsSane s0OneWay.nat sched ∧ Unreachable s0OneWay.nat s0OneWay.blocked sched
    ∧ (Sys.runs s0OneWay sched).a.selected = none ∧ (Sys.runs s0OneWay sched).b.selected = none
    ∧ (Sys.runs s0OneWay sched).a.connState = .checking := by
  refine ⟨⟨rfl, rfl, rfl, rfl, rfl, rfl, rfl, rfl, rfl, rfl, rfl, rfl, rfl, rfl, rfl⟩, ?_⟩
  decide

open Example in
/-- an ordinary NAT (16 seen as 336) satisfies the schedule hypothesis `LocalsSane` but NOT the global
`NatSane` (336 itself does not survive the round trip) — the reason the main theorem is stated with
`LocalsSane`; the run through the NAT connects on the peer-reflexive address. -/
example : LocalsSane s0Nat.nat schedLong ∧ ¬ NatSane s0Nat.nat
    ∧ (Sys.runs s0Nat schedLong).a.selected = some 1 ∧ (Sys.runs s0Nat schedLong).b.selected = some 2 := by
  decide

open Example in
/-- the hypotheses of `C01_mirror_partial` hold on a run in which both agents select a pair (and the
pairs are indeed mirror images: A 16 → 32, B 32 → 16). -/
example : Sys.Init s0NoHairpin ∧ LocalsSane s0NoHairpin.nat sched ∧ SingleAddr sched 16 32
    ∧ NoHairpin s0NoHairpin.nat s0NoHairpin.blocked sched
    ∧ ((selectedPair (Sys.runs s0NoHairpin sched).a).map (·.id)) = some 1
    ∧ ((selectedPair (Sys.runs s0NoHairpin sched).b).map (·.id)) = some 1 := by
  refine ⟨⟨rfl, rfl, rfl, rfl, rfl, rfl, rfl, rfl, rfl, rfl, rfl, rfl, rfl, rfl, rfl⟩, ?_⟩
  decide

/-- `NatSane` holds e.g. for the empty mapping and for a mapping that is a permutation. -/
example : NatSane [] ∧ NatSane [(16, 336), (336, 16)] := by decide

end IceProps.C01
